/-
Executable model of asmjit/core/jitallocator.cpp (+ jitallocator.h: Span, is_initialized, Statistics), written after the
code function by function.  Core-only imports (the driver links this file).

Representation
* a block's `_used_bit_vector` / `_stop_bit_vector` are `List Bool` of length `areaSize` (one entry per granule);
  the word-level `BitVectorRangeIterator` / `bit_vector_index_of` are modelled at bit level (`scan`, `indexOfStop`);
* the memory of a block is one *colour* per granule (`mem`): a byte value 0..255 when the granule is uniformly that byte, or
  `patColour` when it carries the fill pattern (the protocol only writes whole granules);
* all blocks of all pools live in ONE list in creation order (`Alloc.blocks`); the per-pool `ArenaList` is the sub-list of the
  blocks whose `pool` field is the pool's index (append keeps creation order, unlink keeps relative order), the RB tree of
  blocks by address is the lookup by block id (`findBlock`).  Virtual memory is abstract: block `id` *is* its address range,
  assumed fresh, page aligned and disjoint from every other block in both views (OS behaviour, trusted).
* the caller's knowledge (the `Span`s it got back) is the handle table `St.tab`.

The model follows the REPAIRED code (fixes/C09-1..8.patch).
-/
namespace AsmjitVerif.JitAlloc

/-! ### options / configuration (JitAllocator_new_impl) -/

structure Config where
  opts : Nat
  gran : Nat          -- effective base granularity
  blockSize : Nat     -- effective base block size
  fill : Nat          -- effective 32-bit fill pattern
  deriving Repr, DecidableEq

def Config.dual (c : Config) : Bool := c.opts % 2 = 1
def Config.multi (c : Config) : Bool := (c.opts / 2) % 2 = 1
def Config.fillUnused (c : Config) : Bool := (c.opts / 4) % 2 = 1
def Config.immediate (c : Config) : Bool := (c.opts / 8) % 2 = 1
def Config.noPad (c : Config) : Bool := (c.opts / 16) % 2 = 1
def Config.customPat (c : Config) : Bool := (c.opts / 0x10000000) % 2 = 1
def Config.poolCount (c : Config) : Nat := if c.multi then 3 else 1
def Config.poolGran (c : Config) (p : Nat) : Nat := c.gran * 2 ^ p

def isPow2 (n : Nat) : Bool := n != 0 && (n &&& (n - 1)) == 0

/-- `JitAllocator_new_impl`: page granularity 65536 (Linux), default pattern 0xCCCCCCCC (x86) -/
def mkConfig (opts gran blockSize pattern : Nat) : Config :=
  { opts := opts
    gran := if gran < 64 || gran > 256 || !isPow2 gran then 64 else gran
    blockSize := if blockSize < 64 * 1024 || blockSize > 256 * 1024 * 1024 || !isPow2 blockSize then 65536 else blockSize
    fill := if (opts / 0x10000000) % 2 = 1 then pattern % 2 ^ 32 else 0xCCCCCCCC }

/-- colour of a granule that carries the fill pattern -/
def patColour (c : Config) : Nat :=
  let b := c.fill % 256
  if c.fill = b * 0x01010101 then b else 256

/-! ### bit vectors -/

def bit (l : List Bool) (i : Nat) : Bool := l.getD i false

/-- `bit_vector_fill` / `bit_vector_clear` / a `memset` of granule colours -/
def setRange {α : Type} (l : List α) (a b : Nat) (v : α) : List α :=
  l.mapIdx fun i x => if a ≤ i ∧ i < b then v else x

/-- `bit_vector_index_of(stop, i, true)`; the C++ runs off the vector when there is no such bit (the model answers the length) -/
def indexOfStop (stop : List Bool) (i : Nat) : Nat := i + (stop.drop i).idxOf true

/-! ### JitAllocatorBlock -/

structure Block where
  id : Nat
  pool : Nat
  blockSize : Nat
  areaSize : Nat
  pad : Bool                -- kFlagInitialPadding
  used : List Bool
  stop : List Bool
  mem : List Nat
  areaUsed : Nat
  largest : Nat             -- _largest_unused_area
  searchStart : Nat
  searchEnd : Nat
  empty : Bool              -- kFlagEmpty
  dirty : Bool              -- kFlagDirty
  incremental : Bool        -- kFlagIncremental
  deriving Repr

def Block.padN (b : Block) : Nat := if b.pad then 1 else 0

/-- `JitAllocatorBlock::clear_block` -/
def Block.clear (b : Block) : Block :=
  { b with
    used := (List.replicate b.areaSize false).set 0 b.pad
    stop := (List.replicate b.areaSize false).set 0 b.pad
    areaUsed := b.padN
    largest := b.areaSize - b.padN
    searchStart := b.padN
    searchEnd := b.areaSize
    empty := true, incremental := true, dirty := false }

/-- `JitAllocatorBlock::mark_allocated_area` (pool total is updated by the caller) -/
def Block.markAllocated (b : Block) (s e : Nat) : Block :=
  let used := setRange b.used s e true
  let stop := b.stop.set (e - 1) true
  let areaUsed := b.areaUsed + (e - s)
  if b.areaSize - areaUsed = 0 then
    { b with used, stop, areaUsed, searchStart := b.areaSize, searchEnd := 0, largest := 0,
             dirty := false, empty := false, incremental := false }        -- fix C09-5: leaves incremental mode
  else
    { b with used, stop, areaUsed
             searchStart := if b.searchStart = s then e else b.searchStart
             searchEnd := if b.searchEnd = e then s else b.searchEnd
             dirty := true, empty := false }

/-- `JitAllocatorBlock::mark_released_area` -/
def Block.markReleased (b : Block) (s e : Nat) : Block :=
  let n := e - s
  let areaUsed := b.areaUsed - n
  let used := setRange b.used s e false
  let stop := b.stop.set (e - 1) false
  if b.incremental && b.searchStart == e then
    { b with used, stop, areaUsed, searchStart := b.searchStart - n, largest := b.largest + n
             empty := b.empty || areaUsed == b.padN }                       -- fix C09-2
  else if areaUsed = b.padN then
    { b with used, stop, areaUsed, searchStart := b.padN, searchEnd := b.areaSize, largest := b.areaSize - b.padN
             dirty := false, incremental := false, empty := true }
  else
    { b with used, stop, areaUsed, searchStart := min b.searchStart s, searchEnd := max b.searchEnd e
             dirty := true, incremental := false }

/-- `JitAllocatorBlock::mark_shrunk_area` -/
def Block.markShrunk (b : Block) (s e : Nat) : Block :=
  let n := e - s
  let areaUsed := b.areaUsed - n
  let used := setRange b.used s e false
  let stop := ((b.stop.set (e - 1) false).set (s - 1) true)
  if b.incremental && b.searchStart == e then
    { b with used, stop, areaUsed, searchStart := b.searchStart - n, largest := b.largest + n }
  else
    { b with used, stop, areaUsed, searchStart := min b.searchStart s, searchEnd := max b.searchEnd e
             incremental := false, dirty := true }

/-! ### free-range search (BitVectorRangeIterator<BitWord, 0> over `[search_start, search_end)`) -/

structure ScanAcc where
  run : Nat := 0                 -- length of the free run that ends just before the current index
  first : Option Nat := none     -- start of the first free run seen
  lastEnd : Nat := 0             -- end of the last closed free run
  largest : Nat := 0             -- longest closed free run
  deriving Repr

def ScanAcc.close (a : ScanAcc) (i : Nat) : ScanAcc :=
  if a.run = 0 then a else { a with run := 0, lastEnd := i, largest := max a.largest a.run }

/-- walks the window; `.inl idx` = start of the first free run of length ≥ n, `.inr acc` = every run was shorter -/
def scanGo (n : Nat) : List Bool → Nat → ScanAcc → Sum Nat ScanAcc
  | [], i, acc => .inr (acc.close i)
  | u :: rest, i, acc =>
    if u then scanGo n rest (i + 1) (acc.close i)
    else
      let run := acc.run + 1
      if n ≤ run then .inl (i + 1 - run)
      else scanGo n rest (i + 1) { acc with run := run, first := if acc.first.isSome then acc.first else some i }

def scan (used : List Bool) (ss se n : Nat) : Sum Nat ScanAcc :=
  scanGo n ((used.drop ss).take (se - ss)) ss {}

/-- one iteration of the block loop of `JitAllocator::alloc`: (block with refreshed cache, area index if it fits) -/
def Block.tryAlloc (b : Block) (n : Nat) : Block × Option Nat :=
  if b.incremental && n ≤ b.largest then
    ({ b with largest := b.largest - n }, some b.searchStart)
  else if n ≤ b.areaSize - b.areaUsed then
    if b.dirty || n ≤ b.largest then
      match scan b.used b.searchStart b.searchEnd n with
      | .inl idx => (b, some idx)
      | .inr acc =>
        match acc.first with
        | some f => ({ b with searchStart := f, searchEnd := acc.lastEnd, largest := acc.largest, dirty := false }, none)
        | none => (b, none)
    else (b, none)
  else (b, none)

/-- what `alloc` does with the block it found: clear kFlagEmpty, `mark_allocated_area` -/
def Block.commit (b : Block) (idx n : Nat) : Block :=
  ({ b with empty := false }).markAllocated idx (idx + n)

/-! ### pools and the allocator -/

structure PoolAcc where
  cursor : Option Nat := none     -- id of the block `pool->cursor` points to
  blockCount : Nat := 0
  emptyCount : Nat := 0
  totalSize : Nat := 0            -- total_area_size[0] + [1]
  totalUsed : Nat := 0            -- total_area_used[0] + [1]
  totalOverhead : Nat := 0        -- bit-vector bytes only (sizeof(JitAllocatorBlock) is ABI specific, the harness subtracts it)
  deriving Repr

structure Alloc where
  cfg : Config
  blocks : List Block := []
  pools : List PoolAcc
  allocCount : Nat := 0
  nextId : Nat := 0
  deriving Repr

def Alloc.init (cfg : Config) : Alloc :=
  { cfg, pools := List.replicate cfg.poolCount {} }

def Alloc.pool (a : Alloc) (p : Nat) : PoolAcc := a.pools.getD p {}
def Alloc.setPool (a : Alloc) (p : Nat) (f : PoolAcc → PoolAcc) : Alloc :=
  { a with pools := a.pools.mapIdx fun i x => if i = p then f x else x }
def Alloc.poolBlocks (a : Alloc) (p : Nat) : List Block := a.blocks.filter (·.pool == p)
def Alloc.findBlock (a : Alloc) (id : Nat) : Option Block := a.blocks.find? (·.id == id)
def Alloc.modifyBlock (a : Alloc) (id : Nat) (f : Block → Block) : Alloc :=
  { a with blocks := a.blocks.map fun b => if b.id = id then f b else b }

def alignUp (x a : Nat) : Nat := (x + a - 1) / a * a

/-- `JitAllocator_size_to_pool_id` -/
def sizeToPoolId (cfg : Config) (size : Nat) : Nat :=
  let rec go : Nat → Nat
    | 0 => 0
    | p + 1 => if size % cfg.poolGran (p + 1) = 0 then p + 1 else go p
  go (cfg.poolCount - 1)

def bitVectorBytes (areaSize : Nat) : Nat := (areaSize + 63) / 64 * 8

/-- `JitAllocator_calculate_ideal_block_size` (unbounded arithmetic; Lemmas/JitAllocWord.lean `ideal_exact` + Lemmas/JitAllocWordInv.lean prove the
`size_t` computation with its overflow exits equal to it in every reachable state: the exits are never taken) -/
def idealBlockSize (a : Alloc) (p : Nat) (size : Nat) : Nat :=
  let bs := match (a.poolBlocks p).getLast? with
    | some l => l.blockSize
    | none => a.cfg.blockSize
  let size := if a.cfg.noPad then size else size + a.cfg.poolGran p
  let bs := if bs < 1024 * 1024 * 64 then bs * 2 else bs
  if size > bs then alignUp size a.cfg.blockSize else bs

/-- `JitAllocator_new_block` (large pages are never granted in the sandbox: regular pages) -/
def newBlock (a : Alloc) (p : Nat) (blockSize : Nat) : Block :=
  let g := a.cfg.poolGran p
  let areaSize := (blockSize + g - 1) / g
  let b : Block :=
    { id := a.nextId, pool := p, blockSize, areaSize, pad := !a.cfg.noPad, used := [], stop := []
      mem := List.replicate areaSize (if a.cfg.fillUnused then patColour a.cfg else 0)
      areaUsed := 0, largest := 0, searchStart := 0, searchEnd := 0, empty := false, dirty := false, incremental := false }
  b.clear

/-- `JitAllocatorImpl_insertBlock` -/
def Alloc.insertBlock (a : Alloc) (b : Block) : Alloc :=
  let a := { a with blocks := a.blocks ++ [b] }
  a.setPool b.pool fun q =>
    { q with cursor := if q.cursor.isNone then some b.id else q.cursor
             blockCount := q.blockCount + 1
             totalSize := q.totalSize + b.areaSize
             totalUsed := q.totalUsed + b.areaUsed
             totalOverhead := q.totalOverhead + bitVectorBytes b.areaSize * 2 }

def prevId : List Block → Nat → Option Nat
  | [], _ => none
  | [_], _ => none
  | x :: y :: rest, id => if y.id = id then some x.id else prevId (y :: rest) id

def nextId? : List Block → Nat → Option Nat
  | [], _ => none
  | [_], _ => none
  | x :: y :: rest, id => if x.id = id then some y.id else nextId? (y :: rest) id

/-- `JitAllocatorImpl_removeBlock` + `JitAllocatorImpl_deleteBlock` -/
def Alloc.removeBlock (a : Alloc) (b : Block) : Alloc :=
  let pb := a.poolBlocks b.pool
  let a := a.setPool b.pool fun q =>
    { q with cursor := if q.cursor = some b.id then (match prevId pb b.id with | some x => some x | none => nextId? pb b.id) else q.cursor
             blockCount := q.blockCount - 1
             totalSize := q.totalSize - b.areaSize
             totalUsed := q.totalUsed - b.areaUsed
             totalOverhead := q.totalOverhead - bitVectorBytes b.areaSize * 2 }
  { a with blocks := a.blocks.filter (·.id != b.id) }

/-- what a found block reports back: (block id, area index, had kFlagEmpty) -/
abbrev Found := Nat × Nat × Bool

/-- the `do … while (block != initial)` loop of `alloc`, restricted to the blocks selected by `sel`; the found block is committed -/
def scanPass (sel : Block → Bool) (n : Nat) : List Block → List Block × Option Found
  | [] => ([], none)
  | b :: bs =>
    if sel b then
      match b.tryAlloc n with
      | (b', some idx) => (b'.commit idx n :: bs, some (b.id, idx, b'.empty))
      | (b', none) => let r := scanPass sel n bs; (b' :: r.1, r.2)
    else let r := scanPass sel n bs; (b :: r.1, r.2)

inductive Err where
  | OutOfMemory | InvalidArgument | InvalidState | NotInitialized | TooLarge
  deriving Repr, DecidableEq

def Err.name : Err → String
  | .OutOfMemory => "OutOfMemory" | .InvalidArgument => "InvalidArgument" | .InvalidState => "InvalidState"
  | .NotInitialized => "NotInitialized" | .TooLarge => "TooLarge"

/-- what `alloc` returns: block id, pool, block size, byte offset, byte size -/
structure SpanOut where
  blk : Nat
  pool : Nat
  blockSize : Nat
  off : Nat
  size : Nat
  deriving Repr, DecidableEq

/-- tail of `alloc` when an existing block `id` had room at `idx` (the block itself was committed by `scanPass`) -/
def Alloc.allocFound (a : Alloc) (p n size : Nat) (blocks : List Block) (id idx : Nat) (wasEmpty : Bool) : Alloc × Except Err SpanOut :=
  let g := a.cfg.poolGran p
  let a := { a with blocks := blocks, allocCount := a.allocCount + 1 }
  let a := a.setPool p fun q =>
    { q with totalUsed := q.totalUsed + n, emptyCount := if wasEmpty then q.emptyCount - 1 else q.emptyCount }
  let bs := match a.findBlock id with | some b => b.blockSize | none => 0
  (a, .ok { blk := id, pool := p, blockSize := bs, off := idx * g, size })

/-- tail of `alloc` when no block had room: a new block is mapped, inserted, and the span is its first allocation -/
def Alloc.allocNew (a : Alloc) (p n size : Nat) (blocks : List Block) : Alloc × Except Err SpanOut :=
  let g := a.cfg.poolGran p
  let a := { a with blocks := blocks }
  let blockSize := idealBlockSize a p size
  let b := newBlock a p blockSize
  let a := { a with nextId := a.nextId + 1 }
  let idx := b.padN
  let a := a.insertBlock b
  -- `block->_search_start += area_size; block->_largest_unused_area -= area_size;` then the common tail
  let a := a.modifyBlock b.id fun b =>
    ({ b with searchStart := b.searchStart + n, largest := b.largest - n }).markAllocated idx (idx + n)
  let a := { a with allocCount := a.allocCount + 1 }
  let a := a.setPool p fun q => { q with totalUsed := q.totalUsed + n }
  (a, .ok { blk := b.id, pool := p, blockSize, off := idx * g, size })

/-- `alloc` after the size checks: `size` is the request aligned to the base granularity -/
def Alloc.allocIn (a : Alloc) (size : Nat) : Alloc × Except Err SpanOut :=
  let p := sizeToPoolId a.cfg size
  let g := a.cfg.poolGran p
  let n := (size + g - 1) / g
  let cur := (a.pool p).cursor.getD 0
  -- blocks of the pool from the cursor to the end of the list, then from the first block to the cursor
  let r1 := scanPass (fun b => b.pool == p && cur ≤ b.id) n a.blocks
  let r2 := if r1.2.isSome then r1 else scanPass (fun b => b.pool == p && b.id < cur) n r1.1
  match r2.2 with
  | some (id, idx, wasEmpty) => a.allocFound p n size r2.1 id idx wasEmpty
  | none => a.allocNew p n size r2.1

/-- `JitAllocator::alloc` -/
def Alloc.alloc (a : Alloc) (reqSize : Nat) : Alloc × Except Err SpanOut :=
  let size := alignUp reqSize a.cfg.gran
  if size = 0 then (a, .error .InvalidArgument)
  else if size - 1 ≥ 2147483647 then (a, .error .TooLarge)
  else a.allocIn size

/-- `JitAllocator::release(rx)` for a non-null `rx` = (block id, byte offset) -/
def Alloc.release (a : Alloc) (blk off : Nat) : Alloc × Except Err Unit :=
  match a.findBlock blk with
  | none => (a, .error .InvalidState)
  | some b =>
    let g := a.cfg.poolGran b.pool
    let idx := off / g
    let e := indexOfStop b.stop idx + 1
    let n := e - idx
    let b' := b.markReleased idx e
    let b' := if a.cfg.fillUnused then { b' with mem := setRange b'.mem idx e (patColour a.cfg) } else b'
    let a := { a with allocCount := a.allocCount - 1 }
    let a := a.modifyBlock blk fun _ => b'
    let a := a.setPool b.pool fun q => { q with totalUsed := q.totalUsed - n }
    if b'.empty then
      if (a.pool b.pool).emptyCount != 0 || a.cfg.immediate then (a.removeBlock b', .ok ())
      else (a.setPool b.pool fun q => { q with emptyCount := q.emptyCount + 1 }, .ok ())
    else (a, .ok ())

/-- `JitAllocatorImpl_shrink` for `new_size ≠ 0`: answers the new span size (`none` = `span._size` untouched) -/
def Alloc.shrinkImpl (a : Alloc) (blk off newSize : Nat) : Alloc × Except Err (Option Nat) :=
  match a.findBlock blk with
  | none => (a, .error .InvalidArgument)          -- `span._block == nullptr`
  | some b =>
    let g := a.cfg.poolGran b.pool
    let idx := off / g
    if !bit b.used idx then (a, .error .InvalidArgument)
    else
      let e := indexOfStop b.stop idx + 1
      let prev := e - idx
      let shrunk := (newSize + g - 1) / g
      if shrunk > prev then (a, .error .InvalidArgument)
      else
        let diff := prev - shrunk
        let b' := if diff ≠ 0 then b.markShrunk (idx + shrunk) e else b
        let b' := if newSize < prev * g && a.cfg.fillUnused then { b' with mem := setRange b'.mem (idx + shrunk) e (patColour a.cfg) } else b'
        let a := a.modifyBlock blk fun _ => b'
        let a := if diff ≠ 0 then a.setPool b.pool fun q => { q with totalUsed := q.totalUsed - diff } else a
        (a, .ok (if diff ≠ 0 then some (shrunk * g) else none))

/-- the walk back of `query` (fix C09-8): first granule of the span that contains granule `idx` -/
def spanStart (used stop : List Bool) (idx : Nat) : Nat :=
  idx - (((used.take idx).zip (stop.take idx)).reverse.takeWhile fun (u, s) => u && !s).length

/-- `JitAllocator::query(rx)` -/
def Alloc.query (a : Alloc) (blk off : Nat) : Except Err SpanOut :=
  match a.findBlock blk with
  | none => .error .InvalidArgument
  | some b =>
    let g := a.cfg.poolGran b.pool
    let idx := off / g
    if !bit b.used idx then .error .InvalidArgument
    else
      let e := indexOfStop b.stop idx + 1
      let st := spanStart b.used b.stop idx
      .ok { blk, pool := b.pool, blockSize := b.blockSize, off := st * g, size := (e - st) * g }

/-- `JitAllocatorImpl_wipeOutBlock` (fix C09-6: the *used* ranges are filled) -/
def wipeOut (cfg : Config) (b : Block) : Block :=
  if b.empty then b
  else
    let b := if cfg.fillUnused then { b with mem := List.zipWith (fun u m => if u then patColour cfg else m) b.used b.mem } else b
    b.clear

/-- `JitAllocator::reset` (fixes C09-3: no stale tree links to model, C09-4: allocation_count).  Per pool the first block of the
list is kept (wiped and re-inserted into the emptied pool) unless the reset is hard or kImmediateRelease is set; `pool.reset()`
does not touch `empty_block_count`. -/
def Alloc.keeps (a : Alloc) (hard : Bool) (b : Block) : Bool :=
  (!hard && !a.cfg.immediate) && (match (a.poolBlocks b.pool).head? with | some f => f.id == b.id | none => false)

def Alloc.reset (a : Alloc) (hard : Bool) : Alloc :=
  let kept := a.blocks.filterMap fun b => if a.keeps hard b then some (wipeOut a.cfg b) else none
  let pools := a.pools.mapIdx fun p q =>
    match kept.find? (·.pool == p) with
    | some b => { cursor := some b.id, blockCount := 1, emptyCount := 1, totalSize := b.areaSize, totalUsed := b.areaUsed
                  totalOverhead := bitVectorBytes b.areaSize * 2 }
    | none => { q with cursor := none, blockCount := 0, totalSize := 0, totalUsed := 0, totalOverhead := 0 }
  { a with blocks := kept, pools, allocCount := 0 }

structure Stats where
  blocks : Nat
  allocs : Nat
  used : Nat
  reserved : Nat
  overhead : Nat
  deriving Repr, DecidableEq

/-- `JitAllocator::statistics` -/
def Alloc.stats (a : Alloc) : Stats :=
  let ps := a.pools.zipIdx
  { blocks := (ps.map fun (q, _) => q.blockCount).sum
    allocs := a.allocCount
    used := (ps.map fun (q, p) => q.totalUsed * a.cfg.poolGran p).sum
    reserved := (ps.map fun (q, p) => q.totalSize * a.cfg.poolGran p).sum
    overhead := (ps.map fun (q, _) => q.totalOverhead).sum }

/-! ### the caller: handle table, operations, answers -/

/-- a `Span` in the caller's hands (`live = false`: released, kept for the stale-pointer operations) -/
structure Handle where
  live : Bool
  blk : Nat
  off : Nat       -- bytes
  size : Nat      -- bytes (`span._size`)
  deriving Repr, DecidableEq

inductive Op where
  | alloc (size : Nat)
  | release (h : Nat)
  | shrink (h newSize : Nat)
  | query (h byteOff : Nat)
  | sstale (h newSize : Nat)
  | write (h byte : Nat)
  | wtrunc (h byte newSize : Nat)
  | read (h : Nat)
  | mem | sweep | blocks | dump
  | reset (hard : Bool)
  | isinit
  | rforeign (k : Nat) | qforeign (k : Nat) | sforeign
  deriving Repr, DecidableEq

inductive Ans where
  | span (s : SpanOut)
  | size (n : Nat)
  | ok
  | err (e : Err)
  | dead | gone | oob | busy
  | flag (b : Bool)
  | colours (cs : List (Nat × Nat))                         -- run-length (colour, count)
  | memAll (bs : List (Nat × List (Nat × Nat)))             -- per block id
  | sweepAll (bs : List (Nat × List (Nat × Nat)))           -- per block id: (start granule, granules)
  | blockList (bs : List (Nat × Nat × Nat × Bool))          -- id, pool, block size, padding
  | dumpAll (a : Alloc)
  deriving Repr

structure St where
  a : Alloc
  tab : List Handle := []
  deriving Repr

def St.init (cfg : Config) : St := { a := Alloc.init cfg }

def rle : List Nat → List (Nat × Nat)
  | [] => []
  | x :: xs =>
    match rle xs with
    | (y, k) :: r => if x = y then (y, k + 1) :: r else (x, 1) :: (y, k) :: r
    | [] => [(x, 1)]

def killHandle (tab : List Handle) (h : Nat) : List Handle :=
  tab.mapIdx fun i x => if i = h then { x with live := false } else x

def setHandleSize (tab : List Handle) (h : Nat) (size : Nat) : List Handle :=
  tab.mapIdx fun i x => if i = h then { x with size := size } else x

/-- spans that `query` reports over all granules of a block -/
def sweepBlock (b : Block) : List (Nat × Nat) :=
  let rec go (fuel i : Nat) (acc : List (Nat × Nat)) : List (Nat × Nat) :=
    match fuel with
    | 0 => acc.reverse
    | fuel + 1 =>
      if i ≥ b.areaSize then acc.reverse
      else if bit b.used i then
        let e := indexOfStop b.stop i + 1
        go fuel (max e (i + 1)) ((i, e - i) :: acc)
      else go fuel (i + 1) acc
  go b.areaSize 0 []

def blockListOf (a : Alloc) : List (Nat × Nat × Nat × Bool) := a.blocks.map fun b => (b.id, b.pool, b.blockSize, b.pad)

/-- memcpy through `rw` of whole granules -/
def Alloc.writeMem (a : Alloc) (blk off size byte : Nat) : Alloc :=
  a.modifyBlock blk fun b =>
    let g := a.cfg.poolGran b.pool
    { b with mem := setRange b.mem (off / g) ((off + size) / g) byte }

def step (s : St) : Op → St × Ans
  | .alloc size =>
    match s.a.alloc size with
    | (a, .ok sp) => ({ a, tab := s.tab ++ [{ live := true, blk := sp.blk, off := sp.off, size := sp.size }] }, .span sp)
    | (a, .error e) => ({ a, tab := s.tab ++ [{ live := false, blk := 0, off := 0, size := 0 }] }, .err e)
  | .release h =>
    match s.tab[h]? with
    | some hd =>
      if !hd.live then (s, .dead) else
      match s.a.release hd.blk hd.off with
      | (a, .ok _) => ({ a, tab := killHandle s.tab h }, .ok)
      | (a, .error e) => ({ s with a }, .err e)
    | none => (s, .dead)
  | .shrink h newSize =>
    match s.tab[h]? with
    | some hd =>
      if !hd.live then (s, .dead) else
      if newSize = 0 then
        match s.a.release hd.blk hd.off with
        | (a, .ok _) => ({ a, tab := killHandle s.tab h }, .size 0)
        | (a, .error e) => ({ s with a }, .err e)
      else
        match s.a.shrinkImpl hd.blk hd.off newSize with
        | (a, .ok (some sz)) => ({ a, tab := setHandleSize s.tab h sz }, .size sz)
        | (a, .ok none) => ({ s with a }, .size hd.size)
        | (a, .error e) => ({ s with a }, .err e)
    | none => (s, .dead)
  | .query h byteOff =>
    match s.tab[h]? with
    | some hd =>
      match s.a.findBlock hd.blk with
      | some b =>
        if hd.size = 0 && !hd.live then (s, .gone)       -- never allocated
        else if hd.off + byteOff ≥ b.blockSize then (s, .oob)
        else match s.a.query hd.blk (hd.off + byteOff) with
          | .ok sp => (s, .span sp)
          | .error e => (s, .err e)
      | none => (s, .gone)
    | none => (s, .dead)
  | .sstale h newSize =>
    match s.tab[h]? with
    | some hd =>
      if hd.live || newSize = 0 then (s, .dead) else
      match s.a.findBlock hd.blk with
      | some _ =>
        if hd.size = 0 then (s, .gone)
        else match s.a.query hd.blk hd.off with
          | .ok _ => (s, .busy)
          | .error _ =>
            match s.a.shrinkImpl hd.blk hd.off newSize with
            | (a, .ok _) => ({ s with a }, .ok)
            | (a, .error e) => ({ s with a }, .err e)
      | none => (s, .gone)
    | none => (s, .dead)
  | .write h byte =>
    match s.tab[h]? with
    | some hd => if !hd.live then (s, .dead) else ({ s with a := s.a.writeMem hd.blk hd.off hd.size (byte % 256) }, .ok)
    | none => (s, .dead)
  | .wtrunc h byte newSize =>
    match s.tab[h]? with
    | some hd =>
      if !hd.live then (s, .dead) else
      let a := s.a.writeMem hd.blk hd.off hd.size (byte % 256)
      if newSize ≥ hd.size then ({ s with a }, .size hd.size)            -- `Span::shrink` is `min`: nothing truncated
      else if newSize = 0 then                                             -- fix C09-7: released
        match a.release hd.blk hd.off with
        | (a, .ok _) => ({ a, tab := killHandle s.tab h }, .size 0)
        | (a, .error e) => ({ s with a }, .err e)
      else
        match a.shrinkImpl hd.blk hd.off newSize with
        | (a, .ok (some sz)) => ({ a, tab := setHandleSize s.tab h sz }, .size sz)
        | (a, .ok none) => ({ s with a }, .size hd.size)
        | (a, .error e) => ({ s with a }, .err e)
    | none => (s, .dead)
  | .read h =>
    match s.tab[h]? with
    | some hd =>
      if !hd.live then (s, .dead) else
      match s.a.findBlock hd.blk with
      | some b =>
        let g := s.a.cfg.poolGran b.pool
        (s, .colours (rle ((b.mem.drop (hd.off / g)).take (hd.size / g))))
      | none => (s, .gone)
    | none => (s, .dead)
  | .mem => (s, .memAll (s.a.blocks.map fun b => (b.id, rle b.mem)))
  | .sweep => (s, .sweepAll (s.a.blocks.map fun b => (b.id, sweepBlock b)))
  | .blocks => (s, .blockList (blockListOf s.a))
  | .dump => (s, .dumpAll s.a)
  | .reset hard =>
    let a := s.a.reset hard
    ({ a, tab := s.tab.map fun _ => { live := false, blk := 0, off := 0, size := 0 } }, .blockList (blockListOf a))
  | .isinit => (s, .flag (s.a.cfg.blockSize != 0))                        -- fix C09-1
  | .rforeign k => (s, .err (if k = 0 then .InvalidArgument else .InvalidState))
  | .qforeign _ => (s, .err .InvalidArgument)
  | .sforeign => (s, .err .InvalidArgument)

/-- a whole history: the answers (with the statistics after each operation) -/
def run (s : St) : List Op → List (Ans × Stats)
  | [] => []
  | op :: ops => let r := step s op; (r.2, r.1.a.stats) :: run r.1 ops

def finalState (s : St) : List Op → St
  | [] => s
  | op :: ops => finalState (step s op).1 ops

end AsmjitVerif.JitAlloc
