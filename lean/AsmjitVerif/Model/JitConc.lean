/-
C11: the JIT allocator as a machine of the thread model (Model/Linearise.lean).

Every operation of jitallocator.cpp has the shape  `lock-free prefix ; LockGuard guard(impl->lock) ; critical section`:
* the prefix of `JitAllocator::alloc` reads the immutable configuration (`impl->granularity`), aligns the request and refuses
  a request of 0 or more than 2^31-1 bytes before the lock is taken  (`pre`, constructor `allocIn` / `reject`);
* the prefixes of release / shrink / query / statistics / write-with-truncation only look at their arguments (`locked op`);
* the critical section (`crit`) is C09's sequential step function (Model/JitAlloc.lean `step` = `Alloc.allocIn`, `Alloc.release`,
  `Alloc.shrinkImpl`, `Alloc.query`, …) together with the statistics read inside it (what hook H2 reports while the lock is held).
The caller's handle table `St.tab` is ghost state that is updated at the linearisation point.  Core-only.
-/
import AsmjitVerif.Model.JitAlloc
import AsmjitVerif.Model.Linearise
namespace AsmjitVerif.JitConc
open AsmjitVerif.JitAlloc AsmjitVerif.Linearise

/-- what an operation has in its hands when it reaches the `LockGuard` -/
inductive Prep where
  | allocIn (size : Nat)     -- alloc: the request aligned to `impl->granularity`; it passed the range check
  | reject (e : Err)         -- alloc: refused before the lock is taken
  | locked (op : Op)         -- every other operation: its arguments
  deriving Repr, DecidableEq

/-- the lock-free prefix: a function of the immutable configuration and the arguments -/
def pre (cfg : Config) : Op → Prep
  | .alloc req =>
    let size := alignUp req cfg.gran
    if size = 0 then .reject .InvalidArgument
    else if size - 1 ≥ 2147483647 then .reject .TooLarge
    else .allocIn size
  | op => .locked op

/-- the caller's table after `alloc` answered (the tail of `step s (.alloc _)`) -/
def afterAlloc (s : St) (r : Alloc × Except Err SpanOut) : St × Ans :=
  match r with
  | (a, .ok sp) => ({ a, tab := s.tab ++ [{ live := true, blk := sp.blk, off := sp.off, size := sp.size }] }, .span sp)
  | (a, .error e) => ({ a, tab := s.tab ++ [{ live := false, blk := 0, off := 0, size := 0 }] }, .err e)

/-- the critical section, with the statistics read while the lock is still held -/
def crit (s : St) (p : Prep) : St × (Ans × Stats) :=
  let r : St × Ans :=
    match p with
    | .allocIn size => afterAlloc s (s.a.allocIn size)
    | .reject e => afterAlloc s (s.a, .error e)
    | .locked op => step s op
  (r.1, r.2, r.1.a.stats)

/-- the allocator as a machine of the thread model -/
def jitMachine : Machine St Config Op Prep (Ans × Stats) := { pre := pre, crit := crit }

/-- threads that have not started yet, each with the operations it is going to call -/
def threadsOf (progs : List (List Op)) : List (Thread Op Prep) := progs.map fun p => { todo := p, pending := none }

/-- observable part of a completion trace: operation, answer, statistics (the input of C09's monitor) -/
def observed (tr : List (Done Op (Ans × Stats))) : List (Op × Ans × Stats) := tr.map fun d => (d.op, d.out.1, d.out.2)

end AsmjitVerif.JitConc
