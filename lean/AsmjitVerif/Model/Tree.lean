/-
Model of asmjit/support/arenatree.h (`ArenaTree<NodeT>::insert/remove/get`, `_single_rotate`, `_double_rotate`;
the top-down red-black algorithm of Julienne Walker) over an index heap: node `0` is the null pointer, node `1`
is the stack-allocated false root `head`, real nodes are `2, 3, …` (one fresh index per inserted node = pointer
identity).  The colour bit (stored by the C++ in the LSB of the left link) is a separate field; `_set_child`
keeps it, exactly like the C++ mask.  The `for(;;)`/`while` loops carry fuel (the tree height is < 128).
`cmp(a, b)` is the default `Support::Compare` on the keys: `cmp(a, b) < 0` iff `a.key < b.key`.  Core-only imports.
-/
namespace AsmjitVerif.Tree

structure TNode where
  l : Nat := 0
  r : Nat := 0
  red : Bool := false
  key : Nat := 0
  deriving DecidableEq, Repr, Inhabited

structure Tree where
  /-- the heap; index 0 = null (never written), 1 = `head` -/
  nodes : Array TNode := #[{}, {}]
  root : Nat := 0
  deriving Repr, Inhabited

def nd (t : Tree) (n : Nat) : TNode := t.nodes.getD n {}
def upd (t : Tree) (n : Nat) (f : TNode → TNode) : Tree :=
  if n = 0 then t else { t with nodes := t.nodes.modify n f }

/-- `_get_child(i)`; `dir = true` is index 1 (right) -/
def child (t : Tree) (n : Nat) (dir : Bool) : Nat := if dir then (nd t n).r else (nd t n).l
def setChild (t : Tree) (n : Nat) (dir : Bool) (c : Nat) : Tree :=
  upd t n (fun x => if dir then { x with r := c } else { x with l := c })
def makeRed (t : Tree) (n : Nat) : Tree := upd t n (fun x => { x with red := true })
def makeBlack (t : Tree) (n : Nat) : Tree := upd t n (fun x => { x with red := false })
/-- `_is_valid_red(node)` -/
def isRed (t : Tree) (n : Nat) : Bool := n != 0 && (nd t n).red
def key (t : Tree) (n : Nat) : Nat := (nd t n).key

/-- `_single_rotate(root, dir)` -/
def singleRotate (t : Tree) (root : Nat) (dir : Bool) : Tree × Nat :=
  let save := child t root (!dir)
  let saveChild := child t save dir
  let t := setChild t root (!dir) saveChild
  let t := setChild t save dir root
  let t := makeRed t root
  let t := makeBlack t save
  (t, save)

/-- `_double_rotate(root, dir)` -/
def doubleRotate (t : Tree) (root : Nat) (dir : Bool) : Tree × Nat :=
  let c := child t root (!dir)
  let (t, s) := singleRotate t c (!dir)
  let t := setChild t root (!dir) s
  singleRotate t root dir

/-- the `for (;;)` loop of `insert` -/
def insertLoop (fuel : Nat) (t : Tree) (node g p tt q : Nat) (dir last : Bool) : Tree :=
  match fuel with
  | 0 => t
  | fuel + 1 =>
    -- insert at the bottom / colour flip
    let (t, q) :=
      if q = 0 then (setChild t p dir node, node)
      else if isRed t (child t q false) && isRed t (child t q true) then
        (makeBlack (makeBlack (makeRed t q) (child t q false)) (child t q true), q)
      else (t, q)
    -- fix red violation
    let t :=
      if isRed t q && isRed t p then
        let slot := child t tt true == g
        let (t', res) := if q == child t p last then singleRotate t g (!last) else doubleRotate t g (!last)
        setChild t' tt slot res
      else t
    if q = node then t else
    let last := dir
    let dir := decide (key t q < key t node)
    let tt := if g ≠ 0 then g else tt
    insertLoop fuel t node p q tt (child t q dir) dir last

def kFuel : Nat := 256

/-- allocate a fresh node (the C++ caller constructs it with both links null and black) -/
def newNode (t : Tree) (k : Nat) : Tree × Nat :=
  ({ t with nodes := t.nodes.push { key := k } }, t.nodes.size)

/-- `insert(node)` -/
def insertNode (t : Tree) (node : Nat) : Tree :=
  if t.root = 0 then { t with root := node } else
  let t := upd t 1 (fun _ => { r := t.root })          -- head._set_right(_root)
  let t := makeRed t node
  let t := insertLoop kFuel t node 0 0 1 t.root false false
  let root := child t 1 true
  makeBlack { t with root := root } root

/-- `get(key)`: the node index or 0 -/
def getLoop (fuel : Nat) (t : Tree) (n : Nat) (k : Nat) : Nat :=
  match fuel with
  | 0 => 0
  | fuel + 1 =>
    if n = 0 then 0 else
    if key t n = k then n else getLoop fuel t (child t n (decide (key t n < k))) k
def get (t : Tree) (k : Nat) : Nat := getLoop kFuel t t.root k

structure RmState where
  t : Tree
  g : Nat := 0
  p : Nat := 0
  q : Nat := 1
  f : Nat := 0
  gf : Nat := 0
  dir : Bool := true

/-- the `while (q->has_child(dir))` loop of `remove` -/
def removeLoop (fuel : Nat) (node : Nat) (s : RmState) : RmState :=
  match fuel with
  | 0 => s
  | fuel + 1 =>
    if child s.t s.q s.dir = 0 then s else
    let last := s.dir
    let g := s.p
    let p := s.q
    let q := child s.t s.q s.dir
    let t := s.t
    let dir := decide (key t q < key t node)
    let (f, gf) := if q = node then (q, g) else (s.f, s.gf)
    -- push the red node down
    let (t, p) :=
      if !isRed t q && !isRed t (child t q dir) then
        if isRed t (child t q (!dir)) then
          let (t, c) := singleRotate t q dir
          (setChild t p last c, c)
        else if child t p (!last) ≠ 0 then
          let s' := child t p (!last)
          if !isRed t (child t s' (!last)) && !isRed t (child t s' last) then
            (makeRed (makeRed (makeBlack t p) s') q, p)
          else
            let dir2 := child t g true == p
            let c0 := child t g dir2
            let (t, c) :=
              if isRed t (child t s' last) then
                let (t, c) := doubleRotate t p last
                (setChild t g dir2 c, c)
              else if isRed t (child t s' (!last)) then
                let (t, c) := singleRotate t p last
                (setChild t g dir2 c, c)
              else (t, c0)
            let t := makeRed t q
            let t := makeRed t c
            let t := makeBlack t (child t c false)
            let t := makeBlack t (child t c true)
            (t, p)
        else (t, p)
      else (t, p)
    removeLoop fuel node { t := t, g := g, p := p, q := q, f := f, gf := gf, dir := dir }

/-- the `for (;;)` loop that replaces `f` by `q` -/
def replaceLoop (fuel : Nat) (t : Tree) (node n f q : Nat) (dir : Bool) : Tree :=
  match fuel with
  | 0 => t
  | fuel + 1 =>
    if child t n dir = f then
      let t := setChild t n dir q
      upd t q (fun x => { x with l := (nd t f).l, r := (nd t f).r, red := (nd t f).red })
    else
      let n' := child t n dir
      if n' = 0 then t else
      replaceLoop fuel t node n' f q (decide (key t n' < key t node))

/-- `remove(node)` (precondition: `node` is in the tree) -/
def removeNode (t : Tree) (node : Nat) : Tree :=
  let t := upd t 1 (fun _ => { r := t.root })
  let s := removeLoop kFuel node { t := t }
  let t := s.t
  let (p, q, f, gf) := (s.p, s.q, s.f, s.gf)
  let t := setChild t p (child t p true == q) (child t q (child t q false == 0))
  let t :=
    if f ≠ q then
      let n := if gf ≠ 0 then gf else 1
      let dir := if n = 1 then true else decide (key t n < key t node)
      replaceLoop kFuel t node n f q dir
    else t
  let root := child t 1 true
  makeBlack { t with root := root } root

/-- preorder dump `(key colour left right)`; `.` = null -/
def dump (fuel : Nat) (t : Tree) (n : Nat) : String :=
  match fuel with
  | 0 => "?"
  | fuel + 1 =>
    if n = 0 then "." else
    "(" ++ toString (key t n) ++ (if (nd t n).red then "R" else "B") ++ dump fuel t (child t n false) ++ dump fuel t (child t n true) ++ ")"

/-- inorder keys -/
def inorder (fuel : Nat) (t : Tree) (n : Nat) : List Nat :=
  match fuel with
  | 0 => []
  | fuel + 1 => if n = 0 then [] else inorder fuel t (child t n false) ++ key t n :: inorder fuel t (child t n true)

end AsmjitVerif.Tree
