/-
Model of the section table of `CodeHolder` (asmjit/core/codeholder.cpp, codeholder.h) and of the code that lays the
sections out and copies them:

  * `Section_init_data` / `CodeHolder_init_text_section`      → `init`
  * `CodeHolder::new_section`                                 → `newSection`   (lower_bound insert on (order, id))
  * `CodeHolder::ensure_address_table_section`,
    `add_address_to_address_table`                            → `ensureAddrTab`, `addAddress`
  * x86 `call/jmp <abs>` in 64-bit mode (x86assembler.cpp,
    the `kX64AddressEntry` emission)                          → `emitCall`
  * `CodeHolder::flatten`                                     → `flattenCheck` (first loop), `assign` (second loop), `flatten`
  * `CodeHolder::code_size`                                   → `codeSizeLoop`, `codeSize`
  * `CodeHolder::relocate_to_base` (kX64AddressEntry path
    and the address-table tail)                               → `relocLoop`, `relocate`
  * `CodeHolder::copy_section_data`, `copy_flattened_data`    → `copySection`, `copyLoop`, `copyFlattened`
  * `JitRuntime::_add` copy loop (jitruntime.cpp)             → `jitCopy`

Representation.  The two vectors `_sections` (by id) and `_sections_by_order` hold pointers to the same `Section`
objects; the model keeps ONE list `secs` in by-order sequence, and "by id" is a lookup on the `id` field.
Numbers are `Nat`; wherever the C++ computes in `uint64_t`/`size_t` and can wrap the model reduces modulo `2^64`
explicitly (`U64`).  `size_t` is 64 bit (the only configuration the harness is built for).
A `memcpy`/`memset` is `writeAt`, which returns `none` (a *fault*) when the range leaves the destination, so that
"never writes outside the destination" is a statement about the model and not built into it.

The model follows the REPAIRED code (fixes/C10-1.patch: `flatten` extends only the last non-empty section;
fixes/C10-2.patch: `code_size` treats a wrapped `align_up` as overflow).  The unrepaired loops are kept as
`assignOld` / `codeSizeLoopOld` so that the defects can be stated and witnessed in Lean.
Core-only imports.
-/
namespace AsmjitVerif.Sections

abbrev Byte := BitVec 8

/-- 2^64 -/
def U64 : Nat := 18446744073709551616
/-- `SIZE_MAX`, `Globals::kNoSectionOffset`, `Globals::kNoBaseAddress` -/
def sizeMax : Nat := 18446744073709551615
/-- `Globals::kMaxSectionNameSize` -/
def maxSectionNameSize : Nat := 35

inductive Err
  | invalidArgument | invalidSectionName | invalidSection | tooLarge | invalidRelocEntry | relocOffsetOutOfRange | noCodeGenerated
deriving DecidableEq, Repr

def Err.name : Err → String
  | .invalidArgument => "InvalidArgument"
  | .invalidSectionName => "InvalidSectionName"
  | .invalidSection => "InvalidSection"
  | .tooLarge => "TooLarge"
  | .invalidRelocEntry => "InvalidRelocEntry"
  | .relocOffsetOutOfRange => "RelocOffsetOutOfRange"
  | .noCodeGenerated => "NoCodeGenerated"

structure Section where
  id : Nat
  order : Int
  align : Nat
  offset : Nat
  vsize : Nat
  name : String
  data : List Byte
deriving DecidableEq, Repr

/-- `Section::buffer_size()` -/
def Section.bufSize (s : Section) : Nat := s.data.length
/-- `Section::real_size()` = max(virtual_size, buffer_size) -/
def Section.realSize (s : Section) : Nat := max s.vsize s.bufSize

/-- an entry of `_address_table_entries` (a tree keyed by address; here an association list) -/
structure AddrEntry where
  addr : Nat
  slot : Option Nat
deriving DecidableEq, Repr

/-- a `RelocEntry` of type `kX64AddressEntry` as x86 `call/jmp abs` creates it:
    format = signed 32-bit, region_size 6, value_offset 2, value_size 4 -/
structure Reloc where
  sec : Nat
  srcOff : Nat
  payload : Nat
deriving DecidableEq, Repr

structure Holder where
  secs : List Section
  addrTab : Option Nat
  entries : List AddrEntry
  relocs : List Reloc
deriving Repr

/-- `CodeHolder::init`: the built-in `.text` section: id 0, alignment 0, order INT_MIN, offset 0 -/
def textSection : Section :=
  { id := 0, order := -2147483648, align := 0, offset := 0, vsize := 0, name := ".text", data := [] }

def init : Holder := { secs := [textSection], addrTab := none, entries := [], relocs := [] }

/-! ### lookups / updates by id -/

def findSec (secs : List Section) (id : Nat) : Option Section := secs.find? (fun s => s.id == id)

def modifySec (secs : List Section) (id : Nat) (f : Section → Section) : List Section :=
  secs.map (fun s => if s.id == id then f s else s)

/-- `is_section_valid(id)`: id < _sections.size() -/
def Holder.validId (h : Holder) (id : Nat) : Bool := id < h.secs.length

/-! ### new_section -/

/-- `Support::is_zero_or_power_of_2` on `uint32_t` -/
def isZeroOrPow2 (a : BitVec 32) : Bool := a &&& (a - 1) == 0

/-- the comparison of the `lower_bound` call: (order, id) lexicographic -/
def secLt (a b : Section) : Bool := a.order < b.order || (a.order == b.order && a.id < b.id)

/-- `std::lower_bound` + `insert_unchecked` on the (sorted) by-order vector: the new element goes before the first
    element that is not less than it -/
def insertByOrder (s : Section) : List Section → List Section
  | [] => [s]
  | a :: rest => if secLt a s then a :: insertByOrder s rest else s :: a :: rest

def newSection (h : Holder) (name : String) (align : BitVec 32) (order : Int) : Holder × Except Err Nat :=
  if !isZeroOrPow2 align then (h, .error .invalidArgument)
  else if name.length > maxSectionNameSize then (h, .error .invalidSectionName)
  else
    let id := h.secs.length
    let a := if align.toNat = 0 then 1 else align.toNat
    let s : Section := { id := id, order := order, align := a, offset := sizeMax, vsize := 0, name := name, data := [] }
    ({ h with secs := insertByOrder s h.secs }, .ok id)

/-! ### small mutators the harness uses (Assembler::embed through `a.section(s)`, `Section::set_virtual_size`) -/

def appendData (h : Holder) (id : Nat) (bytes : List Byte) : Holder × Except Err Nat :=
  if !h.validId id then (h, .error .invalidSection)
  else
    let secs := modifySec h.secs id (fun s => { s with data := s.data ++ bytes })
    ({ h with secs := secs }, .ok ((findSec secs id).map (·.bufSize) |>.getD 0))

def setVsize (h : Holder) (id : Nat) (v : Nat) : Holder × Except Err Unit :=
  if !h.validId id then (h, .error .invalidSection)
  else ({ h with secs := modifySec h.secs id (fun s => { s with vsize := v % U64 }) }, .ok ())

/-! ### address table -/

/-- `ensure_address_table_section`: `.addrtab`, alignment = register size (8 on x64), order INT_MAX -/
def ensureAddrTab (h : Holder) : Holder × Nat :=
  match h.addrTab with
  | some id => (h, id)
  | none =>
    match newSection h ".addrtab" 8 2147483647 with
    | (h', .ok id) => ({ h' with addrTab := some id }, id)
    | (h', .error _) => (h', 0)   -- unreachable: alignment 8 and the name are valid

/-- `add_address_to_address_table` -/
def addAddress (h : Holder) (addr : Nat) : Holder :=
  if h.entries.any (fun e => e.addr == addr) then h
  else
    let (h1, id) := ensureAddrTab h
    { h1 with entries := h1.entries ++ [{ addr := addr, slot := none }],
              secs := modifySec h1.secs id (fun s => { s with vsize := (s.vsize + 8) % U64 }) }

/-- x86 `call abs` / `jmp abs` in 64-bit mode emitted at the end of section `id`:
    `40 E8|E9 00 00 00 00`, a `kX64AddressEntry` relocation at the instruction start and an address-table entry. -/
def emitCall (h : Holder) (id : Nat) (isJmp : Bool) (addr : Nat) : Holder × Except Err Nat :=
  if !h.validId id then (h, .error .invalidSection)
  else
    let srcOff := (findSec h.secs id).map (·.bufSize) |>.getD 0
    let h1 := addAddress h addr
    let op : Byte := if isJmp then 0xE9 else 0xE8
    let secs := modifySec h1.secs id (fun s => { s with data := s.data ++ [0x40, op, 0, 0, 0, 0] })
    ({ h1 with secs := secs, relocs := h1.relocs ++ [{ sec := id, srcOff := srcOff, payload := addr }] }, .ok (srcOff + 6))

/-! ### flatten / code_size -/

/-- `Support::align_up(x, alignment)` on `uint64_t`: `(x + (a - 1)) & ~(a - 1)`.
    For `a = 0` the mask is 0, so the result is 0.  For a power of two `a` (the only other values `new_section`
    admits) clearing the low bits is rounding down to a multiple of `a`.  The addition wraps modulo 2^64. -/
def alignUp (x a : Nat) : Nat :=
  if a = 0 then 0 else ((x + (a - 1)) % U64) / a * a

/-- first loop of `flatten`: can every offset be assigned without 64-bit overflow? -/
def flattenCheck : Nat → List Section → Bool
  | _, [] => true
  | off, s :: rest =>
    if s.realSize ≠ 0 then
      let aligned := alignUp off s.align
      if aligned < off then false                       -- `aligned_offset < offset` → kTooLarge
      else if aligned + s.realSize ≥ U64 then false     -- `add_overflow` → kTooLarge
      else flattenCheck (aligned + s.realSize) rest
    else flattenCheck off rest

/-- first section of a list that is not empty (`real_size() != 0`) -/
def firstNonEmpty : List Section → Option Section
  | [] => none
  | s :: rest => if s.realSize ≠ 0 then some s else firstNonEmpty rest

/-- second loop of `flatten` (REPAIRED, fixes/C10-1.patch), as structural recursion: the section gets its offset; the
    assignment `prev->_virtual_size = offset - prev->_offset`, which the C++ performs when it reaches the next
    non-empty section, is performed here on return from the recursive call (`prev` = this section, `offset` = offset of
    the first non-empty section after it). Nothing is read from `prev` in between, so the two orders agree. -/
def assign : Nat → List Section → List Section
  | _, [] => []
  | off, s :: rest =>
    if s.realSize ≠ 0 then
      let off' := alignUp off s.align
      let rest' := assign ((off' + s.realSize) % U64) rest
      match firstNonEmpty rest' with
      | some t => { s with offset := off', vsize := (t.offset + U64 - off') % U64 } :: rest'
      | none => { s with offset := off' } :: rest'
    else
      { s with offset := off } :: assign off rest

/-- second loop of `flatten` AS PINNED (defect #17): `prev` is the previous section whether empty or not, so every section
    but the last gets `virtual_size = next.offset - offset`. -/
def assignOld : Nat → List Section → List Section
  | _, [] => []
  | off, s :: rest =>
    let off' := if s.realSize ≠ 0 then alignUp off s.align else off
    let rest' := assignOld ((off' + s.realSize) % U64) rest
    match rest' with
    | t :: _ => { s with offset := off', vsize := (t.offset + U64 - off') % U64 } :: rest'
    | [] => { s with offset := off' } :: rest'

def flatten (h : Holder) : Holder × Except Err Unit :=
  if flattenCheck 0 h.secs then ({ h with secs := assign 0 h.secs }, .ok ())
  else (h, .error .tooLarge)

def flattenOld (h : Holder) : Holder × Except Err Unit :=
  if flattenCheck 0 h.secs then ({ h with secs := assignOld 0 h.secs }, .ok ())
  else (h, .error .tooLarge)

/-- loop of `code_size` (REPAIRED, fixes/C10-2.patch): running offset and the sticky overflow flag -/
def codeSizeLoop : Nat → Bool → List Section → Nat × Bool
  | off, ov, [] => (off, ov)
  | off, ov, s :: rest =>
    if s.realSize ≠ 0 then
      let aligned := alignUp off s.align
      let sum := aligned + s.realSize
      codeSizeLoop (sum % U64) (ov || decide (aligned < off) || decide (sum ≥ U64)) rest
    else codeSizeLoop off ov rest

/-- loop of `code_size` AS PINNED: a wrapped `align_up` is only `ASMJIT_ASSERT`ed -/
def codeSizeLoopOld : Nat → Bool → List Section → Nat × Bool
  | off, ov, [] => (off, ov)
  | off, ov, s :: rest =>
    if s.realSize ≠ 0 then
      let aligned := alignUp off s.align
      let sum := aligned + s.realSize
      codeSizeLoopOld (sum % U64) (ov || decide (sum ≥ U64)) rest
    else codeSizeLoopOld off ov rest

def codeSizeOf (secs : List Section) : Nat :=
  let r := codeSizeLoop 0 false secs
  if r.2 then sizeMax else r.1

def codeSizeOfOld (secs : List Section) : Nat :=
  let r := codeSizeLoopOld 0 false secs
  if r.2 then sizeMax else r.1

def codeSize (h : Holder) : Nat := codeSizeOf h.secs

/-! ### copies -/

/-- a `memcpy`/`memset` of `bytes` to `dst + off`; `none` = the range is not inside the destination -/
def writeAt (dst : List Byte) (off : Nat) (bytes : List Byte) : Option (List Byte) :=
  if off + bytes.length ≤ dst.length then some (dst.take off ++ bytes ++ dst.drop (off + bytes.length)) else none

def zeros (n : Nat) : List Byte := List.replicate n 0

inductive CopyResult
  | ok (dst : List Byte)
  | error (e : Err)
  | fault            -- a write left the destination (never happens: theorem `copyFlattened_no_fault`)
deriving DecidableEq, Repr

/-- `CopySectionFlags` -/
structure CopyFlags where
  padSection : Bool   -- kPadSectionBuffer = 1
  padTarget : Bool    -- kPadTargetBuffer = 2
deriving DecidableEq, Repr

def CopyFlags.ofNat (n : Nat) : CopyFlags := { padSection := n % 2 == 1, padTarget := (n / 2) % 2 == 1 }

/-- `copy_section_data` -/
def copySection (h : Holder) (dst : List Byte) (id : Nat) (flags : CopyFlags) : CopyResult :=
  if !h.validId id then .error .invalidSection
  else match findSec h.secs id with
    | none => .error .invalidSection
    | some s =>
      let n := dst.length
      if n < s.bufSize then .error .invalidArgument
      else match writeAt dst 0 s.data with
        | none => .fault
        | some d1 =>
          if s.bufSize < n && flags.padSection then
            match writeAt d1 s.bufSize (zeros (n - s.bufSize)) with
            | none => .fault
            | some d2 => .ok d2
          else .ok d1

/-- padding written after the data of one section by `copy_flattened_data`:
    `min(dst_size - offset, virtual_size) - buffer_size` when the flag is set and `buffer_size < virtual_size` -/
def padLen (n : Nat) (flags : CopyFlags) (s : Section) : Nat :=
  if flags.padSection && decide (s.bufSize < s.vsize) then min (n - s.offset) s.vsize - s.bufSize else 0

/-- the loop of `copy_flattened_data`; carries the destination and `end` -/
def copyLoop (flags : CopyFlags) : List Section → List Byte → Nat → Option (Except Err (List Byte × Nat))
  | [], dst, e => some (.ok (dst, e))
  | s :: rest, dst, e =>
    let n := dst.length
    if s.offset > n then some (.error .invalidArgument)
    else if n - s.offset < s.bufSize then some (.error .invalidArgument)
    else match writeAt dst s.offset s.data with
      | none => none
      | some d1 =>
        let p := padLen n flags s
        match writeAt d1 (s.offset + s.bufSize) (zeros p) with
        | none => none
        | some d2 => copyLoop flags rest d2 (max e (s.offset + s.bufSize + p))

/-- `copy_flattened_data` -/
def copyFlattenedSecs (secs : List Section) (dst : List Byte) (flags : CopyFlags) : CopyResult :=
  match copyLoop flags secs dst 0 with
  | none => .fault
  | some (.error e) => .error e
  | some (.ok (d, e)) =>
    if e < dst.length && flags.padTarget then
      match writeAt d e (zeros (dst.length - e)) with
      | none => .fault
      | some d' => .ok d'
    else .ok d

def copyFlattened (h : Holder) (dst : List Byte) (flags : CopyFlags) : CopyResult :=
  copyFlattenedSecs h.secs dst flags

/-- the copy loop of `JitRuntime::_add` into a span of `dst.length` bytes over a list of sections
    (the two `ASMJIT_ASSERT`s are the faults) -/
def jitCopy : List Section → List Byte → Option (List Byte)
  | [], dst => some dst
  | s :: rest, dst =>
    match writeAt dst s.offset s.data with
    | none => none
    | some d1 =>
      if s.vsize > s.bufSize then
        match writeAt d1 (s.offset + s.bufSize) (zeros (s.vsize - s.bufSize)) with
        | none => none
        | some d2 => jitCopy rest d2
      else jitCopy rest d1

/-- `code->_sections`: the sections in id order (the loop of `_add` walks this vector, not the by-order one) -/
def byId (secs : List Section) : List Section := (List.range secs.length).filterMap (findSec secs)

/-! ### relocate_to_base (address-table part) -/

/-- `Support::is_int_n<32>(int64_t(v))` for `v` given as an unsigned 64-bit number -/
def isInt32 (v : Nat) : Bool := v < 2147483648 || v ≥ U64 - 2147483648

/-- little-endian bytes of the low `8*n` bits -/
def leBytes : Nat → Nat → List Byte
  | 0, _ => []
  | n + 1, v => BitVec.ofNat 8 (v % 256) :: leBytes n (v / 256)

/-- overwrite `bytes` at `off` inside `data` (callers have checked the range) -/
def patch (data : List Byte) (off : Nat) (bytes : List Byte) : List Byte :=
  (writeAt data off bytes).getD data

structure RelocState where
  secs : List Section
  entries : List AddrEntry
  count : Nat            -- address_table_entry_size
  table : List Byte      -- the reserved storage of the address table (capacity, not yet its size)
deriving Repr

def assignSlot (entries : List AddrEntry) (addr : Nat) (slot : Nat) : List AddrEntry :=
  entries.map (fun e => if e.addr == addr then { e with slot := some slot } else e)

/-- one iteration of the relocation loop for a `kX64AddressEntry` entry -/
def relocOne (base : Nat) (atOffset : Nat) (st : RelocState) (re : Reloc) : RelocState × Except Err Unit :=
  match findSec st.secs re.sec with
  | none => (st, .error .invalidRelocEntry)
  | some src =>
    if re.srcOff ≥ src.bufSize || src.bufSize - re.srcOff < 6 then (st, .error .invalidRelocEntry)
    else
      let valueOffset := re.srcOff + 2
      let value := (re.payload + U64 - (base + src.offset + re.srcOff + 6) % U64) % U64
      if isInt32 value then
        ({ st with secs := modifySec st.secs re.sec (fun s => { s with data := patch s.data valueOffset (leBytes 4 value) }) }, .ok ())
      else
        match st.entries.find? (fun e => e.addr == re.payload) with
        | none => (st, .error .invalidRelocEntry)
        | some ent =>
          -- `if (!at_entry->has_assigned_slot()) at_entry->_slot = address_table_entry_size++;`
          let slot := ent.slot.getD st.count
          let st1 : RelocState :=
            if ent.slot.isNone then { st with entries := assignSlot st.entries re.payload st.count, count := st.count + 1 } else st
          let atIndex := slot * 8
          let addrSrc := (src.offset + re.srcOff + 6) % U64
          let addrDst := (atOffset + atIndex) % U64
          let value2 := (addrDst + U64 - addrSrc) % U64
          if !isInt32 value2 then (st1, .error .relocOffsetOutOfRange)
          else
            let byte1 := src.data.getD (valueOffset - 1) 0
            if byte1 != 0xE8 && byte1 != 0xE9 then (st1, .error .invalidRelocEntry)
            else
              let b1 : Byte := if byte1 == 0xE8 then 0x15 else 0x25
              let secs := modifySec st1.secs re.sec (fun s =>
                { s with data := patch (patch s.data (valueOffset - 2) [0xFF, b1]) valueOffset (leBytes 4 value2) })
              ({ st1 with secs := secs, table := patch st1.table atIndex (leBytes 8 re.payload) }, .ok ())

def relocLoop (base atOffset : Nat) : RelocState → List Reloc → RelocState × Except Err Unit
  | st, [] => (st, .ok ())
  | st, re :: rest =>
    match relocOne base atOffset st re with
    | (st', .ok ()) => relocLoop base atOffset st' rest
    | (st', .error e) => (st', .error e)

/-- is the address-table section the last one by order? (`_sections_by_order.last() == address_table_section`) -/
def addrTabIsLast (h : Holder) : Bool :=
  match h.addrTab, h.secs.getLast? with
  | some id, some s => s.id == id
  | _, _ => false

/-- `relocate_to_base`; the third component is `RelocationSummary::code_size_reduction` -/
def relocate (h : Holder) (base : Nat) : Holder × Except Err Unit × Nat :=
  if base = sizeMax then (h, .error .invalidArgument, 0)
  else
    let at? := h.addrTab.bind (findSec h.secs)
    let atOffset := (at?.map (·.offset)).getD 0
    let table := zeros ((at?.map (·.vsize)).getD 0)
    match relocLoop base atOffset { secs := h.secs, entries := h.entries, count := 0, table := table } h.relocs with
    | (st, .error e) => ({ h with secs := st.secs, entries := st.entries }, .error e, 0)
    | (st, .ok ()) =>
      let h1 := { h with secs := st.secs, entries := st.entries }
      -- (REPAIRED, C04-1) the assigned slots become the buffer of the address table wherever the section is;
      -- the virtual size shrinks (and a reduction is reported) only when it is the last section by order
      match h1.addrTab with
      | none => (h1, .ok (), 0)
      | some id =>
        let reserved := ((findSec h1.secs id).map (·.vsize)).getD 0
        let size := st.count * 8
        if addrTabIsLast h1 then
          let secs := modifySec h1.secs id (fun s => { s with data := (st.table ++ zeros size).take size, vsize := size })
          ({ h1 with secs := secs }, .ok (), (reserved + U64 - size) % U64)
        else
          let secs := modifySec h1.secs id (fun s => { s with data := (st.table ++ zeros size).take size })
          ({ h1 with secs := secs }, .ok (), 0)

/-- `JitRuntime::_add` (REPAIRED, fixes/C10-4.patch): flatten; (`resolve_cross_section_fixups`: nothing to do in this model);
    estimate = `code_size()`; allocate a span of that size at address `base`; `relocate_to_base(base)`;
    final size = estimate - `code_size_reduction`; refuse an empty result; copy every section (in id order) into the span;
    shrink the span to the final size.  Result: the installed bytes.  `fault` cannot be expressed by `Err`: `none`. -/
def jitAdd (h : Holder) (base : Nat) : Holder × Option (Except Err (List Byte)) :=
  let (h1, r) := flatten h
  match r with
  | .error e => (h1, some (.error e))
  | .ok () =>
    let est := codeSize h1
    if est = 0 then (h1, some (.error .noCodeGenerated))
    else
      let (h2, r2, red) := relocate h1 base
      match r2 with
      | .error e => (h2, some (.error e))
      | .ok () =>
        let size := est - red
        if size = 0 then (h2, some (.error .noCodeGenerated))
        else match jitCopy (byId h2.secs) (zeros est) with
          | none => (h2, none)
          | some img => (h2, some (.ok (img.take size)))

/-! ### reuse of a CodeHolder -/

/-- `CodeHolder::reinit()`, and equally `reset(kSoft|kHard)` followed by `init()`:
    `CodeHolder_reset_sections_and_containers` forgets both section vectors, the relocations, the address table section and
    its entries, and sets the buffer size of the EMBEDDED `.text` section object to 0; `CodeHolder_add_text_section` then
    re-initialises that same object field by field through `Section_init_data` (id 0, alignment 0, order INT_MIN, offset 0,
    `_virtual_size = 0`) and `Section_init_name`, and appends it to both vectors.  The model keeps the old `.text` record and
    overwrites exactly those fields, so that a forgotten field would survive here as it would in C++. -/
def reinit (h : Holder) : Holder :=
  let old := (findSec h.secs 0).getD textSection
  { secs := [{ old with id := 0, order := -2147483648, align := 0, offset := 0, vsize := 0, name := ".text", data := [] }],
    addrTab := none, entries := [], relocs := [] }

/-! ### histories -/

inductive Op
  | newSection (name : String) (align : BitVec 32) (order : BitVec 32)   -- `int32_t order`
  | appendData (id : Nat) (bytes : List Byte)
  | setVsize (id : Nat) (v : Nat)
  | addAddress (addr : Nat)
  | emitCall (id : Nat) (isJmp : Bool) (addr : Nat)
  | flatten
  | relocate (base : Nat)
  | reinit
deriving Repr

def step (h : Holder) : Op → Holder
  | .newSection n a o => (newSection h n a o.toInt).1
  | .appendData id b => (appendData h id b).1
  | .setVsize id v => (setVsize h id v).1
  | .addAddress a => addAddress h (a % U64)
  | .emitCall id j a => (emitCall h id j (a % U64)).1
  | .flatten => (flatten h).1
  | .relocate b => (relocate h b).1
  | .reinit => reinit h

def run (ops : List Op) : Holder := ops.foldl step init

end AsmjitVerif.Sections
