/-
Model of asmjit/support/arenahash.cpp/.h (`ArenaHashBase::reset/release/_swap/_calc_mod/_rehash/_insert/
_remove`, `ArenaHash<NodeT>::get`).  The prime table (`ASMJIT_POPULATE_PRIMES`) is regenerated from the sources
into `Gen/HashPrimes.lean` on every run (tools/gen_primes.py).  A bucket chain is a `List Node` (head = `_data[i]`).
Nodes carry a `uid` (pointer identity).  Core-only imports.
-/
import AsmjitVerif.Model.Arena
import AsmjitVerif.Gen.HashPrimes
namespace AsmjitVerif.Hash
open AsmjitVerif.Arena

structure Node where
  uid : Nat
  key : Nat
  hash : Nat
  deriving DecidableEq, Repr, Inhabited

structure Table where
  /-- `_data`; `none` = `_embedded` -/
  data : Option Loc := none
  buckets : List (List Node) := [[]]
  size : Nat := 0
  count : Nat := 1
  grow : Nat := 1
  rcp : Nat := 1
  shift : Nat := 0
  primeIndex : Nat := 0
  deriving Repr, Inhabited

/-- `_calc_mod(hash)`: 32x32→64 multiply, shift, truncate to 32 bits, multiply back and subtract (mod 2^32) -/
def calcModRaw (count rcp shift h : Nat) : Nat :=
  let x := (((h * rcp) % u64) >>> shift) % u32
  (h + u32 - (x * count) % u32) % u32

def calcMod (t : Table) (h : Nat) : Nat := calcModRaw t.count t.rcp t.shift h

def primeCount : Nat := AsmjitVerif.Gen.hashPrimes.length

/-- redistribute one old chain into the new bucket array (`node->_hash_next = new_data[m]; new_data[m] = node`) -/
def rehashChain (count rcp shift : Nat) (nb : List (List Node)) (chain : List Node) : List (List Node) :=
  chain.foldl (fun nb n => nb.modify (calcModRaw count rcp shift n.hash) (fun c => n :: c)) nb

/-- `_rehash(arena, prime_index)` -/
def rehash (a : State) (t : Table) (pi : Nat) : State × Table :=
  match AsmjitVerif.Gen.hashPrimes[pi]? with
  | none => (a, t)
  | some (prime, rcp, shift, grow) =>
    match allocReusable a (prime * 8) with
    | (a1, none, _) => (a1, t)
    | (a1, some p, _) =>
      let nb := t.buckets.foldl (rehashChain prime rcp shift) (List.replicate prime [])
      let a2 := match t.data with
        | some old => freeReusable a1 old (t.count * 8)
        | none => a1
      (a2, { t with data := some p, buckets := nb, count := prime, grow := grow, rcp := rcp, shift := shift, primeIndex := pi })

/-- `_insert(arena, node)` -/
def insert (a : State) (t : Table) (n : Node) : State × Table :=
  let m := calcMod t n.hash
  let t1 := { t with buckets := t.buckets.modify m (fun c => n :: c), size := t.size + 1 }
  if t1.size > t1.grow then
    let pi := min (t1.primeIndex + 2) (primeCount - 1)
    if pi > t1.primeIndex then rehash a t1 pi else (a, t1)
  else (a, t1)

/-- `get(key)` with a matcher `hash_code() = h`, `matches(node) = (node.key == key)` -/
def get (t : Table) (key h : Nat) : Option Node :=
  (t.buckets.getD (calcMod t h) []).find? (fun n => n.key == key)

/-- `_remove(arena, node)`: walks the chain of `node.hash`; `false` = not found (returns nullptr) -/
def remove (t : Table) (n : Node) : Table × Bool :=
  let m := calcMod t n.hash
  let chain := t.buckets.getD m []
  if chain.any (fun x => x.uid == n.uid) then
    ({ t with buckets := t.buckets.set m (chain.filter (fun x => x.uid != n.uid)), size := t.size - 1 }, true)
  else (t, false)

/-- `release(arena)` -/
def release (a : State) (t : Table) : State × Table :=
  match t.data with
  | some p => (freeReusable a p (t.count * 8), {})
  | none => (a, {})

def allNodes (t : Table) : List Node := t.buckets.flatten

/-! ### `ArenaHashBase::_swap` at the level of the two C++ objects
`Table` above abstracts `_data == _embedded` into `data = none`, which hides the one delicate point of `_swap`: after the
field-wise `std::swap` a `_data` that pointed to the own embedded bucket points into the OTHER object and must be redirected.
Here the pointer is explicit: `embA` / `embB` = `&this->_embedded` / `&other._embedded`, `heap` = an arena array whose
contents (`heapBuckets`) travel with the pointer. -/
inductive DataPtr where
  | embA | embB | heap (l : Loc)
  deriving DecidableEq, Repr

structure Raw where
  data : DataPtr
  /-- chain hanging off `_embedded[0]` -/
  embedded : List Node := []
  /-- contents of the heap array `_data` points to (meaningful when `data = heap _`) -/
  heapBuckets : List (List Node) := []
  size : Nat := 0
  count : Nat := 1
  grow : Nat := 1
  rcp : Nat := 1
  shift : Nat := 0
  primeIndex : Nat := 0
  deriving Repr

/-- the bucket array an object sees through its `_data`, in the world of the two objects `(a, b)` -/
def bucketsOf (a b : Raw) (x : Raw) : List (List Node) :=
  match x.data with
  | .embA => [a.embedded]
  | .embB => [b.embedded]
  | .heap _ => x.heapBuckets

/-- `this->_swap(other)`: `std::swap` of every member (including `_embedded[0]`), then the two INDEPENDENT fix-ups
`if (_data == other._embedded) _data = _embedded;  if (other._data == _embedded) other._data = other._embedded;` -/
def swapRaw (a b : Raw) : Raw × Raw :=
  let a1 := b            -- every field of `this` now holds what `other` held …
  let b1 := a            -- … and vice versa
  let a2 := if a1.data = .embB then { a1 with data := .embA } else a1
  let b2 := if b1.data = .embA then { b1 with data := .embB } else b1
  (a2, b2)

/-- the variant with `else if` for the second fix-up (what a careless edit produces) -/
def swapRawElseIf (a b : Raw) : Raw × Raw :=
  let a1 := b
  let b1 := a
  if a1.data = .embB then ({ a1 with data := .embA }, b1)
  else (a1, if b1.data = .embA then { b1 with data := .embB } else b1)

end AsmjitVerif.Hash
