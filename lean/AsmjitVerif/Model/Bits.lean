/-
Model of the bit-vector primitives of asmjit/support/support.h (`Internal::bit_vector_op`, `bit_vector_fill`,
`bit_vector_clear`, `bit_vector_get_bit`, `bit_vector_set_bit`, `bit_vector_or_bit`, `bit_vector_xor_bit`,
`bit_vector_index_of`, `BitVectorIterator`) and of `ArenaBitSet` (asmjit/support/arenabitset_p.h,
arenabitset.cpp: `append/_append/_resize/copy_from/truncate/clear_all/fill_all/and_/and_not/or_/
_clear_unused_bits/equals/release`) for `BitWord = uint64_t`.  A buffer is a `List (BitVec 64)`; every access is
bounds-checked (`none` = the C++ would touch a word outside the buffer).
`ArenaBitSet::_resize` follows the REPAIRED code (fixes/C18-3.patch and C18-8.patch: sizes above 2^32-64 bits are refused,
the 32-bit capacity is clamped).  Core-only imports.
-/
import AsmjitVerif.Model.Arena
namespace AsmjitVerif.Bits
open AsmjitVerif.Arena

abbrev Words := List (BitVec 64)

def ones : BitVec 64 := 0xFFFFFFFFFFFFFFFF#64

/-- `Support::ctz(w)` for `w ≠ 0`: index of the least significant set bit -/
def ctzFrom (w : BitVec 64) (i : Nat) (fuel : Nat) : Nat :=
  match fuel with
  | 0 => i
  | fuel + 1 => if w.getLsbD i then i else ctzFrom w (i + 1) fuel
def ctz (w : BitVec 64) : Nat := ctzFrom w 0 64

/-- `Or::op / AndNot::op` on the partially covered words -/
def opPart (fill : Bool) (w mask : BitVec 64) : BitVec 64 := if fill then w ||| mask else w &&& ~~~ mask
/-- `Set::op(a, b) = b`, `SetNot::op(a, b) = ~b` on fully covered words -/
def opFull (fill : Bool) : BitVec 64 := if fill then ones else 0#64

/-- the `while (count >= 64)` loop and the trailing partial word of `bit_vector_op` -/
def opTail (fill : Bool) : Words → Nat → Option Words
  | [], count => if count = 0 then some [] else none
  | w :: rest, count =>
    if count = 0 then some (w :: rest)
    else if count ≥ 64 then (opTail fill rest (count - 64)).map (opFull fill :: ·)
    else some (opPart fill w (ones >>> (64 - count)) :: rest)

/-- `Internal::bit_vector_op<T, OperatorT, FullWordOpT>(buf, index, count)`; `fill = true` is `bit_vector_fill` -/
def bitVectorOp (fill : Bool) (buf : Words) (index count : Nat) : Option Words :=
  if count = 0 then some buf else
  let wi := index / 64
  let bi := index % 64
  let firstN := min (64 - bi) count
  match buf.drop wi with
  | [] => none
  | w :: rest =>
    let w' := opPart fill w ((ones >>> (64 - firstN)) <<< bi)
    (opTail fill rest (count - firstN)).map (fun t => buf.take wi ++ w' :: t)

def bitVectorFill (buf : Words) (index count : Nat) := bitVectorOp true buf index count
def bitVectorClear (buf : Words) (index count : Nat) := bitVectorOp false buf index count

/-- `bit_vector_get_bit(buf, index)` -/
def getBit (buf : Words) (index : Nat) : Option Bool :=
  (buf[index / 64]?).map (fun (w : BitVec 64) => ((w >>> (index % 64)) &&& 1#64) != 0#64)

def boolWord (b : Bool) : BitVec 64 := if b then 1#64 else 0#64

/-- `bit_vector_set_bit(buf, index, value)` -/
def setBit (buf : Words) (index : Nat) (value : Bool) : Option Words :=
  match buf[index / 64]? with
  | none => none
  | some w => some (buf.set (index / 64) ((w &&& ~~~ (1#64 <<< (index % 64))) ||| (boolWord value <<< (index % 64))))

/-- `bit_vector_or_bit` / `bit_vector_xor_bit` -/
def orBit (buf : Words) (index : Nat) (value : Bool) : Option Words :=
  (buf[index / 64]?).map (fun w => buf.set (index / 64) (w ||| (boolWord value <<< (index % 64))))
def xorBit (buf : Words) (index : Nat) (value : Bool) : Option Words :=
  (buf[index / 64]?).map (fun w => buf.set (index / 64) (w ^^^ (boolWord value <<< (index % 64))))

/-- the `for (;;)` loop of `bit_vector_index_of`: `ws` are the words from `p` on, `base` = bit index of `ws[0]` -/
def indexOfLoop (flip : BitVec 64) : Words → BitVec 64 → Nat → Option Nat
  | [], bits, base => if bits ≠ 0#64 then some (base + ctz bits) else none   -- none: the C++ would read past the buffer
  | w :: rest', bits, base =>
    if bits ≠ 0#64 then some (base + ctz bits) else indexOfLoop flip rest' (w ^^^ flip) (base + 64)

/-- `bit_vector_index_of(buf, start, value)`; `none` = ran off the buffer -/
def indexOf (buf : Words) (start : Nat) (value : Bool) : Option Nat :=
  let flip : BitVec 64 := if value then 0#64 else ones
  match buf.drop (start / 64) with
  | [] => none
  | w :: rest => indexOfLoop flip rest ((w ^^^ flip) &&& (ones <<< (start % 64))) (start / 64 * 64)

/-- `BitVectorIterator`: the skip loop `while (!bit_word && (idx += 64) < end) bit_word = *ptr++` -/
def skipZero : Words → BitVec 64 → Nat → BitVec 64 × Nat × Words
  | [], bitWord, idx => if bitWord ≠ 0#64 then (bitWord, idx, []) else (bitWord, idx + 64, [])   -- `(idx += 64) < end` is false
  | w :: rest', bitWord, idx => if bitWord ≠ 0#64 then (bitWord, idx, w :: rest') else skipZero rest' w (idx + 64)

/-- all results of `while (it.has_next()) it.next()` for `BitVectorIterator(data, start)` -/
def iterLoop (fuel : Nat) (cur : BitVec 64) (idx : Nat) (rest : Words) (acc : List Nat) : List Nat :=
  match fuel with
  | 0 => acc.reverse
  | fuel + 1 =>
    if cur = 0#64 then acc.reverse else
    let bit := ctz cur
    let cur' := cur &&& (cur - 1#64)
    let (c2, i2, r2) := skipZero rest cur' idx
    iterLoop fuel c2 i2 r2 ((idx + bit) :: acc)

def iterate (data : Words) (start : Nat) : List Nat :=
  let idx := start / 64 * 64
  if idx < data.length * 64 then
    match data.drop (start / 64) with
    | [] => []
    | w :: rest =>
      let (c, i, r) := skipZero rest (w &&& (ones <<< (start % 64))) idx
      iterLoop (data.length * 64 + 1) c i r []
  else []

/-! ### ArenaBitSet -/

structure BitSet where
  data : Option Loc := none
  /-- the allocation, `capacity / 64` words -/
  words : Words := []
  size : Nat := 0
  cap : Nat := 0
  deriving Repr, Inhabited, DecidableEq

inductive Err where | ok | oom
  deriving DecidableEq, Repr, Inhabited

def wordsPerBits (n : Nat) : Nat := (n + 63) / 64

def setWord (ws : Words) (i : Nat) (w : BitVec 64) : Option Words :=
  if i < ws.length then some (ws.set i w) else none

def mask (bit : Nat) : BitVec 64 := (1#64 <<< bit) - 1#64

/-- `_clear_unused_bits()` -/
def clearUnused (b : BitSet) : Option BitSet :=
  if b.size % 64 = 0 then some b else
  match b.words[b.size / 64]? with
  | none => none
  | some w => some { b with words := b.words.set (b.size / 64) (w &&& mask (b.size % 64)) }

/-- the body of `realloc` with the allocator's answer as a parameter (kept separate so that proofs can unfold
`realloc` without making the kernel evaluate the allocator) -/
def reallocWith (r : State × Option Loc × Nat) (b : BitSet) (keep : Nat) : State × Option (Loc × Words × Nat) :=
  match r with
  | (a1, none, _) => (a1, none)
  | (a1, some p, allocated) =>
    let capBits := allocated * 8
    let nw := b.words.take keep ++ List.replicate (allocated / 8 - keep) 0#64
    let a2 := match b.data with
      | some old => freeReusable a1 old (b.cap / 8)
      | none => a1
    -- repaired (fixes/C18-8.patch): `_capacity = uint32_t(min(allocated_capacity_in_bits, 0xFFFFFFC0))`
    (a2, some (p, nw, min capBits 0xFFFFFFC0))

/-- allocation part shared by `_resize` and `copy_from`: returns (arena, data, words (old copied: `keep` words), capacity) -/
def realloc (a : State) (b : BitSet) (minCapBits keep : Nat) : State × Option (Loc × Words × Nat) :=
  reallocWith (allocReusable a (minCapBits / 8)) b keep

def fillWords (ws : Words) (i stop : Nat) (pattern : BitVec 64) : Option Words :=
  if stop ≤ ws.length then some (ws.take i ++ List.replicate (stop - i) pattern ++ ws.drop (max i stop)) else none

/-- `_resize(arena, new_size, ideal_capacity, new_bits_value)` (repaired) -/
def resizeI (a : State) (b : BitSet) (newSize ideal : Nat) (value : Bool) : Option (State × BitSet × Err) :=
  if newSize ≤ b.size then
    let bit := newSize % 64
    if bit ≠ 0 then
      match b.words[newSize / 64]? with
      | none => none
      | some w => some (a, { b with words := b.words.set (newSize / 64) (w &&& mask bit), size := newSize }, .ok)
    else some (a, { b with size := newSize }, .ok)
  else if newSize > 0xFFFFFFC0 then some (a, b, .oom)      -- repaired (fixes/C18-8.patch): not representable in 32 bits
  else
    let oldSize := b.size
    let r : Option (State × BitSet) :=
      if newSize > b.cap then
        let minCap := alignUp ideal 64 % u64
        if minCap < newSize then none
        else match realloc a b minCap (wordsPerBits oldSize) with
          | (a1, none) => some (a1, b)      -- flagged below through cap
          | (a1, some (p, nw, cap)) => some (a1, { b with data := some p, words := nw, cap := cap })
      else some (a, b)
    match r with
    | none => some (a, b, .oom)
    | some (a1, b1) =>
      if newSize > b1.cap then some (a1, b1, .oom) else
      let pattern : BitVec 64 := if value then ones else 0#64
      let idx := oldSize / 64
      let startBit := oldSize % 64
      let endBit := newSize % 64
      -- first word: data[idx++] |= pattern << start_bit
      let step1 : Option (Words × Nat) :=
        if startBit ≠ 0 then
          match b1.words[idx]? with
          | none => none
          | some w => some (b1.words.set idx (w ||| (pattern <<< startBit)), idx + 1)
        else some (b1.words, idx)
      match step1 with
      | none => none
      | some (ws1, idx1) =>
        let endIndex := wordsPerBits newSize
        match fillWords ws1 idx1 endIndex pattern with
        | none => none
        | some ws2 =>
          if endBit ≠ 0 then
            match ws2[endIndex - 1]? with
            | none => none
            | some w => some (a1, { b1 with words := ws2.set (endIndex - 1) (w &&& mask endBit), size := newSize % u32 }, .ok)
          else some (a1, { b1 with words := ws2, size := newSize % u32 }, .ok)

def resize (a : State) (b : BitSet) (newSize : Nat) (value : Bool) := resizeI a b newSize newSize value

def kThreshold : Nat := 16 * 1024 * 1024 * 8

/-- `_append(arena, value)` -/
def appendSlow (a : State) (b : BitSet) (value : Bool) : Option (State × BitSet × Err) :=
  let newSize := (b.size + 1) % u32
  let ideal0 := if b.cap < 128 then 128 else if b.cap ≤ kThreshold then (b.cap * 2) % u32 else (b.cap + kThreshold) % u32
  if ideal0 < b.cap then
    if b.size = u32 - 1 then some (a, b, .oom) else resizeI a b newSize newSize value
  else resizeI a b newSize ideal0 value

/-- `append(arena, value)` -/
def append (a : State) (b : BitSet) (value : Bool) : Option (State × BitSet × Err) :=
  if b.size ≥ b.cap then appendSlow a b value else
  let idx := b.size / 64
  let bit := b.size % 64
  match b.words[idx]? with
  | none => none
  | some w =>
    let w' := if bit = 0 then boolWord value <<< bit else w ||| (boolWord value <<< bit)
    some (a, { b with words := b.words.set idx w', size := b.size + 1 }, .ok)

/-- `copy_from(arena, other)` -/
def copyFrom (a : State) (b other : BitSet) : Option (State × BitSet × Err) :=
  let newSize := other.size
  if newSize = 0 then some (a, { b with size := 0 }, .ok) else
  let r : Option (State × BitSet) :=
    if newSize > b.cap then
      let minCap := alignUp newSize 64
      match realloc a b minCap 0 with
      | (a1, none) => some (a1, b)
      | (a1, some (p, nw, cap)) => some (a1, { b with data := some p, words := nw, cap := cap })
    else some (a, b)
  match r with
  | none => none
  | some (a1, b1) =>
    if newSize > b1.cap then some (a1, b1, .oom) else
    let n := wordsPerBits newSize
    if n ≤ b1.words.length ∧ n ≤ other.words.length then
      some (a1, { b1 with words := other.words.take n ++ b1.words.drop n, size := newSize }, .ok)
    else none

def truncate (b : BitSet) (n : Nat) : Option BitSet := clearUnused { b with size := min b.size n }
def clear (b : BitSet) : BitSet := { b with size := 0 }

def clearAll (b : BitSet) : Option BitSet :=
  let n := wordsPerBits b.size
  if n ≤ b.words.length then some { b with words := List.replicate n 0#64 ++ b.words.drop n } else none
def fillAll (b : BitSet) : Option BitSet :=
  let n := wordsPerBits b.size
  if n ≤ b.words.length then clearUnused { b with words := List.replicate n ones ++ b.words.drop n } else none

def zipHead (f : BitVec 64 → BitVec 64 → BitVec 64) (n : Nat) (xs ys : Words) : Option Words :=
  if n ≤ xs.length ∧ n ≤ ys.length then some (List.zipWith f (xs.take n) (ys.take n) ++ xs.drop n) else none

/-- `and_(other)` -/
def and_ (b other : BitSet) : Option BitSet :=
  let tw := wordsPerBits b.size
  let ow := wordsPerBits other.size
  let c := min tw ow
  match zipHead (· &&& ·) c b.words other.words with
  | none => none
  | some ws => if tw ≤ ws.length then some { b with words := ws.take c ++ List.replicate (tw - c) 0#64 ++ ws.drop tw } else none
/-- `and_not(other)` -/
def andNot (b other : BitSet) : Option BitSet :=
  (zipHead (fun x y => x &&& ~~~ y) (wordsPerBits (min b.size other.size)) b.words other.words).map fun ws => { b with words := ws }
/-- `or_(other)` -/
def or_ (b other : BitSet) : Option BitSet :=
  match zipHead (· ||| ·) (wordsPerBits (min b.size other.size)) b.words other.words with
  | none => none
  | some ws => clearUnused { b with words := ws }

/-- `equals(other)` -/
def equals (b other : BitSet) : Bool :=
  b.size == other.size && (b.words.take (wordsPerBits b.size) == other.words.take (wordsPerBits b.size))

/-- `release(arena)` -/
def release (a : State) (b : BitSet) : State × BitSet :=
  match b.data with
  | some p => (freeReusable a p (b.cap / 8), {})
  | none => (a, b)

/-- abstraction: the bits `0 .. size-1` -/
def bitsOf (ws : Words) (n : Nat) : List Bool :=
  (List.range n).map fun i => (ws.getD (i / 64) 0#64).getLsbD (i % 64)

end AsmjitVerif.Bits
