/-
  Model of the calling-convention layer of AsmJit (C06), written after

    asmjit/core/type.h / type.cpp         TypeUtils::is_*, size_of, deabstract
    asmjit/core/func.h                    CallConv, FuncValue, FuncValuePack, FuncDetail
    asmjit/core/func.cpp                  CallConv::init, FuncDetail::init
    asmjit/x86/x86func.cpp                init_call_conv, unpack_values, init_func_detail (default / Win64 / vectorcall)
    asmjit/arm/a64func.cpp                init_call_conv, init_func_detail (default / Apple)

  The model follows the code *with the repairs fixes/C06-1 .. C06-5 and C06-14 .. C06-16 applied* (AGENT_GUIDE: the model follows the
  repaired code).  Core-only imports: the driver links this file.
-/
namespace AsmjitVerif.CallConv

/-! ### TypeId (type.h) – a `Nat` below 256 -/

def tVoid : Nat := 0
def tInt8 : Nat := 34
def tUInt8 : Nat := 35
def tInt16 : Nat := 36
def tUInt16 : Nat := 37
def tInt32 : Nat := 38
def tUInt32 : Nat := 39
def tInt64 : Nat := 40
def tUInt64 : Nat := 41
def tFloat32 : Nat := 42
def tFloat64 : Nat := 43
def tFloat80 : Nat := 44

def isBetween (t a b : Nat) : Bool := a ≤ t && t ≤ b
def isAbstract (t : Nat) : Bool := isBetween t 32 33
def isInt (t : Nat) : Bool := isBetween t 32 41
def isFloat (t : Nat) : Bool := isBetween t 42 44
def isMask (t : Nat) : Bool := isBetween t 45 48
def isMmx (t : Nat) : Bool := isBetween t 49 50
def isVec (t : Nat) : Bool := isBetween t 51 100
def isVec32 (t : Nat) : Bool := isBetween t 51 60
def isVec64 (t : Nat) : Bool := isBetween t 61 70
def isVec128 (t : Nat) : Bool := isBetween t 71 80
def isVec256 (t : Nat) : Bool := isBetween t 81 90
def isVec512 (t : Nat) : Bool := isBetween t 91 100

/-- `TypeUtils::size_of` (type.cpp `SizeOfTypeId`) -/
def tySize (t : Nat) : Nat :=
  if t = 34 || t = 35 then 1 else if t = 36 || t = 37 then 2 else if t = 38 || t = 39 then 4
  else if t = 40 || t = 41 then 8 else if t = 42 then 4 else if t = 43 then 8 else if t = 44 then 10
  else if t = 45 then 1 else if t = 46 then 2 else if t = 47 then 4 else if t = 48 then 8
  else if t = 49 then 4 else if t = 50 then 8
  else if isVec32 t then 4 else if isVec64 t then 8 else if isVec128 t then 16 else if isVec256 t then 32
  else if isVec512 t then 64 else 0

/-- `TypeUtils::deabstract(type_id, deabstract_delta_of_size(register_size))` -/
def deabstract (regSize t : Nat) : Nat :=
  if isAbstract t then t + (if regSize ≥ 8 then 8 else 6) else t

def alignUp (x a : Nat) : Nat := (x + (a - 1)) / a * a

/-! ### RegType / RegGroup numbers (operand.h) -/
def rtGp32 : Nat := 5
def rtGp64 : Nat := 6
def rtVec32 : Nat := 9
def rtVec64 : Nat := 10
def rtVec128 : Nat := 11
def rtVec256 : Nat := 12
def rtVec512 : Nat := 13
def rtMm : Nat := 28
def rtSt : Nat := 29
def idBad : Nat := 255

inductive Arch | x86 | x64 | a64
  deriving DecidableEq, Repr

structure Env where
  arch : Arch
  win : Bool      -- is_platform_windows() || is_msvc_abi()
  darwin : Bool   -- is_darwin_abi()
  deriving DecidableEq, Repr

def Env.regSize (e : Env) : Nat := match e.arch with | .x86 => 4 | _ => 8

/-! ### CallConv record (func.h) -/

def fCalleePops : Nat := 0x01
def fIndirectVec : Nat := 0x02
def fFloatsByVec : Nat := 0x04
def fVecByStackIfVA : Nat := 0x08
def fMmxByGp : Nat := 0x10
def fMmxByXmm : Nat := 0x20
def fVarArgCompat : Nat := 0x80

structure CallConv where
  arch : Arch
  id : Nat
  strategy : Nat := 0          -- 0 default, 1 Win64, 2 vectorcall (x64), 3 Apple AArch64
  redZone : Nat := 0
  spillZone : Nat := 0
  naturalAlign : Nat := 0
  flags : Nat := 0
  gpOrder : List Nat := []     -- `_passed_order[g].id[]` up to the first 0xFF
  vecOrder : List Nat := []
  maskOrder : List Nat := []
  mmOrder : List Nat := []
  presGp : Nat := 0
  presVec : Nat := 0
  srSize : List Nat := [0, 0, 0, 0]
  srAlign : List Nat := [0, 0, 0, 0]
  deriving Repr

def CallConv.hasFlag (cc : CallConv) (f : Nat) : Bool := cc.flags &&& f != 0

/-- `cc._passed_order[g].id[pos]` guarded by `pos < kMaxRegArgsPerGroup` (16); absent = 0xFF -/
def orderAt (l : List Nat) (pos : Nat) : Nat := if pos < 16 then l.getD pos idBad else idBad

def maskOf (l : List Nat) : Nat := l.foldl (fun m r => m ||| (1 <<< r)) 0
def lsbMask (n : Nat) : Nat := 2 ^ n - 1

/-- x86 register ids -/
def zax : Nat := 0
def zcx : Nat := 1
def zdx : Nat := 2
def zbx : Nat := 3
def zsp : Nat := 4
def zbp : Nat := 5
def zsi : Nat := 6
def zdi : Nat := 7

def cdeclLike (id : Nat) : Bool := id = 0 || id = 1 || id = 2 || id = 4 || id = 5 || id = 6 || id = 7

/-- x86/x86func.cpp `init_call_conv`, 32-bit half -/
def initCallConvX86 (win : Bool) (ccid : Nat) : Option CallConv :=
  let base : CallConv := { arch := .x86, id := ccid, srSize := [4, 16, 8, 8], srAlign := [4, 16, 8, 8],
                           presGp := maskOf [zbx, zsp, zbp, zsi, zdi], naturalAlign := 4 }
  let std (cc : CallConv) (id : Nat) : CallConv :=
    let cc := { cc with mmOrder := [0, 1, 2], vecOrder := [0, 1, 2], flags := cc.flags ||| fVecByStackIfVA, id := id }
    if id = 0 then { cc with flags := cc.flags ||| fVarArgCompat } else cc
  if ccid = 0 then some (std base 0)
  else if ccid = 1 then some (std { base with flags := fCalleePops } 1)
  else if ccid = 2 then some (std { base with flags := fCalleePops, gpOrder := [zcx, zdx] } 2)
  else if ccid = 3 then some (std { base with flags := fCalleePops, gpOrder := [zcx, zdx], vecOrder := [0, 1, 2, 3, 4, 5] } 3)
  else if ccid = 4 then
    if win then some (std { base with flags := fCalleePops, gpOrder := [zcx] } 4) else some (std base 0)
  else if ccid = 5 then some (std { base with gpOrder := [zax] } 5)
  else if ccid = 6 then some (std { base with gpOrder := [zax, zdx] } 6)
  else if ccid = 7 then some (std { base with gpOrder := [zax, zdx, zcx] } 7)
  else if ccid = 16 || ccid = 17 || ccid = 18 then
    let n := ccid - 16 + 2
    some { base with flags := fFloatsByVec, gpOrder := [zax, zdx, zcx, zsi, zdi], vecOrder := [0, 1, 2, 3, 4, 5, 6, 7],
                     maskOrder := [0, 1, 2, 3, 4, 5, 6, 7], mmOrder := [0, 1, 2, 3, 4, 5, 6, 7],
                     presGp := lsbMask 8, presVec := lsbMask 8 - lsbMask n, naturalAlign := 16 }
  else none

/-- the `std` helper above overrides `vecOrder` of vectorcall: in the C++ the "standard convention" block runs *after* the switch
    and calls `set_passed_order(kVec, 0, 1, 2)` for every standard convention – including vectorcall. -/
example : (initCallConvX86 true 3).map (·.vecOrder) = some [0, 1, 2] := by decide

/-- x86/x86func.cpp `init_call_conv`, 64-bit half -/
def initCallConvX64 (win : Bool) (ccid : Nat) : Option CallConv :=
  let base : CallConv := { arch := .x64, id := ccid, srSize := [8, 16, 8, 8], srAlign := [8, 16, 8, 8] }
  let id := if cdeclLike ccid then (if win then 33 else 32) else ccid
  if id = 32 then
    some { base with id := 32, flags := fFloatsByVec ||| fMmxByXmm ||| fVarArgCompat, naturalAlign := 16, redZone := 128,
                     gpOrder := [zdi, zsi, zdx, zcx, 8, 9], vecOrder := [0, 1, 2, 3, 4, 5, 6, 7],
                     presGp := maskOf [zbx, zsp, zbp, 12, 13, 14, 15] }
  else if id = 33 then
    some { base with id := 33, strategy := 1, flags := fFloatsByVec ||| fIndirectVec ||| fMmxByGp ||| fVarArgCompat,
                     naturalAlign := 16, spillZone := 32, gpOrder := [zcx, zdx, 8, 9], vecOrder := [0, 1, 2, 3],
                     presGp := maskOf [zbx, zsp, zbp, zsi, zdi, 12, 13, 14, 15],
                     presVec := maskOf [6, 7, 8, 9, 10, 11, 12, 13, 14, 15] }
  else if id = 3 then
    some { base with id := 3, strategy := 2, flags := fFloatsByVec ||| fMmxByGp, naturalAlign := 16, spillZone := 48,
                     gpOrder := [zcx, zdx, 8, 9], vecOrder := [0, 1, 2, 3, 4, 5],
                     presGp := maskOf [zbx, zsp, zbp, zsi, zdi, 12, 13, 14, 15],
                     presVec := maskOf [6, 7, 8, 9, 10, 11, 12, 13, 14, 15] }
  else if id = 16 || id = 17 || id = 18 then
    let n := id - 16 + 2
    some { base with flags := fFloatsByVec, naturalAlign := 16, gpOrder := [zax, zdx, zcx, zsi, zdi],
                     vecOrder := [0, 1, 2, 3, 4, 5, 6, 7], maskOrder := [0, 1, 2, 3, 4, 5, 6, 7],
                     mmOrder := [0, 1, 2, 3, 4, 5, 6, 7], presGp := lsbMask 16, presVec := 0xFFFFFFFF - lsbMask n }
  else none

/-- arm/a64func.cpp `init_call_conv` -/
def initCallConvA64 (darwin : Bool) (ccid : Nat) : Option CallConv :=
  let base : CallConv := { arch := .a64, id := ccid, strategy := if darwin then 3 else 0, srSize := [8, 8, 0, 0],
                           srAlign := [16, 16, 8, 1], gpOrder := [0, 1, 2, 3, 4, 5, 6, 7], vecOrder := [0, 1, 2, 3, 4, 5, 6, 7],
                           naturalAlign := 16 }
  if cdeclLike ccid || ccid = 3 then
    some { base with id := 0, presGp := maskOf [18, 19, 20, 21, 22, 23, 24, 25, 26, 27, 28, 29, 30],
                     presVec := maskOf [8, 9, 10, 11, 12, 13, 14, 15] }
  else
    some { base with srSize := [8, 16, 0, 0], presGp := lsbMask 31 - lsbMask 4, presVec := 0xFFFFFFFF - lsbMask 4 }

/-- core/func.cpp `CallConv::init` -/
def initCallConv (e : Env) (ccid : Nat) : Option CallConv :=
  match e.arch with
  | .x86 => initCallConvX86 e.win ccid
  | .x64 => initCallConvX64 e.win ccid
  | .a64 => initCallConvA64 e.darwin ccid

/-! ### FuncValue / FuncDetail (func.h) -/

structure FuncValue where
  typeId : Nat
  isReg : Bool := false
  isStack : Bool := false
  isIndirect : Bool := false
  regType : Nat := 0
  regId : Nat := 0
  stackOffset : Nat := 0
  deriving DecidableEq, Repr

def FuncValue.ofType (t : Nat) : FuncValue := { typeId := t }
def FuncValue.reg (t rt id : Nat) (ind : Bool := false) : FuncValue :=
  { typeId := t, isReg := true, regType := rt, regId := id, isIndirect := ind }
def FuncValue.stack (t off : Nat) (ind : Bool := false) : FuncValue :=
  { typeId := t, isStack := true, stackOffset := off, isIndirect := ind }
def FuncValue.isAssigned (v : FuncValue) : Bool := v.isReg || v.isStack

structure Detail where
  argStackSize : Nat
  rets : List FuncValue
  args : List (List FuncValue)
  usedGp : Nat
  usedVec : Nat
  deriving DecidableEq, Repr

/-- x86emithelper_p.h `vec_type_id_to_reg_type` -/
def vecTypeIdToRegType (t : Nat) : Nat := if t ≤ 80 then rtVec128 else if t ≤ 90 then rtVec256 else rtVec512

/-- x86func.cpp `unpack_values` applied to a pack holding one type -/
def unpack (arch : Arch) (t : Nat) : List Nat :=
  if (t = tInt64 || t = tUInt64) && arch = .x86 then [tUInt32, t - 2] else [t]

def gpReturnIndex (i : Nat) : Nat := if i = 0 then zax else if i = 1 then zdx else idBad

/-- return-value switch of x86 `init_func_detail`; `none` = `kInvalidState` -/
def x86Ret (cc : CallConv) (i t : Nat) : Option FuncValue :=
  let is32 := cc.arch = .x86
  if t = tInt64 || t = tUInt64 then
    if gpReturnIndex i ≠ idBad then some (.reg t rtGp64 (gpReturnIndex i)) else none
  else if t = tInt8 || t = tInt16 || t = tInt32 then
    if gpReturnIndex i ≠ idBad then some (.reg tInt32 rtGp32 (gpReturnIndex i)) else none
  else if t = tUInt8 || t = tUInt16 || t = tUInt32 then
    if gpReturnIndex i ≠ idBad then some (.reg tUInt32 rtGp32 (gpReturnIndex i)) else none
  else if t = tFloat32 || t = tFloat64 then some (.reg t (if is32 then rtSt else rtVec128) i)
  else if t = tFloat80 then some (.reg t rtSt i)
  else if isMmx t then
    if is32 then some (.reg t rtMm i)
    else if cc.strategy = 0 then some (.reg t rtVec128 i)
    else if gpReturnIndex i = idBad then none else some (.reg t rtGp64 (gpReturnIndex i))
  else some (.reg t (vecTypeIdToRegType t) i)

def retLoop (f : Nat → Nat → Option FuncValue) : Nat → List Nat → Option (List FuncValue)
  | _, [] => some []
  | i, t :: ts =>
    if t = tVoid then some [] else
    match f i t, retLoop f (i + 1) ts with
    | some v, some vs => some (v :: vs)
    | _, _ => none

/-- loop state of the argument classification -/
structure St where
  gpPos : Nat := 0
  vecPos : Nat := 0
  stackOffset : Nat := 0
  usedGp : Nat := 0
  usedVec : Nat := 0
  deriving DecidableEq, Repr

/-- one value of the default strategy of x86 `init_func_detail` (with fixes C06-1, C06-4, C06-14, C06-15, C06-16);
    `wholeOnStack`: the value is half of a 64-bit integer that `__fastcall` / `__thiscall` pass on the stack as a whole -/
def x86DefaultValue (cc : CallConv) (hasVA : Bool) (regSize : Nat) (wholeOnStack : Bool) (s : St) (t : Nat) : St × FuncValue :=
  if isInt t then
    let regId := if wholeOnStack then idBad else orderAt cc.gpOrder s.gpPos
    if regId ≠ idBad then
      ({ s with gpPos := s.gpPos + 1, usedGp := s.usedGp ||| (1 <<< regId) },
       .reg t (if t ≤ tUInt32 then rtGp32 else rtGp64) regId)
    else
      let size := max (tySize t) regSize
      ({ s with stackOffset := s.stackOffset + size }, .stack t s.stackOffset)
  else if isFloat t || isVec t || (isMmx t && cc.hasFlag fMmxByXmm) then
    let regId := orderAt cc.vecOrder s.vecPos
    let regId := if isFloat t then (if !cc.hasFlag fFloatsByVec || t = tFloat80 then idBad else regId)
                 else (if hasVA && cc.hasFlag fVecByStackIfVA then idBad else regId)
    if regId ≠ idBad then
      ({ s with vecPos := s.vecPos + 1, usedVec := s.usedVec ||| (1 <<< regId) }, .reg t (vecTypeIdToRegType t) regId)
    else
      let size := if t = tFloat80 then (if regSize = 8 then 16 else 12) else max (tySize t) regSize
      let off := if size ≥ 16 then alignUp s.stackOffset size else s.stackOffset
      ({ s with stackOffset := off + size }, .stack t off)
  else (s, .ofType t)

/-- one value of the Win64 / vectorcall strategy (with fixes C06-2 and C06-3); `i` = argument index -/
def x86WinValue (cc : CallConv) (i : Nat) (s : St) (t : Nat) : St × FuncValue :=
  let isVectorCall := cc.strategy = 2
  let size := tySize t
  if isInt t || isMmx t then
    let regId := orderAt cc.gpOrder i
    if regId ≠ idBad then
      ({ s with usedGp := s.usedGp ||| (1 <<< regId) }, .reg t (if size ≤ 4 && !isMmx t then rtGp32 else rtGp64) regId)
    else ({ s with stackOffset := s.stackOffset + 8 }, .stack t s.stackOffset)
  else if isFloat t || isVec t then
    let regId := orderAt cc.vecOrder i
    if regId ≠ idBad && (isFloat t || isVectorCall) then
      ({ s with usedVec := s.usedVec ||| (1 <<< regId) }, .reg t (vecTypeIdToRegType t) regId)
    else if isFloat t then ({ s with stackOffset := s.stackOffset + 8 }, .stack t s.stackOffset)
    else
      let gpId := orderAt cc.gpOrder i
      if gpId ≠ idBad then (s, .reg t rtGp64 gpId true)
      else ({ s with stackOffset := s.stackOffset + 8 }, .stack t s.stackOffset true)
  else (s, .ofType t)

/-- the values of one pack -/
def packLoop (f : St → Nat → St × FuncValue) : St → List Nat → St × List FuncValue
  | s, [] => (s, [])
  | s, t :: ts =>
    let (s1, v) := f s t
    let (s2, vs) := packLoop f s1 ts
    (s2, v :: vs)

/-- the argument loop of x86 `init_func_detail`; `i` = index of the first argument of the list -/
def x86ArgLoop (cc : CallConv) (hasVA : Bool) (regSize : Nat) : Nat → St → List Nat → St × List (List FuncValue)
  | _, s, [] => (s, [])
  | i, s, t :: ts =>
    let wholeOnStack := decide ((unpack cc.arch t).length > 1) && (cc.id = 2 || cc.id = 4)
    let f := if cc.strategy = 1 || cc.strategy = 2 then x86WinValue cc i else x86DefaultValue cc hasVA regSize wholeOnStack
    let (s1, p) := packLoop f s (unpack cc.arch t)
    let (s2, ps) := x86ArgLoop cc hasVA regSize (i + 1) s1 ts
    (s2, p :: ps)

/-- a64func.cpp `reg_type_from_fp_or_vec_type_id`; 0 = `RegType::kNone` -/
def a64FpVecRegType (t : Nat) : Nat :=
  if t = tFloat32 then rtVec32 else if t = tFloat64 then rtVec64 else if isVec32 t then rtVec32
  else if isVec64 t then rtVec64 else if isVec128 t then rtVec128 else 0

def a64Ret (i t : Nat) : Option FuncValue :=
  if t = tInt8 || t = tInt16 || t = tInt32 then some (.reg tInt32 rtGp32 i)
  else if t = tUInt8 || t = tUInt16 || t = tUInt32 then some (.reg tUInt32 rtGp32 i)
  else if t = tInt64 || t = tUInt64 then some (.reg t rtGp64 i)
  else if a64FpVecRegType t = 0 then none else some (.reg t (a64FpVecRegType t) i)

/-- one argument of a64 `init_func_detail` (with fix C06-5); `none` = `kInvalidRegType` -/
def a64Value (cc : CallConv) (s : St) (t : Nat) : Option (St × FuncValue) :=
  let minSize := if cc.strategy = 3 then 1 else 8
  if isInt t then
    let regId := orderAt cc.gpOrder s.gpPos
    if regId ≠ idBad then
      some ({ s with gpPos := s.gpPos + 1, usedGp := s.usedGp ||| (1 <<< regId) },
            .reg t (if t ≤ tUInt32 then rtGp32 else rtGp64) regId)
    else
      let size := max (tySize t) minSize
      let off := alignUp s.stackOffset (min size 16)
      some ({ s with stackOffset := off + size }, .stack t off)
  else if isFloat t || isVec t then
    let regId := orderAt cc.vecOrder s.vecPos
    if regId ≠ idBad then
      if a64FpVecRegType t = 0 then none else
      some ({ s with vecPos := s.vecPos + 1, usedVec := s.usedVec ||| (1 <<< regId) }, .reg t (a64FpVecRegType t) regId)
    else
      let size := max (tySize t) minSize
      let off := alignUp s.stackOffset (min size 16)
      some ({ s with stackOffset := off + size }, .stack t off)
  else some (s, .ofType t)

def a64ArgLoop (cc : CallConv) : St → List Nat → Option (St × List (List FuncValue))
  | s, [] => some (s, [])
  | s, t :: ts =>
    match a64Value cc s t with
    | none => none
    | some (s1, v) =>
      match a64ArgLoop cc s1 ts with
      | none => none
      | some (s2, vs) => some (s2, [v] :: vs)

structure Signature where
  ccid : Nat
  vaIndex : Nat := 255
  ret : Nat := 0
  args : List Nat := []
  deriving DecidableEq, Repr

/-- core/func.cpp `FuncDetail::init` (on a fresh `FuncDetail`) -/
def initFuncDetail (e : Env) (sig : Signature) : Except String (CallConv × Detail) :=
  if sig.args.length > 32 then .error "InvalidArgument" else
  match initCallConv e sig.ccid with
  | none => .error "InvalidArgument"
  | some cc =>
    let rs := e.regSize
    let args := sig.args.map (deabstract rs)
    let ret := deabstract rs sig.ret
    match cc.arch with
    | .a64 =>
      match (if ret = tVoid then some [] else retLoop a64Ret 0 [ret]) with
      | none => .error "InvalidRegType"
      | some rets =>
        match a64ArgLoop cc {} args with
        | none => .error "InvalidRegType"
        | some (s, vs) => .ok (cc, { argStackSize := alignUp s.stackOffset 8, rets := rets, args := vs, usedGp := s.usedGp, usedVec := s.usedVec })
    | _ =>
      match (if ret = tVoid then some [] else retLoop (x86Ret cc) 0 (unpack cc.arch ret)) with
      | none => .error "InvalidState"
      | some rets =>
        let (s, vs) := x86ArgLoop cc (sig.vaIndex ≠ 255) rs 0 { stackOffset := cc.spillZone } args
        .ok (cc, { argStackSize := s.stackOffset, rets := rets, args := vs, usedGp := s.usedGp, usedVec := s.usedVec })

end AsmjitVerif.CallConv
