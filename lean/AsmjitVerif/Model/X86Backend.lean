/-
C01 model, backend layer: the shared low-level emitters of asmjit/x86/x86assembler.cpp (`Assembler::_emit`, labels
EmitX86Op / EmitX86OpReg / EmitX86R / EmitX86M / EmitModSib / EmitModVSib / EmitVexOp / EmitVexEvexR / EmitVexEvexM and
X86BufferWriter::emit_pp / emit_mm_and_opcode / emit_immediate / emit_imm_byte_or_dword), transcribed statement by
statement with the same 32-bit words, shifts and magic masks. Comments name the C++ they follow.

Core-only (the driver links it). `BitVec 32` is spelled literally everywhere so that `bv_decide` can reify the terms.
Not modelled (answered `unmodelled`): relocation paths (absolute address without base address, 32-bit label operands),
unbound labels (fix-ups are C03/C17's subject).
-/
namespace Model.X86

abbrev Byte := BitVec 8

inductive Err
  | invalidInstruction | invalidRexPrefix | invalidEROrSAE | invalidAddress | invalidAddressIndex | invalidAddress64Bit
  | invalidBroadcast | invalidDisplacement | invalidLabel | unmodelled | invalidPhysId | invalidLock | invalidRep
  | invalidXAcquire | invalidXRelease | operandSizeMismatch | ambiguousOperandSize | invalidImmediate | invalidSegment
  deriving DecidableEq, Repr

/-- numeric `Error` codes of asmjit/core/globals.h (checked against the harness answers by the correspondence) -/
def Err.code : Err → Nat
  | .invalidInstruction => 26 | .invalidRexPrefix => 33 | .invalidEROrSAE => 36 | .invalidAddress => 37
  | .invalidAddressIndex => 38 | .invalidAddress64Bit => 40 | .invalidBroadcast => 35 | .invalidDisplacement => 44
  | .invalidLabel => 11 | .unmodelled => 0 | .invalidPhysId => 46 | .invalidLock => 29 | .invalidRep => 32
  | .invalidXAcquire => 30 | .invalidXRelease => 31 | .operandSizeMismatch => 48 | .ambiguousOperandSize => 49
  | .invalidImmediate => 42 | .invalidSegment => 45

/-! ### Opcode word layout (x86opcode_p.h `Opcode::Bits`) -/
def kMM_Shift : Nat := 8
def kMM_Mask : BitVec 32 := 0x1F00#32
def kMM_0F : BitVec 32 := 0x100#32
def kCDSHL_Shift : Nat := 13
def kCDSHL_Mask : BitVec 32 := 0xE000#32
def kCDTT_Shift : Nat := 16
def kModO_Shift : Nat := 18
def kPP_Shift : Nat := 21
def kPP_66 : BitVec 32 := 0x200000#32
def kW : BitVec 32 := 0x08000000#32
def kW_Shift : Nat := 27
def kLL_Mask : BitVec 32 := 0x60000000#32
def kLL_Shift : Nat := 29
def kMM_ForceEvex : BitVec 32 := 0x1000#32
def kFPU_2B_Shift : Nat := 10

/-! ### InstOptions (core/inst.h) -/
def oShortForm : BitVec 32 := 0x10#32
def oLongForm : BitVec 32 := 0x20#32
def oModMR : BitVec 32 := 0x100#32
def oModRM : BitVec 32 := 0x200#32
def oVex3 : BitVec 32 := 0x400#32
def oVex : BitVec 32 := 0x800#32
def oEvex : BitVec 32 := 0x1000#32
def oLock : BitVec 32 := 0x2000#32
def oRep : BitVec 32 := 0x4000#32
def oRepne : BitVec 32 := 0x8000#32
def oXAcquire : BitVec 32 := 0x10000#32
def oXRelease : BitVec 32 := 0x20000#32
def oER : BitVec 32 := 0x40000#32
def oSAE : BitVec 32 := 0x80000#32
def oZMask : BitVec 32 := 0x800000#32
def oRex : BitVec 32 := 0x40000000#32
def oInvalidRex : BitVec 32 := 0x80000000#32

/-! ### X86BufferWriter -/

/-- `opcode_pp_table` -/
def opcodePP (i : BitVec 32) : Byte :=
  if i == 1#32 then 0x66#8 else if i == 2#32 then 0xF3#8 else if i == 3#32 then 0xF2#8 else if i == 7#32 then 0x9B#8 else 0x00#8

/-- `emit_pp`: pp_index = (opcode >> 21) & 7; emit8_if(table[pp_index], pp_index != 0) -/
def emitPP (opcode : BitVec 32) : List Byte :=
  let i := (opcode >>> 21) &&& 7#32
  if i != 0#32 then [opcodePP i] else []

/-- `emit_mm_and_opcode` with `opcode_mm_table` (#1 0F, #2 0F 38, #3 0F 3A, #4 0F 01, others nothing) -/
def emitMMAndOpcode (opcode : BitVec 32) : List Byte :=
  let mm := (opcode &&& kMM_Mask) >>> 8
  let esc : List Byte :=
    if mm == 1#32 then [0x0F#8] else if mm == 2#32 then [0x0F#8, 0x38#8] else if mm == 3#32 then [0x0F#8, 0x3A#8]
    else if mm == 4#32 then [0x0F#8, 0x01#8] else []
  esc ++ [opcode.truncate 8]

/-- `emit_immediate`: little-endian, `size` bytes (0..8) -/
def emitImmediate (imm : BitVec 64) : Nat → List Byte
  | 0 => []
  | n + 1 => imm.truncate 8 :: emitImmediate (imm >>> 8) n

/-- `emit_imm_byte_or_dword` (size 0, 1 or 4) -/
def emitImmByteOrDword (imm : BitVec 64) (size : Nat) : List Byte :=
  if size == 0 then [] else if size == 1 then [imm.truncate 8] else emitImmediate imm 4

def le32 (v : BitVec 32) : List Byte := [v.truncate 8, (v >>> 8).truncate 8, (v >>> 16).truncate 8, (v >>> 24).truncate 8]
def le16 (v : BitVec 32) : List Byte := [v.truncate 8, (v >>> 8).truncate 8]

/-- `segment_prefix_table` -/
def segmentPrefix (seg : Nat) : List Byte :=
  match seg with
  | 1 => [0x26#8] | 2 => [0x2E#8] | 3 => [0x36#8] | 4 => [0x3E#8] | 5 => [0x64#8] | 6 => [0x65#8] | _ => []

/-- `Opcode::extract_rex(options)` = (v | options) >> 24 -/
def extractRex (opcode options : BitVec 32) : BitVec 32 := (opcode ||| options) >>> 24

/-- the REX block shared by all legacy emitters: `is_rex_invalid`, mask, `emit8_if(rex | 0x40, rex != 0)` -/
def emitRex (rex : BitVec 32) : Except Err (List Byte) :=
  if rex > 0x80#32 then .error .invalidRexPrefix
  else
    let rex := rex &&& 0x7F#32
    .ok (if rex != 0#32 then [(rex ||| 0x40#32).truncate 8] else [])

def encodeMod (m o rm : BitVec 32) : BitVec 32 := (m <<< 6) + (o <<< 3) + rm
def encodeSib (s i b : BitVec 32) : BitVec 32 := (s <<< 6) + (i <<< 3) + b

/-! ### Memory operand as the emitters read it -/

/-- RegType values (core/operand.h) -/
def rtNone : Nat := 0
def rtLabel : Nat := 1
def rtGp16 : Nat := 4
def rtGp32 : Nat := 5
def rtGp64 : Nat := 6
def rtVec128 : Nat := 11
def rtVec256 : Nat := 12
def rtVec512 : Nat := 13
def rtPC : Nat := 31

structure Mem where
  size : Nat
  baseType : Nat
  baseId : Nat          -- register id or label position
  indexType : Nat
  indexId : Nat
  shift : Nat
  offset : BitVec 64
  seg : Nat
  bcst : Nat
  addrType : Nat        -- 0 default, 1 abs, 2 rel
  deriving Repr, Inhabited

def Mem.offLo32 (m : Mem) : BitVec 32 := m.offset.truncate 32
def Mem.offHi32 (m : Mem) : BitVec 32 := (m.offset >>> 32).truncate 32

/-- `X86MemInfo_T<X>::kValue` (B = base type, I = index type) -/
def kX86MemInfo_BaseGp : BitVec 32 := 0x01#32
def kX86MemInfo_Index : BitVec 32 := 0x02#32
def kX86MemInfo_BaseLabel : BitVec 32 := 0x10#32
def kX86MemInfo_BaseRip : BitVec 32 := 0x20#32
def kX86MemInfo_67H_X86 : BitVec 32 := 0x40#32
def kX86MemInfo_67H_X64 : BitVec 32 := 0x80#32

def memInfo (b i : Nat) : BitVec 32 :=
  let kBase : BitVec 32 := if b ≥ rtGp16 && b ≤ rtGp64 then 0x01#32 else if b == rtPC then 0x20#32 else if b == rtLabel then 0x10#32 else 0#32
  let kIndex : BitVec 32 := if (i ≥ rtGp16 && i ≤ rtGp64) || (i ≥ rtVec128 && i ≤ rtVec512) then 0x02#32 else 0#32
  let k67 : BitVec 32 :=
    if b == rtGp16 && i == rtNone then 0x40#32 else if b == rtGp32 && i == rtNone then 0x80#32
    else if b == rtNone && i == rtGp16 then 0x40#32 else if b == rtNone && i == rtGp32 then 0x80#32
    else if b == rtGp16 && i == rtGp16 then 0x40#32 else if b == rtGp32 && i == rtGp32 then 0x80#32
    else if b == rtGp16 && i == rtVec128 then 0x40#32 else if b == rtGp32 && i == rtVec128 then 0x80#32
    else if b == rtGp16 && i == rtVec256 then 0x40#32 else if b == rtGp32 && i == rtVec256 then 0x80#32
    else if b == rtGp16 && i == rtVec512 then 0x40#32 else if b == rtGp32 && i == rtVec512 then 0x80#32
    else if b == rtLabel && i == rtGp16 then 0x40#32 else if b == rtLabel && i == rtGp32 then 0x80#32 else 0#32
  kBase ||| kIndex ||| k67 ||| 0x04#32 ||| 0x08#32

/-- per-emit context: mode, position, what the instruction's CommonInfo says -/
structure Ctx where
  mode64 : Bool
  base : Option (BitVec 64)   -- base address of the code (section offset is 0)
  off : Nat                   -- offset of the first byte of this instruction in the buffer
  isLea : Bool
  tsib : Bool
  vsib : Bool
  vexFlag : Bool              -- InstFlags::kVex
  preferEvex : Bool
  hasER : Bool
  hasSAE : Bool
  bcstSize : Nat              -- CommonInfo::broadcast_size() (0, 2, 4, 8)
  extraId : BitVec 32         -- _extra_reg.id()
  deriving Repr, Inhabited

def Ctx.aoMask (c : Ctx) : BitVec 32 := if c.mode64 then 0x80#32 else 0x40#32
def Ctx.hasBcst (c : Ctx) : Bool := c.bcstSize != 0

def isInt8 (v : BitVec 32) : Bool := (0xFFFFFF80#32).sle v && v.sle 0x7F#32
def isInt32of64 (v : BitVec 64) : Bool := (0xFFFFFFFF80000000#64).sle v && v.sle 0x7FFFFFFF#64

/-- the disp8 / disp32 choice shared by the [BASE(+INDEX)+DISP] paths:
`cd_offset = rel_offset >> cd_shift; is_int_n<8>(cd_offset) && rel_offset == int32(uint32(cd_offset) << cd_shift)` -/
def cdisp8 (relOffset : BitVec 32) (cdShift : BitVec 32) : Option (BitVec 32) :=
  let cd := relOffset.sshiftRight' cdShift
  if isInt8 cd && relOffset == (cd <<< cdShift) then some cd else none

def cdShiftOf (opcode : BitVec 32) : BitVec 32 := (opcode &&& kCDSHL_Mask) >>> 13

/-- `mod16_base_table` / `mod16_base_index_table` -/
def mod16Base (r : BitVec 32) : BitVec 32 :=
  if r == 3#32 then 7#32 else if r == 5#32 then 6#32 else if r == 6#32 then 4#32 else if r == 7#32 then 5#32 else 0xFF#32
def mod16BaseIndex (b i : BitVec 32) : BitVec 32 :=
  if (b == 3#32 && i == 6#32) || (b == 6#32 && i == 3#32) then 0#32
  else if (b == 3#32 && i == 7#32) || (b == 7#32 && i == 3#32) then 1#32
  else if (b == 5#32 && i == 6#32) || (b == 6#32 && i == 5#32) then 2#32
  else if (b == 5#32 && i == 7#32) || (b == 7#32 && i == 5#32) then 3#32 else 0xFF#32

/-- `EmitModSib` / `EmitModVSib` up to and including the trailing `emit_immediate`.
`pre` = bytes of this instruction emitted so far, `aoMark` = index in `pre` of the address-override mark
(`mem_op_ao_mark`), `vsibEntry` = entered at label EmitModVSib (skips the index == SP test). -/
def emitModSib (c : Ctx) (pre : List Byte) (aoMark : Nat) (opcode options opReg rbReg rxReg rmInfo : BitVec 32) (m : Mem)
    (imm : BitVec 64) (immSize : Nat) (vsibEntry : Bool) (immDword : Bool := false) : Except Err (List Byte) :=
  let immB := if immDword then emitImmByteOrDword imm immSize else emitImmediate imm immSize
  let done (bs : List Byte) : Except Err (List Byte) := .ok (bs ++ immB)
  let shift : BitVec 32 := BitVec.ofNat 32 m.shift
  if !vsibEntry && (rmInfo &&& (kX86MemInfo_Index ||| kX86MemInfo_67H_X86)) == 0#32 then
    -- ==========|> [BASE + DISP8|DISP32]
    if (rmInfo &&& kX86MemInfo_BaseGp) != 0#32 then
      let rb := rbReg &&& 7#32
      let rel := m.offLo32
      let mod := encodeMod 0#32 opReg rb
      if rb == 4#32 || c.tsib then
        let mod := (mod &&& 0xF8#32) ||| 0x04#32
        if rb != 5#32 && rel == 0#32 then
          done (pre ++ [mod.truncate 8, (encodeSib 0#32 4#32 rb).truncate 8])
        else
          match cdisp8 rel (cdShiftOf opcode) with
          | some cd => done (pre ++ [(mod + 0x40#32).truncate 8, (encodeSib 0#32 4#32 rb).truncate 8, cd.truncate 8])
          | none => done (pre ++ [(mod + 0x80#32).truncate 8, (encodeSib 0#32 4#32 rb).truncate 8] ++ le32 rel)
      else if rb != 5#32 && rel == 0#32 then
        done (pre ++ [mod.truncate 8])
      else
        match cdisp8 rel (cdShiftOf opcode) with
        | some cd => done (pre ++ [(mod + 0x40#32).truncate 8, cd.truncate 8])
        | none => done (pre ++ [(mod + 0x80#32).truncate 8] ++ le32 rel)
    -- ==========|> [ABSOLUTE | DISP32]
    else if (rmInfo &&& (kX86MemInfo_BaseLabel ||| kX86MemInfo_BaseRip)) == 0#32 then
      let rel := m.offLo32
      if !c.mode64 then
        if m.addrType == 2 then .error .invalidAddress
        else done (pre ++ [(encodeMod 0#32 opReg 5#32).truncate 8] ++ le32 rel)
      else
        let isInt32 := m.offHi32 == rel.sshiftRight 31
        let isUInt32 := m.offHi32 == 0#32
        match c.base with
        | none => .error .unmodelled     -- relocation (kAbsToRel) or heuristics without a base address
        | some baseAddr =>
          let addrType := if m.addrType == 0 then (if isInt32 || isUInt32 then 1 else 2) else m.addrType
          let relTry : Option (Except Err (List Byte)) :=
            if addrType == 2 then
              let virt : BitVec 64 := BitVec.ofNat 64 (c.off + pre.length + immSize + 5)
              let rip64 := baseAddr + virt
              let rel64 := m.offset - rip64
              if isInt32of64 rel64 then
                some (.ok (pre ++ [(encodeMod 0#32 opReg 5#32).truncate 8] ++ le32 (rel64.truncate 32) ++ emitImmediate imm immSize))
              else if m.addrType == 2 then some (.error .invalidAddress) else none
            else none
          match relTry with
          | some r => r
          | none =>
            if !isInt32 && !isUInt32 then .error .invalidAddress64Bit else
            -- zero-extended 32-bit address: insert 67 at the mark (or drop REX.W of LEA)
            let pre' : List Byte :=
              if !isInt32 then
                if pre[aoMark]? != some 0x67#8 then
                  if c.isLea then
                    match pre[aoMark]? with
                    | some rex =>
                      if (rex &&& 0x40#8) != 0#8 then
                        let rex' := rex &&& 0xF7#8
                        if rex' == 0x40#8 && (options &&& oRex) == 0#32 then pre.take aoMark ++ pre.drop (aoMark + 1)
                        else pre.take aoMark ++ [rex'] ++ pre.drop (aoMark + 1)
                      else pre
                    | none => pre
                  else pre.take aoMark ++ [0x67#8] ++ pre.drop aoMark
                else pre
              else pre
            done (pre' ++ [(encodeMod 0#32 opReg 4#32).truncate 8, (encodeSib 0#32 4#32 5#32).truncate 8] ++ le32 rel)
    -- ==========|> [LABEL|RIP + DISP32]
    else
      if !c.mode64 then .error .unmodelled
      else
        let rel := m.offLo32
        if (rmInfo &&& kX86MemInfo_BaseLabel) != 0#32 then
          -- label bound at position m.baseId of the current section: rel_offset -= 4 + imm_size; += label - cursor
          -- (repaired code, fixes/C01-4.patch) computed in 64 bits and range-checked
          let cursor := c.off + pre.length + 1
          let rel64 : BitVec 64 := rel.signExtend 64 - BitVec.ofNat 64 (4 + immSize) + (BitVec.ofNat 64 m.baseId - BitVec.ofNat 64 cursor)
          if !isInt32of64 rel64 then .error .invalidDisplacement else
          done (pre ++ [(encodeMod 0#32 opReg 5#32).truncate 8] ++ le32 (rel64.truncate 32))
        else
          done (pre ++ [(encodeMod 0#32 opReg 5#32).truncate 8] ++ le32 rel)
  else if vsibEntry || (rmInfo &&& kX86MemInfo_67H_X86) == 0#32 then
    if !vsibEntry && rxReg == 4#32 then .error .invalidAddressIndex else
    let rx := rxReg &&& 7#32
    if (rmInfo &&& kX86MemInfo_BaseGp) != 0#32 then
      let rb := rbReg &&& 7#32
      let rel := m.offLo32
      let mod := encodeMod 0#32 opReg 4#32
      let sib := encodeSib shift rx rb
      if rel == 0#32 && rb != 5#32 then done (pre ++ [mod.truncate 8, sib.truncate 8])
      else
        match cdisp8 rel (cdShiftOf opcode) with
        | some cd => done (pre ++ [(mod + 0x40#32).truncate 8, sib.truncate 8, cd.truncate 8])
        | none => done (pre ++ [(mod + 0x80#32).truncate 8, sib.truncate 8] ++ le32 rel)
    else if (rmInfo &&& (kX86MemInfo_BaseLabel ||| kX86MemInfo_BaseRip)) == 0#32 then
      done (pre ++ [(encodeMod 0#32 opReg 4#32).truncate 8, (encodeSib shift rx 5#32).truncate 8] ++ le32 m.offLo32)
    else
      if !c.mode64 then .error .unmodelled else .error .invalidAddress
  else
    -- 16-bit address mode
    let rel : BitVec 32 := (m.offLo32.truncate 16 : BitVec 16).signExtend 32
    if (rmInfo &&& 0x03#32) != 0#32 then
      let rb := rbReg &&& 7#32
      let rx := rxReg &&& 7#32
      let modR : Except Err (BitVec 32) :=
        if (rmInfo &&& 0x03#32) == 0x03#32 then
          if m.shift != 0 then .error .invalidAddress else .ok (mod16BaseIndex rb rx)
        else
          let rb := if (rmInfo &&& kX86MemInfo_Index) != 0#32 then rx else rb
          .ok (mod16Base rb)
      match modR with
      | .error e => .error e
      | .ok mod =>
        if mod == 0xFF#32 then .error .invalidAddress else
        -- (repaired code, fixes/C01-3.patch) [BP] has no displacement-less form: test before merging the reg field
        let isBpOnly := mod == 0x06#32
        let mod := mod + (opReg <<< 3)
        if rel == 0#32 && !isBpOnly then done (pre ++ [mod.truncate 8])
        else if isInt8 rel then done (pre ++ [(mod + 0x40#32).truncate 8, rel.truncate 8])
        else done (pre ++ [(mod + 0x80#32).truncate 8] ++ le16 rel)
    else
      if (rmInfo &&& (kX86MemInfo_BaseRip ||| kX86MemInfo_BaseLabel)) != 0#32 then .error .invalidAddress
      else done (pre ++ [(opReg ||| 0x06#32).truncate 8] ++ le16 rel)

/-! ### Legacy emitters -/

/-- `EmitX86Op` -/
def emitX86Op (opcode options : BitVec 32) (imm : BitVec 64) (immSize : Nat) : Except Err (List Byte) := do
  let rex ← emitRex (extractRex opcode options)
  pure (emitPP opcode ++ rex ++ emitMMAndOpcode opcode ++ emitImmediate imm immSize)

/-- `EmitX86OpReg` -/
def emitX86OpReg (opcode options opReg : BitVec 32) (imm : BitVec 64) (immSize : Nat) : Except Err (List Byte) := do
  let rex ← emitRex (extractRex opcode options ||| (opReg >>> 3))
  let opcode := opcode + (opReg &&& 7#32)
  pure (emitPP opcode ++ rex ++ emitMMAndOpcode opcode ++ emitImmediate imm immSize)

/-- `EmitX86R` -/
def emitX86R (opcode options opReg rbReg : BitVec 32) (imm : BitVec 64) (immSize : Nat) : Except Err (List Byte) := do
  let rex ← emitRex (extractRex opcode options ||| ((opReg &&& 8#32) >>> 1) ||| ((rbReg &&& 8#32) >>> 3))
  pure (emitPP opcode ++ rex ++ emitMMAndOpcode opcode ++ [(encodeMod 3#32 (opReg &&& 7#32) (rbReg &&& 7#32)).truncate 8] ++
        emitImmediate imm immSize)

/-- `EmitX86M` followed by `EmitModSib` -/
def emitX86M (c : Ctx) (opcode options opReg : BitVec 32) (m : Mem) (imm : BitVec 64) (immSize : Nat) : Except Err (List Byte) := do
  let rmInfo := memInfo m.baseType m.indexType
  let seg := segmentPrefix m.seg
  let ao : List Byte := if (rmInfo &&& c.aoMask) != 0#32 then [0x67#8] else []
  let rbReg := BitVec.ofNat 32 m.baseId
  let rxReg := BitVec.ofNat 32 m.indexId
  let rex0 := ((rbReg >>> 3) &&& 1#32) ||| ((rxReg >>> 2) &&& 2#32) ||| ((opReg >>> 1) &&& 4#32)
  let rex ← emitRex ((rex0 &&& rmInfo) ||| extractRex opcode options)
  let pre := seg ++ ao ++ emitPP opcode ++ rex ++ emitMMAndOpcode opcode
  emitModSib c pre seg.length opcode options (opReg &&& 7#32) rbReg rxReg rmInfo m imm immSize false

/-- `EmitFpuOp` -/
def emitFpuOp (opcode : BitVec 32) : List Byte :=
  emitPP opcode ++ [(opcode >>> 10).truncate 8, opcode.truncate 8]

/-! ### VEX / EVEX -/

/-- `Opcode::extract_ll_mmmmm(options)` -/
def extractLLMMMMM (opcode options : BitVec 32) : BitVec 32 :=
  ((opcode &&& (kLL_Mask ||| kMM_Mask)) ||| (options &&& oEvex)) >>> 8

/-- `vex_prefix_table[x & 0xF]` -/
def vexPrefixTable (i : BitVec 32) : BitVec 32 :=
  (if (i &&& 8#32) != 0#32 then 0x8F#32 else 0xC4#32) ||| (0xF#32 <<< 19) ||| (0x7#32 <<< 13)

/-- `EmitVexOp` -/
def emitVexOp (opcode options : BitVec 32) : List Byte :=
  let x := ((opcode &&& kMM_Mask) >>> 8) ||| ((opcode &&& kLL_Mask) >>> (29 - 10)) ||| ((opcode &&& 0x600000#32) >>> (21 - 8))
  if (options &&& oVex3) != 0#32 then
    let x := (x &&& 0xFFFF#32) <<< 8
    let x := x ^^^ (0xC4#32 ||| (0x07#32 <<< 13) ||| (0x0F#32 <<< 19) ||| (opcode <<< 24))
    le32 x
  else
    let x := ((x >>> 8) ^^^ x) ^^^ 0xF9#32
    [0xC5#8, x.truncate 8, opcode.truncate 8]

/-- the AVX-512 option block of `EmitVexEvexR` ({z}, {er}, {sae}); `x` is the prefix under construction -/
def vexEvexROptions (c : Ctx) (x options : BitVec 32) : Except Err (BitVec 32) :=
  if (options &&& (oZMask ||| oER ||| oSAE)) != 0#32 then
    let x := x ||| (options &&& oZMask)
    if (options &&& (oER ||| oSAE)) != 0#32 then
      if (x &&& 0x600000#32) != 0x400000#32 && c.hasBcst then .error .invalidEROrSAE
      else if (options &&& oER) != 0#32 then
        if !c.hasER then .error .invalidEROrSAE
        else .ok ((x &&& ~~~0x600000#32) ||| 0x100000#32 ||| (options &&& 0x600000#32))
      else
        if !c.hasSAE then .error .invalidEROrSAE
        else .ok ((x &&& ~~~0x600000#32) ||| 0x100000#32)
    else .ok x
  else .ok x

/-- EVEX prefix word from `x` (common to R and M): the `if (x & kEvexBits)` branch up to `x ^= 0x087CF000 | 0x62` -/
def evexWord (x opcode : BitVec 32) : BitVec 32 :=
  let y := ((x <<< 4) &&& 0x00080000#32) ||| ((x >>> 4) &&& 0x00000010#32)
  let x := (x &&& 0x00FF78EF#32) ||| y
  let x := x <<< 8
  let x := x ||| ((opcode >>> 4) &&& 0x00800000#32)
  let x := x ||| ((opcode >>> 5) &&& 0x00830000#32)
  x ^^^ (0x087CF000#32 ||| 0x62#32)

/-- VEX2/VEX3 preparation: `x |= ((opcode >> (kVSHR_W + 8)) & 0x8000) | ((opcode >> (kVSHR_PP + 8)) & 0x0300) | ((x >> 11) & 0x0400)`
and the forced-VEX3 bit -/
def vexPrep (x opcode options : BitVec 32) : BitVec 32 :=
  let x := x ||| ((opcode >>> 12) &&& 0x8000#32) ||| ((opcode >>> 13) &&& 0x0300#32) ||| ((x >>> 11) &&& 0x0400#32)
  x ||| ((options &&& oVex3) <<< 21)

/-- VEX3 / XOP word -/
def vex3Word (x opcode : BitVec 32) : BitVec 32 :=
  let xorMask := vexPrefixTable (x &&& 0xF#32) ||| (opcode <<< 24)
  ((x &&& 0xFFFF#32) <<< 8) ^^^ xorMask

/-- VEX2 second byte -/
def vex2Byte (x : BitVec 32) : BitVec 32 := ((x >>> 8) ^^^ x) ^^^ 0xF9#32

/-- `EmitVexEvexR` -/
def emitVexEvexR (c : Ctx) (opcode options opReg rbReg : BitVec 32) (imm : BitVec 64) (immSize : Nat) : Except Err (List Byte) := do
  let x : BitVec 32 := ((opReg <<< 4) &&& 0xF980#32) ||| ((rbReg <<< 2) &&& 0x0060#32) ||| extractLLMMMMM opcode options ||| (c.extraId <<< 16)
  let opReg := opReg &&& 7#32
  let x ← vexEvexROptions c x options
  let x := if c.preferEvex && (x &&& 0x00D78150#32) == 0#32 && (options &&& (oVex ||| oVex3)) == 0#32 then x ||| 0x10#32 else x
  let tail : List Byte := [(encodeMod 3#32 opReg (rbReg &&& 7#32)).truncate 8] ++ emitImmByteOrDword imm immSize
  if (x &&& 0x00D78150#32) != 0#32 then
    pure (le32 (evexWord x opcode) ++ [opcode.truncate 8] ++ tail)
  else
    let x := vexPrep x opcode options
    if (x &&& 0x8000803E#32) != 0#32 then pure (le32 (vex3Word x opcode) ++ tail)
    else pure ([0xC5#8, (vex2Byte x).truncate 8, opcode.truncate 8] ++ tail)

/-- `cdisp8_shl_table[TTWLL]` << kCDSHL_Shift (X86CDisp8SHL_T) -/
def cdisp8Shl (ttwll : BitVec 32) : BitVec 32 :=
  let tt := ttwll >>> 3
  let ll := ttwll &&& 3#32
  let w := (ttwll >>> 2) &&& 1#32
  let v : BitVec 32 :=
    if tt == 0#32 then 0#32
    else if tt == 1#32 then (if ll == 0#32 then 0#32 else if ll == 1#32 then 1#32 else 2#32)
    else if tt == 2#32 then (if ll == 0#32 then w else if ll == 1#32 then 1#32 + w else 2#32 + w)
    else (if ll == 0#32 then 0#32 else if ll == 1#32 then 2#32 else 3#32)
  v <<< 13

/-- count trailing zeros of a power of two ≤ 64 (`Support::ctz` on broadcast sizes), by cases -/
def ctzSmall (v : Nat) : Nat :=
  if v % 2 == 1 then 0 else if v % 4 == 2 then 1 else if v % 8 == 4 then 2 else if v % 16 == 8 then 3
  else if v % 32 == 16 then 4 else if v % 64 == 32 then 5 else if v % 128 == 64 then 6 else if v % 256 == 128 then 7
  else if v % 512 == 256 then 8 else 9

/-- the prefix part of `EmitVexEvexM` once `x` is final: EVEX (with the broadcast LL fix-up or the compressed-displacement adjustment
of the opcode word) or VEX3 / XOP / VEX2; returns the prefix bytes incl. the opcode byte and the adjusted opcode word -/
def vexEvexMPrefix (c : Ctx) (x opcode options : BitVec 32) (m : Mem) : Except Err (List Byte × BitVec 32) :=
  if (x &&& 0x80DF8110#32) != 0#32 then
    let xw := evexWord x opcode
    if (xw &&& 0x10000000#32) != 0#32 then
      -- broadcast
      let unit := c.bcstSize
      let vecSize := unit <<< m.bcst
      if unit == 0 then Except.error Err.invalidBroadcast else
      let curLL := xw &&& (0x3#32 <<< 29)
      let bLL : BitVec 32 := BitVec.ofNat 32 (max (ctzSmall vecSize) 4 - 4) <<< 29
      if bLL > (2#32 <<< 29) then Except.error Err.invalidBroadcast else
      let newLL := if curLL ≥ bLL then curLL else bLL
      let xw := (xw &&& ~~~(0x3#32 <<< 29)) ||| newLL
      let opcode := (opcode &&& ~~~kCDSHL_Mask) ||| (BitVec.ofNat 32 (ctzSmall unit) <<< 13)
      Except.ok (le32 xw ++ [opcode.truncate 8], opcode)
    else
      let ttwll := ((opcode >>> 13) &&& 0x18#32) + ((opcode >>> 25) &&& 0x04#32) + ((xw >>> 29) &&& 0x3#32)
      let opcode := opcode + cdisp8Shl ttwll
      Except.ok (le32 xw ++ [opcode.truncate 8], opcode)
  else
    let x := vexPrep x opcode options
    let opcode := opcode &&& ~~~kCDSHL_Mask
    if (x &&& 0x8000807E#32) != 0#32 then Except.ok (le32 (vex3Word x opcode), opcode)
    else Except.ok ([0xC5#8, (vex2Byte x).truncate 8, opcode.truncate 8], opcode)

/-- `EmitVexEvexM` followed by `EmitModSib` / `EmitModVSib` -/
def emitVexEvexM (c : Ctx) (opcode options opReg : BitVec 32) (m : Mem) (imm : BitVec 64) (immSize : Nat) : Except Err (List Byte) := do
  let rmInfo := memInfo m.baseType m.indexType
  let seg := segmentPrefix m.seg
  let ao : List Byte := if (rmInfo &&& c.aoMask) != 0#32 then [0x67#8] else []
  -- has_base_reg(): base type > kLabelTag ; has_index_reg(): index type > kLabelTag
  let rbReg : BitVec 32 := if m.baseType > rtLabel then BitVec.ofNat 32 m.baseId else 0#32
  let rxReg : BitVec 32 := if m.indexType > rtLabel then BitVec.ofNat 32 m.indexId else 0#32
  let bcstBit : BitVec 32 := if m.bcst != 0 then 1#32 else 0#32
  let x : BitVec 32 := ((opReg <<< 4) &&& 0x0000F980#32) ||| ((rxReg <<< 3) &&& 0x00000040#32) ||| ((rxReg <<< 15) &&& 0x00080000#32) |||
                       ((rbReg <<< 2) &&& 0x00000020#32) ||| extractLLMMMMM opcode options ||| (c.extraId <<< 16) ||| (bcstBit <<< 20)
  let opReg := opReg &&& 7#32
  -- mark invalid VEX (force EVEX): x |= (~flags & kVex) << (31 - ctz(kVex))
  let x := if c.vexFlag then x else x ||| 0x80000000#32
  let x ← (if (options &&& (oZMask ||| oER ||| oSAE)) != 0#32 then
             if (options &&& (oER ||| oSAE)) != 0#32 then Except.error Err.invalidEROrSAE
             else Except.ok (x ||| (options &&& oZMask))
           else Except.ok x)
  let x := if c.preferEvex && (x &&& 0x80DF8110#32) == 0#32 && (options &&& (oVex ||| oVex3)) == 0#32 then x ||| 0x10#32 else x
  let (pfx, opcode) ← vexEvexMPrefix c x opcode options m
  let pre := seg ++ ao ++ pfx
  if !c.vsib then
    emitModSib c pre seg.length opcode options opReg rbReg rxReg rmInfo m imm immSize false
  else if (rmInfo &&& kX86MemInfo_Index) != 0#32 then
    emitModSib c pre seg.length opcode options opReg rbReg rxReg rmInfo m imm immSize true
  else .error .invalidInstruction

end Model.X86
