/-
Eighth wave of the hand model of `a64::Assembler::_emit`: SimdDup, SimdIns, SimdMov, SimdSmovUmov, SimdSm3tt, SimdTblTbx,
SimdMoviMvni, SimdShift.  Follows /repo HEAD.  Core-only imports.
-/
import AsmjitVerif.Model.A64AsmElem
namespace AsmjitVerif.A64Asm
open AsmjitVerif.A64
open AsmjitVerif.Gen.A64Tables

/-- `kValidEncodings` of SimdDup: bit (q << 3 | element type) -/
def dupValid (q et : Nat) : Bool := (q == 0 && (et == 1 || et == 2 || et == 3)) || (q == 1 && (et == 1 || et == 2 || et == 3 || et == 4))

def emitSimdDup (o0 o1 : Reg) : Result :=
  let q := u32sub o0.rt rtVec64
  if o1.isGp then
    if q > 1 || !dupValid q o0.et then invalidInstruction else
    if o1.isGp64 != (o0.et == 4) then invalidInstruction else
    tailRd0Rn5 (0x0E000C00#32 ||| addImm q 30 ||| addImm (2 ^ (o0.et - 1)) 16) o0 o1 0
  else if !o1.isVec || !o1.hasIdx then invalidInstruction
  else if o0.et == 0 then
    let lsb := u32sub o0.rt rtVec8
    if lsb != u32sub o1.et 1 || lsb > 3 then invalidInstruction else
    let imm5 := (o1.idx * 2 + 1) <<< lsb
    if imm5 % 2 ^ 32 > 31 then invalidElementIndex else
    tailRd0Rn5 (0x5E000400#32 ||| addImm imm5 16) o0 o1 2
  else
    if q > 1 || !dupValid q o0.et then invalidInstruction else
    if o0.et != o1.et then invalidInstruction else
    let imm5 := (o1.idx * 2 + 1) <<< (o0.et - 1)
    if imm5 % 2 ^ 32 > 31 then invalidElementIndex else
    tailRd0Rn5 (0x0E000400#32 ||| addImm q 30 ||| addImm imm5 16) o0 o1 2

def emitSimdIns (o0 o1 : Reg) : Result :=
  if o0.rt != rtVec128 then invalidInstruction else
  if !o0.hasIdx then invalidInstruction else
  let lsb := u32sub o0.et 1
  if lsb > 3 then invalidInstruction else
  let imm5 := (o0.idx * 2 + 1) <<< lsb
  if imm5 % 2 ^ 32 > 31 then invalidElementIndex else
  if o1.isGp then
    if o1.isGp64 != (o0.et == 4) then invalidInstruction else
    tailRd0Rn5 (0x4E001C00#32 ||| addImm imm5 16) o0 o1 3
  else if o1.rt == rtVec128 && o1.hasIdx then
    if o0.et != o1.et then invalidInstruction else
    let imm4 := o1.idx <<< lsb
    if imm4 % 2 ^ 32 > 15 then invalidElementIndex else
    tailRd0Rn5 (0x6E000400#32 ||| addImm imm5 16 ||| addImm imm4 11) o0 o1 3
  else invalidInstruction

def emitSimdUmov (d : SimdSmovUmovRow) (o0 o1 : Reg) : Result :=
  if !(o0.isGp && o1.isVec) then invalidInstruction else
  match sizeOpOf d.vec_op_type o1 with
  | none => invalidInstruction
  | some so =>
    if !o1.hasIdx then invalidInstruction else
    let x := if o0.isGp64 then 1 else 0
    let mustX := if soSize so ≥ 3 - d.is_signed then 1 else 0
    if (if d.is_signed != 0 then mustX == 1 && x == 0 else x != mustX) then invalidInstruction else
    if o1.idx > 15 >>> soSize so then invalidElementIndex else
    tailRd0Rn5 ((w32 d.opcode <<< 10) ||| addImm x 30 ||| addImm ((1 ||| (o1.idx <<< 1)) <<< soSize so) 16) o0 o1 2

def emitSimdMov (o0 o1 : Reg) : Result :=
  if o0.isVec && o1.isVec then
    if o0.hasIdx && o1.hasIdx then emitSimdIns o0 o1
    else if o1.hasIdx then emitSimdDup o0 o1
    else if !o0.sameSig o1 then invalidInstruction
    else
      let q := u32sub o0.rt rtVec64
      if q > 1 then invalidInstruction else
      tailRd0Rn5 (0x0EA01C00#32 ||| addImm q 30 ||| addReg o1.id 16) o0 o1 0
  else if o0.isVec && o1.isGp then
    if o0.hasIdx then emitSimdIns o0 o1 else invalidInstruction
  else if o0.isGp && o1.isVec then
    match simdSmovUmov[1]? with
    | some d => emitSimdUmov d o0 o1
    | none => notModelled
  else invalidInstruction

def emitSimdSm3tt (d : SimdSm3ttRow) (o0 o1 o2 : Reg) : Result :=
  let s4 (r : Reg) : Bool := r.rt == rtVec128 && r.et == 3
  if !(s4 o0 && s4 o1 && s4 o2 && o2.hasIdx) then invalidInstruction else
  if o2.idx > 3 then invalidElementIndex else
  tailRd0Rn5Rm16 ((w32 d.opcode <<< 10) ||| addImm o2.idx 12) o0 o1 o2 4

/-- table registers o2.. must have o1's signature and consecutive ids; `none` = all fine -/
def tblCheck (o1 : Reg) : List Reg → Nat → Option Result
  | [], _ => none
  | r :: rest, i => if !o1.sameSig r then some invalidInstruction else
                    if r.id != (o1.id + i) % 32 then some invalidPhysId else tblCheck o1 rest (i + 1)

/-- `regs` = o2 .. (table tail and the index operand last) -/
def emitSimdTblTbx (d : SimdTblTbxRow) (o0 o1 : Reg) (regs : List Reg) : Result :=
  let q := u32sub o0.rt rtVec64
  if q > 1 || o0.et != 1 || o0.hasIdx then invalidInstruction else
  if !(o1.rt == rtVec128 && o1.et == 1) || o1.hasIdx then invalidInstruction else
  let len := regs.length - 1
  match tblCheck o1 (regs.take len) 1, regs.getLast? with
  | some e, _ => e
  | none, none => notModelled
  | none, some ix =>
    if !o0.sameSig ix then invalidInstruction else
    if ix.id > 31 then invalidPhysId else
    if !(validReg o0 && validReg o1) then invalidPhysId else
    ok1 ((w32 d.opcode <<< 10) ||| addImm q 30 ||| addImm len 13 ||| addReg ix.id 16 ||| addReg o0.id 0 ||| addReg o1.id 5)

/-! ### kEncodingSimdMoviMvni -/

def isByteMask (v : Nat) : Bool := (List.range 8).all (fun i => let b := (v >>> (8 * i)) % 256; b == 0 || b == 255)
def byteMaskToImm8 (v : Nat) : Nat :=
  ((v >>> 7) &&& 3) ||| ((v >>> 21) &&& 12) ||| ((v >>> 35) &&& 48) ||| ((v >>> 49) &&& 192)

def ctz32 (v : Nat) : Nat := ((List.range 32).find? (fun i => (v >>> i) % 2 == 1)).getD 32

/-- stage 1 of movi / mvni (64-bit elements): byte mask, or the value halves (`size_op.decrement_size()`); (imm64, imm8, size) -/
def moviStage1 (size0 imm64 : Nat) : Option (Nat × Nat × Nat) :=
  if size0 == 3 then
    if isByteMask imm64 then some (imm64, byteMaskToImm8 imm64, 3)
    else if imm64 >>> 32 == imm64 % 2 ^ 32 then some (imm64 % 2 ^ 32, 0, 2) else none
  else some (imm64, 0, size0)

/-- stage 2 (elements below 64 bits): halving to the smallest element and the shift; (imm8, size, shift, shiftOp) -/
def moviStage2 (sh : Option (BitVec 64 × Nat)) (a : Nat × Nat × Nat) : Option (Nat × Nat × Nat × Nat) :=
  let (imm64, imm8a, size1) := a
  if size1 < 3 then
    if imm64 > 0xFFFFFFFF then none else
    let (i8, sz) := if size1 == 2 && imm64 >>> 16 == imm64 % 65536 then (imm64 >>> 16, 1) else (imm64, size1)
    if sz == 1 && i8 > 0xFFFF then none else
    let (i8, sz) := if sz == 1 && i8 >>> 8 == i8 % 256 then (i8 >>> 8, 0) else (i8, sz)
    let maxShift := (8 <<< sz) - 8
    match sh with
    | some (sv, sp) =>
      if i8 > 0xFF || sv.toNat > maxShift then none else
      if sv.toNat % 8 != 0 then none else some (i8, sz, sv.toNat, sp)
    | none =>
      if i8 != 0 then
        let s := (ctz32 i8) / 8 * 8
        let i8' := i8 >>> s
        if i8' > 0xFF || s > maxShift then none else some (i8', sz, s, sopLSL)
      else some (i8, sz, 0, sopLSL)
  else some (imm8a, size1, 0, sopLSL)

/-- stage 3: cmode / op per element size; (imm8, cmode, op) -/
def moviStage3 (inverted : Nat) (b : Nat × Nat × Nat × Nat) : Option (Nat × Nat × Nat) :=
  let (imm8, size, shift8, shiftOp) := b
  let shift := shift8 / 8
  if size == 0 then
    if shiftOp != sopLSL then none else some (if inverted != 0 then (255 - imm8 % 256) else imm8, 14, 0)
  else if size == 1 then
    if shiftOp != sopLSL then none else some (imm8, 8 ||| (shift <<< 1), inverted)
  else if size == 2 then
    if shiftOp == sopLSL then some (imm8, shift <<< 1, inverted)
    else if shiftOp == sopMSL then (if shift == 0 || shift > 2 then none else some (imm8, 12 ||| (shift - 1), inverted))
    else none
  else some (if inverted != 0 then (255 - imm8 % 256) else imm8, 14, 1)

/-- `sh` = the optional second immediate (value, predicate).  NOTE: the original source tests `o0.as<Imm>().value() != 0` (the
register operand read as an immediate - always 0) where `o2` is meant, so for 64-bit elements a second immediate is ignored;
fixes/C02-16.patch repairs it (`srcMoviChecksShiftOperand`, detected by the translator). -/
def emitSimdMoviMvni (d : SimdMoviMvniRow) (o0 : Reg) (imm : BitVec 64) (sh : Option (BitVec 64 × Nat)) : Result :=
  match sizeOpOf kVO_V_Any o0 with
  | none => invalidInstruction
  | some so =>
    let shRefused := srcMoviChecksShiftOperand == 1 && soSize so == 3 &&
      (match sh with | some (sv, sp) => sv != 0 || sp != sopLSL | none => false)
    match (if shRefused then none else moviStage1 (soSize so) imm.toNat) with
    | none => invalidImmediate
    | some a =>
      match moviStage2 sh a with
      | none => invalidImmediate
      | some b =>
        match moviStage3 d.inverted b with
        | none => invalidImmediate
        | some (imm8, cmode, op) =>
          tailRd0 ((w32 d.opcode <<< 10) ||| addImm (soQ so) 30 ||| addImm op 29 ||| addImm ((imm8 >>> 5) &&& 7) 16 |||
                   addImm cmode 12 ||| addImm (imm8 &&& 31) 5) o0 (idxBit o0 0) 0

/-! ### kEncodingSimdShift -/

def emitSimdShiftImm (d : SimdShiftRow) (flags : Nat) (o0 o1 : Reg) (imm : BitVec 64) : Result :=
  let sop := if flags &&& flagLong == 0 then o0 else o1
  match sizeOpOf d.vec_op_type sop with
  | none => invalidInstruction
  | some so =>
    if d.immediate_op == 0 then invalidInstruction else
    if flags &&& flagLong == 0 && !matchSignature2 o0 o1 flags then invalidInstruction else
    if imm.toNat > 63 then invalidImmediate else
    let lsbShift := soSize so + 3
    let mask := 2 ^ lsbShift - 1
    let v := imm.toNat
    if d.inverted_imm != 0 && (v == 0 || v > 2 ^ lsbShift) then invalidImmediate else
    let v := if d.inverted_imm != 0 then (2 ^ 32 - v) % 2 ^ 32 &&& mask else v
    if v > mask then invalidImmediate else
    tailRd0Rn5 ((w32 d.immediate_op <<< 10) ||| addImm (soQS so) 30 ||| addImm (soScalar so) 28 ||| addImm (v ||| 2 ^ lsbShift) 16) o0 o1 0

def emitSimdShiftReg (d : SimdShiftRow) (flags : Nat) (o0 o1 o2 : Reg) : Result :=
  let sop := if flags &&& flagLong == 0 then o0 else o1
  match sizeOpOf d.vec_op_type sop with
  | none => invalidInstruction
  | some so =>
    if d.register_op == 0 then invalidInstruction else
    if !(matchSignature2 o0 o1 flags && o1.sameSig o2) then invalidInstruction else
    tailRd0Rn5Rm16 ((w32 d.register_op <<< 10) ||| sizeBits so) o0 o1 o2 0

def allRegs : List Operand → Option (List Reg)
  | [] => some []
  | .reg r :: rest => (allRegs rest).map (r :: ·)
  | _ => none

def emitInst8 (r : InstRow) (rq : Request) : Result :=
  let o := rq.ops
  let enc := r.enc
  if rq.cc != 0 then notModelled
  else if enc == encSimdDup then
    match o with
    | [.reg a, .reg b] => emitSimdDup a b
    | _ => notModelled
  else if enc == encSimdIns then
    match o with
    | [.reg a, .reg b] => emitSimdIns a b
    | _ => notModelled
  else if enc == encSimdMov then
    match o with
    | [.reg a, .reg b] => emitSimdMov a b
    | _ => notModelled
  else if enc == encSimdSmovUmov then
    match simdSmovUmov[r.idx]?, o with
    | some d, [.reg a, .reg b] => emitSimdUmov d a b
    | _, _ => notModelled
  else if enc == encSimdSm3tt then
    match simdSm3tt[r.idx]?, o with
    | some d, [.reg a, .reg b, .reg c] => emitSimdSm3tt d a b c
    | _, _ => notModelled
  else if enc == encSimdTblTbx then
    match simdTblTbx[r.idx]?, o with
    | some d, .reg a :: .reg b :: rest =>
      (match allRegs rest with
       | some regs => if regs.length ≥ 1 && regs.length ≤ 4 then emitSimdTblTbx d a b regs else notModelled
       | none => notModelled)
    | _, _ => notModelled
  else if enc == encSimdMoviMvni then
    match simdMoviMvni[r.idx]?, o with
    | some d, [.reg a, .imm v _] => emitSimdMoviMvni d a v none
    | some d, [.reg a, .imm v _, .imm s p] => emitSimdMoviMvni d a v (some (s, p))
    | _, _ => notModelled
  else if enc == encSimdShift then
    match simdShift[r.idx]?, o with
    | some d, [.reg a, .reg b, .imm v _] => emitSimdShiftImm d r.flags a b v
    | some d, [.reg a, .reg b, .reg c] => emitSimdShiftReg d r.flags a b c
    | _, _ => notModelled
  else notModelled

/-- all eight waves -/
def emitModel8 (rq : Request) : Result :=
  match emitModel7 rq with
  | .err "NotModelled" =>
    (match instTable[rq.inst]? with
     | some r => if rq.inst == 0 then notModelled else emitInst8 r { rq with ops := (rq.ops.reverse.dropWhile (· == .none)).reverse }
     | none => notModelled)
  | res => res

end AsmjitVerif.A64Asm
