/-
C07 model: executable transcription of

  asmjit/x86/x86func.cpp, asmjit/arm/a64func.cpp : `init_call_conv` (only the members `FuncFrame::init` reads)
  asmjit/core/func.cpp                          : `FuncFrame::init`, `FuncFrame::finalize`
  asmjit/core/func.h                            : `set_/update_{local,call}_stack_{size,alignment}`, accessors
  asmjit/x86/x86emithelper.cpp                  : `X86Internal_setup_save_restore_info`, `emit_prolog`, `emit_epilog`
  asmjit/arm/a64emithelper.cpp                  : `PrologEpilogInfo::init`, `emit_prolog`, `emit_epilog`

`uint8_t / uint16_t / uint32_t` members and arithmetic are modelled on `Nat` with explicit truncation.
The frame record and the instruction syntax are shared with the specification (`Spec/FrameSpec.lean`,
`Spec/StackMachine.lean`); everything *computed* is here.  Core-only imports.

The model follows the repaired code of fixes/C07-1.patch (`FuncFrame::init`: minimum dynamic alignment
= 2 x natural alignment) and fixes/C07-2.patch (AArch64 vector saves use the register view whose size
is the declared save size) and fixes/C07-3.patch … fixes/C07-6.patch.
-/
import AsmjitVerif.Spec.FrameSpec
namespace AsmjitVerif.Frame

def u8 (x : Nat) : Nat := x % 2 ^ 8
def u16 (x : Nat) : Nat := x % 2 ^ 16
def u32 (x : Nat) : Nat := x % 2 ^ 32
/-- `int32_t(x)` of a `uint32_t` -/
def toI32 (x : Nat) : Int := if x % 2 ^ 32 < 2 ^ 31 then ((x % 2 ^ 32 : Nat) : Int) else ((x % 2 ^ 32 : Nat) : Int) - 2 ^ 32

/-- `Support::align_up<uint32_t>(x, a)` = `(x + (a-1)) & ~(a-1)` in 32-bit arithmetic -/
def alignUp (x a : Nat) : Nat :=
  if a = 0 then 0 else u32 (x + (a - 1)) &&& (2 ^ 32 - a)
/-- `Support::align_up_diff` -/
def alignUpDiff (x a : Nat) : Nat := u32 (alignUp x a + 2 ^ 32 - u32 x)

/-- ids of the set bits below `n`, ascending (`Support::BitWordIterator`) -/
def bitsAsc (mask n : Nat) : List Nat := (List.range n).filter fun i => mask.testBit i
def popcnt32 (mask : Nat) : Nat := (bitsAsc mask 32).length
def bit (i : Nat) : Nat := 2 ^ i
/-- `mask & ~bit(i)` on 32 bits -/
def clearBit (mask i : Nat) : Nat := mask &&& (2 ^ 32 - 1 - 2 ^ i)
def lsbMask (n : Nat) : Nat := 2 ^ n - 1

/-! ### calling conventions: the members `FuncFrame::init` reads -/

structure CallConvInfo where
  arch : Arch
  natAlign : Nat
  redZone : Nat
  spillZone : Nat
  calleePops : Bool
  preserved : Nat → Nat
  srSize : Nat → Nat
  srAlign : Nat → Nat

def tbl4 (a b c d : Nat) : Nat → Nat := fun g => match g with
  | 0 => a | 1 => b | 2 => c | 3 => d | _ => 0

/-- `x86::FuncInternal::init_call_conv` / `a64::FuncInternal::init_call_conv`; `none` = `kInvalidArgument`.
`id` is the numeric `CallConvId`, `win` = `is_platform_windows() || is_msvc_abi()`. -/
def initCallConv (arch : Arch) (id : Nat) (win : Bool) : Option CallConvInfo :=
  match arch with
  | .x86 =>
    let base : CallConvInfo :=
      { arch := arch, natAlign := 4, redZone := 0, spillZone := 0, calleePops := false,
        preserved := tbl4 0xF8 0 0 0, srSize := tbl4 4 16 8 8, srAlign := tbl4 4 16 8 8 }
    if id = 0 ∨ id = 5 ∨ id = 6 ∨ id = 7 then some base
    else if id = 1 ∨ id = 2 ∨ id = 3 then some { base with calleePops := true }
    else if id = 4 then some { base with calleePops := win }
    else if id = 16 ∨ id = 17 ∨ id = 18 then
      let n := id - 16 + 2
      some { base with natAlign := 16, preserved := tbl4 0xFF (0xFF &&& (2 ^ 32 - 1 - lsbMask n)) 0 0 }
    else none
  | .x64 =>
    let base : CallConvInfo :=
      { arch := arch, natAlign := 16, redZone := 0, spillZone := 0, calleePops := false,
        preserved := tbl4 0 0 0 0, srSize := tbl4 8 16 8 8, srAlign := tbl4 8 16 8 8 }
    let cdeclLike := id = 0 ∨ id = 1 ∨ id = 4 ∨ id = 2 ∨ id = 5 ∨ id = 6 ∨ id = 7
    let id := if cdeclLike then (if win then 33 else 32) else id
    if id = 32 then some { base with redZone := 128, preserved := tbl4 0xF038 0 0 0 }
    else if id = 33 then some { base with spillZone := 32, preserved := tbl4 0xF0F8 0xFFC0 0 0 }
    else if id = 3 then some { base with spillZone := 48, preserved := tbl4 0xF0F8 0xFFC0 0 0 }
    else if id = 16 ∨ id = 17 ∨ id = 18 then
      let n := id - 16 + 2
      some { base with preserved := tbl4 0xFFFF (2 ^ 32 - 1 - lsbMask n) 0 0 }
    else none
  | .a64 =>
    let base : CallConvInfo :=
      { arch := arch, natAlign := 16, redZone := 0, spillZone := 0, calleePops := false,
        preserved := tbl4 0 0 0 0, srSize := tbl4 8 8 0 0, srAlign := tbl4 16 16 8 1 }
    if id ≤ 7 then some { base with preserved := tbl4 0x7FFC0000 0xFF00 0 0 }
    else some { base with srSize := tbl4 8 16 0 0, preserved := tbl4 0x7FFFFFF0 0xFFFFFFF0 0 0 }

/-! ### `FuncFrame::init` and the setters -/

/-- `FuncFrame::init(func)`: `used` = `func.used_regs(group)`, `argStack` = `func.arg_stack_size()`. -/
def Frame.init (cc : CallConvInfo) (used : Nat → Nat) (argStack : Nat) : Frame :=
  let a := cc.arch
  let nat := cc.natAlign
  -- fixes/C07-1.patch: was `max(natural, 16)` doubled only when equal to natural
  let minDyn := u32 (nat * 2)
  { arch := a, attrs := 0, spRegId := u8 a.spId, saRegId := 0xFF,
    redZone := u8 cc.redZone, spillZone := u8 cc.spillZone,
    natAlign := u8 nat, minDynAlign := u8 minDyn, callAlign := 0, localAlign := 0, finalAlign := u8 nat,
    calleeCleanup := if cc.calleePops then u16 argStack else 0,
    callSize := 0, localSize := 0, finalSize := 0, localOff := 0, daOff := 0, saOffSp := 0, saOffSa := 0,
    stackAdj := 0,
    dirty := used,
    preserved := fun g => if g = 0 then clearBit (cc.preserved 0) a.spId else cc.preserved g,
    srSize := cc.srSize, srAlign := cc.srAlign, ppSize := 0, xSize := 0, ppOff := 0, xOff := 0 }

def max3 (a b c : Nat) : Nat := max (max a b) c

def Frame.setCallAlign (f : Frame) (v : Nat) : Frame :=
  let c := u8 v
  { f with callAlign := c, finalAlign := max3 f.natAlign c f.localAlign }
def Frame.setLocalAlign (f : Frame) (v : Nat) : Frame :=
  let l := u8 v
  { f with localAlign := l, finalAlign := max3 f.natAlign f.callAlign l }
def Frame.updateCallAlign (f : Frame) (v : Nat) : Frame :=
  let c := u8 (max f.callAlign (u32 v))
  { f with callAlign := c, finalAlign := max f.finalAlign c }
def Frame.updateLocalAlign (f : Frame) (v : Nat) : Frame :=
  let l := u8 (max f.localAlign (u32 v))
  { f with localAlign := l, finalAlign := max f.finalAlign l }
def Frame.setCallSize (f : Frame) (v : Nat) : Frame := { f with callSize := u32 v }
def Frame.setLocalSize (f : Frame) (v : Nat) : Frame := { f with localSize := u32 v }
def Frame.updateCallSize (f : Frame) (v : Nat) : Frame := { f with callSize := max f.callSize (u32 v) }
def Frame.updateLocalSize (f : Frame) (v : Nat) : Frame := { f with localSize := max f.localSize (u32 v) }

/-! ### everything the public API lets a caller do to a frame between `init` and `finalize` -/

/-- `CallConv::set_preserved_regs(group, mask)` on a convention before `FuncDetail::init` (custom conventions) -/
def CallConvInfo.withPreserved (ci : CallConvInfo) (p : Nat → Nat) : CallConvInfo :=
  { ci with preserved := fun g => if g < 4 then u32 (p g) else 0 }

inductive FrameOp where
  | setLocalSize (v : Nat) | setLocalAlign (v : Nat) | setCallSize (v : Nat) | setCallAlign (v : Nat)
  | updLocalSize (v : Nat) | updLocalAlign (v : Nat) | updCallSize (v : Nat) | updCallAlign (v : Nat)
  | addAttrs (a : Nat) | clearAttrs (a : Nat)
  | setDirty (g m : Nat) | addDirty (g m : Nat) | setAllDirty
  | setSaReg (r : Nat) | resetSaReg
  | resetRedZone
  /-- `FuncArgsAssignment::update_func_frame` as far as it touches the frame: `mark_dst_regs_dirty` +
  `mark_scratch_regs` add dirty registers per group, `mark_stack_args_reg` selects the SA register (the
  register of the SA variable, else the frame pointer when it is preserved); `completed = false` is a call that
  returned an error before `mark_stack_args_reg` -/
  | updateFuncFrame (d0 d1 d2 d3 : Nat) (saVar : Option Nat) (completed : Bool)
  deriving Repr, Inhabited

def Frame.setDirtyG (f : Frame) (g m : Nat) : Frame := { f with dirty := fun i => if i = g then u32 m else f.dirty i }
def Frame.addDirtyG (f : Frame) (g m : Nat) : Frame :=
  { f with dirty := fun i => if i = g then f.dirty i ||| u32 m else f.dirty i }

def Frame.apply (f : Frame) : FrameOp → Frame
  | .setLocalSize v => f.setLocalSize v
  | .setLocalAlign v => f.setLocalAlign v
  | .setCallSize v => f.setCallSize v
  | .setCallAlign v => f.setCallAlign v
  | .updLocalSize v => f.updateLocalSize v
  | .updLocalAlign v => f.updateLocalAlign v
  | .updCallSize v => f.updateCallSize v
  | .updCallAlign v => f.updateCallAlign v
  | .addAttrs a => { f with attrs := f.attrs ||| u32 a }
  | .clearAttrs a => { f with attrs := f.attrs &&& (2 ^ 32 - 1 - u32 a) }
  | .setDirty g m => if g < 4 then f.setDirtyG g m else f
  | .addDirty g m => if g < 4 then f.addDirtyG g m else f
  | .setAllDirty => { f with dirty := fun i => if i < 4 then 0xFFFFFFFF else f.dirty i }
  | .setSaReg r => { f with saRegId := u8 r }
  | .resetSaReg => { f with saRegId := 0xFF }
  | .resetRedZone => { f with redZone := 0 }
  | .updateFuncFrame d0 d1 d2 d3 saVar completed =>
    let f := (((f.addDirtyG 0 d0).addDirtyG 1 d1).addDirtyG 2 d2).addDirtyG 3 d3
    match saVar with
    | some r => { f with saRegId := u8 r }
    | none => if completed && f.hasFP then { f with saRegId := u8 f.arch.fpId } else f

def Frame.applyAll (f : Frame) (ops : List FrameOp) : Frame := ops.foldl Frame.apply f

/-- `ArchTraits::has_inst_push_pop(group)` -/
def hasPushPop (a : Arch) (g : Nat) : Bool :=
  match a with
  | .a64 => g = 0 || g = 1
  | _ => g = 0

/-- size of the save area of group `g`: `align_up(popcnt(saved) * reg_size, alignment)` -/
def Frame.groupSaveSize (f : Frame) (g : Nat) : Nat :=
  alignUp (u32 (popcnt32 (f.saved g) * f.srSize g)) (f.srAlign g)

/-! ### `FuncFrame::finalize`

Written as a chain of small definitions (one per assignment group of the C++ function) so that each
reported field has a name the theorems can talk about; `Frame.finalize` assembles them. -/

/-- the stack-argument base register `finalize` settles on: the user's choice, else `sp`, else (dynamic
alignment) the frame pointer -/
def Frame.saC (f : Frame) : Nat :=
  let sa := if f.saRegId = 0xFF then f.arch.spId else f.saRegId
  if f.hasDA ∧ sa = f.arch.spId then f.arch.fpId else sa

/-- GP dirty mask after `finalize`: FP (and LR) when the frame pointer is preserved, the SA register unless it is `sp` -/
def Frame.dirty0C (f : Frame) : Nat :=
  let d0 := if f.hasFP then (f.dirty 0 ||| bit f.arch.fpId) ||| (match f.arch.lrId with | some lr => bit lr | none => 0)
            else f.dirty 0
  if f.saC ≠ f.arch.spId then d0 ||| bit f.saC else d0

/-- GP preserved mask after `finalize` (fixes/C07-5.patch): a preserved frame pointer (and the link register) is
pushed by the prolog whatever the convention says, so it counts as saved -/
def Frame.preserved0C (f : Frame) : Nat :=
  if f.hasFP then u32 ((f.preserved 0 ||| bit f.arch.fpId) ||| (match f.arch.lrId with | some lr => bit lr | none => 0))
  else f.preserved 0

/-- first part of `finalize`: FP / LR / SA register made dirty (FP / LR also preserved), `_sp_reg_id`, `_sa_reg_id` -/
def Frame.fin1 (f : Frame) : Frame :=
  { f with dirty := fun g => if g = 0 then u32 f.dirty0C else f.dirty g,
           preserved := fun g => if g = 0 then f.preserved0C else f.preserved g,
           spRegId := u8 f.arch.spId, saRegId := u8 f.saC }

def Frame.regSize (f : Frame) : Nat := f.srSize 0
def Frame.retAddrSize (f : Frame) : Nat := if f.arch.lrId.isSome then 0 else f.srSize 0

/-- `save_restore_sizes[!has_inst_push_pop(group)]` summed over the four groups -/
def Frame.saveSizeSum (f : Frame) (pp : Bool) : Nat :=
  (List.range 4).foldl (fun acc g => if hasPushPop f.arch g = pp then u32 (acc + f.groupSaveSize g) else acc) 0
def Frame.ppSizeC (f : Frame) : Nat := u16 (f.saveSizeSum true)
def Frame.xSizeC (f : Frame) : Nat := u16 (f.saveSizeSum false)
/-- `_local_stack_offset` -/
def Frame.localOffC (f : Frame) : Nat := alignUp (u32 (0 + f.callSize)) f.finalAlign
/-- `stack_alignment >= vector_size && _extra_reg_save_size` -/
def Frame.alignedVecC (f : Frame) : Bool := decide (f.srSize 1 ≤ f.finalAlign) && f.xSizeC != 0
/-- `_extra_reg_save_offset` -/
def Frame.xOffC (f : Frame) : Nat :=
  let v := u32 (f.localOffC + f.localSize)
  if f.alignedVecC then alignUp v (f.srSize 1) else v
def Frame.daSlotC (f : Frame) : Bool := f.hasDA && !f.hasFP
def Frame.daOffC (f : Frame) : Nat := if f.daSlotC then u32 (f.xOffC + f.xSizeC) else invalidOff
/-- `v` after the DA slot -/
def Frame.vDaC (f : Frame) : Nat :=
  let v := u32 (f.xOffC + f.xSizeC)
  if f.daSlotC then u32 (v + f.regSize) else v
/-- `_push_pop_save_offset` (= `_stack_adjustment` before the DA rounding) -/
def Frame.ppOffC (f : Frame) : Nat :=
  let v := f.vDaC
  if v != 0 || f.hasFuncCalls || f.retAddrSize == 0
  then u32 (v + alignUpDiff (u32 (v + f.ppSizeC + f.retAddrSize)) f.finalAlign) else v
def Frame.finalSizeC (f : Frame) : Nat := u32 (f.ppOffC + f.ppSizeC)
def Frame.stackAdjC (f : Frame) : Nat := if f.hasDA then alignUp f.ppOffC f.finalAlign else f.ppOffC
def Frame.saOffSpC (f : Frame) : Nat :=
  if f.hasDA then invalidOff else (if f.arch.lrId.isSome then f.finalSizeC else u32 (f.finalSizeC + f.regSize))
/-- fixes/C07-7.patch: with a link register the frame pointer is set after the whole push/pop area is allocated -/
def Frame.saOffSaC (f : Frame) : Nat :=
  if f.hasFP && f.arch.lrId.isNone then u32 (f.retAddrSize + f.regSize) else u32 (f.retAddrSize + f.ppSizeC)

/-- second part of `finalize`: every layout field -/
def Frame.layout (g : Frame) : Frame :=
  -- fixes/C07-6.patch: kAlignedVecSR is an output, a stale / user-set bit is cleared
  { g with attrs := if g.alignedVecC then g.attrs ||| 0x40 else g.attrs &&& (2 ^ 32 - 1 - 0x40),
           ppSize := g.ppSizeC, xSize := g.xSizeC, localOff := g.localOffC, xOff := g.xOffC, daOff := g.daOffC,
           ppOff := g.ppOffC, stackAdj := g.stackAdjC, finalSize := g.finalSizeC,
           saOffSp := g.saOffSpC, saOffSa := g.saOffSaC }

def Frame.finalize (f : Frame) : Frame := f.fin1.layout

/-! ### x86: `emit_prolog` / `emit_epilog` -/

/-- `get_xmm_mov_inst` -/
def xmmMov (f : Frame) : XMn :=
  if f.alignedVecSR then (if f.avx then .vmovaps else .movaps) else (if f.avx then .vmovups else .movups)

/-- `X86Internal_setup_save_restore_info`: instruction and size per non-GP group -/
def xInfo (f : Frame) (g : Nat) : XMn :=
  if g = 1 then xmmMov f else if g = 2 then .kmovq else .movq

/-- slots of one group: consecutive from `off` (`x_base.add_offset_lo32(x_size)` after every register) -/
def groupSlots (mn : XMn) : List Nat → Nat → List (XMn × Nat × Nat)
  | [], _ => []
  | id :: ids, off => (mn, id, u32 off) :: groupSlots mn ids (off + mn.size)

/-- the non-GP save slots in emission order: (instruction, register id, offset from `sp`) -/
def xSlots (f : Frame) : List (XMn × Nat × Nat) :=
  let v := bitsAsc (f.saved 1) 32
  let k := bitsAsc (f.saved 2) 32
  let m := bitsAsc (f.saved 3) 32
  groupSlots (xInfo f 1) v f.xOff
  ++ groupSlots (xInfo f 2) k (f.xOff + 16 * v.length)
  ++ groupSlots (xInfo f 3) m (f.xOff + 16 * v.length + 8 * k.length)

/-- GP registers pushed by the `push gp` loop -/
def x86GpSaved (f : Frame) : Nat :=
  if f.hasFP then clearBit (f.saved 0) 5 else f.saved 0

/-- register that carries the stack-argument base (`sa_reg` variable of `emit_prolog`) -/
def x86SaReg (f : Frame) : Nat := if f.saRegId ≠ 0xFF ∧ f.saRegId ≠ 4 then f.saRegId else 4

/-! pieces of `emit_prolog`, in emission order -/
def x86Ibp (f : Frame) : List Instr :=
  if f.hasIBP then [Instr.nop (if f.arch = .x86 then "endbr32" else "endbr64")] else []
def x86FpPush (f : Frame) : List Instr := if f.hasFP then [Instr.push 5, Instr.mov 5 4] else []
def x86Pushes (f : Frame) : List Instr := (bitsAsc (x86GpSaved f) 32).map Instr.push
def x86SaMov (f : Frame) : List Instr :=
  if f.saRegId ≠ 0xFF ∧ f.saRegId ≠ 4 then
    (if f.hasFP then (if f.saRegId ≠ 5 then [Instr.mov f.saRegId 5] else []) else [Instr.mov f.saRegId 4])
  else []
def x86And (f : Frame) : List Instr := if f.hasDA then [Instr.andImm 4 (-(toI32 f.finalAlign))] else []
def x86Sub (f : Frame) : List Instr := if f.stackAdj ≠ 0 then [Instr.sub 4 (f.stackAdj : Nat)] else []
def x86DaStore (f : Frame) : List Instr :=
  if f.hasDA ∧ f.daOff ≠ invalidOff then [Instr.stGp 4 (toI32 f.daOff) (x86SaReg f)] else []
def x86XStores (f : Frame) : List Instr := (xSlots f).map fun (mn, id, off) => Instr.stX mn 4 (toI32 off) id

def x86Prolog (f : Frame) : List Instr :=
  x86Ibp f ++ (x86FpPush f ++ (x86Pushes f ++ (x86SaMov f ++ (x86And f ++ (x86Sub f ++ (x86DaStore f ++ x86XStores f))))))

/-- the `pop gp` loop: ids 15 … 0 -/
def x86PopOrder (mask : Nat) : List Nat := ((List.range 16).reverse).filter fun i => mask.testBit i

/-! pieces of `emit_epilog`, in emission order -/
def x86XLoads (f : Frame) : List Instr := (xSlots f).map fun (mn, id, off) => Instr.ldX mn id 4 (toI32 off)
def x86Cleanup (f : Frame) : List Instr :=
  (if f.mmxCleanup then [Instr.nop "emms"] else [])
  ++ (if f.avxCleanup || (f.avxAutoCleanup && f.dirty 1 != 0) then [Instr.nop "vzeroupper"] else [])
def x86RestoreSp (f : Frame) : List Instr :=
  if f.hasFP then
    let count : Int := toI32 (u32 (f.ppSize + 2 ^ 32 - f.arch.W))
    (if count = 0 then [Instr.mov 4 5] else [Instr.lea 4 5 (-count)])
  else if f.hasDA ∧ f.daOff ≠ invalidOff then [Instr.ldGp 4 4 (toI32 f.daOff)]
  else if f.stackAdj ≠ 0 then [Instr.add 4 (toI32 f.stackAdj)]
  else []
def x86Pops (f : Frame) : List Instr := (x86PopOrder (x86GpSaved f)).map Instr.pop
def x86FpPop (f : Frame) : List Instr := if f.hasFP then [Instr.pop 5] else []

def x86Epilog (f : Frame) : List Instr :=
  x86XLoads f ++ (x86Cleanup f ++ (x86RestoreSp f ++ (x86Pops f ++ (x86FpPop f ++ [Instr.ret f.calleeCleanup]))))

/-! ### AArch64: `PrologEpilogInfo::init`, `emit_prolog`, `emit_epilog` -/

/-- a save slot of the AArch64 prolog: (group, register view size, first id, second id or none, offset) -/
abbrev PSlot := Nat × Nat × Nat × Option Nat × Nat

/-- `PrologEpilogInfo::init` for one group, fused with the emit loops: the register ids in iteration order are
paired; a pair takes `2 * slot` bytes, a trailing single register `single` bytes (fixes/C07-4.patch:
`align_up(slot, alignment)`; the pinned code took `2 * slot`). `RegPair::offset` is a `uint16_t`.
The flag says `mov x29, sp` follows the store (`i == 0 && frame.has_preserved_fp()`). -/
def groupItems (g sz slot : Nat) (fp : Bool) : Bool → List Nat → Nat → List (PSlot × Bool)
  | _, [], _ => []
  | first, [r], off => [((g, sz, r, none, u16 off), first && fp)]
  | first, r1 :: r2 :: rest, off =>
    ((g, sz, r1, some r2, u16 off), first && fp) :: groupItems g sz slot fp false rest (off + slot * 2)

/-- offset after the last pair of a group -/
def groupEnd (slot single : Nat) : List Nat → Nat → Nat
  | [], off => off
  | [_], off => off + single
  | _ :: _ :: rest, off => groupEnd slot single rest (off + slot * 2)

/-- GP registers in save order: the (FP, LR) pair first when the frame pointer is preserved -/
def a64GpIds (f : Frame) : List Nat :=
  if f.hasFP then 29 :: 30 :: bitsAsc (clearBit (clearBit (f.saved 0) 29) 30) 32 else bitsAsc (f.saved 0) 32
def a64VecIds (f : Frame) : List Nat := bitsAsc (f.saved 1) 32
def a64GpEnd (f : Frame) : Nat := groupEnd (f.srSize 0) (alignUp (f.srSize 0) (f.srAlign 0)) (a64GpIds f) 0
/-- `PrologEpilogInfo::size_total` -/
def a64Total (f : Frame) : Nat := groupEnd (f.srSize 1) (alignUp (f.srSize 1) (f.srAlign 1)) (a64VecIds f) (a64GpEnd f)

/-- size of the register view used for group `g` (fixes/C07-2.patch: the vector view follows the
declared save size: `d` for 8, `q` for 16; the pinned code always used `d`) -/
def a64ViewSize (f : Frame) (g : Nat) : Nat := if g = 0 then 8 else (if f.srSize 1 = 16 then 16 else 8)

def a64Adjust (adj : Nat) (mk : Int → Instr) : Option (List Instr) :=
  if adj = 0 then some []
  else if adj ≤ 0xFFF then some [mk adj]
  else if adj ≤ 0xFFFFFF then some [mk ((adj &&& 0xFFF : Nat)), mk ((adj &&& 0xFFF000 : Nat))]
  else none

/-- the pairs of both groups in emission order -/
def a64Items (f : Frame) : List (PSlot × Bool) :=
  groupItems 0 (a64ViewSize f 0) (f.srSize 0) f.hasFP true (a64GpIds f) 0
  ++ groupItems 1 (a64ViewSize f 1) (f.srSize 1) f.hasFP true (a64VecIds f) (a64GpEnd f)

/-- the pair at offset 0 carries the whole `sp` adjustment of the save area (pre-index) -/
def a64St (total : Nat) (p : PSlot) : Instr :=
  if p.2.2.2.2 = 0 ∧ total ≠ 0 then Instr.stp p.1 p.2.1 p.2.2.1 p.2.2.2.1 31 (-(toI32 total)) .pre
  else Instr.stp p.1 p.2.1 p.2.2.1 p.2.2.2.1 31 (toI32 p.2.2.2.2) .fixed

def a64Ld (total : Nat) (p : PSlot) : Instr :=
  if p.2.2.2.2 = 0 ∧ total ≠ 0 then Instr.ldp p.1 p.2.1 p.2.2.1 p.2.2.2.1 31 (toI32 total) .post
  else Instr.ldp p.1 p.2.1 p.2.2.1 p.2.2.2.1 31 (toI32 p.2.2.2.2) .fixed

def a64Stores (f : Frame) : List Instr :=
  (a64Items f).flatMap fun (p, mv) => a64St (a64Total f) p :: (if mv then [Instr.mov 29 31] else [])

def a64Loads (f : Frame) : List Instr :=
  (a64Items f).reverse.map fun (p, _) => a64Ld (a64Total f) p

def a64Bti (f : Frame) : List Instr := if f.hasIBP then [Instr.nop "bti #3"] else []

/-- the register that carries the stack-argument base / the unaligned `sp` (`sa_reg` of `emit_prolog`) -/
def a64HasSaReg (f : Frame) : Bool := f.saRegId != 0xFF && f.saRegId != 31
def a64SaReg (f : Frame) : Nat := if a64HasSaReg f then f.saRegId else 29

/-- `mov sa_reg, sp` after the stores (x29 already holds `sp` when the frame pointer is preserved) -/
def a64SaMov (f : Frame) : List Instr :=
  if a64HasSaReg f && !(f.hasFP && f.saRegId == 29) then [Instr.mov (a64SaReg f) 31] else []

/-- 16-byte aligned part of `da_offset`: `sp` is lowered in two steps around the store to the DA slot -/
def a64DaBase (f : Frame) : Nat := f.daOff &&& (2 ^ 32 - 1 - 15)

/-- everything after the stores (fixes/C07-8.patch: dynamic alignment and SA register on AArch64) -/
def a64PrologTail (f : Frame) : Option (List Instr) :=
  if f.hasDA then
    if !a64HasSaReg f then none else
    let andI := Instr.and3 31 (a64SaReg f) (-(toI32 f.finalAlign))
    if f.daOff ≠ invalidOff then
      (a64Adjust (u32 (f.stackAdj + 2 ^ 32 - a64DaBase f)) (Instr.sub 31)).bind fun s1 =>
        (a64Adjust (a64DaBase f) (Instr.sub 31)).map fun s2 =>
          [andI] ++ s1 ++ [Instr.stp 0 8 (a64SaReg f) none 31 (toI32 (f.daOff &&& 15)) .fixed] ++ s2
    else (a64Adjust f.stackAdj (Instr.sub 31)).map fun s1 => [andI] ++ s1
  else a64Adjust f.stackAdj (Instr.sub 31)

def a64Prolog (f : Frame) : Option (List Instr) :=
  (a64PrologTail f).map fun tail => a64Bti f ++ (a64Stores f ++ (a64SaMov f ++ tail))

/-- restoring `sp` to the save area in the epilog -/
def a64EpilogHead (f : Frame) : Option (List Instr) :=
  if f.hasDA && f.hasFP then some [Instr.mov 31 29]
  else if f.hasDA && f.daOff != invalidOff then
    (a64Adjust (a64DaBase f) (Instr.add 31)).map fun s1 =>
      s1 ++ [Instr.ldp 0 8 f.saRegId none 31 (toI32 (f.daOff &&& 15)) .fixed, Instr.mov 31 f.saRegId]
  else a64Adjust f.stackAdj (Instr.add 31)

def a64Epilog (f : Frame) : Option (List Instr) :=
  (a64EpilogHead f).map fun head => head ++ (a64Loads f ++ [Instr.retReg 30])

def prolog (f : Frame) : Option (List Instr) :=
  match f.arch with
  | .a64 => a64Prolog f
  | _ => some (x86Prolog f)

def epilog (f : Frame) : Option (List Instr) :=
  match f.arch with
  | .a64 => a64Epilog f
  | _ => some (x86Epilog f)

end AsmjitVerif.Frame
