/-
Model of the instruction name <-> id lookup of AsmJit (core-only imports; linked into the driver).

  asmjit/core/instdb.cpp      InstNameUtils::decode_5bit_char, decode_to_buffer, decode, find_instruction, find_alias
  asmjit/support/support.h    Support::compare_string_views
  asmjit/x86/x86instapi.cpp   x86::InstInternal::inst_id_to_string, string_to_inst_id
  asmjit/arm/a64instapi.cpp   a64::InstInternal::inst_id_to_string, string_to_inst_id

Strings are lists of bytes (`Nat` < 256). A string table (`const char[]`) is one natural number read in base 256
(byte `i` = `table / 256^i % 256`; this keeps `decide +kernel` over the generated tables cheap, the kernel has GMP
arithmetic but walks lists cell by cell). `InstId` 0 is `BaseInst::kIdNone`, `Globals::kInvalidId` (find_alias) is `none`.
-/
namespace AsmjitVerif.InstName

/-- `InstNameIndex` + the two tables `find_instruction` is given. -/
structure NameTables where
  count : Nat                    -- Inst::_kIdCount
  maxLen : Nat                   -- InstNameIndex::max_name_length
  spans : List (Nat × Nat)       -- InstNameIndex::data[26] = {start, end}
  strtab : Nat                   -- _inst_name_string_table (base-256 number, see above)
  nametab : List Nat             -- _inst_name_index_table (one 32-bit name value per id)
  /-- `sorted_id_table` of `find_instruction` (fixes/C13-8): `[]` = nullptr (ids are sorted by name, spans are ids),
      otherwise the instruction ids sorted by name and the spans are positions in this table -/
  sortedIds : List Nat := []

structure AliasTables where
  count : Nat                    -- InstDB::kAliasTableSize
  strtab : Nat                   -- alias_name_string_table
  nametab : List Nat             -- alias_name_index_table
  ids : List Nat                 -- alias_index_to_inst_id_table

/-- `decode_5bit_char`: 1..26 -> 'a'..'z', 27.. -> '0'.. -/
def decode5 (c : Nat) : Nat := if c ≤ 26 then 96 + c else 21 + c

/-- the small-string branch of `decode_to_buffer`: up to six 5-bit characters, stops at the first zero -/
def decodeSmall : Nat → Nat → List Nat
  | 0, _ => []
  | n + 1, v => if v % 32 = 0 then [] else decode5 (v % 32) :: decodeSmall n (v / 32)

/-- `string_table[i]` -/
def stByte (st : Nat) (i : Nat) : Nat := (st >>> (8 * i)) % 256

/-- `string_table[base .. base+size)` -/
def slice (st : Nat) (base size : Nat) : List Nat := (List.range size).map fun k => stByte st (base + k)

/-- `InstNameUtils::decode_to_buffer(name_out, name_value, options, string_table)`; `aliases` = `options & kAliases`. -/
def decodeToBuffer (v : Nat) (aliases : Bool) (st : Nat) : List Nat :=
  if v / 0x80000000 % 2 = 1 then decodeSmall 6 v
  else
    let prefixBase := v % 0x1000
    let prefixSize := v / 0x1000 % 16
    let suffixBase := v / 0x10000 % 0x1000
    let suffixSize := v / 0x10000000 % 8
    if aliases && suffixBase == 0xFFF then
      -- alias formatting follows the name: one length byte, then the text
      let pb := prefixBase + prefixSize
      let ps := stByte st pb
      slice st (pb + 1) ps ++ slice st suffixBase suffixSize
    else
      slice st prefixBase prefixSize ++ slice st suffixBase suffixSize

/-- `Support::compare_string_views`: first byte difference, else the difference of the lengths
    (the recursion returns the difference of the *remaining* lengths, which is the same number). -/
def cmpViews : List Nat → List Nat → Int
  | x :: xs, y :: ys => if x = y then cmpViews xs ys else (x : Int) - (y : Int)
  | xs, ys => (xs.length : Int) - (ys.length : Int)

/-- The loop shared by `find_instruction` and `find_alias`:
    `for (lim = end - base; lim != 0; lim >>= 1) { i = base + (lim >> 1); r = compare(s, name(i)); if (r < 0) continue;
     if (r > 0) { base = i + 1; lim--; continue; } return i; } return none`.
    `fuel` only makes the recursion structural (callers pass `lim`; every round at least halves `lim`). -/
def bsearch (key : Nat → List Nat) (s : List Nat) : Nat → Nat → Nat → Option Nat
  | 0, _, _ => none
  | fuel + 1, base, lim =>
    if lim = 0 then none else
    let i := base + lim / 2
    let r := cmpViews s (key i)
    if r < 0 then bsearch key s fuel base (lim / 2)
    else if r > 0 then bsearch key s fuel (i + 1) ((lim - 1) / 2)
    else some i

/-- `inst_id = sorted_id_table ? sorted_id_table[index] : index` -/
def idAt (T : NameTables) (i : Nat) : Nat :=
  if T.sortedIds = [] then i else T.sortedIds.getD i 0

/-- name at search position `i` as `find_instruction` decodes it -/
def keyOf (T : NameTables) (i : Nat) : List Nat := decodeToBuffer (T.nametab.getD (idAt T i) 0) false T.strtab

/-- `InstNameUtils::find_instruction` (0 = kIdNone). `s` must be non-empty (asserted in C++). -/
def findInstruction (T : NameTables) (s : List Nat) : Nat :=
  match s with
  | [] => 0
  | c :: _ =>
    -- uint32_t prefix = s[0] - 'a'; if (prefix > 'z' - 'a') return none   (unsigned wrap for s[0] < 'a')
    if c < 97 ∨ c > 122 then 0 else
    let sp := T.spans.getD (c - 97) (0, 0)
    if sp.1 = 0 then 0 else
    match bsearch (keyOf T) s (sp.2 - sp.1) sp.1 (sp.2 - sp.1) with
    | some i => idAt T i
    | none => 0

def aliasKeyOf (A : AliasTables) (i : Nat) : List Nat := decodeToBuffer (A.nametab.getD i 0) false A.strtab

/-- `InstNameUtils::find_alias` -/
def findAlias (A : AliasTables) (s : List Nat) : Option Nat :=
  bsearch (aliasKeyOf A) s A.count 0 A.count

/-- `x86::InstInternal::string_to_inst_id(s, len)` for `s != nullptr` -/
def x86StringToInstId (T : NameTables) (A : AliasTables) (s : List Nat) : Nat :=
  if s.length = 0 ∨ s.length > T.maxLen then 0 else
  let id := findInstruction T s
  if id ≠ 0 then id else
  match findAlias A s with
  | some a => A.ids.getD a 0
  | none => 0

/-- `a64::InstInternal::string_to_inst_id(s, len)` for `s != nullptr` -/
def a64StringToInstId (T : NameTables) (s : List Nat) : Nat :=
  if s.length = 0 ∨ s.length > T.maxLen then 0 else findInstruction T s

/-- `inst_id_to_string(id, options)`: `none` = kInvalidInstruction.
    x86 tests `id < _kIdCount`; a64 masks with `InstIdParts::kRealId` (0xFFFF) first. -/
def instIdToString (T : NameTables) (realIdMask : Option Nat) (id : Nat) (aliases : Bool) : Option (List Nat) :=
  let rid := match realIdMask with | some m => id % (m + 1) | none => id
  if rid < T.count then some (decodeToBuffer (T.nametab.getD rid 0) aliases T.strtab) else none

end AsmjitVerif.InstName
