/-
Fourth wave of the hand model of `a64::Assembler::_emit`: PRFM, CASP and more SIMD classes that end in the shared
tails (FSimdSV, ISimdSV, ISimdWWV, ISimdVVVI, SimdCmp, SimdSxtlUxtl, SimdShiftES, SimdFcmpFcmpe, SimdFccmpFccmpe,
SimdFcsel, SimdFcvt).  Follows /repo HEAD.  Core-only imports.
-/
import AsmjitVerif.Model.A64AsmSimd
namespace AsmjitVerif.A64Asm
open AsmjitVerif.A64
open AsmjitVerif.Gen.A64Tables

/-! ### kEncodingBasePrfm -/

def emitPrfm (d : BasePrfmRow) (op : BitVec 64) (mo : Operand) (m : MemView) (pos : Nat) : Result :=
  if op.toNat > 0x1F then invalidImmediate else
  if !checkMemBaseIndexRel m then invalidAddress else
  let prfop := op.toNat
  if m.hasBaseReg then
    if m.hasIndex then
      let opt := shiftOpToLdStOpt m.shiftOp
      if opt == 0xFF then invalidAddress else
      let s := if m.shift != 0 then 1 else 0
      if s == 1 && m.shift != 3 then invalidAddressScale else
      tailMemBaseIndex ((w32 d.register_op <<< 21) ||| addImm opt 13 ||| addImm s 12 ||| 0x800#32 ||| addImm prfop 0) m
    else if m.mode != 0 then invalidAddress
    else
      let imm12 := m.off32 >>> 3
      if imm12.toNat < 4096 && (imm12 <<< 3) == m.off32 then
        tailMemBase ((w32 d.s_offset_op <<< 22) ||| (imm12 <<< 10) ||| addImm prfop 0) m
      else if isInt9 m.off32 then
        tailMemBase ((w32 d.u_offset_op <<< 21) ||| ((m.off32 &&& 0x1FF#32) <<< 12) ||| addImm prfop 0) m
      else invalidAddress
  else emitRel fmtBranch19 ((w32 d.literal_op <<< 24) ||| addImm prfop 0) pos mo

/-! ### kEncodingBaseAtomicCasp -/

def emitCasp (d : BaseAtomicCaspRow) (o0 o1 o2 o3 : Reg) (m : MemView) : Result :=
  if !checkGpType o0 d.reg_type then invalidInstruction else
  if !(o0.sameSig o1 && o1.sameSig o2 && o2.sameSig o3) then invalidInstruction else
  if (o0.id ||| o2.id) % 2 != 0 || !(checkGpId o0 idZR && checkGpId o2 idZR) then invalidPhysId else
  if (o0.id + 1) % 32 != o1.id || (o2.id + 1) % 32 != o3.id then invalidPhysId else
  tailMemBaseNoImm (w32 d.opcode ||| addImm (xOf o0 d.reg_type) d.x_offset ||| addReg o0.id 16 ||| addReg o2.id 0) m

/-! ### more SIMD classes -/

/-- `EmitOp_Rn5` / `EmitOp_Rn5_Rm16` -/
def tailRn5 (opcode : BitVec 32) (o0 : Reg) (o1idx : Nat) : Result :=
  if (idxBit o0 0 ||| o1idx) != 0 then invalidInstruction else
  if !validReg o0 then invalidPhysId else ok1 (opcode ||| addReg o0.id 5)

def tailRn5Rm16 (opcode : BitVec 32) (o0 o1 : Reg) : Result :=
  if (idxBit o0 0 ||| idxBit o1 1) != 0 then invalidInstruction else
  if !(validReg o0 && validReg o1) then invalidPhysId else ok1 (opcode ||| addReg o0.id 5 ||| addReg o1.id 16)

def u32sub (a b : Nat) : Nat := (a + 2 ^ 32 - b) % 2 ^ 32

def emitFSimdSV (opcode : Nat) (o0 o1 : Reg) : Result :=
  let q := u32sub o1.rt rtVec64
  if q > 1 then invalidInstruction else
  if o0.et != 0 then invalidInstruction else
  let sz := u32sub o0.rt rtVec16
  let esz := u32sub o1.et 2
  if (sz ||| esz) > 1 || sz != esz then invalidInstruction else
  if sz != 0 && q == 0 then invalidInstruction else
  tailRd0Rn5 (((w32 opcode <<< 10) ^^^ (if sz == 0 then 0x20000000#32 else 0#32)) ||| addImm q 30) o0 o1 0

def emitISimdSV (opcode voType flags : Nat) (o0 o1 : Reg) : Result :=
  let l := if flags &&& flagLong != 0 then 1 else 0
  if u32sub o0.rt rtVec8 != (u32sub o1.et 1 + l) % 2 ^ 32 || o0.et != 0 then invalidInstruction else
  match sizeOpOf voType o1 with
  | none => invalidInstruction
  | some so => tailRd0Rn5 (w32 opcode ||| addImm (soQ so) 30 ||| addImm (soSize so) 22) o0 o1 0

def emitISimdWWV (opcode voType : Nat) (o0 o1 o2 : Reg) : Result :=
  match sizeOpOf voType o2 with
  | none => invalidInstruction
  | some so =>
    if !o0.sameSig o1 || o0.rt != rtVec128 || o0.et != o2.et + 1 then invalidInstruction else
    tailRd0Rn5Rm16 (w32 opcode ||| sizeBits so) o0 o1 o2 0

def emitISimdVVVI (d : ISimdVVVIRow) (flags : Nat) (o0 o1 o2 : Reg) (imm : BitVec 64) : Result :=
  let sop := if flags &&& flagLong == 0 then o0 else o1
  if !(matchSignature2 o0 o1 flags && o1.sameSig o2) then invalidInstruction else
  match sizeOpOf d.vec_op_type sop with
  | none => invalidInstruction
  | some so =>
    let immSize := if d.imm64_has_one_bit_less != 0 && soQ so == 0 then d.imm_size - 1 else d.imm_size
    if imm.toNat ≥ 2 ^ immSize then invalidImmediate else
    tailRd0Rn5Rm16 (w32 d.opcode ||| sizeBits so ||| addImm imm.toNat d.imm_shift) o0 o1 o2 0

def emitSimdCmpReg (d : SimdCmpRow) (flags : Nat) (o0 o1 o2 : Reg) : Result :=
  if d.register_op == 0 then invalidInstruction else
  if !(matchSignature2 o0 o1 flags && o1.sameSig o2) then invalidInstruction else
  match sizeOpOf d.vec_op_type o0 with
  | none => invalidInstruction
  | some so => tailRd0Rn5Rm16 ((w32 d.register_op <<< 10) ||| sizeBits so) o0 o1 o2 0

def emitSimdCmpZero (d : SimdCmpRow) (flags : Nat) (o0 o1 : Reg) (imm : BitVec 64) : Result :=
  if d.zero_op == 0 then invalidInstruction else
  if !matchSignature2 o0 o1 flags then invalidInstruction else
  if imm != 0 then invalidImmediate else
  match sizeOpOf d.vec_op_type o0 with
  | none => invalidInstruction
  | some so => tailRd0Rn5 ((w32 d.zero_op <<< 10) ||| sizeBits so) o0 o1 0

def emitSxtlUxtl (d : SimdSxtlUxtlRow) (flags : Nat) (o0 o1 : Reg) : Result :=
  match sizeOpOf d.vec_op_type o1 with
  | none => invalidInstruction
  | some so =>
    if !matchSignature2 o0 o1 flags then invalidInstruction else
    tailRd0Rn5 ((w32 d.opcode <<< 10) ||| addImm (soQ so) 30 ||| addImm 1 (soSize so + 19)) o0 o1 0

def emitShiftES (d : SimdShiftESRow) (flags : Nat) (o0 o1 : Reg) (sh : BitVec 64) (pred : Nat) : Result :=
  match sizeOpOf d.vec_op_type o1 with
  | none => invalidInstruction
  | some so =>
    if !matchSignature2 o0 o1 flags then invalidInstruction else
    if sh.toNat != 8 * 2 ^ soSize so || pred != sopLSL then invalidImmediate else
    tailRd0Rn5 ((w32 d.opcode <<< 10) ||| addImm (soQ so) 30 ||| addImm (soSize so) 22) o0 o1 0

def fpType (sz : Nat) : Nat := (u32sub sz 1) % 4

def emitFcmpReg (opcode : Nat) (o0 o1 : Reg) : Result :=
  let sz := u32sub o0.rt rtVec16
  if sz > 2 then invalidInstruction else
  if o0.et != 0 then invalidInstruction else
  if !o0.sameSig o1 then invalidInstruction else
  tailRn5Rm16 (w32 opcode ||| addImm (fpType sz) 22) o0 o1

def emitFcmpZero (opcode : Nat) (o0 : Reg) (imm : BitVec 64) (pred : Nat) : Result :=
  let sz := u32sub o0.rt rtVec16
  if sz > 2 then invalidInstruction else
  if o0.et != 0 then invalidInstruction else
  if imm != 0 || pred != 0 then invalidInstruction else
  tailRn5 (w32 opcode ||| addImm (fpType sz) 22 ||| 0x8#32) o0 0

def emitFccmp (opcode : Nat) (o0 o1 : Reg) (nzcv cond : BitVec 64) : Result :=
  let sz := u32sub o0.rt rtVec16
  if sz > 2 then invalidInstruction else
  if !o0.sameSig o1 || o0.et != 0 then invalidInstruction else
  if (nzcv ||| cond).toNat > 0xF then invalidImmediate else
  tailRn5Rm16 (w32 opcode ||| addImm (fpType sz) 22 ||| addImm (condCodeToOpcodeField cond.toNat) 12 ||| addImm nzcv.toNat 0) o0 o1

def emitFcsel (o0 o1 o2 : Reg) (cond : BitVec 64) : Result :=
  if !(o0.sameSig o1 && o1.sameSig o2) then invalidInstruction else
  let sz := u32sub o0.rt rtVec16
  if sz > 2 || o0.et != 0 then invalidInstruction else
  if cond.toNat > 0xF then invalidImmediate else
  tailRd0Rn5Rm16 (0x1E200C00#32 ||| addImm (fpType sz) 22 ||| addImm (condCodeToOpcodeField cond.toNat) 12) o0 o1 o2 0

def fcvtTable : List Nat := [0xFF, 0x03, 0x13, 0xFF, 0x30, 0xFF, 0x10, 0xFF, 0x31, 0x01, 0xFF, 0xFF, 0xFF, 0xFF, 0xFF, 0xFF]

def emitFcvt (o0 o1 : Reg) : Result :=
  let dst := u32sub o0.rt rtVec16
  let src := u32sub o1.rt rtVec16
  if (dst ||| src) > 3 then invalidInstruction else
  if o0.et != 0 || o1.et != 0 then invalidInstruction else
  let t := fcvtTable.getD (dst * 4 + src) 0xFF
  if t == 0xFF then invalidInstruction else
  tailRd0Rn5 (0x1E224000#32 ||| addImm (t >>> 4) 22 ||| addImm (t % 16) 15) o0 o1 0

def emitInst4 (r : InstRow) (rq : Request) : Result :=
  let o := rq.ops
  let enc := r.enc
  if rq.cc != 0 then notModelled
  else if enc == encBasePrfm then
    match basePrfm[r.idx]?, o with
    | some d, [.imm v _, mo] => match memView mo with
                                | some m => emitPrfm d v mo m rq.pos
                                | none => notModelled
    | _, _ => notModelled
  else if enc == encBaseAtomicCasp then
    match baseAtomicCasp[r.idx]?, o with
    | some d, [.reg a, .reg b, .reg c, .reg e, mo] => match memView mo with
                                                      | some m => emitCasp d a b c e m
                                                      | none => notModelled
    | _, _ => notModelled
  else if enc == encFSimdSV then
    match fSimdSV[r.idx]?, o with
    | some d, [.reg a, .reg b] => emitFSimdSV d.opcode a b
    | _, _ => notModelled
  else if enc == encISimdSV then
    match iSimdSV[r.idx]?, o with
    | some d, [.reg a, .reg b] => emitISimdSV d.opcode d.vec_op_type r.flags a b
    | _, _ => notModelled
  else if enc == encISimdWWV then
    match iSimdWWV[r.idx]?, o with
    | some d, [.reg a, .reg b, .reg c] => emitISimdWWV d.opcode d.vec_op_type a b c
    | _, _ => notModelled
  else if enc == encISimdVVVI then
    match iSimdVVVI[r.idx]?, o with
    | some d, [.reg a, .reg b, .reg c, .imm v _] => emitISimdVVVI d r.flags a b c v
    | _, _ => notModelled
  else if enc == encSimdCmp then
    match simdCmp[r.idx]?, o with
    | some d, [.reg a, .reg b, .reg c] => emitSimdCmpReg d r.flags a b c
    | some d, [.reg a, .reg b, .imm v _] => emitSimdCmpZero d r.flags a b v
    | _, _ => notModelled
  else if enc == encSimdSxtlUxtl then
    match simdSxtlUxtl[r.idx]?, o with
    | some d, [.reg a, .reg b] => emitSxtlUxtl d r.flags a b
    | _, _ => notModelled
  else if enc == encSimdShiftES then
    match simdShiftES[r.idx]?, o with
    | some d, [.reg a, .reg b, .imm v p] => emitShiftES d r.flags a b v p
    | _, _ => notModelled
  else if enc == encSimdFcmpFcmpe then
    match simdFcmpFcmpe[r.idx]?, o with
    | some d, [.reg a, .reg b] => emitFcmpReg d.opcode a b
    | some d, [.reg a, .imm v p] => emitFcmpZero d.opcode a v p
    | _, _ => notModelled
  else if enc == encSimdFccmpFccmpe then
    match simdFccmpFccmpe[r.idx]?, o with
    | some d, [.reg a, .reg b, .imm n _, .imm c _] => emitFccmp d.opcode a b n c
    | _, _ => notModelled
  else if enc == encSimdFcsel then
    match o with
    | [.reg a, .reg b, .reg c, .imm v _] => emitFcsel a b c v
    | _ => notModelled
  else if enc == encSimdFcvt then
    match o with
    | [.reg a, .reg b] => emitFcvt a b
    | _ => notModelled
  else notModelled

/-- all four waves -/
def emitEverything (rq : Request) : Result :=
  match emitFull rq with
  | .err "NotModelled" =>
    (match instTable[rq.inst]? with
     | some r => if rq.inst == 0 then notModelled else emitInst4 r { rq with ops := (rq.ops.reverse.dropWhile (· == .none)).reverse }
     | none => notModelled)
  | res => res

end AsmjitVerif.A64Asm
