/-
C05 - register allocation preserves the meaning of Compiler programs.

Nothing of the allocator (rapass.cpp, ralocal.cpp, x86rapass.cpp, a64rapass.cpp) is transcribed here.
This file is the *validator*: a small IR for the node list of one function before `run_passes()` (virtual
registers) and after it (physical registers + stack slots), an executable checker `validate`, and (in
`Props/C05.lean`) the proof that an accepted pair of programs behaves identically for every interpretation of
the instructions and every input (Rideau & Leroy, "Validating register allocation and spilling", adapted to a
product-program certificate).

Core-only imports: the driver links this file.
-/
namespace AsmjitVerif.RAIR

/-- a location: a virtual register / flag (program before RA) or a physical register / stack slot / flag
    (program after RA). The driver chooses the numbering. -/
abbrev Loc := Nat

/-- instructions are *uninterpreted*: `key` (instruction id, operand shapes and sizes, immediates, labels,
    displacements, options - canonical text built by the driver) names an arbitrary function of the values read -/
inductive Inst where
  /-- ordinary instruction: reads `reads` (and the memory token when `mem`), writes `writes` (value i of the
      function named by `key`), leaves junk in `clobbers`, replaces the memory token when `mem`, and is an
      observable event (a call with its argument values and the memory it sees) when `ev` -/
  | op (key : String) (reads writes clobbers : List Loc) (mem ev : Bool)
  /-- exact copy `dst := src` (`size` = bytes copied; only used by the validator's width guard) -/
  | move (dst src : Loc) (size : Nat)
  /-- exchange of two locations (`size` = bytes exchanged; only used by the validator's width guard) -/
  | swap (a b : Loc) (size : Nat)
  | jmp (t : Nat)
  /-- conditional jump: taken iff the uninterpreted predicate `key` holds of the values read -/
  | jcc (key : String) (reads : List Loc) (t : Nat)
  /-- annotated indirect jump: the uninterpreted selector `key` of the values read picks the target -/
  | jtab (key : String) (reads : List Loc) (ts : List Nat)
  /-- function return: the observable result is the list of values read and the memory token -/
  | ret (reads : List Loc)
  deriving Repr, Inhabited

abbrev Prog := Array Inst

/-- an arbitrary meaning of the instruction keys over an arbitrary value domain -/
structure Interp (Val : Type) where
  eval : String → List Val → Nat → Val      -- i-th value written
  evalMem : String → List Val → Val          -- new memory token
  junk : String → List Val → Nat → Val      -- what is left in the i-th clobbered location
  cond : String → List Val → Bool
  sel : String → List Val → Nat

structure State (Val : Type) where
  pc : Nat
  regs : Loc → Val
  mem : Val

structure Event (Val : Type) where
  key : String
  args : List Val

inductive Step (Val : Type) where
  | next (s : State Val) (ev : Option (Event Val))
  | done (vals : List Val) (mem : Val)
  | stuck

def upd {Val : Type} (r : Loc → Val) (l : Loc) (x : Val) : Loc → Val := fun k => if k = l then x else r k

/-- `assign r [l0, l1, ..] f` stores `f 0` in `l0`, then `f 1` in `l1` .. (later stores win) -/
def assign {Val : Type} (r : Loc → Val) : List Loc → (Nat → Val) → Loc → Val
  | [], _ => r
  | l :: ls, f => assign (upd r l (f 0)) ls (fun i => f (i + 1))

variable {Val : Type}

def step (I : Interp Val) (prog : Prog) (s : State Val) : Step Val :=
  match prog[s.pc]? with
  | none => .stuck
  | some (.op key rs ws cs mem ev) =>
      let ins := rs.map s.regs ++ (if mem then [s.mem] else [])
      .next { pc := s.pc + 1,
              regs := assign (assign s.regs cs (I.junk key ins)) ws (I.eval key ins),
              mem := if mem then I.evalMem key ins else s.mem }
            (if ev then some ⟨key, ins⟩ else none)
  | some (.move d src _) => .next { s with pc := s.pc + 1, regs := upd s.regs d (s.regs src) } none
  | some (.swap a b _) => .next { s with pc := s.pc + 1, regs := upd (upd s.regs a (s.regs b)) b (s.regs a) } none
  | some (.jmp t) => .next { s with pc := t } none
  | some (.jcc key rs t) => .next { s with pc := if I.cond key (rs.map s.regs) then t else s.pc + 1 } none
  | some (.jtab key rs ts) =>
      match ts[I.sel key (rs.map s.regs)]? with
      | some t => .next { s with pc := t } none
      | none => .stuck
  | some (.ret rs) => .done (rs.map s.regs) s.mem

inductive Outcome (Val : Type) where
  | ret (vals : List Val) (mem : Val)
  | stuck
  | running

/-- what an observer sees of at most `n` steps: the events (calls with their arguments and memory) and how it ended -/
def exec (I : Interp Val) (prog : Prog) : Nat → State Val → List (Event Val) × Outcome Val
  | 0, _ => ([], .running)
  | n + 1, s =>
    match step I prog s with
    | .next s' ev => (ev.toList ++ (exec I prog n s').1, (exec I prog n s').2)
    | .done vals m => ([], .ret vals m)
    | .stuck => ([], .stuck)

/-! ## the checker -/

/-- a relation between locations: `(l, v)` = "location `l` of the allocated program holds the value of
    location `v` of the virtual-register program" -/
abbrev Rel := List (Loc × Loc)

/-- certificate entry for a pair of program points (`q` = index of the list it is stored in) -/
structure Entry where
  p : Nat        -- program point of the virtual-register program
  d : Nat        -- stutter measure: decreases on every step that only one side takes
  E : Rel
  deriving Repr, Inhabited

/-- untrusted certificate: for every pc of the allocated program the paired pcs of the original one -/
abbrev Cert := Array (List Entry)

def subE (E' E : Rel) : Bool := E' == E || E'.all (fun x => E.contains x)

def nodupB : List Loc → Bool
  | [] => true
  | a :: as => !as.contains a && nodupB as

def readsOK (E : Rel) (rsP rsQ : List Loc) : Bool :=
  rsP.length == rsQ.length && (rsQ.zip rsP).all (fun x => E.contains x)

/-- forget everything about the locations `ls` (allocated side) and `vs` (virtual side) -/
def kill (E : Rel) (ls vs : List Loc) : Rel := E.filter (fun x => !ls.contains x.1 && !vs.contains x.2)

def twinE (E : Rel) (wsQ csQ wsP csP : List Loc) : Rel := wsQ.zip wsP ++ kill E (wsQ ++ csQ) (wsP ++ csP)

/-- inserted `dst := src` of `size` bytes: `dst` now holds whatever `src` held (width guard: only virtual
    registers that fit in `size` bytes are carried over) -/
def moveE (vsz : Loc → Nat) (E : Rel) (dst src size : Nat) : Rel :=
  if dst = src then E else
  ((E.filter (fun x => x.1 == src && vsz x.2 ≤ size)).map (fun x => (dst, x.2))) ++ E.filter (fun x => x.1 != dst)

def swapLoc (a b l : Loc) : Loc := if l = a then b else if l = b then a else l
/-- inserted exchange of `size` bytes (width guard: a virtual register wider than that is forgotten) -/
def swapE (vsz : Loc → Nat) (E : Rel) (a b : Loc) (size : Nat) : Rel :=
  (E.filter (fun x => !(x.1 == a || x.1 == b) || vsz x.2 ≤ size)).map (fun x => (swapLoc a b x.1, x.2))

/-- a move of the virtual-register program that has no counterpart (deleted by the rewriter) -/
def preMoveE (E : Rel) (dP sP : Loc) : Rel :=
  if dP = sP then E else
  ((E.filter (fun x => x.2 == sP)).map (fun x => (x.1, dP))) ++ E.filter (fun x => x.2 != dP)

/-- both programs copy (`vd := vs` / `ld := ls` with `ls` holding `vs`): `ld` holds `vd`, and so does every other
    location that held `vs` -/
def twinMoveE (E : Rel) (dQ dP sP : Loc) : Rel :=
  (dQ, dP) :: ((E.filter (fun x => x.1 != dQ && x.2 == sP)).map (fun x => (x.1, dP)) ++ kill E [dQ] [dP])

/-- the pair `(p, q)` is certified with a relation implied by `E` (and a smaller measure when required) -/
def okSucc (cert : Cert) (p q : Nat) (E : Rel) (dlim : Option Nat) : Bool :=
  match cert[q]? with
  | none => false
  | some es => es.any (fun e => e.p == p && subE e.E E &&
      (match dlim with | none => true | some d => decide (e.d < d)))

/-- both programs execute their twin instructions -/
def checkTwin (cert : Cert) (p q : Nat) (E : Rel) : Inst → Inst → Bool
  | .op kP rP wP cP mP eP, .op kQ rQ wQ cQ mQ eQ =>
      kP == kQ && mP == mQ && eP == eQ && readsOK E rP rQ && wP.length == wQ.length && nodupB wP && nodupB wQ
      && okSucc cert (p + 1) (q + 1) (twinE E wQ cQ wP cP) none
  | .move dP sP _, .move dQ sQ _ =>
      E.contains (sQ, sP) && okSucc cert (p + 1) (q + 1) (twinMoveE E dQ dP sP) none
  | .jmp tP, .jmp tQ => okSucc cert tP tQ E none
  | .jcc kP rP tP, .jcc kQ rQ tQ =>
      kP == kQ && readsOK E rP rQ && okSucc cert tP tQ E none && okSucc cert (p + 1) (q + 1) E none
  | .jtab kP rP tsP, .jtab kQ rQ tsQ =>
      kP == kQ && readsOK E rP rQ && tsP.length == tsQ.length && (tsP.zip tsQ).all (fun x => okSucc cert x.1 x.2 E none)
  | .ret rP, .ret rQ => readsOK E rP rQ
  | _, _ => false

/-- only the allocated program steps (inserted move / load / save / swap / jump / frame instruction) -/
def checkPostOnly (vsz : Loc → Nat) (cert : Cert) (p q d : Nat) (E : Rel) : Inst → Bool
  | .move dQ sQ sz => okSucc cert p (q + 1) (moveE vsz E dQ sQ sz) (some d)
  | .swap a b sz => okSucc cert p (q + 1) (swapE vsz E a b sz) (some d)
  | .jmp t => okSucc cert p t E (some d)
  | .op _ _ ws cs false false => okSucc cert p (q + 1) (kill E (ws ++ cs) []) (some d)
  | _ => false

/-- only the virtual-register program steps (its move was deleted by the rewriter) -/
def checkPreOnly (cert : Cert) (p q d : Nat) (E : Rel) : Inst → Bool
  | .move dP sP _ => okSucc cert (p + 1) q (preMoveE E dP sP) (some d)
  | _ => false

def checkEntry (vsz : Loc → Nat) (pre post : Prog) (cert : Cert) (q : Nat) (e : Entry) : Bool :=
  match pre[e.p]?, post[q]? with
  | some iP, some iQ =>
      checkTwin cert e.p q e.E iP iQ || checkPostOnly vsz cert e.p q e.d e.E iQ || checkPreOnly cert e.p q e.d e.E iP
  | _, _ => false

/-- The validator. `argsPre[i]` / `argsPost[i]` = where argument i lives on entry (virtual register / ABI location). -/
def validate (vsz : Loc → Nat) (pre post : Prog) (argsPre argsPost : List Loc) (cert : Cert) : Bool :=
  argsPre.length == argsPost.length && nodupB argsPre && nodupB argsPost
  && okSucc cert 0 0 (argsPost.zip argsPre) none
  && (List.range cert.size).all (fun q => (cert[q]?.getD []).all (fun e => checkEntry vsz pre post cert q e))

end AsmjitVerif.RAIR
