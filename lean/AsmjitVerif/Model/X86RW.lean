import AsmjitVerif.Model.X86Validate
/-
Executable model of `asmjit/x86/x86instapi.cpp`: `InstInternal::query_rw_info` (all categories, `rw_zero_extend_*`,
`rw_handle_avx512`) and `InstInternal::query_features` (`InstInternal_reg_analysis`, `InstInternal_usesAvx512`), written after
the code block by block, over the generated tables of `x86instdb.cpp` (`rw_info_index_a/b_table`, `rw_info_a/b_table`,
`rw_info_op_table`, `rw_info_rm_table`, `rw_flags_info_table`, `additional_info_table`, `inst_flags_table`) which are *data*
here (`Tables`): loaded by the driver from the compiler's dump of the tables and emitted as `Gen/C12Tables.lean` for the theorems.
`OpRWInfo::reset(flags, size, phys_id)` of `asmjit/core/inst.h` is `OpRW.reset`.
Core-only (the driver links this file). 64-bit masks are `Nat`s kept below 2^64.
-/
namespace Model.X86RW

/-! ### constants of the headers (checked against the harness' dump on every run by tools/props/c12.py) -/
-- RegType (core/operand.h)
def tGp8Lo := 2
def tGp8Hi := 3
def tGp16 := 4
def tGp32 := 5
def tGp64 := 6
def tVec128 := 11
def tVec256 := 12
def tVec512 := 13
def tMask := 16
def tSegment := 25
def tControl := 26
def tDebug := 27
def tMm := 28
-- RegGroup
def gGp := 0
def gVec := 1
-- OpRWFlags (core/inst.h)
def fR := 0x1
def fW := 0x2
def fX := 0x3
def fRegM := 0x4
def fZExt := 0x10
def fRegPhys := 0x100
def fMemBaseRead := 0x1000
def fMemBaseRW := 0x3000
def fMemIndexRead := 0x4000
def fMemIndexRW := 0xC000
def fMibRead := 0x5000
-- InstRWFlags
def ifMovOp := 0x1
-- InstOptions (core/inst.h)
def oVex3 := 0x400
def oVex := 0x800
def oEvex := 0x1000
def oER := 0x40000
def oZMask := 0x800000
def oAvx512Mask := 0xFC0000
-- RWInfo::Category
def cGenericEx := 1
def cMov := 2
def cMovabs := 3
def cImul := 4
def cMovh64 := 5
def cPunpcklxx := 6
def cVmaskmov := 7
def cVmovddup := 8
def cVmovmskpd := 9
def cVmovmskps := 10
def cVmov1_2 := 11
def cVmov1_8 := 13
def cVmov2_1 := 14
def cVmov8_1 := 16
-- RWInfoRm::Category / flags
def rmFixed := 1
def rmConsistent := 2
def rmHalf := 3
def rmQuarter := 4
def rmEighth := 5
def rmfPextrw := 0x02
def rmfMovssMovsd := 0x04
def rmfFeatureIfRMI := 0x08

def mask64 : Nat := 0xFFFFFFFFFFFFFFFF
def has (x f : Nat) : Bool := Nat.land x f != 0
def not64 (x : Nat) : Nat := Nat.xor (Nat.land x mask64) mask64
def clear (x f : Nat) : Nat := Nat.land x (not64 f)

/-- `Support::lsb_mask<uint64_t>(n)` (n ≤ 64 in every reachable call; n > 64 is undefined behaviour in C++) -/
def lsbMask (n : Nat) : Nat := if n ≥ 64 then mask64 else 2 ^ n - 1
/-- `Support::fill_trailing_bits` -/
def fillTrailing (v : Nat) : Nat := if v = 0 then 0 else 2 ^ (Nat.log2 v + 1) - 1

/-! ### tables -/
structure RWInfo where
  category : Nat
  rmInfo : Nat
  opIdx : List Nat
deriving Repr, DecidableEq, Inhabited
structure RWInfoOp where
  rmask : Nat
  wmask : Nat
  physId : Nat
  clc : Nat
  flags : Nat
deriving Repr, DecidableEq, Inhabited
structure RWInfoRm where
  category : Nat
  rmOpsMask : Nat
  fixedSize : Nat
  flags : Nat
  rmFeature : Nat
deriving Repr, DecidableEq, Inhabited
structure InstRec where
  name : String
  rwA : Nat
  rwB : Nat
  addl : Nat
  implicitZ : Bool
  preferEvex : Bool
deriving Repr, DecidableEq, Inhabited
structure Addl where
  instFlagsIdx : Nat
  rwFlagsIdx : Nat
  features : List Nat
deriving Repr, DecidableEq, Inhabited
structure Tables where
  insts : Array InstRec
  rwA : Array RWInfo
  rwB : Array RWInfo
  ops : Array RWInfoOp
  rms : Array RWInfoRm
  rwFlags : Array (Nat × Nat)
  addl : Array Addl
  instFlags : Array Nat
  /-- `CpuFeatures::X86` enumerator names → ids (from cpuinfo.h) -/
  feat : List (String × Nat)
  /-- `_inst_signature_table` / `_op_signature_table` as the validator model reads them (Gen/X86Sig.lean, C13's translator) -/
  sig : AsmjitVerif.X86Validate.SigTables
def Tables.empty : Tables := ⟨#[], #[], #[], #[], #[], #[], #[], #[], [], ⟨[], [], [], []⟩⟩

/-! ### operands -/
inductive Opnd
  | none
  | reg (rtype group size id : Nat)
  | mem (size : Nat) (hasBase hasIndex : Bool) (baseType indexType indexId : Nat) (baseId off : Nat)
  | imm (v : Nat)
deriving Repr, DecidableEq, Inhabited

namespace Opnd
def isReg : Opnd → Bool | reg .. => true | _ => false
def isMem : Opnd → Bool | mem .. => true | _ => false
def isImm : Opnd → Bool | imm .. => true | _ => false
def isRegOrMem (o : Opnd) : Bool := o.isReg || o.isMem
/-- `Operand_::x86_rm_size()` = size field of the signature -/
def rmSize : Opnd → Nat | reg _ _ s _ => s | mem s .. => s | _ => 0
def isRegType (o : Opnd) (t : Nat) : Bool := match o with | reg rt _ _ _ => rt == t | _ => false
def isGroup (o : Opnd) (g : Nat) : Bool := match o with | reg _ gr _ _ => gr == g | _ => false
def isGp (o : Opnd) : Bool := o.isGroup gGp
def isVec (o : Opnd) : Bool := o.isGroup gVec
def group : Opnd → Nat | reg _ g _ _ => g | _ => 0
def rtype : Opnd → Nat | reg t _ _ _ => t | _ => 0
/-- `OperandType` bit for `op_type_mask` (kNone 0, kReg 1, kMem 2, kImm 3) -/
def typeBit : Opnd → Nat | none => 1 | reg .. => 2 | mem .. => 4 | imm .. => 8
/-- `BaseMem::is_offset_64bit()` = no base register -/
def offset64 : Opnd → Bool | mem _ hb .. => !hb | _ => false
end Opnd

/-- `OpRWInfo` -/
structure OpRW where
  flags : Nat := 0
  physId : Nat := 0
  rmSize : Nat := 0
  clc : Nat := 0
  rmask : Nat := 0
  wmask : Nat := 0
  emask : Nat := 0
deriving Repr, DecidableEq, Inhabited

/-- `OpRWInfo::reset(op_flags, register_size, phys_id = kIdBad)` -/
def OpRW.reset (flags size : Nat) (physId : Nat := 0xFF) : OpRW :=
  let m := lsbMask (min size 64)
  { flags := flags, physId := physId % 256, rmSize := if has flags fRegM then size % 256 else 0, clc := 0,
    rmask := if has flags fR then m else 0, wmask := if has flags fW then m else 0, emask := 0 }

structure Inst where
  id : Nat
  options : Nat
  /-- register type of the extra register (0 = none) -/
  extraType : Nat
  extraId : Nat := 0
deriving Repr, DecidableEq, Inhabited

structure RWOut where
  instFlags : Nat
  readFlags : Nat
  writeFlags : Nat
  rmFeature : Nat
  extra : OpRW
  ops : List OpRW
deriving Repr, DecidableEq, Inhabited

/-- `rw_reg_group_byte_mask_table` (10 initialised entries of an array indexed by `RegGroup`; the rest is zero) -/
def groupByteMask (g : Nat) : Nat :=
  [0xFF, mask64, 0xFF, 0xFF, 0x3, 0xFF, 0xFF, 0x3FF, 0xFFFF, 0xFF].getD g 0

/-- `rw_zero_extend_gp` -/
def zeroExtendGp (o : OpRW) (regSize nativeGp : Nat) : OpRW :=
  if regSize + 4 == nativeGp then { o with flags := Nat.lor o.flags fZExt, emask := Nat.land (not64 o.wmask) 0xFF } else o

/-- `rw_zero_extend_avx_vec` -/
def zeroExtendAvxVec (o : OpRW) : OpRW :=
  let msk := not64 (fillTrailing o.wmask)
  if msk != 0 then { o with flags := Nat.lor o.flags fZExt, emask := msk } else o

/-- `rw_zero_extend_non_vec` -/
def zeroExtendNonVec (o : OpRW) (group : Nat) : OpRW :=
  let msk := Nat.land (not64 (fillTrailing o.wmask)) (groupByteMask group)
  if msk != 0 then { o with flags := Nat.lor o.flags fZExt, emask := msk } else o

def setOp (ops : List OpRW) (i : Nat) (f : OpRW → OpRW) : List OpRW := ops.modify i f

/-- `rw_handle_avx512` -/
def handleAvx512 (inst : Inst) (implicitZ : Bool) (out : RWOut) : RWOut :=
  if inst.extraType == tMask && out.ops.length > 0 then
    let out := { out with extra := { out.extra with flags := Nat.lor out.extra.flags fR, rmask := 0xFF } }
    if !has inst.options oZMask && !implicitZ then
      { out with ops := setOp out.ops 0 fun o => { o with flags := Nat.lor o.flags fR, rmask := Nat.lor o.rmask o.wmask } }
    else out
  else out

def hasSameRegType (ops : List Opnd) : Bool :=
  match ops with
  | [] => true
  | o :: rest => rest.all fun p => p.rtype == o.rtype

/-- the generic part of `query_rw_info` for one operand (loop body) -/
def genericOp (t : Tables) (rw : RWInfo) (nativeGp : Nat) (i : Nat) (src : Opnd) : OpRW :=
  if !src.isRegOrMem then {} else
  let d := t.ops.getD (rw.opIdx.getD i 0) default
  let flags := clear d.flags fZExt
  let r := if has flags fR && d.rmask == 0 then lsbMask src.rmSize else d.rmask
  let w := if has flags fW && d.wmask == 0 then lsbMask src.rmSize else d.wmask
  let op : OpRW := { flags := flags, physId := d.physId, rmSize := 0, clc := d.clc, rmask := r, wmask := w, emask := 0 }
  match src with
  | .reg _ group size _ =>
    if has op.flags fW then
      if group == gGp then zeroExtendGp op size nativeGp
      else if has d.flags fZExt then zeroExtendNonVec op group
      else op
    else op
  | .mem _ hb hi _ _ _ _ _ =>
    let op := if hb && !has op.flags fMemBaseRW then { op with flags := Nat.lor op.flags fMemBaseRead } else op
    if hi && !has op.flags fMemIndexRW then { op with flags := Nat.lor op.flags fMemIndexRead } else op
  | _ => op

def rmSizeFor (rm : RWInfoRm) (opSize rmMax : Nat) (cur : Nat) : Nat :=
  if rm.category == rmFixed then rm.fixedSize
  else if rm.category == rmConsistent then opSize % 256
  else if rm.category == rmHalf then (rmMax / 2) % 256
  else if rm.category == rmQuarter then (rmMax / 4) % 256
  else if rm.category == rmEighth then (rmMax / 8) % 256
  else cur

/-! ### the validator (Model/X86Validate.lean, C13) as `query_rw_info` uses it since fixes C12-6 / C12-7 -/
namespace V
open AsmjitVerif.X86Validate in
def operand : Opnd → Operand
  | .none => .none
  | .reg t _ _ id => .reg t id
  | .mem size hb hi bt it iid bid off => .mem size (if hb then bt else 0) (if hb then bid else 0) (if hi then it else 0) (if hi then iid else 0) 0 off 0 0
  | .imm v => .imm v
end V

/-- `validate(mode, inst, operands, op_count, ValidationFlags::kNone) == Error::kOk` -/
def validates (t : Tables) (mode64 : Bool) (inst : Inst) (ops : List Opnd) : Bool :=
  AsmjitVerif.X86Validate.validate t.sig
    { mode := if mode64 then 2 else 1, id := inst.id, options := inst.options,
      extra := if inst.extraType == 0 then none else some (inst.extraType, inst.extraId) } (ops.map V.operand) == .ok

/-- the memory operand `Mem(native rax-like register, 0, size)` both repairs materialise -/
def nativeMem (mode64 : Bool) (id size : Nat) : Opnd := .mem (size % 256) true false (if mode64 then tGp64 else tGp32) 0 0 id 0

def okOut (o : RWOut) : Except String RWOut := .ok o
def invalid : Except String RWOut := .error "InvalidInstruction"

/-- `InstInternal::query_rw_info(arch, inst, operands, op_count, out)` on operands that are not a short form (everything after
    the `rw_query_short_form` test) -/
def queryRWFull (t : Tables) (mode64 : Bool) (inst : Inst) (ops : List Opnd) : Except String RWOut :=
  if inst.id == 0 || inst.id ≥ t.insts.size then invalid else
  let ii := t.insts.getD inst.id default
  let addl := t.addl.getD ii.addl default
  let (rf, wf) := t.rwFlags.getD addl.rwFlagsIdx (0, 0)
  let n := ops.length
  let rw := if n == 2 then t.rwA.getD ii.rwA default else t.rwB.getD ii.rwB default
  let rm := t.rms.getD rw.rmInfo default
  let nativeGp := if mode64 then 8 else 4
  let op (i : Nat) : Opnd := ops.getD i .none
  let out0 : RWOut := { instFlags := t.instFlags.getD addl.instFlagsIdx 0, readFlags := rf, writeFlags := wf, rmFeature := rm.rmFeature,
                        extra := {}, ops := [] }
  if rw.category ≤ cGenericEx then
    let outOps := ops.zipIdx.map fun (src, i) => genericOp t rw nativeGp i src
    let opTypeMask := ops.foldl (fun m o => Nat.lor m o.typeBit) 0
    let regIdx := ops.zipIdx.filter (fun (o, _) => o.isReg)
    let rmMax := regIdx.foldl (fun m (o, _) => max m o.rmSize) 0
    let rmOps := regIdx.foldl (fun m (_, i) => Nat.lor m (2 ^ i)) 0
    let out := { out0 with ops := outOps }
    -- kMovOp only for register to register moves of the same kind
    let out := if has out.instFlags ifMovOp && !(n ≥ 2 && opTypeMask == 2 && hasSameRegType ops)
               then { out with instFlags := clear out.instFlags ifMovOp } else out
    -- special cases
    let (out, rmOps) :=
      if has rm.flags rmfMovssMovsd then
        if n == 2 && (op 0).isReg && (op 1).isReg then ({ out with ops := setOp out.ops 0 fun o => { o with emask := 0 } }, rmOps)
        else (out, rmOps)
      else if has rm.flags rmfPextrw then
        if n == 3 && (op 1).isRegType tMm then ({ out with rmFeature := 0 }, 0) else (out, rmOps)
      else if has rm.flags rmfFeatureIfRMI then
        if n != 3 || !(op 2).isImm then ({ out with rmFeature := 0 }, rmOps) else (out, rmOps)
      else (out, rmOps)
    let rmOps := Nat.land rmOps rm.rmOpsMask
    let out :=
      if rmOps != 0 && !has inst.options oER then
        { out with ops := out.ops.zipIdx.map fun (o, i) =>
            if Nat.testBit rmOps i then
              let o' := { o with flags := Nat.lor o.flags fRegM, rmSize := rmSizeFor rm (op i).rmSize rmMax o.rmSize }
              -- fixes/C12-7: the R/M information is per instruction id; keep it only if the form with this operand in memory exists
              if validates t mode64 inst (ops.set i (nativeMem mode64 0 o'.rmSize)) then o'
              else { o' with flags := clear o'.flags fRegM, rmSize := 0 }
            else o }
      else out
    -- vpternlogd/q with a predicate that ignores the destination
    let out :=
      if rw.category == cGenericEx && (ii.name == "vpternlogd" || ii.name == "vpternlogq") && n == 4 then
        match op 3 with
        | .imm v =>
          let p := v % 256
          if p / 16 == p % 16 then { out with ops := setOp out.ops 0 fun o => { o with flags := clear o.flags fR, rmask := 0 } } else out
        | _ => out
      else out
    okOut (handleAvx512 inst ii.implicitZ out)
  else
  -- the categories below write the operands they describe and leave the others as the caller passed them (harness: zeroed)
  let blank : List OpRW := ops.map fun _ => {}
  let ret (l : List (Nat × OpRW)) (o : RWOut := out0) : RWOut := { o with ops := l.foldl (fun acc (i, v) => setOp acc i fun _ => v) blank }
  let c := rw.category
  if c == cMov then
    let out0 := { out0 with instFlags := clear out0.instFlags ifMovOp }
    if n == 2 then
      let o0 := op 0; let o1 := op 1
      if o0.isReg && o1.isReg && o0.isGp && o1.isGp then
        okOut (ret [(0, zeroExtendGp (OpRW.reset (fW + fRegM) o0.rmSize) o0.rmSize nativeGp), (1, OpRW.reset (fR + fRegM) o1.rmSize)]
                   { out0 with instFlags := Nat.lor out0.instFlags ifMovOp })
      else if o0.isReg && o1.isReg && o0.isGp && o1.isRegType tSegment then
        okOut (ret [(0, { OpRW.reset (fW + fRegM) nativeGp with rmSize := 2 }), (1, OpRW.reset fR 2)] out0)
      else if o0.isReg && o1.isReg && o0.isRegType tSegment && o1.isGp then
        okOut (ret [(0, OpRW.reset fW 2), (1, { OpRW.reset (fR + fRegM) 2 with rmSize := 2 })] out0)
      else if o0.isReg && o1.isReg && ((o0.isGp && (o1.isRegType tControl || o1.isRegType tDebug)) ||
                                       ((o0.isRegType tControl || o0.isRegType tDebug) && o1.isGp)) then
        okOut (ret [(0, OpRW.reset fW nativeGp), (1, OpRW.reset fR nativeGp)] { out0 with writeFlags := 0x30F })
      else if o0.isReg && o1.isMem && o0.isGp then
        let d := if !o1.offset64 then OpRW.reset fW o0.rmSize else OpRW.reset (fW + fRegPhys) o0.rmSize 0
        okOut (ret [(0, zeroExtendGp d o0.rmSize nativeGp), (1, OpRW.reset (fR + fMibRead) o0.rmSize)] out0)
      else if o0.isReg && o1.isMem && o0.isRegType tSegment then
        okOut (ret [(0, OpRW.reset fW 2), (1, OpRW.reset fR 2)] out0)
      else if o0.isMem && o1.isReg && o1.isGp then
        okOut (ret [(0, OpRW.reset (fW + fMibRead) o1.rmSize),
                    (1, if !o0.offset64 then OpRW.reset fR o1.rmSize else OpRW.reset (fR + fRegPhys) o1.rmSize 0)] out0)
      else if o0.isMem && o1.isReg && o1.isRegType tSegment then
        okOut (ret [(0, OpRW.reset (fW + fMibRead) 2), (1, OpRW.reset fR 2)] out0)
      else if o0.isGp && o1.isImm then
        okOut (ret [(0, zeroExtendGp (OpRW.reset (fW + fRegM) o0.rmSize) o0.rmSize nativeGp), (1, {})] out0)
      else if o0.isMem && o1.isImm then
        -- `operands[0].as<Reg>().size()` of a memory operand is the size field of its signature
        okOut (ret [(0, OpRW.reset (fW + fMibRead) o0.rmSize), (1, {})] out0)
      else invalid
    else invalid
  else if c == cMovabs then
    if n == 2 then
      let o0 := op 0; let o1 := op 1
      if o0.isGp && o1.isMem then
        okOut (ret [(0, zeroExtendGp (OpRW.reset (fW + fRegPhys) o0.rmSize 0) o0.rmSize nativeGp), (1, OpRW.reset (fR + fMibRead) o0.rmSize)])
      else if o0.isMem && o1.isGp then
        okOut (ret [(0, OpRW.reset (fW + fMibRead) o1.rmSize), (1, OpRW.reset (fR + fRegPhys) o1.rmSize 0)])
      else if o0.isGp && o1.isImm then
        okOut (ret [(0, zeroExtendGp (OpRW.reset fW o0.rmSize) o0.rmSize nativeGp), (1, {})])
      else invalid
    else invalid
  else if c == cImul then
    let mib (o : Opnd) (r : OpRW) : OpRW := if o.isMem then { r with flags := Nat.lor r.flags fMibRead } else r
    if n == 2 then
      let o0 := op 0; let o1 := op 1
      if o0.isReg && o1.isImm then
        okOut (ret [(0, zeroExtendGp (OpRW.reset fX o0.rmSize) o0.rmSize nativeGp), (1, {})])
      else if o0.isRegType tGp16 && o1.rmSize == 1 then
        okOut (ret [(0, { OpRW.reset (fX + fRegPhys) 2 0 with rmask := lsbMask 1 }), (1, mib o1 (OpRW.reset (fR + fRegM) 1))])
      else
        okOut (ret [(0, zeroExtendGp (OpRW.reset fX o0.rmSize) o0.rmSize nativeGp), (1, mib o1 (OpRW.reset (fR + fRegM) o0.rmSize))])
    else if n == 3 then
      let o0 := op 0; let o1 := op 1; let o2 := op 2
      if o2.isImm then
        okOut (ret [(0, zeroExtendGp (OpRW.reset fW o0.rmSize) o0.rmSize nativeGp), (1, mib o1 (OpRW.reset (fR + fRegM) o1.rmSize)), (2, {})])
      else
        okOut (ret [(0, zeroExtendGp (OpRW.reset (fW + fRegPhys) o0.rmSize 2) o0.rmSize nativeGp),
                    (1, zeroExtendGp (OpRW.reset (fX + fRegPhys) o1.rmSize 0) o1.rmSize nativeGp),
                    (2, mib o2 (OpRW.reset (fR + fRegM) o2.rmSize))])
    else invalid
  else if c == cMovh64 then
    if n == 2 then
      let o0 := op 0; let o1 := op 1
      if o0.isVec && o1.isMem then
        okOut (ret [(0, { OpRW.reset fW 8 with wmask := lsbMask 8 * 256 }), (1, OpRW.reset (fR + fMibRead) 8)])
      else if o0.isMem && o1.isVec then
        okOut (ret [(0, OpRW.reset (fW + fMibRead) 8), (1, { OpRW.reset fR 8 with rmask := lsbMask 8 * 256 })])
      else invalid
    else invalid
  else if c == cPunpcklxx then
    if n == 2 then
      let o0 := op 0; let o1 := op 1
      -- the C++ writes the vec128 description first and falls through to the mm test when operand 1 is neither
      -- vec128 nor memory; the second block overwrites it if operand 0 is an mm register (it cannot be both)
      if o0.isRegType tVec128 && (o1.isRegType tVec128 || o1.isMem) then
        -- repaired code (fixes/C12-4.patch): the low quadword of the destination is read (pinned: 0x0F0F, and a stray
        -- write mask 0x0F0F on the read-only source)
        let a : OpRW := { OpRW.reset fX 16 with rmask := 0x00FF, wmask := 0xFFFF }
        let b : OpRW := OpRW.reset fR 16
        okOut (ret [(0, a), (1, if o1.isMem then { b with flags := Nat.lor b.flags fMibRead } else b)])
      else if o0.isRegType tMm && (o1.isRegType tMm || o1.isMem) then
        let a : OpRW := { OpRW.reset fX 8 with rmask := 0x0F, wmask := 0xFF }
        let b : OpRW := { OpRW.reset fR 4 with rmask := 0x0F }
        okOut (ret [(0, a), (1, if o1.isMem then { b with flags := Nat.lor b.flags fMibRead } else b)])
      else invalid
    else invalid
  else if c == cVmaskmov then
    if n == 3 then
      let o0 := op 0; let o1 := op 1; let o2 := op 2
      if o0.isVec && o1.isVec && o2.isMem then
        okOut (ret [(0, zeroExtendAvxVec (OpRW.reset fW o0.rmSize)), (1, OpRW.reset fR o1.rmSize), (2, OpRW.reset (fR + fMibRead) o1.rmSize)])
      else if o0.isMem && o1.isVec && o2.isVec then
        okOut (ret [(0, OpRW.reset (fX + fMibRead) o1.rmSize), (1, OpRW.reset fR o1.rmSize), (2, OpRW.reset fR o2.rmSize)])
      else invalid
    else invalid
  else if c == cVmovddup then
    if n == 2 then
      let o0 := op 0; let o1 := op 1
      let s0 := o0.rmSize
      let s1 := if s0 == 16 then 8 else s0
      if o0.isVec && o1.isVec then
        let b := OpRW.reset (fR + fRegM) s1
        okOut (handleAvx512 inst ii.implicitZ (ret [(0, zeroExtendAvxVec (OpRW.reset fW s0)),
                                                     (1, { b with rmask := Nat.land b.rmask 0x00FF00FF00FF00FF })]))
      else if o0.isVec && o1.isMem then
        okOut (handleAvx512 inst ii.implicitZ (ret [(0, zeroExtendAvxVec (OpRW.reset fW s0)), (1, OpRW.reset (fR + fMibRead) s1)]))
      else invalid
    else invalid
  else if c == cVmovmskpd || c == cVmovmskps then
    if n == 2 && (op 0).isGp && (op 1).isVec then
      okOut (ret [(0, { OpRW.reset fW 1 with emask := (2 ^ (nativeGp - 1) - 1) * 2 }), (1, OpRW.reset fR (op 1).rmSize)])
    else invalid
  else if cVmov1_2 ≤ c && c ≤ cVmov1_8 then
    let shift := c - cVmov1_2 + 1
    if n > 3 then invalid else
    if n ≥ 2 then
      let o0 := op 0; let o1 := op 1
      let third : List (Nat × OpRW) := if n ≥ 3 then [(2, {})] else []
      if o0.isReg && o1.isReg then
        let s1 := o1.rmSize
        let s0 := s1 / 2 ^ shift
        let a := OpRW.reset fW s0
        let b := OpRW.reset fR s1
        -- fixes/C12-8: no register-or-memory claim with {er}/{sae} (register forms only)
        let rmPossible := !has inst.options (oER + 0x80000)
        let a := if rmPossible && Nat.testBit rm.rmOpsMask 0 then { a with flags := Nat.lor a.flags fRegM, rmSize := s0 % 256 } else a
        let b := if rmPossible && Nat.testBit rm.rmOpsMask 1 then { b with flags := Nat.lor b.flags fRegM, rmSize := s1 % 256 } else b
        let a := if o0.isGp then zeroExtendGp a o0.rmSize nativeGp else a
        let a := if o0.isVec then zeroExtendAvxVec a else a
        okOut (handleAvx512 inst ii.implicitZ (ret (third ++ [(0, a), (1, b)])))
      else if o0.isReg && o1.isMem then
        let s1 := if o1.rmSize != 0 then o1.rmSize else 16
        let s0 := s1 / 2 ^ shift
        let a := OpRW.reset fW s0
        -- repaired code (fixes/C12-2.patch): this branch ends in rw_handle_avx512 like its siblings (pinned tree: plain kOk)
        okOut (handleAvx512 inst ii.implicitZ (ret (third ++ [(0, if o0.isVec then zeroExtendAvxVec a else a), (1, OpRW.reset (fR + fMibRead) s1)])))
      else if o0.isMem && o1.isReg then
        let s1 := o1.rmSize
        okOut (handleAvx512 inst ii.implicitZ (ret (third ++ [(0, OpRW.reset (fW + fMibRead) (s1 / 2 ^ shift)), (1, OpRW.reset fR s1)])))
      else invalid
    else invalid
  else if cVmov2_1 ≤ c && c ≤ cVmov8_1 then
    let shift := c - cVmov2_1 + 1
    if n > 3 then invalid else
    if n ≥ 2 then
      let o0 := op 0; let o1 := op 1
      let third : List (Nat × OpRW) := if n ≥ 3 then [(2, {})] else []
      let s0 := o0.rmSize
      let s1 := s0 / 2 ^ shift
      let a := OpRW.reset fW s0
      let a := if o0.isVec then zeroExtendAvxVec a else a
      let b := OpRW.reset fR s1
      if o0.isReg && o1.isReg then
        -- fixes/C12-8: no register-or-memory claim with {er}/{sae} (register forms only)
        let rmPossible := !has inst.options (oER + 0x80000)
        let a := if rmPossible && Nat.testBit rm.rmOpsMask 0 then { a with flags := Nat.lor a.flags fRegM, rmSize := s0 % 256 } else a
        let b := if rmPossible && Nat.testBit rm.rmOpsMask 1 then { b with flags := Nat.lor b.flags fRegM, rmSize := s1 % 256 } else b
        okOut (handleAvx512 inst ii.implicitZ (ret (third ++ [(0, a), (1, b)])))
      else if o0.isReg && o1.isMem then
        okOut (handleAvx512 inst ii.implicitZ (ret (third ++ [(0, a), (1, { b with flags := Nat.lor b.flags fMibRead })])))
      else invalid
    else invalid
  else invalid


/-- materialised implicit operand of a signature row (`rw_query_short_form`): the signature fixes the register -/
def implicitOpnd (mode64 : Bool) (flags regMask : Nat) : Opnd :=
  let id := ((List.range 8).find? fun b => Nat.testBit regMask b).getD 8
  let hasF (f : Nat) : Bool := Nat.land flags f != 0
  if hasF 0x1FFC0000 then nativeMem mode64 id (if hasF 0x800000 then 8 else if hasF 0x2000000 then 16 else if hasF 0x8000000 then 64 else 0)
  else if hasF 0x20 then .reg tVec128 gVec 16 id
  else if hasF 0x10 && mode64 then .reg tGp64 gGp 8 id
  else if hasF 0x8 then .reg tGp32 gGp 4 id
  else if hasF 0x4 then .reg tGp16 gGp 2 id
  else if hasF 0x2 then .reg tGp8Hi gGp 1 id
  else .reg tGp8Lo gGp 1 id

/-- full operand list of a signature row from the explicit operands; `none` if their number does not fit -/
def materialise (mode64 : Bool) : List (Nat × Nat) → List Opnd → List Opnd → Option (List Opnd × List Bool)
  | [], [], acc => some (acc.reverse, [])
  | [], _ :: _, _ => none
  | (f, m) :: refs, ops, acc =>
    if Nat.land f 0x80000000000000 != 0 then
      (materialise mode64 refs ops (implicitOpnd mode64 f m :: acc)).map fun (l, e) => (l, false :: e)
    else match ops with
      | [] => none
      | o :: rest => (materialise mode64 refs rest (o :: acc)).map fun (l, e) => (l, true :: e)

/-- `rw_query_short_form` (fixes/C12-6): `none` = not a short form -/
def shortForm (t : Tables) (mode64 : Bool) (inst : Inst) (ops : List Opnd) : Option (Except String RWOut) :=
  match AsmjitVerif.X86Validate.resolve t.sig inst.id with
  | none => none
  | some R =>
    let mode := if mode64 then 2 else 1
    let n := ops.length
    if R.rows.any (fun (c, sm, _, _) => Nat.land sm mode != 0 && c == n) then none else
    let rec go : List (Nat × Nat × Nat × List (Nat × Nat)) → Option (Except String RWOut)
      | [] => none
      | (c, sm, ic, refs) :: rest =>
        if Nat.land sm mode == 0 || ic == 0 || c - ic != n then go rest else
        match materialise mode64 refs ops [] with
        | none => go rest
        | some (full, isExplicit) =>
          if !validates t mode64 inst full then go rest else
          match queryRWFull t mode64 inst full with
          | .error e => some (.error e)
          | .ok r => some (.ok { r with ops := ((r.ops.zip isExplicit).filter (·.2)).map (·.1) })
    go R.rows

/-- `InstInternal::query_rw_info(arch, inst, operands, op_count, out)` -/
def queryRW (t : Tables) (mode64 : Bool) (inst : Inst) (ops : List Opnd) : Except String RWOut :=
  if inst.id == 0 || inst.id ≥ t.insts.size then invalid else
  match (if ops.length < 6 then shortForm t mode64 inst ops else none) with
  | some r => r
  | none => queryRWFull t mode64 inst ops

/-! ### query_features -/

structure RegAnalysis where
  typeMask : Nat
  highVec : Bool

/-- `InstInternal_reg_analysis` -/
def regAnalysis (ops : List Opnd) : RegAnalysis :=
  ops.foldl (fun a o => match o with
    | .reg t g _ id => { typeMask := Nat.lor a.typeMask (2 ^ t), highVec := a.highVec || (g == gVec && id ≥ 16 && id < 32) }
    | .mem _ hb hi bt it iid _ _ =>
      let m := if hb then Nat.lor a.typeMask (2 ^ bt) else a.typeMask
      if hi then { typeMask := Nat.lor m (2 ^ it), highVec := a.highVec || (iid ≥ 16 && iid < 32) } else { a with typeMask := m }
    | _ => a) ⟨0, false⟩

def RegAnalysis.hasType (a : RegAnalysis) (t : Nat) : Bool := Nat.testBit a.typeMask t

/-- names → ids of `CpuFeatures::X86` used by `query_features` (generated from cpuinfo.h) -/
structure FeatIds where
  MMX : Nat
  MMX2 : Nat
  SSE : Nat
  SSE2 : Nat
  SSE4_1 : Nat
  VPCLMULQDQ : Nat
  PCLMULQDQ : Nat
  AVX : Nat
  AVX2 : Nat
  AVX_IFMA : Nat
  AVX_NE_CONVERT : Nat
  AVX_VNNI : Nat
  F16C : Nat
  FMA : Nat
  AVX512_BF16 : Nat
  AVX512_BW : Nat
  AVX512_DQ : Nat
  AVX512_F : Nat
  AVX512_IFMA : Nat
  AVX512_VNNI : Nat
  AVX512_VL : Nat
deriving Repr, DecidableEq, Inhabited

def rem (fs : List Nat) (xs : List Nat) : List Nat := fs.filter fun f => !xs.contains f
def hasAny (fs : List Nat) (xs : List Nat) : Bool := xs.any fun x => fs.contains x

def shiftNames : List String := ["vpslldq", "vpslld", "vpsllq", "vpsllw", "vpsrad", "vpsraq", "vpsraw", "vpsrld", "vpsrldq", "vpsrlq", "vpsrlw"]
def gatherNames : List String := ["vgatherdpd", "vgatherdps", "vgatherqpd", "vgatherqps", "vpgatherdd", "vpgatherdq", "vpgatherqd", "vpgatherqq"]

/-- `InstInternal::query_features` -/
def queryFeatures (t : Tables) (F : FeatIds) (inst : Inst) (ops : List Opnd) : Except String (List Nat) :=
  if inst.id == 0 || inst.id ≥ t.insts.size then .error "InvalidInstruction" else
  let ii := t.insts.getD inst.id default
  let addl := t.addl.getD ii.addl default
  let n := ops.length
  let op (i : Nat) : Opnd := ops.getD i .none
  -- copy features up to the first zero
  let fs := addl.features.takeWhile (· != 0)
  if fs.isEmpty then .ok [] else
  let ra := regAnalysis ops
  -- MMX vs SSE
  let fs :=
    if (fs.contains F.MMX || fs.contains F.MMX2) && (fs.contains F.SSE || fs.contains F.SSE2) then
      let fs := if !ra.hasType tVec128 then rem fs [F.SSE, F.SSE2, F.SSE4_1] else rem fs [F.MMX, F.MMX2]
      if ii.name == "pextrw" then
        if n ≥ 1 && (op 0).isMem then rem fs [F.SSE2] else rem fs [F.SSE4_1]
      else fs
    else fs
  -- PCLMULQDQ vs VPCLMULQDQ
  let fs :=
    if fs.contains F.VPCLMULQDQ then
      -- `|| ra.highVec`: repaired code (fixes/C12-3.patch); xmm16–31 / ymm16–31 force the EVEX encoding
      if ra.hasType tVec512 || has inst.options oEvex || ra.highVec then rem fs [F.AVX, F.PCLMULQDQ]
      else if ra.hasType tVec256 then rem fs [F.AVX512_F, F.AVX512_VL]
      else rem fs [F.AVX512_F, F.AVX512_VL, F.VPCLMULQDQ]
    else fs
  -- AVX vs AVX2
  let fs :=
    if fs.contains F.AVX && fs.contains F.AVX2 then
      let isAvx2 :=
        if ii.name == "vbroadcastss" || ii.name == "vbroadcastsd" then !(n > 1 && (op 1).isMem)
        else ra.hasType tVec256 || ra.hasType tVec512
      rem fs [if isAvx2 then F.AVX else F.AVX2]
    else fs
  -- AVX vs AVX-512
  let avxSet := [F.AVX, F.AVX_IFMA, F.AVX_NE_CONVERT, F.AVX_VNNI, F.AVX2, F.F16C, F.FMA]
  let fs :=
    if hasAny fs avxSet && hasAny fs [F.AVX512_BF16, F.AVX512_BW, F.AVX512_DQ, F.AVX512_F, F.AVX512_IFMA, F.AVX512_VNNI] then
      let useEvex := has inst.options (oEvex + oAvx512Mask) || inst.extraType == tMask || ra.hasType tVec512 || ra.hasType tMask || ra.highVec
      let nm := ii.name
      let useEvex := useEvex ||
        (if nm == "vpbroadcastb" || nm == "vpbroadcastd" || nm == "vpbroadcastq" || nm == "vpbroadcastw" then n ≥ 2 && (op 1).isGp
         else if nm == "vcvtpd2dq" || nm == "vcvtpd2ps" || nm == "vcvttpd2dq" then n ≥ 2 && (op 0).isRegType tVec256
         else if gatherNames.contains nm then n == 2
         else if shiftNames.contains nm then n ≥ 2 && (op 1).isMem
         else if nm == "vpermpd" then n ≥ 3 && !(op 2).isImm
         else if nm == "vpermq" then n ≥ 3 && ((op 1).isMem || !(op 2).isImm)
         else false)
      let useEvex := useEvex || (ii.preferEvex && !has inst.options (oVex + oVex3))
      if useEvex then rem fs avxSet
      else rem fs [F.AVX512_BF16, F.AVX512_BW, F.AVX512_DQ, F.AVX512_F, F.AVX512_IFMA, F.AVX512_VL, F.AVX512_VNNI]
    else fs
  let fs := if ra.hasType tVec512 then rem fs [F.AVX512_VL] else fs
  .ok fs

/-! ### line protocol helpers (used by Driver/C12.lean): table loading, operand parsing, printing -/

def hexDigitVal (c : Char) : Option Nat :=
  if '0' ≤ c ∧ c ≤ '9' then some (c.toNat - '0'.toNat)
  else if 'a' ≤ c ∧ c ≤ 'f' then some (c.toNat - 'a'.toNat + 10) else none
def hex? (s : String) : Option Nat :=
  if s.isEmpty then none else s.foldl (fun acc c => match acc, hexDigitVal c with | some a, some d => some (a * 16 + d) | _, _ => none) (some 0)
def hexStr (n : Nat) : String :=
  if n = 0 then "0" else
  let rec go (fuel n : Nat) (acc : List Char) : List Char :=
    match fuel with
    | 0 => acc
    | fuel + 1 => if n = 0 then acc else go fuel (n / 16) ((if n % 16 < 10 then Char.ofNat (48 + n % 16) else Char.ofNat (87 + n % 16)) :: acc)
  String.ofList (go 64 n [])

def nat! (s : String) : Nat := s.toNat?.getD 0

/-- `tbl <kind> …` lines = the harness' `T <kind> …` lines -/
def loadLine (t : Tables) (ws : List String) : Tables :=
  match ws with
  | ["inst", _, name, a, b, addl, iz, pe] =>
    { t with insts := t.insts.push ⟨name, nat! a, nat! b, nat! addl, iz == "1", pe == "1"⟩ }
  | "rwa" :: _ :: c :: rm :: idx => { t with rwA := t.rwA.push ⟨nat! c, nat! rm, idx.map nat!⟩ }
  | "rwb" :: _ :: c :: rm :: idx => { t with rwB := t.rwB.push ⟨nat! c, nat! rm, idx.map nat!⟩ }
  | ["op", _, r, w, ph, clc, fl] => { t with ops := t.ops.push ⟨(hex? r).getD 0, (hex? w).getD 0, nat! ph, nat! clc, (hex? fl).getD 0⟩ }
  | ["rm", _, c, m, fx, fl, ft] => { t with rms := t.rms.push ⟨nat! c, nat! m, nat! fx, nat! fl, nat! ft⟩ }
  | ["rwflags", _, r, w] => { t with rwFlags := t.rwFlags.push ((hex? r).getD 0, (hex? w).getD 0) }
  | "addl" :: _ :: a :: b :: fs => { t with addl := t.addl.push ⟨nat! a, nat! b, fs.map nat!⟩ }
  | ["instflags", _, v] => { t with instFlags := t.instFlags.push ((hex? v).getD 0) }
  | ["feat", name, v] => { t with feat := (name, nat! v) :: t.feat }
  | _ => t

/-- register kinds of the line protocol: name → (RegType, RegGroup, size) (x86 `RegTraits`; cross-checked with the dump) -/
def regKinds : List (String × Nat × Nat × Nat) :=
  [("gpbl", 2, 0, 1), ("gpbh", 3, 0, 1), ("gpw", 4, 0, 2), ("gpd", 5, 0, 4), ("gpq", 6, 0, 8), ("xmm", 11, 1, 16), ("ymm", 12, 1, 32),
   ("zmm", 13, 1, 64), ("k", 16, 2, 0), ("tmm", 17, 4, 0), ("sreg", 25, 10, 2), ("creg", 26, 11, 0), ("dreg", 27, 12, 0), ("mm", 28, 3, 8),
   ("st", 29, 13, 10), ("bnd", 30, 14, 16)]

def shortReg? (s : String) : Option (Nat × Nat) :=   -- (RegType, id)
  match s.toList with
  | c :: rest =>
    let id := (String.ofList rest).toNat?
    let t := if c == 'q' then some 6 else if c == 'd' then some 5 else if c == 'x' then some 11 else if c == 'y' then some 12
             else if c == 'z' then some 13 else none
    match t, id with | some t, some id => some (t, id) | _, _ => none
  | [] => none

def parseOpnd (tok : String) : Option Opnd :=
  match tok.splitOn "." with
  | ["r", kind, id] => do
    let (_, t, g, s) ← regKinds.find? (·.1 == kind)
    some (.reg t g s (← id.toNat?))
  | ["i", v] => do some (.imm (← v.toNat?))
  | "m" :: size :: base :: index :: rest => do
    let size ← size.toNat?
    -- offsets / absolute addresses as harness/c12.cpp builds them
    if rest == ["abs"] then some (.mem (size % 256) false false 0 0 0 0 0x1122334455667788) else
    let b := if base == "-" then some (0, 0) else shortReg? base
    let i := if index == "-" then some (0, 0) else shortReg? index
    let (bt, bid) ← b
    let (it, iid) ← i
    some (.mem (size % 256) (base != "-") (index != "-") bt it iid bid (if base != "-" then 16 else 0x1000))
  | _ => none

def optBits (s : String) : Option Nat :=
  if s == "-" then some 0 else
  s.toList.foldl (fun acc c => match acc with
    | none => none
    | some a =>
      if c == 'z' then some (Nat.lor a oZMask) else if c == 'e' then some (Nat.lor a oER) else if c == 's' then some (Nat.lor a 0x80000)
      else if c == 'd' then some (Nat.lor a 0x200000) else if c == 'u' then some (Nat.lor a 0x400000) else if c == 'o' then some (Nat.lor a 0x600000)
      else if c == 'E' then some (Nat.lor a oEvex) else if c == 'V' then some (Nat.lor a oVex) else if c == '3' then some (Nat.lor a oVex3)
      else none) (some 0)

def opOut (o : OpRW) : String :=
  s!"{hexStr o.flags},{o.physId},{o.rmSize},{o.clc},{hexStr o.rmask},{hexStr o.wmask},{hexStr o.emask}"

def csv (l : List Nat) : String := if l.isEmpty then "-" else ",".intercalate (l.map toString)

def Tables.featIds (t : Tables) : FeatIds :=
  let f (n : String) : Nat := ((t.feat.find? (·.1 == n)).map (·.2)).getD 0
  { MMX := f "MMX", MMX2 := f "MMX2", SSE := f "SSE", SSE2 := f "SSE2", SSE4_1 := f "SSE4_1", VPCLMULQDQ := f "VPCLMULQDQ",
    PCLMULQDQ := f "PCLMULQDQ", AVX := f "AVX", AVX2 := f "AVX2", AVX_IFMA := f "AVX_IFMA", AVX_NE_CONVERT := f "AVX_NE_CONVERT",
    AVX_VNNI := f "AVX_VNNI", F16C := f "F16C", FMA := f "FMA", AVX512_BF16 := f "AVX512_BF16", AVX512_BW := f "AVX512_BW",
    AVX512_DQ := f "AVX512_DQ", AVX512_F := f "AVX512_F", AVX512_IFMA := f "AVX512_IFMA", AVX512_VNNI := f "AVX512_VNNI",
    AVX512_VL := f "AVX512_VL" }

def insertSorted (x : Nat) : List Nat → List Nat
  | [] => [x]
  | y :: ys => if x < y then x :: y :: ys else if x == y then y :: ys else y :: insertSorted x ys
def sortDedup (l : List Nat) : List Nat := l.foldl (fun acc x => insertSorted x acc) []

/-- `x <arch> #<id> <opts> <extra> <op>*` → the `rw=… qf=…` part of the harness' answer -/
def queryLine (t : Tables) (ws : List String) : String :=
  match ws with
  | arch :: idTok :: opts :: extra :: opToks =>
    match (idTok.drop 1).toNat?, optBits opts, opToks.mapM parseOpnd with
    | some id, some o, some ops =>
      let inst : Inst := { id := id, options := o, extraType := if extra == "-" then 0 else tMask,
                           extraId := ((extra.drop 1).toNat?).getD 0 }
      let rwPart := match queryRW t (arch == "x64") inst ops with
        | .error e => s!"rw={e}"
        | .ok r =>
          let opsS := if r.ops.isEmpty then "-" else "|".intercalate (r.ops.map opOut)
          s!"rw=Ok if={hexStr r.instFlags} rf={hexStr r.readFlags} wf={hexStr r.writeFlags} rmf={r.rmFeature} x={hexStr r.extra.flags},{hexStr r.extra.rmask},{hexStr r.extra.wmask} ops={opsS}"
      let fPart := match queryFeatures t t.featIds inst ops with
        | .error e => s!"qf={e}"
        | .ok fs => s!"qf=Ok f={csv (sortDedup fs)}"
      rwPart ++ " " ++ fPart
    | _, _, _ => "bad-line"
  | _ => "bad-line"

end Model.X86RW
