/-
Model of asmjit/support/arenalist.h (`ArenaList<NodeT>::_add_node/_insert_node/append/prepend/insert_after/
insert_before/unlink/pop_first/pop/swap/reset`) over an index heap (node 0 = null; one fresh index per node) and of
asmjit/support/arenapool.h (`ArenaPool<T>::alloc/release/pooled_item_count/reset`) as a LIFO stack of locations.
Core-only imports.
-/
import AsmjitVerif.Model.Arena
namespace AsmjitVerif.ListPool
open AsmjitVerif.Arena

structure LNode where
  prev : Nat := 0
  next : Nat := 0
  val : Nat := 0
  deriving DecidableEq, Repr, Inhabited

/-- node heap shared by all lists of a scenario -/
abbrev Heap := Array LNode

structure DList where
  first : Nat := 0
  last : Nat := 0
  deriving DecidableEq, Repr, Inhabited

def nd (h : Heap) (n : Nat) : LNode := h.getD n {}
def upd (h : Heap) (n : Nat) (f : LNode → LNode) : Heap := if n = 0 then h else h.modify n f
/-- `node->_list_nodes[dir]`, `dir = true` is index 1 (next / last) -/
def link (h : Heap) (n : Nat) (dir : Bool) : Nat := if dir then (nd h n).next else (nd h n).prev
def setLink (h : Heap) (n : Nat) (dir : Bool) (x : Nat) : Heap :=
  upd h n (fun nd => if dir then { nd with next := x } else { nd with prev := x })
def lend (l : DList) (dir : Bool) : Nat := if dir then l.last else l.first
def setEnd (l : DList) (dir : Bool) (x : Nat) : DList := if dir then { l with last := x } else { l with first := x }

def newNode (h : Heap) (v : Nat) : Heap × Nat := (h.push { val := v }, h.size)

/-- `_add_node(node, dir)` -/
def addNode (h : Heap) (l : DList) (node : Nat) (dir : Bool) : Heap × DList :=
  let prev := lend l dir
  let h := setLink h node (!dir) prev
  let l := setEnd l dir node
  if prev ≠ 0 then (setLink h prev dir node, l) else (h, setEnd l (!dir) node)

/-- `_insert_node(ref, node, dir)` -/
def insertNode (h : Heap) (l : DList) (ref node : Nat) (dir : Bool) : Heap × DList :=
  let prev := ref
  let next := link h ref dir
  let h := setLink h prev dir node
  let (h, l) := if next ≠ 0 then (setLink h next (!dir) node, l) else (h, setEnd l dir node)
  let h := setLink h node (!dir) prev
  let h := setLink h node dir next
  (h, l)

/-- `unlink(node)` -/
def unlink (h : Heap) (l : DList) (node : Nat) : Heap × DList :=
  let prev := (nd h node).prev
  let next := (nd h node).next
  let (h, l) := if prev ≠ 0 then (setLink h prev true next, l) else (h, { l with first := next })
  let (h, l) := if next ≠ 0 then (setLink h next false prev, l) else (h, { l with last := prev })
  (upd h node (fun x => { x with prev := 0, next := 0 }), l)

/-- `pop_first()` (precondition: not empty) -/
def popFirst (h : Heap) (l : DList) : Heap × DList × Nat :=
  let node := l.first
  let next := (nd h node).next
  let l := { l with first := next }
  if next ≠ 0 then (setLink (setLink h next false 0) node true 0, l, node) else (h, { l with last := 0 }, node)

/-- `pop()` (precondition: not empty) -/
def pop (h : Heap) (l : DList) : Heap × DList × Nat :=
  let node := l.last
  let prev := (nd h node).prev
  let l := { l with last := prev }
  if prev ≠ 0 then (setLink (setLink h prev true 0) node false 0, l, node) else (h, { l with first := 0 }, node)

/-- values met walking from one end following `dir` links -/
def walk (fuel : Nat) (h : Heap) (n : Nat) (dir : Bool) : List Nat :=
  match fuel with
  | 0 => []
  | fuel + 1 => if n = 0 then [] else (nd h n).val :: walk fuel h (link h n dir) dir

/-! ### ArenaPool -/
structure Pool where
  free : List Loc := []
  deriving Repr, Inhabited

/-- `alloc(arena)` with `Size` already aligned -/
def Pool.alloc (p : Pool) (a : State) (size : Nat) : State × Pool × Option Loc :=
  match p.free with
  | x :: rest => (a, { free := rest }, some x)
  | [] => let (a', r) := allocOneshot a size; (a', p, r)

def Pool.release (p : Pool) (x : Loc) : Pool := { free := x :: p.free }

end AsmjitVerif.ListPool
