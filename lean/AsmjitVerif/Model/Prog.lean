/-
Programs over the CodeHolder model: the operation language shared by the Lean driver, the C++ harness
(harness/c03.cpp speaks the same lines), the specification monitor (Spec/RefSemantics.lean) and the theorems
(Props/C03.lean, Props/C04.lean quantify over `List Op`).  Also the *menu* of instruction shapes: the opaque
non-field bytes of each menu instruction (checked byte for byte against the real encoders by the correspondence).
Core-only imports.
-/
import AsmjitVerif.Model.RefSite
namespace AsmjitVerif.CodeHolder
open AsmjitVerif.Offset

inductive JKind where
  | jmp | jz | call | jecxz | loop
  deriving DecidableEq, Repr, Inhabited

inductive MKind where
  | lea | mov | addi8 | movi32 | cmpi16 | ldeax | steax | ldrax
  | fsmov | gsldeax | fsaddi8     -- the same with an FS / GS segment override: mov ecx,fs:[..] / mov eax,gs:[..] / add dword fs:[..],0x12
  deriving DecidableEq, Repr, Inhabited

inductive AKind where
  | b | bl | bcond | cbz | tbz | adr | adrp | ldr | bc
  deriving DecidableEq, Repr, Inhabited

/-- menu: jmp L / jz L / call L / jecxz ecx, L / loop L -/
def JKind.shape (arch : Arch) : JKind → JShape
  | .jmp   => { pre := [], op8 := some 0xEB#8, op32 := [0xE9#8], jmpOrCall := true }
  | .jz    => { pre := [], op8 := some 0x74#8, op32 := [0x0F#8, 0x84#8], jmpOrCall := false }
  | .call  => { pre := [], op8 := none, op32 := [0xE8#8], jmpOrCall := true }
  | .jecxz => { pre := if arch = .x64 then [0x67#8] else [], op8 := some 0xE3#8, op32 := [], jmpOrCall := false }
  | .loop  => { pre := [], op8 := some 0xE2#8, op32 := [], jmpOrCall := false }

/-- menu: lea zax,[L+d] / mov ecx,[L+d] / add dword [L+d],0x12 / mov dword [L+d],0x11223344 / cmp word [L+d],0x1234 -/
def MKind.shape (arch : Arch) : MKind → MShape
  | .lea    => { lead := (if arch = .x64 then [0x48#8] else []) ++ [0x8D#8, 0x05#8], imm := [] }
  | .mov    => { lead := [0x8B#8, 0x0D#8], imm := [] }
  | .addi8  => { lead := [0x83#8, 0x05#8], imm := [0x12#8] }
  | .movi32 => { lead := [0xC7#8, 0x05#8], imm := [0x44#8, 0x33#8, 0x22#8, 0x11#8] }
  | .cmpi16 => { lead := [0x66#8, 0x81#8, 0x3D#8], imm := [0x34#8, 0x12#8] }
  | .ldeax  => { lead := [0x8B#8, 0x05#8], imm := [] }                                   -- mov eax,[L+d]
  | .steax  => { lead := [0x89#8, 0x05#8], imm := [] }                                   -- mov [L+d],eax
  | .ldrax  => { lead := (if arch = .x64 then [0x48#8] else []) ++ [0x8B#8, 0x05#8], imm := [] }   -- mov rax,[L+d] (eax in 32-bit mode)
  | .fsmov   => { lead := [0x64#8, 0x8B#8, 0x0D#8], imm := [] }
  | .gsldeax => { lead := [0x65#8, 0x8B#8, 0x05#8], imm := [] }
  | .fsaddi8 => { lead := [0x64#8, 0x83#8, 0x05#8], imm := [0x12#8] }

/-- the same menu with an absolute memory operand: lea zax,[A] / mov ecx,[A] / add dword [A],0x12 / mov dword [A],0x11223344 / cmp word [A],0x1234 -/
def MKind.ashape (arch : Arch) : MKind → AShape
  | .lea    => { pp := [], rex := if arch = .x64 then some 0x48#8 else none, opc := [0x8D#8], opReg := 0, imm := [], isLea := true }
  | .mov    => { pp := [], rex := none, opc := [0x8B#8], opReg := 1, imm := [], isLea := false }
  | .addi8  => { pp := [], rex := none, opc := [0x83#8], opReg := 0, imm := [0x12#8], isLea := false }
  | .movi32 => { pp := [], rex := none, opc := [0xC7#8], opReg := 0, imm := [0x44#8, 0x33#8, 0x22#8, 0x11#8], isLea := false }
  | .cmpi16 => { pp := [0x66#8], rex := none, opc := [0x81#8], opReg := 7, imm := [0x34#8, 0x12#8], isLea := false }
  | .ldeax  => { pp := [], rex := none, opc := [0x8B#8], opReg := 0, imm := [], isLea := false, moffs := some (0xA1#8, 4) }
  | .steax  => { pp := [], rex := none, opc := [0x89#8], opReg := 0, imm := [], isLea := false, moffs := some (0xA3#8, 4) }
  | .ldrax  => { pp := [], rex := if arch = .x64 then some 0x48#8 else none, opc := [0x8B#8], opReg := 0, imm := [], isLea := false,
                 moffs := some (0xA1#8, if arch = .x64 then 8 else 4) }
  | .fsmov   => { pp := [], rex := none, opc := [0x8B#8], opReg := 1, imm := [], isLea := false, seg := some 0x64#8 }
  | .gsldeax => { pp := [], rex := none, opc := [0x8B#8], opReg := 0, imm := [], isLea := false, moffs := some (0xA1#8, 4), seg := some 0x65#8 }
  | .fsaddi8 => { pp := [], rex := none, opc := [0x83#8], opReg := 0, imm := [0x12#8], isLea := false, seg := some 0x64#8 }

/-- menu: b / bl / b.eq / cbz x1 / tbz w2,#3 / adr x3 / adrp x4 / ldr x5,[L,#a] (opcode word with a zero field) -/
def AKind.opcode : AKind → BitVec 32
  | .b => 0x14000000#32 | .bl => 0x94000000#32 | .bcond => 0x54000000#32 | .cbz => 0xB4000001#32
  | .tbz => 0x36180002#32 | .adr => 0x10000003#32 | .adrp => 0x90000004#32 | .ldr => 0x58000005#32
  | .bc => 0x54000010#32      -- bc.eq (BC.cond, FEAT_HBC): its own opcode bit 4 (/repo 9b3303f)

def AKind.kind : AKind → A64Kind
  | .b | .bl => .imm26 | .bcond | .cbz | .ldr | .bc => .imm19 | .tbz => .imm14 | .adr => .adr | .adrp => .adrp

inductive Op where
  | newLabel
  | newSection (align : Nat) (order : Int)
  | section (id : Nat)
  | bind (l : Nat)
  | align (n : Nat)
  | embed (bs : Bytes)
  | jmp (k : JKind) (opt : FormOpt) (l : Nat)
  | mem (k : MKind) (l : Nat) (disp : BitVec 32)
  | a64 (k : AKind) (l : Nat) (addend : BitVec 64)
  | elabel (l size : Nat)
  | edelta (l b size : Nat)
  | vsize (sec : Nat) (v : BitVec 64)
  | flatten
  | resolve
  | relocate (base : BitVec 64)
  | jmpAbs (k : JKind) (opt : FormOpt) (target : BitVec 64)
  | a64Abs (k : AKind) (target : BitVec 64)
  | memAbs (k : MKind) (at_ : AddrT) (addr : BitVec 64)
  deriving Repr, Inhabited

/-- one operation of the public API on the model -/
def step (s : State) : Op → State × Err
  | .newLabel => ((newLabel s).1, .ok)
  | .newSection a o => newSection s a o
  | .section id => switchSection s id
  | .bind l => bind s l
  | .align n => alignZero s n
  | .embed bs => embed s bs
  | .jmp k opt l => if s.arch = .a64 then (s, .invalidInstruction) else x86JmpLabel s (k.shape s.arch) opt l
  | .mem k l d => if s.arch = .a64 then (s, .invalidInstruction) else x86MemLabel s (k.shape s.arch) l d
  | .a64 k l a => if s.arch ≠ .a64 then (s, .invalidInstruction) else a64RelLabel s k.opcode k.kind l a
  | .elabel l n => embedLabel s l n
  | .edelta l b n => embedLabelDelta s l b n
  | .vsize i v => setVirtSize s i v
  | .flatten => flatten s
  | .resolve => resolve s
  | .relocate b => let r := relocate s b; (r.1, r.2.1)
  | .jmpAbs k opt t => if s.arch = .a64 then (s, .invalidInstruction) else x86JmpAbs s (k.shape s.arch) opt t
  | .a64Abs k t => if s.arch ≠ .a64 then (s, .invalidInstruction) else a64RelAbs s k.opcode k.kind t
  | .memAbs k a t => if s.arch = .a64 then (s, .invalidInstruction) else x86MemAbs s (k.ashape s.arch) a t

/-- run a program -/
def run (s : State) (ops : List Op) : State := ops.foldl (fun s op => (step s op).1) s

end AsmjitVerif.CodeHolder
