/-
Sixth wave of the hand model of `a64::Assembler::_emit`: the SIMD load/store classes - SimdLdSt (with the LDUR/STUR
fallback), SimdLdpStp, SimdLdurStur, SimdLdNStN.  Follows /repo HEAD.  Core-only imports.
-/
import AsmjitVerif.Model.A64AsmSys
namespace AsmjitVerif.A64Asm
open AsmjitVerif.A64
open AsmjitVerif.Gen.A64Tables

def invalidRegType : Result := .err "InvalidRegType"
def invalidElementIndex : Result := .err "InvalidElementIndex"

/-- `has_element_type_or_index()` -/
def hasEtOrIdx (r : Reg) : Bool := r.et != 0 || r.hasIdx

/-! ### kEncodingSimdLdurStur -/

def emitSimdLdurStur (d : SimdLdurSturRow) (o0 : Reg) (m : MemView) : Result :=
  let sz := u32sub o0.rt rtVec8
  if sz > 4 || hasEtOrIdx o0 then invalidInstruction else
  if o0.id > 31 then invalidPhysId else
  if !checkMemBaseIndexRel m then invalidAddress else
  if m.hasBaseReg && !m.hasIndex && m.mode == 0 then
    if !isInt9 m.off32 then invalidDisplacement else
    tailMemBase ((w32 d.opcode <<< 10) ||| addImm (sz % 4) 30 ||| addImm (sz / 4) 23 ||| ((m.off32 &&& 0x1FF#32) <<< 12) ||| addReg o0.id 0) m
  else invalidAddress

/-! ### kEncodingSimdLdSt -/

def emitSimdLdSt (d : SimdLdStRow) (o0 : Reg) (mo : Operand) (m : MemView) (pos : Nat) : Result :=
  let xsz := u32sub o0.rt rtVec8
  if xsz > 4 || hasEtOrIdx o0 then invalidRegType else
  if o0.id > 31 then invalidPhysId else
  if !checkMemBaseIndexRel m then invalidAddress else
  let szBits : BitVec 32 := addImm (xsz % 4) 30 ||| addImm (xsz / 4) 23
  if m.hasBaseReg then
    if m.hasIndex then
      let opt := shiftOpToLdStOpt m.shiftOp
      if opt == 0xFF then invalidAddress else
      let s := if m.shift != 0 then 1 else 0
      if s == 1 && m.shift != xsz then invalidAddressScale else
      tailMemBaseIndex ((w32 d.register_op <<< 21) ||| szBits ||| addImm opt 13 ||| addImm s 12 ||| 0x800#32 ||| addReg o0.id 0) m
    else if m.mode != 0 then
      if !isInt9 m.off32 then invalidDisplacement else
      tailMemBase ((w32 d.pre_post_op <<< 21) ||| szBits ||| ((m.off32 &&& 0x1FF#32) <<< 12) |||
                   addImm (if m.mode == 1 then 1 else 0) 11 ||| 0x400#32 ||| addReg o0.id 0) m
    else
      let imm12 := m.off32 >>> xsz
      if !(imm12.toNat < 4096) || (imm12 <<< xsz) != m.off32 then
        -- `goto Case_SimdLdurStur` with the row of `u_alt_inst_id`
        match instTable[d.u_alt_inst_id]? with
        | some r => match simdLdurStur[r.idx]? with
                    | some du => emitSimdLdurStur du o0 m
                    | none => notModelled
        | none => notModelled
      else tailMemBase ((w32 d.u_offset_op <<< 22) ||| szBits ||| (imm12 <<< 10) ||| addReg o0.id 0) m
  else
    if d.literal_op == 0 then invalidAddress else
    if xsz < 2 then invalidRegType else
    emitRel fmtBranch19 ((w32 d.literal_op <<< 24) ||| addImm (xsz - 2) 30 ||| addReg o0.id 0) pos mo

/-! ### kEncodingSimdLdpStp -/

def emitSimdLdpStp (d : SimdLdpStpRow) (o0 o1 : Reg) (m : MemView) : Result :=
  let opc := u32sub o0.rt rtVec32
  if opc > 2 || hasEtOrIdx o0 then invalidInstruction else
  if !o0.sameSig o1 then invalidInstruction else
  if (o0.id ||| o1.id) > 31 then invalidPhysId else
  if m.baseType != rtGp64 || m.hasIndex then invalidAddress else
  let sh := 2 + opc
  let off := m.off32.sshiftRight sh
  if (off <<< sh) != m.off32 then invalidDisplacement else
  if !(off.toInt ≥ -64 && off.toInt ≤ 63) then invalidDisplacement else
  if m.mode != 0 && off != 0 && d.pre_post_op == 0 then invalidAddress else
  let op : BitVec 32 := if m.mode != 0 && off != 0 then (w32 d.pre_post_op <<< 22) ||| addImm (if m.mode == 1 then 1 else 0) 24
                        else w32 d.offset_op <<< 22
  tailMemBase (op ||| addImm opc 30 ||| ((off &&& 0x7F#32) <<< 15) ||| addReg o1.id 10 ||| addReg o0.id 0) m

/-! ### kEncodingSimdLdNStN -/

/-- `EmitOp_Rd0` -/
def tailRd0 (opcode : BitVec 32) (o0 : Reg) (idxOps indexed : Nat) : Result :=
  if idxOps &&& (15 - indexed % 16) != 0 then invalidInstruction else
  if !validReg o0 then invalidPhysId else ok1 (opcode ||| addReg o0.id 0)

def consecutiveFrom (v : Reg) : List Reg → Nat → Bool
  | [], _ => true
  | r :: rest, k => (v.id + k) % 32 == r.id && consecutiveFrom v rest (k + 1)

def emitSimdLdNStN (d : SimdLdNStNRow) (v : Reg) (rest : List Reg) (m : MemView) : Result :=
  let n := rest.length + 1
  if n > 4 then notModelled else
  if d.n != 1 && (n == 1 || d.n != n) then invalidInstruction else
  if !(rest.all (fun r => v.sameSig r)) || !consecutiveFrom v rest 1 then invalidInstruction else
  let sz := u32sub v.et 1
  if sz > 3 then invalidInstruction else
  if m.baseType != rtGp64 then invalidAddress else
  if m.baseId > 30 && m.baseId != idSP then invalidAddress else
  let rn := m.baseId % 32
  let idxOps := if v.hasIdx then 2 ^ n - 1 else 0   -- every register of the list has v's signature
  -- (opcode, q, opc_s_size, offset_possibility, indexed_ops) or an error
  let sel : Except Result (BitVec 32 × Nat × Nat × Nat × Nat) :=
    if d.replicate != 0 then
      if n != d.n then .error invalidInstruction else
      if v.hasIdx then .error invalidInstruction else
      let q := u32sub v.rt rtVec64
      if q > 1 then .error invalidInstruction else
      .ok (w32 d.single_op <<< 10, q, sz, 2 ^ sz * n, 0)
    else if v.hasIdx then
      if n != d.n then .error invalidInstruction else
      let base := [0, 16, 32, 33].getD sz 0
      if v.idx > 15 >>> sz then .error invalidElementIndex else
      let e := v.idx <<< sz
      .ok (w32 d.single_op <<< 10, e >>> 3, base ||| (e &&& 7), 2 ^ sz * d.n, 15)
    else
      let q := u32sub v.rt rtVec64
      if q > 1 then .error invalidInstruction else
      let o := if d.n == 1 then sz ||| [0, 28, 40, 24, 8].getD n 0 else sz
      .ok (w32 d.multiple_op <<< 10, q, o, (8 <<< q) * n, 0)
  match sel with
  | .error e => e
  | .ok (op, q, oss, offPoss, indexed) =>
    let fin (op : BitVec 32) (rm : Nat) : Result :=
      tailRd0 (op ||| addImm q 30 ||| addImm rm 16 ||| addImm oss 10 ||| addImm rn 5) v idxOps indexed
    if m.hasIndex then
      if m.hasOffset || m.mode != 2 then invalidAddress else
      if m.indexId > 30 then invalidAddress else
      fin (op ||| 0x800000#32) m.indexId
    else if m.hasOffset then
      if m.off32.toInt != (offPoss : Int) || m.mode != 2 then invalidAddress else
      fin (op ||| 0x800000#32) 31
    else fin op 0

def emitInst6 (r : InstRow) (rq : Request) : Result :=
  let o := rq.ops
  let enc := r.enc
  if rq.cc != 0 then notModelled
  else if enc == encSimdLdSt then
    match simdLdSt[r.idx]?, o with
    | some d, [.reg a, mo] => match memView mo with
                              | some m => emitSimdLdSt d a mo m rq.pos
                              | none => notModelled
    | _, _ => notModelled
  else if enc == encSimdLdurStur then
    match simdLdurStur[r.idx]?, o with
    | some d, [.reg a, mo] => match memView mo with
                              | some m => emitSimdLdurStur d a m
                              | none => notModelled
    | _, _ => notModelled
  else if enc == encSimdLdpStp then
    match simdLdpStp[r.idx]?, o with
    | some d, [.reg a, .reg b, mo] => match memView mo with
                                      | some m => emitSimdLdpStp d a b m
                                      | none => notModelled
    | _, _ => notModelled
  else if enc == encSimdLdNStN then
    match simdLdNStN[r.idx]?, o with
    | some d, [.reg a, mo] => (match memView mo with | some m => emitSimdLdNStN d a [] m | none => notModelled)
    | some d, [.reg a, .reg b, mo] => (match memView mo with | some m => emitSimdLdNStN d a [b] m | none => notModelled)
    | some d, [.reg a, .reg b, .reg c, mo] => (match memView mo with | some m => emitSimdLdNStN d a [b, c] m | none => notModelled)
    | some d, [.reg a, .reg b, .reg c, .reg e, mo] => (match memView mo with | some m => emitSimdLdNStN d a [b, c, e] m | none => notModelled)
    | _, _ => notModelled
  else notModelled

/-- all six waves -/
def emitModel6 (rq : Request) : Result :=
  match emitModel rq with
  | .err "NotModelled" =>
    (match instTable[rq.inst]? with
     | some r => if rq.inst == 0 then notModelled else emitInst6 r { rq with ops := (rq.ops.reverse.dropWhile (· == .none)).reverse }
     | none => notModelled)
  | res => res

end AsmjitVerif.A64Asm
