/-
Model of the label / fixup / relocation machinery of asmjit/core/codeholder.cpp and of the label-related
parts of asmjit/core/assembler.cpp, written function by function after the C++ (names cited at each def).
Shared by C03 (label references) and C04 (relocation).  Core-only imports (the driver links it).

  CodeHolder::new_label_id, new_section, new_fixup, bind_label (+ ResolveFixupIterator),
  resolve_cross_section_fixups, new_reloc_entry, CodeHolder_evaluate_expression (the `label - base`
  expressions embed_label_delta creates), flatten, add_address_to_address_table, relocate_to_base,
  copy_flattened_data;  BaseAssembler::section, bind, embed, embed_label, embed_label_delta, align (zero fill).

Modelling decisions
 * a code buffer is its byte list (capacity / realloc / grow_buffer are invisible); `offset()` of the assembler
   is the size of the current section's buffer (set_offset is not modelled: emission is append-only);
 * the intrusive singly linked fixup lists are `List Fixup` (head = most recent, as `new_fixup` pushes at the head);
   `LabelEntry::_offset_or_fixups` (a union in C++) is the sum type `LabelEntry`;
 * the model follows the REPAIRED code for defects #18 (fixes/C03-2.patch: `new_fixup` on a label that is already
   bound - necessarily in another section - goes to the global cross-section list) and #5 (fixes/C03-1.patch:
   range test in the bound/bound path of embed_label_delta);
 * `_unresolved_fixup_count` is a `Nat` (C++ `size_t`; Props/C03 proves it never underflows).
-/
import AsmjitVerif.Model.Offset
namespace AsmjitVerif.CodeHolder
open AsmjitVerif.Offset

inductive Arch where
  | x86 | x64 | a64
  deriving DecidableEq, Repr, Inhabited

/-- `Environment::register_size()` -/
def Arch.regSize : Arch → Nat
  | .x86 => 4 | _ => 8
def Arch.is32 : Arch → Bool
  | .x86 => true | _ => false

/-- the `Error` values that the modelled functions can return (asmjit/core/globals.h) -/
inductive Err where
  | ok | invalidArgument | invalidState | tooLarge | invalidLabel | labelAlreadyBound | invalidSection
  | invalidRelocEntry | relocOffsetOutOfRange | invalidInstruction | invalidAddress | invalidDisplacement
  | invalidOperandSize | expressionLabelNotBound | invalidAddress64Bit
  deriving DecidableEq, Repr, Inhabited

def Err.name : Err → String
  | .ok => "Ok" | .invalidArgument => "InvalidArgument" | .invalidState => "InvalidState" | .tooLarge => "TooLarge"
  | .invalidLabel => "InvalidLabel" | .labelAlreadyBound => "LabelAlreadyBound" | .invalidSection => "InvalidSection"
  | .invalidRelocEntry => "InvalidRelocEntry" | .relocOffsetOutOfRange => "RelocOffsetOutOfRange"
  | .invalidInstruction => "InvalidInstruction" | .invalidAddress => "InvalidAddress"
  | .invalidDisplacement => "InvalidDisplacement" | .invalidOperandSize => "InvalidOperandSize"
  | .expressionLabelNotBound => "ExpressionLabelNotBound" | .invalidAddress64Bit => "InvalidAddress64Bit"

/-- `Section` (codeholder.h): buffer, virtual size, alignment, order, offset (`kNoSectionOffset = ~0` until `flatten`). -/
structure Section where
  buf      : Bytes := []
  virtSize : BitVec 64 := 0#64
  align    : Nat := 1
  order    : Int := 0
  offset   : BitVec 64 := BitVec.allOnes 64
  deriving Repr, Inhabited

/-- `Section::real_size()` = max(virtual_size, buffer_size) -/
def Section.realSize (s : Section) : BitVec 64 :=
  let b := BitVec.ofNat 64 s.buf.length
  if s.virtSize < b then b else s.virtSize

/-- `Fixup` (fixup.h). `lr` = `label_or_reloc_id` (`none` = kInvalidId): a relocation id while the fixup hangs on
its label, the label id once it is on the global cross-section list. -/
structure Fixup where
  sec    : Nat
  lr     : Option Nat
  offset : Nat
  rel    : BitVec 64
  fmt    : OffsetFormat
  deriving Repr, Inhabited, DecidableEq

/-- GHOST (not part of the C++ state, never read by any model function, never printed): the record of a label
reference at the moment its fixup was created - site (section, offset of the field's word), addend `rel`, field
format, label.  Props/C03 states the end-to-end theorems about every entry of this log. -/
structure GRef where
  sec    : Nat
  offset : Nat
  rel    : BitVec 64
  fmt    : OffsetFormat
  label  : Nat
  deriving Repr, Inhabited, DecidableEq

/-- `LabelEntry`: `_offset_or_fixups` + bound section. -/
inductive LabelEntry where
  | unbound (fx : List Fixup)
  | bound (sec : Nat) (off : BitVec 64)
  deriving Repr, Inhabited

def LabelEntry.isBound : LabelEntry → Bool
  | .bound _ _ => true | _ => false

inductive RelocType where
  | none | expression | sectionRelative | absToAbs | relToAbs | absToRel | x64AddressEntry
  deriving DecidableEq, Repr, Inhabited

/-- `RelocEntry`. For `expression` the payload is the index of the expression (a pointer in C++). -/
structure Reloc where
  type       : RelocType
  fmt        : OffsetFormat
  regionSize : Nat
  srcSec     : Nat
  tgtSec     : Option Nat
  srcOff     : Nat
  payload    : BitVec 64
  gl         : Option (Nat × BitVec 64) := none   -- GHOST: (label, addend) of an entry that designates `label + addend`
  deriving Repr, Inhabited

/-- `AddressTableEntry` -/
structure AddrEntry where
  addr : BitVec 64
  slot : Option Nat
  deriving Repr, Inhabited

/-- CodeHolder + the one attached assembler (`cur` = its current section). -/
structure State where
  arch       : Arch
  base       : BitVec 64                     -- `_base_address`, kNoBaseAddress = ~0
  secs       : List Section                  -- `_sections` (index = section id; 0 = .text)
  labels     : List LabelEntry               -- `_label_entries`
  fixups     : List Fixup                    -- `_fixups`: unresolved cross-section fixups
  count      : Nat                           -- `_unresolved_fixup_count`
  relocs     : List Reloc                    -- `_relocations`
  exprs      : List (Nat × Nat)              -- arena `Expression`s: (label, base) of `label - base`
  addrTab    : List AddrEntry                -- `_address_table_entries` (in insertion order)
  addrTabSec : Option Nat                    -- `_address_table_section`
  cur        : Nat
  ghost      : List GRef := []               -- GHOST log of every patchable reference ever created (see `GRef`)
  deriving Repr, Inhabited

def noBase : BitVec 64 := BitVec.allOnes 64

/-- `CodeHolder::init` + `BaseAssembler::on_attach`: .text has alignment 0, order INT_MIN, offset 0. -/
def State.init (arch : Arch) (base : BitVec 64) : State :=
  { arch := arch, base := base,
    secs := [{ buf := [], virtSize := 0#64, align := 0, order := -2147483648, offset := 0#64 }],
    labels := [], fixups := [], count := 0, relocs := [], exprs := [], addrTab := [], addrTabSec := none, cur := 0 }

def modifySec (secs : List Section) (i : Nat) (f : Section → Section) : List Section :=
  match secs[i]? with
  | some s => secs.set i (f s)
  | none => secs

def modifyReloc (rs : List Reloc) (i : Nat) (f : Reloc → Reloc) : List Reloc :=
  match rs[i]? with
  | some r => rs.set i (f r)
  | none => rs

def setBuf (secs : List Section) (i : Nat) (b : Bytes) : List Section :=
  modifySec secs i (fun s => { s with buf := b })

/-- `BaseAssembler::offset()` -/
def State.curOff (s : State) : Nat :=
  match s.secs[s.cur]? with
  | some sec => sec.buf.length
  | none => 0

/-- CodeWriter emit + `done` at the end of the current section -/
def State.emit (s : State) (bs : Bytes) : State :=
  { s with secs := modifySec s.secs s.cur (fun sec => { sec with buf := sec.buf ++ bs }) }

/-- little-endian bytes of the `n` low bytes of `v` -/
def leBytes (v : Nat) : Nat → Bytes
  | 0 => []
  | n + 1 => BitVec.ofNat 8 v :: leBytes (v / 256) n

def zeros (n : Nat) : Bytes := List.replicate n 0#8

/-- `CodeHolder::new_label_id` -/
def newLabel (s : State) : State × Nat :=
  ({ s with labels := s.labels ++ [.unbound []] }, s.labels.length)

def isPow2 (n : Nat) : Bool := n != 0 && (n &&& (n - 1)) == 0

/-- `CodeHolder::new_section` (name handling not modelled: the harness uses distinct valid names). -/
def newSection (s : State) (align : Nat) (order : Int) : State × Err :=
  if align != 0 && !isPow2 align then (s, .invalidArgument) else
  let a := if align = 0 then 1 else align
  ({ s with secs := s.secs ++ [{ buf := [], virtSize := 0#64, align := a, order := order, offset := BitVec.allOnes 64 }] }, .ok)

/-- `BaseAssembler::section`.  Restriction of the op language (enforced by the harness too): user code never switches
to the implicit `.addrtab` section - its buffer belongs to `relocate_to_base`. -/
def switchSection (s : State) (id : Nat) : State × Err :=
  if id < s.secs.length ∧ s.addrTabSec ≠ some id then ({ s with cur := id }, .ok) else (s, .invalidSection)

/-- `CodeHolder::new_fixup` (repaired, fixes/C03-2.patch): a fixup for an unbound label is pushed on the label's own
list; a fixup for a label that is already bound (only reached when it is bound in *another* section) goes straight to
the cross-section list `_fixups` carrying the label id.  Both count as unresolved. -/
def Fixup.toG (f : Fixup) (l : Nat) : GRef := { sec := f.sec, offset := f.offset, rel := f.rel, fmt := f.fmt, label := l }

/-- ghost log: a fixup that will be patched by `write_offset` (i.e. one that does not merely feed a relocation) -/
def logRef (g : List GRef) (l : Nat) (f : Fixup) : List GRef :=
  match f.lr with
  | none => g ++ [f.toG l]
  | some _ => g

def newFixup (s : State) (l : Nat) (f : Fixup) : State :=
  match s.labels[l]? with
  | some (.unbound fx) => { s with labels := s.labels.set l (.unbound (f :: fx)), count := s.count + 1, ghost := logRef s.ghost l f }
  | some (.bound _ _)  => { s with fixups := { f with lr := some l } :: s.fixups, count := s.count + 1, ghost := logRef s.ghost l f }
  | none => s

/-- accumulator of the `ResolveFixupIterator` loops -/
structure Acc where
  secs     : List Section
  relocs   : List Reloc
  kept     : List Fixup      -- fixups that stay linked (in list order)
  resolved : Nat
  err      : Err
  deriving Repr, Inhabited

/-- one iteration of the `do … while (it.is_valid())` loop of `CodeHolder::bind_label` -/
def bindStep (l toSec : Nat) (toOff : BitVec 64) (acc : Acc) (f : Fixup) : Acc :=
  match f.lr with
  | some rid =>
    -- "Adjust the relocation payload."
    { acc with relocs := modifyReloc acc.relocs rid (fun r => { r with payload := r.payload + toOff, tgtSec := some toSec }),
               resolved := acc.resolved + 1 }
  | none =>
    if f.sec ≠ toSec then { acc with kept := acc.kept ++ [{ f with lr := some l }] }
    else
      let disp : BitVec 64 := toOff - BitVec.ofNat 64 f.offset + f.rel
      match (acc.secs[toSec]?).bind (fun sec => writeOffset sec.buf f.offset disp f.fmt) with
      | some buf' => { acc with secs := setBuf acc.secs toSec buf', resolved := acc.resolved + 1 }
      | none => { acc with kept := acc.kept ++ [{ f with lr := some l }], err := .invalidDisplacement }

/-- `encode_offset32/64` accepts the displacement for this format (the validation loop of the repaired `bind_label`) -/
def encodableDisp (f : OffsetFormat) (d : BitVec 64) : Bool :=
  if f.valueSize = 8 then (encodeOffset64 f d).isSome
  else if f.valueSize = 1 ∨ f.valueSize = 2 ∨ f.valueSize = 4 then (encodeOffset32 f d).isSome
  else false

/-- `CodeHolder::bind_label(label, to_section_id, to_offset)` -/
def bindLabel (s : State) (l toSec : Nat) (toOff : BitVec 64) : State × Err :=
  match s.labels[l]? with
  | none => (s, .invalidLabel)
  | some le =>
    if toSec ≥ s.secs.length then (s, .invalidSection) else
    match le with
    | .bound _ _ => (s, .labelAlreadyBound)
    | .unbound fx =>
      -- (as repaired upstream) validate first: a pending same-section fixup whose displacement cannot be encoded makes
      -- bind_label fail *before* anything is modified - the label stays unbound
      if fx.any (fun f => f.lr.isNone && f.sec == toSec &&
          !encodableDisp f.fmt (toOff - BitVec.ofNat 64 f.offset + f.rel)) then (s, .invalidDisplacement) else
      let acc := fx.foldl (bindStep l toSec toOff) { secs := s.secs, relocs := s.relocs, kept := [], resolved := 0, err := .ok }
      ({ s with labels := s.labels.set l (.bound toSec toOff), secs := acc.secs, relocs := acc.relocs,
                fixups := acc.kept ++ s.fixups, count := s.count - acc.resolved }, acc.err)

/-- `BaseAssembler::bind` -/
def bind (s : State) (l : Nat) : State × Err :=
  bindLabel s l s.cur (BitVec.ofNat 64 s.curOff)

/-- `Support::add_overflow<uint64_t>` -/
def addOverflow (a b : BitVec 64) : BitVec 64 × Bool := (a + b, (a + b) < a)

def secOffset (secs : List Section) (i : Nat) : BitVec 64 :=
  match secs[i]? with
  | some s => s.offset
  | none => 0#64

/-- one iteration of the loop of `CodeHolder::resolve_cross_section_fixups` -/
def resolveStep (labels : List LabelEntry) (acc : Acc) (f : Fixup) : Acc :=
  match f.lr.bind (fun l => labels[l]?) with
  | some (.bound lsec loff) =>
    let (toOffset, of1) := addOverflow (secOffset acc.secs lsec) loff
    let (fromOffset, of2) := addOverflow (secOffset acc.secs f.sec) (BitVec.ofNat 64 f.offset)
    let disp : BitVec 64 := toOffset - fromOffset + f.rel
    if of1 || of2 then { acc with kept := acc.kept ++ [f], err := .invalidDisplacement }
    else
      match (acc.secs[f.sec]?).bind (fun sec => writeOffset sec.buf f.offset disp f.fmt) with
      | some buf' => { acc with secs := setBuf acc.secs f.sec buf', resolved := acc.resolved + 1 }
      | none => { acc with kept := acc.kept ++ [f] }
  | _ => { acc with kept := acc.kept ++ [f] }   -- not reachable (Props/C03: every listed fixup names a bound label)

/-- `CodeHolder::resolve_cross_section_fixups` -/
def resolve (s : State) : State × Err :=
  if s.count = 0 then (s, .ok) else
  let acc := s.fixups.foldl (resolveStep s.labels) { secs := s.secs, relocs := s.relocs, kept := [], resolved := 0, err := .ok }
  ({ s with secs := acc.secs, fixups := acc.kept, count := s.count - acc.resolved }, acc.err)

/-- `CodeHolder::new_reloc_entry` + the caller's field assignments -/
def newReloc (s : State) (r : Reloc) : State × Nat :=
  ({ s with relocs := s.relocs ++ [r] }, s.relocs.length)

def isPow2UpTo8 (n : Nat) : Bool := n = 1 || n = 2 || n = 4 || n = 8

/-- `BaseAssembler::embed` -/
def embed (s : State) (bs : Bytes) : State × Err := (s.emit bs, .ok)

/-- `Assembler::align(AlignMode::kZero, n)` (both backends fill with zero bytes in that mode) -/
def alignZero (s : State) (n : Nat) : State × Err :=
  if n ≤ 1 then (s, .ok) else
  if !(isPow2 n && n ≤ 64) then (s, .invalidArgument) else
  let pad := (n - s.curOff % n) % n
  (s.emit (zeros pad), .ok)

/-- `BaseAssembler::embed_label(label, data_size)` -/
def embedLabel (s : State) (l : Nat) (size0 : Nat) : State × Err :=
  match s.labels[l]? with
  | none => (s, .invalidLabel)
  | some le =>
    let size := if size0 = 0 then s.arch.regSize else size0
    if !isPow2UpTo8 size then (s, .invalidOperandSize) else
    let fmt := simpleValue .unsigned size
    let re : Reloc := { type := .relToAbs, fmt := fmt, regionSize := size, srcSec := s.cur, tgtSec := none,
                        srcOff := s.curOff, payload := 0#64, gl := some (l, 0#64) }
    match le with
    | .bound lsec loff =>
      let (s1, _) := newReloc s { re with tgtSec := some lsec, payload := loff }
      (s1.emit (zeros size), .ok)
    | .unbound _ =>
      let (s1, rid) := newReloc s re
      let s2 := newFixup s1 l { sec := s.cur, lr := some rid, offset := s.curOff, rel := 0#64, fmt := fmt }
      (s2.emit (zeros size), .ok)

/-- `BaseAssembler::embed_label_delta(label, base, data_size)`; the bound/bound path with the range test of the
repair fixes/C03-1.patch (the pinned code writes `delta mod 2^(8 size)` unchecked). -/
def embedLabelDelta (s : State) (l b : Nat) (size0 : Nat) : State × Err :=
  match s.labels[l]?, s.labels[b]? with
  | some le, some be =>
    let size := if size0 = 0 then s.arch.regSize else size0
    if !isPow2UpTo8 size then (s, .invalidOperandSize) else
    let imm : Option (BitVec 64) :=
      match le, be with
      | .bound ls lo, .bound bs bo => if ls = bs then some (lo - bo) else none
      | _, _ => none
    match imm with
    | some delta =>
      if size < 8 && !isEncodableOffset64 delta (size * 8) then (s, .invalidDisplacement) else
      (s.emit (leBytes delta.toNat size), .ok)
    | none =>
      let re : Reloc := { type := .expression, fmt := simpleValue .signed size, regionSize := size, srcSec := s.cur,
                          tgtSec := none, srcOff := s.curOff, payload := BitVec.ofNat 64 s.exprs.length }
      let (s1, _) := newReloc s re
      ({ s1 with exprs := s1.exprs ++ [(l, b)] }.emit (zeros size), .ok)
  | _, _ => (s, .invalidLabel)

/-! ### layout -/

/-- insertion of a section id into `_sections_by_order` (`std::lower_bound` on `(order, id)`) -/
def insertByOrder (secs : List Section) (id : Nat) : List Nat → List Nat
  | [] => [id]
  | j :: rest =>
    let oi : Int := (secs[id]?.map (·.order)).getD 0
    let oj : Int := (secs[j]?.map (·.order)).getD 0
    if oj < oi ∨ (oj = oi ∧ j < id) then j :: insertByOrder secs id rest else id :: j :: rest

/-- `_sections_by_order` -/
def byOrder (secs : List Section) : List Nat :=
  (List.range secs.length).foldl (fun acc id => insertByOrder secs id acc) []

/-- `Support::align_up(x, a)` on uint64 (a = 0 gives 0 as the C++ expression does) -/
def alignUp (x : BitVec 64) (a : Nat) : BitVec 64 :=
  let m := BitVec.ofNat 64 a - 1#64
  (x + m) &&& ~~~m

/-- first loop of `CodeHolder::flatten`: overflow tests -/
def flattenCheck (secs : List Section) : List Nat → BitVec 64 → Bool
  | [], _ => true
  | i :: rest, off =>
    match secs[i]? with
    | none => flattenCheck secs rest off
    | some sec =>
      if sec.realSize = 0#64 then flattenCheck secs rest off else
      let al := alignUp off sec.align
      if al < off then false else
      let (e, ovf) := addOverflow al sec.realSize
      if ovf then false else flattenCheck secs rest e

/-- second loop of `CodeHolder::flatten` (as repaired upstream for defect #17): assign offsets; only a non-empty section
is aligned, and it extends the virtual size of the previous *non-empty* section over the alignment gap -/
def flattenAssign (secs : List Section) : List Nat → BitVec 64 → Option Nat → List Section
  | [], _, _ => secs
  | i :: rest, off, prev =>
    match secs[i]? with
    | none => flattenAssign secs rest off prev
    | some sec =>
      if sec.realSize = 0#64 then
        flattenAssign (modifySec secs i (fun s => { s with offset := off })) rest off prev
      else
        let off1 := alignUp off sec.align
        let secs1 := match prev with
          | some p => modifySec secs p (fun s => { s with virtSize := off1 - s.offset })
          | none => secs
        let secs2 := modifySec secs1 i (fun s => { s with offset := off1 })
        flattenAssign secs2 rest (off1 + sec.realSize) (some i)

/-- `CodeHolder::flatten` -/
def flatten (s : State) : State × Err :=
  let ord := byOrder s.secs
  if !flattenCheck s.secs ord 0#64 then (s, .tooLarge) else
  ({ s with secs := flattenAssign s.secs ord 0#64 none }, .ok)

/-- `Section::set_virtual_size` (public accessor; used by the generators to place sections far apart) -/
def setVirtSize (s : State) (id : Nat) (v : BitVec 64) : State × Err :=
  if id < s.secs.length then ({ s with secs := modifySec s.secs id (fun sec => { sec with virtSize := v }) }, .ok)
  else (s, .invalidSection)

/-! ### relocation (C04) -/

/-- `CodeHolder::add_address_to_address_table` (+ `ensure_address_table_section`) -/
def addAddress (s : State) (a : BitVec 64) : State :=
  if s.addrTab.any (fun e => e.addr == a) then s else
  let (s1, sec) : State × Nat :=
    match s.addrTabSec with
    | some i => (s, i)
    | none =>
      ({ s with secs := s.secs ++ [{ buf := [], virtSize := 0#64, align := s.arch.regSize, order := 2147483647,
                                      offset := BitVec.allOnes 64 }],
                addrTabSec := some s.secs.length }, s.secs.length)
  { s1 with addrTab := s1.addrTab ++ [{ addr := a, slot := none }],
            secs := modifySec s1.secs sec (fun x => { x with virtSize := x.virtSize + BitVec.ofNat 64 s.arch.regSize }) }

/-- `CodeHolder_evaluate_expression` for the `label - base` expressions of embed_label_delta -/
def evalExpr (s : State) (e : Nat × Nat) : Except Err (BitVec 64) :=
  match s.labels[e.1]?, s.labels[e.2]? with
  | some (.bound ls lo), some (.bound bs bo) => .ok ((secOffset s.secs ls + lo) - (secOffset s.secs bs + bo))
  | some _, some _ => .error .expressionLabelNotBound
  | _, _ => .error .invalidLabel

structure RelocAcc where
  secs    : List Section
  addrTab : List AddrEntry
  nSlots  : Nat
  deriving Repr, Inhabited

def padTo (b : Bytes) (n : Nat) : Bytes := b ++ zeros (n - b.length)

/-- the final `write_offset(buffer + source_offset, value, format)` of one loop iteration -/
def relocFinish (acc : RelocAcc) (re : Reloc) (value : BitVec 64) : Except Err RelocAcc :=
  match (acc.secs[re.srcSec]?).bind (fun sec => writeOffset sec.buf re.srcOff value re.fmt) with
  | some buf' => .ok { acc with secs := setBuf acc.secs re.srcSec buf' }
  | none => .error .invalidRelocEntry

/-- `if (!at_entry->has_assigned_slot()) at_entry->_slot = address_table_entry_size++;` : (entries, next free slot, slot of entry `ei`) -/
def assignSlot (acc : RelocAcc) (ei : Nat) : List AddrEntry × Nat × Nat :=
  match acc.addrTab[ei]? with
  | some { addr := a, slot := none } => (acc.addrTab.set ei { addr := a, slot := some acc.nSlots }, acc.nSlots + 1, acc.nSlots)
  | some { addr := _, slot := some k } => (acc.addrTab, acc.nSlots, k)
  | none => (acc.addrTab, acc.nSlots, 0)

/-- `kX64AddressEntry` when a rel32 cannot reach the target: assign / reuse the slot, rewrite `[REX] E8|E9` to `FF /2|/4`,
store the target in the slot; returns the modified buffers and the rel32 that reaches the slot -/
def relocTable (s : State) (acc : RelocAcc) (re : Reloc) (src : Section) : Except Err (RelocAcc × BitVec 64) :=
  let valueOffset := re.srcOff + re.fmt.valueOffset
  match acc.addrTab.findIdx? (fun e => e.addr == re.payload), s.addrTabSec with
  | some ei, some ats =>
    let trip := assignSlot acc ei
    let tab := trip.1
    let nSlots := trip.2.1
    let slot := trip.2.2
    let atIndex := slot * s.arch.regSize
    let addrSrc := src.offset + BitVec.ofNat 64 re.srcOff + BitVec.ofNat 64 re.regionSize
    let addrDst := secOffset acc.secs ats + BitVec.ofNat 64 atIndex
    let v2 := addrDst - addrSrc
    if !isInt32 v2 then .error .relocOffsetOutOfRange else
    match src.buf[valueOffset - 1]? with
    | none => .error .invalidRelocEntry
    | some b1 =>
      let nb1 : Option (BitVec 8) := if b1 = 0xE8#8 then some 0x15#8 else if b1 = 0xE9#8 then some 0x25#8 else none
      match nb1 with
      | none => .error .invalidRelocEntry
      | some nb =>
        let buf1 := (src.buf.set (valueOffset - 2) 0xFF#8).set (valueOffset - 1) nb
        let secs1 := setBuf acc.secs re.srcSec buf1
        -- storeu_u64_le into the address table data (reserved up to the virtual size; its *size* is set at the end)
        let secs2 := modifySec secs1 ats (fun t =>
          match storeLE (padTo t.buf (atIndex + 8)) atIndex re.payload.toNat 8 with
          | some b => { t with buf := b }
          | none => t)
        .ok ({ secs := secs2, addrTab := tab, nSlots := nSlots }, v2)
  | _, _ => .error .invalidRelocEntry

/-- the `switch (re->reloc_type())`: the value to write (and, for the address-table form, the buffers it modifies first) -/
def relocPrep (s : State) (base : BitVec 64) (acc : RelocAcc) (re : Reloc) (src : Section) : Except Err (RelocAcc × BitVec 64) :=
  let site := base + src.offset + BitVec.ofNat 64 re.srcOff + BitVec.ofNat 64 re.regionSize
  match re.type with
  | .expression =>
    match s.exprs[re.payload.toNat]? with
    | none => .error .invalidState
    | some e =>
      match evalExpr { s with secs := acc.secs } e with
      | .ok v => .ok (acc, v)
      | .error er => .error er
  | .absToAbs => .ok (acc, re.payload)
  | .relToAbs =>
    match re.tgtSec.bind (fun t => acc.secs[t]?) with
    | none => .error .invalidRelocEntry
    | some tgt => .ok (acc, re.payload + (base + tgt.offset))
  | .absToRel =>
    let v := re.payload - site
    if s.arch.regSize ≤ 4 then .ok (acc, (v.truncate 32).signExtend 64)
    else if !isInt32 v then .error .relocOffsetOutOfRange
    else .ok (acc, v)
  | .x64AddressEntry =>
    if re.fmt.valueSize ≠ 4 ∨ re.srcOff + re.fmt.valueOffset < 2 then .error .invalidRelocEntry else
    let v := re.payload - site
    if isInt32 v then .ok (acc, v) else relocTable s acc re src
  | _ => .error .invalidRelocEntry

/-- the body of the `for (const RelocEntry* re : _relocations)` loop of `CodeHolder::relocate_to_base` -/
def relocStep (s : State) (base : BitVec 64) (acc : RelocAcc) (re : Reloc) : Except Err RelocAcc :=
  if re.type = .none then .ok acc else
  match acc.secs[re.srcSec]? with
  | none => .error .invalidRelocEntry
  | some src =>
    if re.srcOff ≥ src.buf.length ∨ src.buf.length - re.srcOff < re.regionSize then .error .invalidRelocEntry else
    match relocPrep s base acc re src with
    | .ok (acc1, v) => relocFinish acc1 re v
    | .error e => .error e

def relocLoop (s : State) (base : BitVec 64) : List Reloc → RelocAcc → RelocAcc × Err
  | [], acc => (acc, .ok)
  | re :: rest, acc =>
    match relocStep s base acc re with
    | .ok acc' => relocLoop s base rest acc'
    | .error e => (acc, e)

/-- `CodeHolder::relocate_to_base(base, summary)`; returns the code size reduction.
Follows the repaired tail (fixes/C04-1.patch): the address table's *buffer size* is set to the used slots whether or
not the table is the last section; only the *virtual size* shrink (and the reported reduction) needs it to be last.
On an error the entries before the failing one stay patched (as in the C++), the tail is skipped. -/
def relocate (s : State) (base : BitVec 64) : State × Err × Nat :=
  if base = noBase then (s, .invalidArgument, 0) else
  let s0 := { s with base := base }
  match relocLoop s0 base s0.relocs { secs := s0.secs, addrTab := s0.addrTab, nSlots := 0 } with
  | (acc, .ok) =>
    match s.addrTabSec with
    | none => ({ s0 with secs := acc.secs, addrTab := acc.addrTab }, .ok, 0)
    | some ats =>
      let tabSize := acc.nSlots * s.arch.regSize
      let isLast := (byOrder acc.secs).getLast? = some ats
      let reserved := match acc.secs[ats]? with | some t => t.virtSize.toNat | none => 0
      -- slot bytes were written into the reserved capacity; the tail sets the buffer size
      let secs1 := modifySec acc.secs ats (fun t =>
        { t with buf := (padTo t.buf tabSize).take tabSize,
                 virtSize := if isLast then BitVec.ofNat 64 tabSize else t.virtSize })
      ({ s0 with secs := secs1, addrTab := acc.addrTab }, .ok, if isLast then reserved - tabSize else 0)
  | (acc, e) =>
    -- slot bytes written so far live beyond the (zero) size of the address table buffer: invisible
    let secs1 := match s.addrTabSec with
      | some ats => modifySec acc.secs ats (fun t => { t with buf := [] })
      | none => acc.secs
    ({ s0 with secs := secs1, addrTab := acc.addrTab }, e, 0)

/-- `CodeHolder::code_size()` -/
def codeSize (s : State) : BitVec 64 :=
  (byOrder s.secs).foldl (fun off i =>
    match s.secs[i]? with
    | some sec => if sec.realSize = 0#64 then off else alignUp off sec.align + sec.realSize
    | none => off) 0#64

/-- write `src` into `dst` at `pos` (memcpy into a large enough destination) -/
def blit (dst : Bytes) (pos : Nat) (src : Bytes) : Bytes :=
  dst.take pos ++ src ++ dst.drop (pos + src.length)

/-- `CodeHolder::copy_flattened_data(dst, n, kPadSectionBuffer | kPadTargetBuffer)` into a destination pre-filled with 0xCC -/
def copyFlattened (s : State) (n : Nat) : Option Bytes :=
  (byOrder s.secs).foldl (fun (dst : Option Bytes) i =>
    match dst, s.secs[i]? with
    | some d, some sec =>
      let off := sec.offset.toNat
      if off > n ∨ n - off < sec.buf.length then none else
      let d1 := blit d off sec.buf
      let pad := if sec.buf.length < sec.virtSize.toNat then min (n - off) sec.virtSize.toNat - sec.buf.length else 0
      some (blit d1 (off + sec.buf.length) (zeros pad))
    | _, _ => none) (some (List.replicate n 0xCC#8))

end AsmjitVerif.CodeHolder
