/-
`ConstPool::Node::_offset` is `uint32_t` (constpool.h; `Node(size_t offset, …) : _offset(uint32_t(offset))`, and since C15-6
`node->_offset = uint32_t(offset)` in `add`).  `add` itself computes offsets in `size_t` and returns the untruncated
`offset` for a new constant, but a later lookup hit returns `node->_offset`, and `fill` copies to `dst + node->_offset`.

Nothing in `add` branches on a stored offset (lookups compare bytes, insertion position is by bytes), so the C++ is
`Model/ConstPool.lean`'s `add` followed by truncating the stored offsets – `add32`.  `Props/C19.lean` proves that the two
coincide while the pool stays within 4 GiB (`add32_eq_add_below_4GiB`) and exhibits the first divergence
(`add32_dedup_breaks_at_4GiB_witness`).  Kept in a file of its own so that `ConstPool.add` (used by C15's `FaultPool`) is
untouched.
-/
import AsmjitVerif.Model.ConstPool
namespace AsmjitVerif.ConstPool

def u32 (n : Nat) : Nat := n % 2 ^ 32

def wrapNode (n : Node) : Node := { n with offset := u32 n.offset }

def wrapTree (t : List (List Node)) : List (List Node) := t.map (·.map wrapNode)

/-- `ConstPool::add` with the 32-bit `Node::_offset` -/
def add32 (s : Pool) (d : Bytes) : Pool × Result :=
  let r := add s d
  ({ r.1 with tree := wrapTree r.1.tree }, r.2)

end AsmjitVerif.ConstPool
