/-
Model of `JitRuntime::_add(void** dst, CodeHolder* code)` (asmjit/core/jitruntime.cpp) on the CodeHolder model:
flatten, resolve_cross_section_fixups, code_size estimate, (allocation: the span address `rx` is an input - C10's business),
relocate_to_base(rx), final size = estimate - code_size_reduction, then the copy loop over `code->_sections` (id order):
memcpy of each buffer to `rw + offset`, memset of the virtual tail, `span.shrink(code_size)`.
The span is modelled as `estimate` bytes of the allocator's fill pattern (0xCC in the harness). Core-only imports.
-/
import AsmjitVerif.Model.CodeHolder
namespace AsmjitVerif.CodeHolder
open AsmjitVerif.Offset

/-- outcome of `_add` -/
inductive JitRes where
  | failed (e : Err)        -- an error of flatten / resolve / relocate_to_base, propagated
  | noCode                  -- Error::kNoCodeGenerated (estimate 0, or nothing left after the address table shrank)
  | ok (image : Bytes)      -- the bytes at the returned rx pointer, `code_size` of them
  deriving Repr, Inhabited

/-- the copy loop of `_add`: sections in id order into the span -/
def jitCopy (secs : List Section) (span : Bytes) : Bytes :=
  secs.foldl (fun d sec =>
    let off := sec.offset.toNat
    let d1 := blit d off sec.buf
    if sec.virtSize.toNat > sec.buf.length then blit d1 (off + sec.buf.length) (zeros (sec.virtSize.toNat - sec.buf.length)) else d1) span

def jitAdd (s : State) (rx : BitVec 64) : State × JitRes :=
  let (s1, e1) := flatten s
  if e1 ≠ .ok then (s1, .failed e1) else
  let (s2, e2) := resolve s1
  if e2 ≠ .ok then (s2, .failed e2) else
  let est := codeSize s2
  if est = 0#64 then (s2, .noCode) else
  let r := relocate s2 rx
  if r.2.1 ≠ .ok then (r.1, .failed r.2.1) else
  let size := est.toNat - r.2.2
  if size = 0 then (r.1, .noCode) else
  (r.1, .ok ((jitCopy r.1.secs (List.replicate est.toNat 0xCC#8)).take size))

/-- a span of `JitAllocator`: one piece of memory seen through two views - executable at `rx`, writable at `rw`.
Default allocator: `rx = rw`. `JitAllocatorOptions::kUseDualMapping`: two mappings of the same pages, `rx ≠ rw`. -/
structure Span where
  rx  : BitVec 64
  rw  : BitVec 64
  mem : Bytes
  deriving Repr, Inhabited

/-- a store through address `via`: lands in the span only through the writable view -/
def Span.write (sp : Span) (via : BitVec 64) (img : Bytes) : Option Span :=
  if via = sp.rw then some { sp with mem := img } else none

/-- what a fetch through the executable view sees -/
def Span.fetch (sp : Span) (via : BitVec 64) : Option Bytes := if via = sp.rx then some sp.mem else none

/-- `JitRuntime::_add` with the two views kept apart: the code is relocated to the address it will be *executed* at
(`relocate_to_base(uintptr_t(span.rx()))`), the bytes are stored through `span.rw()` (`_allocator.write(span, …)`), and the
pointer handed to the caller is `span.rx()`. -/
def jitAddVia (s : State) (sp : Span) : State × JitRes × Option Span :=
  match jitAdd s sp.rx with
  | (s', .ok img) => (s', .ok img, sp.write sp.rw img)
  | (s', r) => (s', r, none)

end AsmjitVerif.CodeHolder
