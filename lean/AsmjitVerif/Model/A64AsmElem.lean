/-
Seventh wave of the hand model of `a64::Assembler::_emit`: the by-element classes - FSimdVVVe, ISimdVVVe, SimdDot,
SimdFmlal, SimdFcmla, SimdFcadd.  Follows /repo HEAD.  Core-only imports.
-/
import AsmjitVerif.Model.A64AsmVec
namespace AsmjitVerif.A64Asm
open AsmjitVerif.A64
open AsmjitVerif.Gen.A64Tables

/-- the `sz` output of `pick_fp_opcode` (meaningful when it succeeds) -/
def pickFpSz (r : Reg) : Nat := if r.et == 0 then u32sub r.rt rtVec16 else u32sub r.et 2

/-- `encode_lmh`: (lm, h, max_rm_id) -/
def encodeLmh (size idx : Nat) : Option (Nat × Nat × Nat) :=
  if size != 1 && size != 2 then none else
  if idx > 15 >>> size then none else
  some ((idx <<< (size - 1)) &&& 3, idx >>> (3 - size), (8 <<< size) - 1)

def hfD : Nat := 5

def emitFSimdVVVe (d : FSimdVVVeRow) (flags : Nat) (o0 o1 o2 : Reg) : Result :=
  if !o2.hasIdx then
    if !(matchSignature2 o0 o1 flags && o1.sameSig o2) then invalidInstruction else
    match pickFpOpcode o0 d.scalar_op d.scalar_hf d.vector_op d.vector_hf with
    | none => invalidInstruction
    | some op => tailRd0Rn5Rm16 op o0 o1 o2 0
  else
    if !matchSignature2 o0 o1 flags then invalidInstruction else
    let q := if o1.rt == rtVec128 then 1 else 0
    match pickFpOpcode o0 d.element_scalar_op hfD d.element_vector_op hfD with
    | none => invalidInstruction
    | some op =>
      let sz := pickFpSz o0
      if o2.et != sz + 2 then invalidInstruction else
      if sz == 0 && o2.id > 15 then invalidPhysId else
      if o2.idx > 7 >>> sz then invalidElementIndex else
      let hlm := o2.idx <<< sz
      tailRd0Rn5Rm16 (op ||| addImm q 30 ||| addImm (hlm &&& 3) 20 ||| addImm (hlm >>> 2) 11) o0 o1 o2 4

def emitISimdVVVe (d : ISimdVVVeRow) (flags : Nat) (o0 o1 o2 : Reg) : Result :=
  let sop := if flags &&& flagLong == 0 then o0 else o1
  if !matchSignature2 o0 o1 flags then invalidInstruction else
  if !o2.hasIdx then
    match sizeOpOf d.regular_vec_type sop with
    | none => invalidInstruction
    | some so =>
      if !o1.sameSig o2 then invalidInstruction else
      tailRd0Rn5Rm16 ((w32 d.regular_op <<< 10) ||| sizeBits so) o0 o1 o2 0
  else
    match sizeOpOf d.element_vec_type sop with
    | none => invalidInstruction
    | some so =>
      if o2.et != soSize so + 1 then invalidInstruction else
      match encodeLmh (soSize so) o2.idx with
      | none => invalidElementIndex
      | some (lm, h, maxRm) =>
        if o2.id > maxRm then invalidPhysId else
        tailRd0Rn5Rm16 ((w32 d.element_op <<< 10) ||| sizeBits so ||| addImm lm 20 ||| addImm h 11) o0 o1 o2 4

def emitSimdDot (d : SimdDotRow) (o0 o1 o2 : Reg) : Result :=
  let q := u32sub o0.rt rtVec64
  if q > 1 then invalidInstruction else
  if !o2.hasIdx then
    if d.vector_op == 0 then invalidInstruction else
    if o0.rt != o1.rt || o1.rt != o2.rt then invalidInstruction else
    if o0.et != d.ta || o1.et != d.tb || o2.et != d.tb then invalidInstruction else
    tailRd0Rn5Rm16 ((w32 d.vector_op <<< 10) ||| addImm q 30) o0 o1 o2 0
  else
    if d.element_op == 0 then invalidInstruction else
    if o0.rt != o1.rt || o2.rt != rtVec128 then invalidInstruction else
    if o0.et != d.ta || o1.et != d.tb || o2.et != d.tElement then invalidInstruction else
    match encodeLmh 2 o2.idx with
    | none => invalidElementIndex
    | some (lm, h, maxRm) =>
      if o2.id > maxRm then invalidPhysId else
      tailRd0Rn5Rm16 ((w32 d.element_op <<< 10) ||| addImm q 30 ||| addImm lm 20 ||| addImm h 11) o0 o1 o2 4

def emitSimdFmlal (d : SimdFmlalRow) (o0 o1 o2 : Reg) : Result :=
  let q0 := u32sub o0.rt rtVec64
  if (if d.optional_q != 0 then q0 > 1 else q0 != 1) then invalidInstruction else
  let q := if d.optional_q != 0 then q0 else 0
  if o0.rt != o1.rt + d.optional_q || o0.et != d.ta || o1.et != d.tb then invalidInstruction else
  if !o2.hasIdx then
    if !o1.sameSig o2 then invalidInstruction else
    tailRd0Rn5Rm16 (w32 d.vector_op ||| addImm q 30) o0 o1 o2 0
  else
    if o2.et != d.tElement then invalidInstruction else
    if o2.id > 15 then invalidPhysId else
    if o2.idx > 7 then invalidElementIndex else
    tailRd0Rn5Rm16 (w32 d.element_op ||| addImm q 30 ||| addImm (o2.idx &&& 3) 20 ||| addImm (o2.idx >>> 2) 11) o0 o1 o2 4

def emitSimdFcadd (d : SimdFcaddRow) (o0 o1 o2 : Reg) (imm : BitVec 64) : Result :=
  if !(o0.sameSig o1 && o1.sameSig o2) || o0.hasIdx then invalidInstruction else
  let q := u32sub o0.rt rtVec64
  if q > 1 then invalidInstruction else
  let sz := u32sub o0.et 1
  if sz == 0 || sz > 3 then invalidInstruction else
  if imm != 270#64 && imm != 90#64 then invalidImmediate else
  let rot := if imm == 270#64 then 1 else 0
  tailRd0Rn5Rm16 (w32 d.opcode ||| addImm q 30 ||| addImm sz 22 ||| addImm rot 12) o0 o1 o2 0

def emitSimdFcmla (d : SimdFcmlaRow) (o0 o1 o2 : Reg) (imm : BitVec 64) : Result :=
  if !o0.sameSig o1 then invalidInstruction else
  let q := u32sub o0.rt rtVec64
  if q > 1 then invalidInstruction else
  let sz := u32sub o0.et 1
  if sz == 0 || sz > 3 then invalidInstruction else
  let rot? : Option Nat := if imm == 0#64 then some 0 else if imm == 90#64 then some 1 else if imm == 180#64 then some 2
                           else if imm == 270#64 then some 3 else none
  match rot? with
  | none => invalidImmediate
  | some rot =>
    if !o2.hasIdx then
      if !o1.sameSig o2 then invalidInstruction else
      tailRd0Rn5Rm16 (w32 d.regular_op ||| addImm q 30 ||| addImm sz 22 ||| addImm rot 11) o0 o1 o2 0
    else
      if o0.et != o2.et then invalidInstruction else
      if !(sz == 1 || (q == 1 && sz == 2)) then invalidInstruction else
      let maxIdx := if q == 1 && sz == 1 then 3 else 1
      if o2.idx > maxIdx then invalidElementIndex else
      let hl := o2.idx <<< (if sz == 1 then 0 else 1)
      tailRd0Rn5Rm16 (w32 d.element_op ||| addImm q 30 ||| addImm sz 22 ||| addImm (hl &&& 1) 21 ||| addImm (hl >>> 1) 11 ||| addImm rot 13) o0 o1 o2 4

def emitInst7 (r : InstRow) (rq : Request) : Result :=
  let o := rq.ops
  let enc := r.enc
  if rq.cc != 0 then notModelled
  else if enc == encFSimdVVVe then
    match fSimdVVVe[r.idx]?, o with
    | some d, [.reg a, .reg b, .reg c] => emitFSimdVVVe d r.flags a b c
    | _, _ => notModelled
  else if enc == encISimdVVVe then
    match iSimdVVVe[r.idx]?, o with
    | some d, [.reg a, .reg b, .reg c] => emitISimdVVVe d r.flags a b c
    | _, _ => notModelled
  else if enc == encSimdDot then
    match simdDot[r.idx]?, o with
    | some d, [.reg a, .reg b, .reg c] => emitSimdDot d a b c
    | _, _ => notModelled
  else if enc == encSimdFmlal then
    match simdFmlal[r.idx]?, o with
    | some d, [.reg a, .reg b, .reg c] => emitSimdFmlal d a b c
    | _, _ => notModelled
  else if enc == encSimdFcadd then
    match simdFcadd[r.idx]?, o with
    | some d, [.reg a, .reg b, .reg c, .imm v _] => emitSimdFcadd d a b c v
    | _, _ => notModelled
  else if enc == encSimdFcmla then
    match simdFcmla[r.idx]?, o with
    | some d, [.reg a, .reg b, .reg c, .imm v _] => emitSimdFcmla d a b c v
    | _, _ => notModelled
  else notModelled

/-- all seven waves -/
def emitModel7 (rq : Request) : Result :=
  match emitModel6 rq with
  | .err "NotModelled" =>
    (match instTable[rq.inst]? with
     | some r => if rq.inst == 0 then notModelled else emitInst7 r { rq with ops := (rq.ops.reverse.dropWhile (· == .none)).reverse }
     | none => notModelled)
  | res => res

end AsmjitVerif.A64Asm
