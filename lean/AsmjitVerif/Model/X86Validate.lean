/-
Model of x86 strict validation, asmjit/x86/x86instapi.cpp `validate(mode, inst, operands, op_count, flags)` with
`validation_flags = kNone`, statement by statement (core-only; linked into the driver).

  op_flag_from_reg_type_table, x86_validation_data / x64_validation_data   -> opFlagOfRegType, allowedRegMask, allowedBase/Index
  check_op_sig                                                             -> checkOpSig
  validate(): LOCK/XACQUIRE/XRELEASE, REP/REPNE, operand -> OpSignature, trailing `none`, mode cases, signature matching
              (explicit and with implicit operands skipped), AVX-512 {z}{er}{sae}, {extra} register          -> validate

The generated tables (`_inst_info_table` -> CommonInfo fields, `_inst_signature_table`, `_op_signature_table`) come from the
compiler through `Gen/X86Sig.lean` as a `SigTables` value.
-/
namespace AsmjitVerif.X86Validate

/-! ### constants (asmjit/core/operand.h RegType, x86instdb.h OpFlags / InstFlags / Avx512Flags, core/inst.h InstOptions);
    `Gen/X86Sig.lean` carries the compiler's values and Props/C13X86.lean proves they are these. -/
def rtNone := 0
def rtLabelTag := 1
def rtGp8Lo := 2
def rtGp8Hi := 3
def rtGp16 := 4
def rtGp32 := 5
def rtGp64 := 6
def rtVec128 := 11
def rtVec256 := 12
def rtVec512 := 13
def rtMask := 16
def rtTile := 17
def rtSegment := 25
def rtControl := 26
def rtDebug := 27
def rtMm := 28
def rtSt := 29
def rtBnd := 30
def rtPC := 31

def fRegGpbLo := 0x1
def fRegGpbHi := 0x2
def fRegGpw := 0x4
def fRegGpd := 0x8
def fRegGpq := 0x10
def fRegXmm := 0x20
def fRegYmm := 0x40
def fRegZmm := 0x80
def fRegMm := 0x100
def fRegKReg := 0x200
def fRegSReg := 0x400
def fRegCReg := 0x800
def fRegDReg := 0x1000
def fRegSt := 0x2000
def fRegBnd := 0x4000
def fRegTmm := 0x8000
def fRegMask := 0xFFFF
def fMemUnspecified := 0x40000
def fMem8 := 0x80000
def fMem16 := 0x100000
def fMem32 := 0x200000
def fMem48 := 0x400000
def fMem64 := 0x800000
def fMem80 := 0x1000000
def fMem128 := 0x2000000
def fMem256 := 0x4000000
def fMem512 := 0x8000000
def fMemMask := 0x1FFC0000
def fVm32x := 0x40000000
def fVm32y := 0x80000000
def fVm32z := 0x100000000
def fVm64x := 0x200000000
def fVm64y := 0x400000000
def fVm64z := 0x800000000
def fVmMask := 0xFC0000000
def fImmI4 := 0x1000000000
def fImmU4 := 0x2000000000
def fImmI8 := 0x4000000000
def fImmU8 := 0x8000000000
def fImmI16 := 0x10000000000
def fImmU16 := 0x20000000000
def fImmI32 := 0x40000000000
def fImmU32 := 0x80000000000
def fImmI64 := 0x100000000000
def fImmU64 := 0x200000000000
def fImmMask := 0x3FF000000000
def fRel8 := 0x400000000000
def fRel32 := 0x800000000000
def fRelMask := 0xC00000000000
def fFlagMemBase := 0x1000000000000
def fFlagMib := 0x8000000000000
def fFlagImplicit := 0x80000000000000
def fOpMask := fRegMask ||| fMemMask ||| fVmMask ||| fImmMask ||| fRelMask

def ifRep := 0x4000
def ifRepIgnored := 0x8000
def ifLock := 0x10000
def ifXAcquire := 0x20000
def ifXRelease := 0x40000
def ifVex := 0x400000
def ifEvex := 0x800000
def ifVsib := 0x100000
def avxK := 0x1
def avxZ := 0x2
def avxER := 0x4
def avxSAE := 0x8
def avxB16 := 0x10
def avxB32 := 0x20
def avxB64 := 0x40
def optLock := 0x2000
def optRep := 0x4000
def optRepne := 0x8000
def optXAcquire := 0x10000
def optXRelease := 0x20000
def optER := 0x40000
def optSAE := 0x80000
def optZMask := 0x800000
def optRex := 0x40000000
def optEvex := 0x1000
def virtIdMin := 0x100
def gpIdCx := 1
def encPairK := 1
def encX86Op := 2
def encMovabs := 3
def encEnqcmdMovdir64b := 4
def encMemSizeRequired := 5   -- X86Arith, Bt, Crc, IncDec, Ins, M_GPB, M_GPB_MulDiv, Mov, Outs, Pop, Rot, StrMm, Test
def encImul := 6
def encCvtsi2sd := 7             -- vcvtsi2sd, vcvtusi2sd (by instruction id)
def encVcmpScalar := 8           -- vcmpsd, vcmpss (by instruction id)
def sregIdEs := 1
def gpIdBx := 3
def gpIdSp := 4
def gpIdBp := 5
def gpIdSi := 6
def gpIdDi := 7

def test (a b : Nat) : Bool := a &&& b != 0

/-- `Error` values `validate` can return (printed like `DebugUtils::error_as_string`) -/
inductive Err
  | ok | invalidInstruction | invalidRegType | invalidPhysId | illegalVirtReg | invalidSegment | invalidBroadcast
  | invalidAddress | invalidAddress64Bit | invalidAddress64BitZeroExtension | invalidOperandSize | invalidState
  | invalidUseOfGpq | invalidUseOfGpbHi | invalidImmediate | invalidLockPrefix | invalidPrefixCombination
  | invalidXAcquirePrefix | invalidXReleasePrefix | invalidRepPrefix | invalidKZeroUse | invalidEROrSAE
  | invalidExtraReg | invalidKMaskUse | invalidRexPrefix | ambiguousOperandSize
  deriving DecidableEq, Repr

def Err.name : Err → String
  | .ok => "Ok" | .invalidInstruction => "InvalidInstruction" | .invalidRegType => "InvalidRegType"
  | .invalidPhysId => "InvalidPhysId" | .illegalVirtReg => "IllegalVirtReg" | .invalidSegment => "InvalidSegment"
  | .invalidBroadcast => "InvalidBroadcast" | .invalidAddress => "InvalidAddress" | .invalidAddress64Bit => "InvalidAddress64Bit"
  | .invalidAddress64BitZeroExtension => "InvalidAddress64BitZeroExtension" | .invalidOperandSize => "InvalidOperandSize"
  | .invalidState => "InvalidState" | .invalidUseOfGpq => "InvalidUseOfGpq" | .invalidUseOfGpbHi => "InvalidUseOfGpbHi"
  | .invalidImmediate => "InvalidImmediate" | .invalidLockPrefix => "InvalidLockPrefix"
  | .invalidPrefixCombination => "InvalidPrefixCombination" | .invalidXAcquirePrefix => "InvalidXAcquirePrefix"
  | .invalidXReleasePrefix => "InvalidXReleasePrefix" | .invalidRepPrefix => "InvalidRepPrefix"
  | .invalidKZeroUse => "InvalidKZeroUse" | .invalidEROrSAE => "InvalidEROrSAE" | .invalidExtraReg => "InvalidExtraReg"
  | .invalidKMaskUse => "InvalidKMaskUse" | .invalidRexPrefix => "InvalidRexPrefix"
  | .ambiguousOperandSize => "AmbiguousOperandSize"

/-- an `Operand_` as far as `validate` looks at it -/
inductive Operand
  | none
  | reg (rtype id : Nat)
  /-- `off`: the 64-bit offset/address as two's complement `Nat` (< 2^64): sign-extended 32-bit offset when there is a
      base register or label, the absolute address otherwise -/
  | mem (size btype bid itype iid shift : Nat) (off : Nat) (seg bcst : Nat)
  | imm (v : Nat)
  | label
  /-- any other `OperandType` -/
  | other
  deriving DecidableEq, Repr

structure Inst where
  mode : Nat                 -- InstDB::Mode: 1 = kX86, 2 = kX64
  id : Nat
  options : Nat
  extra : Option (Nat × Nat) -- {extra} register (type, id) if `extra_reg.is_reg()`
  deriving DecidableEq, Repr

structure SigTables where
  /-- per instruction id: CommonInfo `_flags`, `_avx512_flags`, `_inst_signature_index`, `_inst_signature_count` -/
  insts : List (Nat × Nat × Nat × Nat)
  /-- `_inst_signature_table`: `_op_count`, `_mode`, `_implicit_op_count`, `_op_signature_indexes[6]` -/
  isigs : List (Nat × Nat × Nat × List Nat)
  /-- `_op_signature_table`: `_flags` (56 bit), `_reg_mask` (8 bit) -/
  osigs : List (Nat × Nat)
  /-- `(id, kind)` of the instructions whose `_encoding` matters to `validate`: 1 = `kEncodingVexRvm_Lx_2xK`
      (vp2intersectd/q: mask register pair), 2 = `kEncodingX86Op` (implicit operands only), 3 = `kEncodingX86Movabs` -/
  encKinds : List (Nat × Nat)

/-- `op_flag_from_reg_type_table` -/
def opFlagOfRegType (t : Nat) : Nat :=
  if t = rtGp8Lo then fRegGpbLo else if t = rtGp8Hi then fRegGpbHi else if t = rtGp16 then fRegGpw
  else if t = rtGp32 then fRegGpd else if t = rtGp64 then fRegGpq else if t = rtVec128 then fRegXmm
  else if t = rtVec256 then fRegYmm else if t = rtVec512 then fRegZmm else if t = rtMask then fRegKReg
  else if t = rtMm then fRegMm else if t = rtSegment then fRegSReg else if t = rtControl then fRegCReg
  else if t = rtDebug then fRegDReg else if t = rtSt then fRegSt else if t = rtBnd then fRegBnd
  else if t = rtTile then fRegTmm else 0

/-- `vd->allowed_reg_mask[reg_type]` (REG_MASK_FROM_REG_TYPE_X86 / _X64) -/
def allowedRegMask (mode t : Nat) : Nat :=
  if mode = 1 then
    if t = rtPC then 0x1 else if t = rtGp8Lo then 0xF else if t = rtGp8Hi then 0xF else if t = rtGp16 then 0xFF
    else if t = rtGp32 then 0xFF else if t = rtGp64 then 0xFF else if t = rtVec128 then 0xFF else if t = rtVec256 then 0xFF
    else if t = rtVec512 then 0xFF else if t = rtMask then 0xFF else if t = rtMm then 0xFF else if t = rtSegment then 0x7E
    else if t = rtControl then 0xFFFF else if t = rtDebug then 0xFF else if t = rtSt then 0xFF else if t = rtBnd then 0xF
    else if t = rtTile then 0xFF else 0
  else
    if t = rtPC then 0x1 else if t = rtGp8Lo then 0xFFFF else if t = rtGp8Hi then 0xF else if t = rtGp16 then 0xFFFF
    else if t = rtGp32 then 0xFFFF else if t = rtGp64 then 0xFFFF else if t = rtVec128 then 0xFFFFFFFF
    else if t = rtVec256 then 0xFFFFFFFF else if t = rtVec512 then 0xFFFFFFFF else if t = rtMask then 0xFF
    else if t = rtMm then 0xFF else if t = rtSegment then 0x7E else if t = rtControl then 0xFFFF
    else if t = rtDebug then 0xFFFF else if t = rtSt then 0xFF else if t = rtBnd then 0xF else if t = rtTile then 0xFF else 0

def bit (i : Nat) : Nat := 1 <<< i

/-- `vd->allowed_mem_base_regs` -/
def allowedBase (mode : Nat) : Nat :=
  if mode = 1 then bit rtGp16 ||| bit rtGp32 ||| bit rtPC ||| bit rtLabelTag
  else bit rtGp32 ||| bit rtGp64 ||| bit rtPC ||| bit rtLabelTag

/-- `vd->allowed_mem_index_regs` -/
def allowedIndex (mode : Nat) : Nat :=
  if mode = 1 then bit rtGp16 ||| bit rtGp32 ||| bit rtVec128 ||| bit rtVec256 ||| bit rtVec512
  else bit rtGp32 ||| bit rtGp64 ||| bit rtVec128 ||| bit rtVec256 ||| bit rtVec512

/-- the immediate classes of a 64-bit value (`case OperandType::kImm`) -/
def immFlags (v : Nat) : Nat :=
  if v < 0x8000000000000000 then
    if v ≤ 0x7 then fImmI64 ||| fImmU64 ||| fImmI32 ||| fImmU32 ||| fImmI16 ||| fImmU16 ||| fImmI8 ||| fImmU8 ||| fImmI4 ||| fImmU4
    else if v ≤ 0xF then fImmI64 ||| fImmU64 ||| fImmI32 ||| fImmU32 ||| fImmI16 ||| fImmU16 ||| fImmI8 ||| fImmU8 ||| fImmU4
    else if v ≤ 0x7F then fImmI64 ||| fImmU64 ||| fImmI32 ||| fImmU32 ||| fImmI16 ||| fImmU16 ||| fImmI8 ||| fImmU8
    else if v ≤ 0xFF then fImmI64 ||| fImmU64 ||| fImmI32 ||| fImmU32 ||| fImmI16 ||| fImmU16 ||| fImmU8
    else if v ≤ 0x7FFF then fImmI64 ||| fImmU64 ||| fImmI32 ||| fImmU32 ||| fImmI16 ||| fImmU16
    else if v ≤ 0xFFFF then fImmI64 ||| fImmU64 ||| fImmI32 ||| fImmU32 ||| fImmU16
    else if v ≤ 0x7FFFFFFF then fImmI64 ||| fImmU64 ||| fImmI32 ||| fImmU32
    else if v ≤ 0xFFFFFFFF then fImmI64 ||| fImmU64 ||| fImmU32
    else fImmI64 ||| fImmU64
  else
    let n := 0x10000000000000000 - v   -- Support::neg
    if n ≤ 0x8 then fImmI64 ||| fImmI32 ||| fImmI16 ||| fImmI8 ||| fImmI4
    else if n ≤ 0x80 then fImmI64 ||| fImmI32 ||| fImmI16 ||| fImmI8
    else if n ≤ 0x8000 then fImmI64 ||| fImmI32 ||| fImmI16
    else if n ≤ 0x80000000 then fImmI64 ||| fImmI32
    else fImmI64

def memSizeFlag (sz : Nat) : Option Nat :=
  if sz = 0 then some fMemUnspecified else if sz = 1 then some fMem8 else if sz = 2 then some fMem16
  else if sz = 4 then some fMem32 else if sz = 6 then some fMem48 else if sz = 8 then some fMem64
  else if sz = 10 then some fMem80 else if sz = 16 then some fMem128 else if sz = 32 then some fMem256
  else if sz = 64 then some fMem512 else none

def isInt32 (off : Nat) : Bool := off < 0x80000000 || off ≥ 0xFFFFFFFF80000000
def isUInt32 (off : Nat) : Bool := off ≤ 0xFFFFFFFF

/-- `is_valid_address_16` (fixes/C13-5): 16-bit addressing has only [BX|BP|SI|DI] and [BX|BP + SI|DI], no scale -/
def validAddr16 (btype bid itype iid shift : Nat) : Bool :=
  let bxbp := fun r => r == gpIdBx || r == gpIdBp
  let sidi := fun r => r == gpIdSi || r == gpIdDi
  let hasB := btype != rtNone
  let hasI := itype != rtNone
  if (hasB && btype != rtGp16) || (hasI && itype != rtGp16) || shift != 0 then false
  else if hasB && hasI then (bid ≥ virtIdMin || iid ≥ virtIdMin) || (bxbp bid && sidi iid) || (sidi bid && bxbp iid)
  else
    let r := if hasB then bid else iid
    r ≥ virtIdMin || bxbp r || sidi r

/-- an error code that is not `Ok`: what the operand translation can fail with (so that "the validator answered Ok"
    can only come from the end of `validate`, by construction) -/
abbrev ErrNZ := { e : Err // e ≠ .ok }

def bad {α : Type} (e : Err) (h : e ≠ .ok := by decide) : Except ErrNZ α := .error ⟨e, h⟩

/-- translation of one operand: `Except error (op_flags, reg_mask (32 bit), contribution to combined_reg_mask)`;
    `avx` / `iflags` = the instruction's `_avx512_flags` / `_flags` -/
def translateOp (mode avx iflags enc : Nat) : Operand → Except ErrNZ (Nat × Nat × Nat)
  | .none => bad .invalidState      -- not reached: the loop stops at the first `none`
  | .other => bad .invalidState
  | .label => .ok (fRel8 ||| fRel32, 0, 0)
  | .imm v => .ok (immFlags v, 0, 0)
  | .reg t id =>
    let fl := opFlagOfRegType t
    if fl = 0 then bad .invalidRegType
    else if id < virtIdMin then
      if id ≥ 32 then bad .invalidPhysId
      else if !test (allowedRegMask mode t) (bit id) then bad .invalidPhysId
      else .ok (fl, bit id, bit id)
    else bad .illegalVirtReg
  | .mem size btype bid itype iid shift off seg bcst =>
    if seg > 6 then bad .invalidSegment else
    -- AVX-512 broadcast {1toN}
    let bc : Except ErrNZ Nat :=
      if bcst ≠ 0 then
        if !test avx (avxB16 ||| avxB32 ||| avxB64) then bad .invalidBroadcast   -- (fixes/C13-2) instruction has no broadcast
        else if size ≠ 0 then
          if test avx avxB32 && size ≠ 4 then bad .invalidBroadcast
          else if test avx avxB64 && size ≠ 8 then bad .invalidBroadcast
          else .ok (size <<< bcst)
        else .ok ((if test avx avxB64 then 8 else if test avx avxB32 then 4 else 2) <<< bcst)
      else .ok size
    match bc with
    | .error e => .error e
    | .ok memSize =>
    -- base
    let base : Except ErrNZ (Nat × Nat × Nat) :=          -- (flags, reg_mask, combined)
      if btype ≠ rtNone ∧ btype > rtLabelTag then
        if !test (allowedBase mode) (bit btype) then bad .invalidAddress
        else if bid < virtIdMin then
          if bid ≥ 32 then bad .invalidPhysId
          else if !test (allowedRegMask mode btype) (bit bid) then bad .invalidPhysId     -- (fixes/C13-3)
          else .ok (if itype = rtNone ∧ off % 0x100000000 = 0 then fFlagMemBase else 0, bit bid, bit bid)
        else bad .illegalVirtReg
      else if btype = rtLabelTag then .ok (0, 0, 0)
      else
        -- absolute address
        if !isInt32 off then
          if mode = 1 then (if !isUInt32 off then bad .invalidAddress64Bit else .ok (0, 0, 0))
          else if itype ≠ rtNone then
            if !isUInt32 off then bad .invalidAddress64Bit
            else if itype ≠ rtGp32 then bad .invalidAddress64BitZeroExtension
            else .ok (0, 0, 0)
          else .ok (0, 0, 0)
        else .ok (0, 0, 0)
    match base with
    | .error e => .error e
    | .ok (bfl, bmask, bcomb) =>
    -- index
    let index : Except ErrNZ (Nat × Nat × Nat) :=
      if itype ≠ rtNone then
        if !test (allowedIndex mode) (bit itype) then bad .invalidAddress
        else
          let fl := bfl |||
            (if itype = rtVec128 then fVm32x ||| fVm64x else if itype = rtVec256 then fVm32y ||| fVm64y
             else if itype = rtVec512 then fVm32z ||| fVm64z else if btype ≠ rtNone then fFlagMib else 0)
          if btype = rtPC ∧ test fl fVmMask then bad .invalidAddress
          -- (fixes/C13-4) [RIP|LABEL + INDEX] in 64-bit mode, vector index without VSIB, ESP|RSP as index
          else if mode ≠ 1 ∧ (btype = rtPC ∨ btype = rtLabelTag) then bad .invalidAddress
          else if test fl fVmMask && !test iflags ifVsib then bad .invalidAddress
          else if !test fl fVmMask && itype != rtGp16 && iid == gpIdSp then bad .invalidAddress
          else if iid < virtIdMin then
            if iid ≥ 32 then bad .invalidPhysId
            else if !test (allowedRegMask mode itype) (bit iid) then bad .invalidPhysId     -- (fixes/C13-3)
            else .ok (fl, 0, bcomb ||| bit iid)
          else bad .illegalVirtReg
      else .ok (bfl, bmask, bcomb)
    match index with
    | .error e => .error e
    | .ok (fl, mask, comb) =>
      -- (fixes/C13-11) movabs has only the moffs form: no base, no index
      if enc = encMovabs ∧ (btype ≠ rtNone ∨ itype ≠ rtNone) then bad .invalidAddress else
      -- (fixes/C13-5) 16-bit addressing forms
      if (btype = rtGp16 ∨ itype = rtGp16) ∧ !validAddr16 btype bid itype iid shift then bad .invalidAddress else
      match memSizeFlag memSize with
      | none => bad .invalidOperandSize
      | some sf => .ok (fl ||| sf, mask, comb)

/-- `check_op_sig(op, ref, imm_out_of_range)`: returns (accepted, imm_out_of_range') -/
def checkOpSig (op ref : Nat × Nat) (oor : Bool) : Bool × Bool :=
  let common := op.1 &&& ref.1
  if !test common fOpMask then
    if test op.1 fImmMask && test ref.1 fImmMask then (true, true) else (false, oor)
  else if test common fMemMask && test ref.1 fFlagMemBase && !test op.1 fFlagMemBase then (false, oor)
  -- (fixes/C13-6) the base register of such a memory operand is fixed
  else if test common fMemMask && test ref.1 fFlagMemBase && ref.2 != 0 && !test op.2 ref.2 then (false, oor)
  else if test common fRegMask && ref.2 != 0 && !test op.2 ref.2 then (false, oor)
  else (true, oor)

/-- `inst_op_count == op_count`: position by position -/
def matchExplicit : List (Nat × Nat) → List (Nat × Nat) → Bool → Bool × Bool
  | [], _, oor => (true, oor)
  | _ :: _, [], oor => (false, oor)
  | o :: os, r :: rs, oor =>
    let (a, oor') := checkOpSig o r oor
    if a then matchExplicit os rs oor' else (false, oor')

/-- `inst_op_count - implicit_op_count == op_count`: reference operands flagged implicit are skipped (the `Next:` loop) -/
def matchSkippingImplicit : List (Nat × Nat) → List (Nat × Nat) → Bool → Bool × Bool
  | [], _, oor => (true, oor)
  | _ :: _, [], oor => (false, oor)
  | o :: os, r :: rs, oor =>
    if test r.1 fFlagImplicit then matchSkippingImplicit (o :: os) rs oor
    else
      let (a, oor') := checkOpSig o r oor
      if a then matchSkippingImplicit os rs oor' else (false, oor')
termination_by a b => a.length + b.length

/-- what `validate` reads from the tables for one instruction: CommonInfo `_flags`, `_avx512_flags`, its signature rows
    (`_op_count`, `_mode`, `_implicit_op_count`, the `_op_count` operand signatures `(_flags, _reg_mask)` the row's
    indexes point to) and the kind of its `_encoding` (0 = none of those `validate` looks at). Independent of table *positions*. -/
structure ResolvedInst where
  iflags : Nat
  avx : Nat
  rows : List (Nat × Nat × Nat × List (Nat × Nat))
  enc : Nat
  deriving DecidableEq, Repr

/-- `inst_info_by_id(id)`, `common_info.inst_signatures()`, `inst_signature.op_signature(j)`; `none` = `!is_defined_id` -/
def resolve (T : SigTables) (id : Nat) : Option ResolvedInst :=
  if id ≥ T.insts.length then none else
  let (iflags, avx, sigIndex, sigCount) := T.insts.getD id (0, 0, 0, 0)
  some { iflags := iflags, avx := avx,
         rows := ((T.isigs.drop sigIndex).take sigCount).map fun (opCount, smode, implicitCount, idx) =>
           (opCount, smode, implicitCount, (idx.take opCount).map fun k => T.osigs.getD k (0, 0)),
         enc := ((T.encKinds.find? (·.1 == id)).map (·.2)).getD 0 }

/-- the loop over `common_info.inst_signatures()`: `some true` = matched, otherwise `global_imm_out_of_range` -/
def matchSignatures (mode : Nat) (ops : List (Nat × Nat)) : List (Nat × Nat × Nat × List (Nat × Nat)) → Bool → Bool × Bool
  | [], g => (false, g)
  | (opCount, smode, implicitCount, refs) :: rest, g =>
    if smode &&& mode = 0 then matchSignatures mode ops rest g else
    let (m, loc) :=
      if opCount = ops.length then matchExplicit ops refs false
      else if opCount - implicitCount = ops.length then matchSkippingImplicit ops refs false
      else (false, false)
    if m then
      if !loc then (true, false) else matchSignatures mode ops rest true
    else matchSignatures mode ops rest g

def isZmmOrM512 : Operand → Bool
  | .reg t _ => t == rtVec512
  | .mem size .. => size == 64
  | _ => false

def firstNone : List Operand → Nat
  | [] => 0
  | .none :: _ => 0
  | _ :: r => firstNone r + 1

def translateAll (mode avx iflags enc : Nat) : List Operand → Except ErrNZ (List (Nat × Nat) × Nat × Nat)
  | [] => .ok ([], 0, 0)
  | o :: r =>
    match translateOp mode avx iflags enc o with
    | .error e => .error e
    | .ok (fl, mask, comb) =>
      match translateAll mode avx iflags enc r with
      | .error e => .error e
      | .ok (sigs, cfl, ccomb) => .ok ((fl % 0x100000000000000, mask % 0x100) :: sigs, cfl ||| fl, ccomb ||| comb)

/-- base register type of the last memory operand among the translated ones (`mem_op`) -/
def lastMemBase : List Operand → Option Nat
  | [] => none
  | .mem _ bt .. :: r => (match lastMemBase r with | some b => some b | none => some bt)
  | _ :: r => lastMemBase r

/-- stage 1 of `validate()`: the LOCK/XACQUIRE/XRELEASE and REP/REPNE prefix tests -/
def prefixStage (R : ResolvedInst) (inst : Inst) (operands : List Operand) : Err :=
  let iflags := R.iflags
  let options := inst.options
  let kRepAny := optRep ||| optRepne
  let kXAcqXRel := optXAcquire ||| optXRelease
  -- LOCK | XACQUIRE | XRELEASE
  let e1 : Err :=
    if test options (optLock ||| kXAcqXRel) then
      let a : Err :=
        if test options optLock then
          if !test iflags ifLock && !test options kXAcqXRel then .invalidLockPrefix
          else match operands with
            | .mem .. :: _ => .ok
            | _ => .invalidLockPrefix
        else .ok
      if a ≠ .ok then a
      else if test options kXAcqXRel then
        if !test options optLock || options &&& kXAcqXRel = kXAcqXRel then .invalidPrefixCombination
        else if test options optXAcquire && !test iflags ifXAcquire then .invalidXAcquirePrefix
        else if test options optXRelease && !test iflags ifXRelease then .invalidXReleasePrefix
        else .ok
      else .ok
    else .ok
  if e1 ≠ .ok then e1 else
  -- REP | REPNE
  let e2 : Err :=
    if test options kRepAny then
      if options &&& kRepAny = kRepAny then .invalidPrefixCombination
      else if !test iflags ifRep then .invalidRepPrefix else .ok
    else .ok
  e2

/-- stage 2: operands -> signatures (stops at the first `none`; everything after it must be `none`) and the mode-specific
    register tests; yields the translated signatures, `combined_op_flags` and `combined_reg_mask` -/
def sigStage (R : ResolvedInst) (inst : Inst) (operands : List Operand) : Except ErrNZ (List (Nat × Nat) × Nat × Nat) :=
  let mode := inst.mode
  let options := inst.options
  let n := firstNone operands
  let given := operands.take n
  match translateAll mode R.avx R.iflags R.enc given with
  | .error e => .error e
  | .ok (sigs, combinedFlags, combinedRegMask) =>
  if (operands.drop n).any (· != .none) then bad .invalidInstruction else
  -- mode specific
  if mode = 1 then
    if test combinedFlags fRegGpq then bad .invalidUseOfGpq
    -- (fixes/C13-3) there is no REX prefix in 32-bit mode
    else if test options optRex then bad .invalidRexPrefix
    else .ok (sigs, combinedFlags, combinedRegMask)
  else
    let hasRex := test options optRex || combinedRegMask &&& 0xFFFFFF00 != 0
    if hasRex && test combinedFlags fRegGpbHi then bad .invalidUseOfGpbHi else .ok (sigs, combinedFlags, combinedRegMask)

/-- `kMemMask & ~kMemUnspecified` -/
def fMemSizedMask := fMemMask - fMemUnspecified

/-- (fixes/C13-12) the sized memory alternatives a row offers at the positions of the sizeless memory operands
    (`row_mem_sizes`), for the position-by-position loop -/
def rowSizesExplicit : List (Nat × Nat) → List (Nat × Nat) → Nat
  | o :: os, r :: rs => (if test o.1 fMemUnspecified then r.1 &&& fMemSizedMask else 0) ||| rowSizesExplicit os rs
  | _, _ => 0

/-- the same for the loop that skips implicit reference operands -/
def rowSizesSkipping : List (Nat × Nat) → List (Nat × Nat) → Nat
  | [], _ => 0
  | _ :: _, [] => 0
  | o :: os, r :: rs =>
    if test r.1 fFlagImplicit then rowSizesSkipping (o :: os) rs
    else (if test o.1 fMemUnspecified then r.1 &&& fMemSizedMask else 0) ||| rowSizesSkipping os rs
termination_by a b => a.length + b.length

/-- `row_mem_sizes` of every row that matches the operands cleanly (in table order) -/
def cleanMatchSizes (mode : Nat) (ops : List (Nat × Nat)) : List (Nat × Nat × Nat × List (Nat × Nat)) → List Nat
  | [] => []
  | (opCount, smode, implicitCount, refs) :: rest =>
    if smode &&& mode = 0 then cleanMatchSizes mode ops rest
    else if opCount = ops.length then
      (if matchExplicit ops refs false == (true, false) then [rowSizesExplicit ops refs] else []) ++ cleanMatchSizes mode ops rest
    else if opCount - implicitCount = ops.length then
      (if matchSkippingImplicit ops refs false == (true, false) then [rowSizesSkipping ops refs] else []) ++ cleanMatchSizes mode ops rest
    else cleanMatchSizes mode ops rest

/-- `is_mem_size_required_by_encoding(encoding, op_count)` -/
def memSizeRequired (enc nOps : Nat) : Bool := enc == encMemSizeRequired || (enc == encImul && nOps == 1)

/-- stage 3: the instruction's signature rows against the translated operands; with a sizeless memory operand and an
    encoding that takes the operand size from it, matching rows that differ in the memory size make it ambiguous -/
def matchStage (R : ResolvedInst) (mode : Nat) (sigs : List (Nat × Nat)) : Err :=
  if R.rows.isEmpty then .ok else
  let (m, g) := matchSignatures mode sigs R.rows false
  if m then
    if memSizeRequired R.enc sigs.length && sigs.any (fun o => test o.1 fMemUnspecified) &&
       (match cleanMatchSizes mode sigs R.rows with
        | [] => false
        | x :: xs => xs.any (· != x)) then .ambiguousOperandSize
    else .ok
  else if g then .invalidImmediate else .invalidInstruction

/-- stage 4: encoding-specific tests, EVEX-only resources, AVX-512 options, {extra} register -/
def tailStage (R : ResolvedInst) (inst : Inst) (operands : List Operand) (combinedFlags : Nat) : Err :=
  let iflags := R.iflags
  let avx := R.avx
  let options := inst.options
  let kRepAny := optRep ||| optRepne
  let kAvx512Options := optZMask ||| optER ||| optSAE
  let given := operands.take (firstNone operands)
  -- (fixes/C13-11) the X86Op encoding class has implicit operands only: no explicit immediate
  if R.enc == encX86Op && test combinedFlags fImmMask then .invalidInstruction else
  -- (fixes/C13-12) enqcmd|enqcmds|movdir64b: both memory operands use the same base type, the destination segment is ES
  if R.enc == encEnqcmdMovdir64b &&
     (match given with
      | [.mem _ bt0 _ _ _ _ _ seg0 _, .mem _ bt1 _ _ _ _ _ _ _] => bt0 != bt1 || (seg0 != 0 && seg0 != sregIdEs)
      | _ => false) then .invalidInstruction else
  -- (fixes/C13-7) vp2intersectd|q write an aligned pair of mask registers
  let ePair : Err :=
    if R.enc == encPairK then
      match given with
      | .reg _ k0 :: .reg _ k1 :: _ =>
        if k0 < virtIdMin && k1 < virtIdMin && (k0 % 2 != 0 || k0 + 1 != k1) then .invalidPhysId else .ok
      | _ => .ok
    else .ok
  if ePair ≠ .ok then ePair else
  -- EVEX-only resources (fix C01-2): vector ids 16..31 and the evex option need an instruction with an EVEX form
  let eEvex : Err :=
    if !test iflags ifEvex && test iflags ifVex then
      if test options optEvex then .invalidInstruction
      else if given.any (fun o => match o with
          | .reg t id => 7 ≤ t && t ≤ 15 && id ≥ 16 && id < virtIdMin
          | .mem _ _ _ itype iid _ _ _ _ => itype > rtLabelTag && iid ≥ 16 && iid < virtIdMin && rtVec128 ≤ itype && itype ≤ rtVec512
          | _ => false) then .invalidPhysId
      else .ok
    else .ok
  if eEvex ≠ .ok then eEvex else
  -- AVX-512 options
  let memOp := lastMemBase given
  let e5 : Err :=
    if test options kAvx512Options then
      if test iflags ifEvex then
        if test options optZMask && !test avx avxZ then .invalidKZeroUse
        -- (fix C01-11) zeroing-masking is not defined for a memory destination
        else if test options optZMask && (match given with | .mem .. :: _ => true | _ => false) then .invalidKZeroUse
        else if test options (optSAE ||| optER) then
          if memOp.isSome then .invalidEROrSAE
          -- (fix C01-14 / fixes/C13-13) vcvtsi2sd|vcvtusi2sd: embedded rounding only with a 64-bit integer source
          else if R.enc == encCvtsi2sd && given.length == 3 &&
                  (match given.getD 2 .none with | .reg t _ => t == rtGp32 | _ => false) then .invalidEROrSAE
          -- (fixes/C13-13) vcmpsd|vcmpss: {sae} belongs to the EVEX form, whose destination is a mask register
          else if R.enc == encVcmpScalar && given.length ≥ 1 &&
                  (match given.getD 0 .none with | .reg t _ => t != rtMask | _ => true) then .invalidEROrSAE
          else if test options optER && !test avx avxER then .invalidEROrSAE
          else if !test options optER && !test avx avxSAE then .invalidEROrSAE
          else if test avx (avxB16 ||| avxB32 ||| avxB64) && !isZmmOrM512 (operands.getD 0 .none) && !isZmmOrM512 (operands.getD 1 .none)
            then .invalidEROrSAE
          else .ok
        else .ok
      else .invalidInstruction
    else .ok
  if e5 ≠ .ok then e5 else
  -- (fix C01-12) EVEX gather / scatter (VSIB, two operands) need a {k} mask register
  if test iflags ifVsib && test iflags ifEvex && given.length == 2 && inst.extra.isNone then .invalidKMaskUse else
  -- {extra} register
  match inst.extra with
  | none => .ok
  | some (et, eid) =>
    if test options kRepAny then
      if test iflags ifRepIgnored then .invalidExtraReg
      else if eid < virtIdMin && eid ≠ gpIdCx then .invalidExtraReg
      else match memOp with
        | some bt =>
          if et ≠ bt then .invalidExtraReg
          -- (fix C14-15) a virtual count register needs kEnableVirtRegs (never set here)
          else if eid ≥ virtIdMin then .illegalVirtReg else .ok
        | none => .invalidExtraReg
    else if test iflags ifEvex then
      if et ≠ rtMask then .invalidExtraReg
      else if eid = 0 || !test avx avxK then .invalidKMaskUse
      -- (fix C14-15) there are only 8 mask registers; a virtual one needs kEnableVirtRegs (never set here)
      else if eid < virtIdMin then (if eid > 7 then .invalidPhysId else .ok)
      else .illegalVirtReg
    else .invalidExtraReg

/-- `validate()` after `inst_info_by_id`: everything it does with the instruction's data `R`, stage by stage in the order of
    the C++ (each stage returns the first error it meets) -/
def validateR (R : ResolvedInst) (inst : Inst) (operands : List Operand) : Err :=
  let e12 := prefixStage R inst operands
  if e12 ≠ .ok then e12 else
  match sigStage R inst operands with
  | .error e => e.1
  | .ok (sigs, combinedFlags, _) =>
    let e4 := matchStage R inst.mode sigs
    if e4 ≠ .ok then e4 else tailStage R inst operands combinedFlags

def validate (T : SigTables) (inst : Inst) (operands : List Operand) : Err :=
  -- (fix C14-15) `Inst::kIdNone` has a row but is not an instruction
  if inst.id = 0 then .invalidInstruction else
  match resolve T inst.id with
  | none => .invalidInstruction       -- `!Inst::is_defined_id(inst_id)`
  | some R => validateR R inst operands

end AsmjitVerif.X86Validate
