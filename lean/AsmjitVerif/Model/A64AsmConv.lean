/-
Ninth wave of the hand model of `a64::Assembler::_emit`: SimdFcm, SimdFcvtLN, SimdFcvtSV, SimdFmov, FSimdPair, ISimdPair,
SimdBicOrr, ISimdVVVVx.  Follows /repo HEAD.  Core-only imports.
-/
import AsmjitVerif.Model.A64AsmPerm
namespace AsmjitVerif.A64Asm
open AsmjitVerif.A64
open AsmjitVerif.Gen.A64Tables

def hfB : Nat := 3
def hf0 : Nat := 1

def emitSimdFcmReg (d : SimdFcmRow) (flags : Nat) (o0 o1 o2 : Reg) : Result :=
  if d.has_register_op == 0 then invalidInstruction else
  if !(matchSignature2 o0 o1 flags && o1.sameSig o2) then invalidInstruction else
  match pickFpOpcode o0 d.register_scalar_op d.register_hf d.register_vector_op d.register_hf with
  | none => invalidInstruction
  | some op => tailRd0Rn5Rm16 op o0 o1 o2 0

def emitSimdFcmZero (d : SimdFcmRow) (o0 o1 : Reg) (imm : BitVec 64) (pred : Nat) : Result :=
  if d.has_zero_op == 0 then invalidInstruction else
  if !o0.sameSig o1 then invalidInstruction else
  if imm != 0 || pred != 0 then invalidImmediate else
  match pickFpOpcode o0 d.zero_scalar_op hfB d.zero_vector_op hfB with
  | none => invalidInstruction
  | some op => tailRd0Rn5 op o0 o1 0

def emitSimdFcvtLN (d : SimdFcvtLNRow) (flags : Nat) (o0 o1 : Reg) : Result :=
  if o0.rt == rtVec32 && o1.rt == rtVec64 then
    if d.has_scalar == 0 then invalidInstruction else
    if o0.et != 0 || o1.et != 0 then invalidInstruction else
    tailRd0Rn5 (w32 d.scalar_op ||| 0x400000#32) o0 o1 0
  else
    let rl := if flags &&& flagLong != 0 then o0 else o1
    let rn := if flags &&& flagLong != 0 then o1 else o0
    let q := u32sub rn.rt rtVec64
    if (d.vector_op >>> 30) % 2 != q then invalidInstruction else
    if rl.rt == rtVec128 && rl.et == 3 && rn.et == 2 && d.is_cvtxn == 0 then tailRd0Rn5 (w32 d.vector_op) o0 o1 0
    else if rl.rt == rtVec128 && rl.et == 4 && rn.et == 3 then tailRd0Rn5 (w32 d.vector_op ||| 0x400000#32) o0 o1 0
    else invalidInstruction

def emitSimdFcvtSV (d : SimdFcvtSVRow) (o0 o1 : Reg) : Result :=
  let opGp := if d.is_float_to_int != 0 then o0 else o1
  let opVec := if d.is_float_to_int != 0 then o1 else o0
  if opGp.isGp && opVec.isVec then
    let x := if opGp.isGp64 then 1 else 0
    let type := u32sub opVec.rt rtVec16
    if type > 2 || opVec.et != 0 then invalidInstruction else
    tailRd0Rn5 (w32 d.general_op ||| addImm (u32sub type 1 % 4) 22 ||| addImm x 31) o0 o1 0
  else if o0.isVec && o1.isVec then
    if !o0.sameSig o1 then invalidInstruction else
    match pickFpOpcode o0 d.scalar_int_op hfB d.vector_int_op hfB with
    | none => invalidInstruction
    | some op => tailRd0Rn5 op o0 o1 0
  else invalidInstruction

def emitSimdFcvtSVFixed (d : SimdFcvtSVRow) (o0 o1 : Reg) (imm : BitVec 64) : Result :=
  if d.is_fixed_point == 0 then invalidInstruction else
  if imm.toNat ≥ 64 || imm.toNat == 0 then invalidInstruction else
  let scale := imm.toNat
  let opGp := if d.is_float_to_int != 0 then o0 else o1
  let opVec := if d.is_float_to_int != 0 then o1 else o0
  if opGp.isGp && opVec.isVec then
    let x := if opGp.isGp64 then 1 else 0
    let type := u32sub opVec.rt rtVec16
    if type > 2 || opVec.et != 0 then invalidInstruction else
    if scale > 32 <<< x then invalidInstruction else
    tailRd0Rn5 ((w32 d.general_op ^^^ 0x200000#32) ||| addImm (u32sub type 1 % 4) 22 ||| addImm x 31 ||| addImm (64 - scale) 10) o0 o1 0
  else if o0.isVec && o1.isVec then
    if !o0.sameSig o1 then invalidInstruction else
    match pickFpOpcode o0 d.scalar_fp_op hf0 d.vector_fp_op hf0 with
    | none => invalidInstruction
    | some op =>
      let sz := pickFpSz o0
      if scale > 16 <<< sz then invalidInstruction else
      tailRd0Rn5 (op ||| addImm ((2 ^ 32 - scale) % 2 ^ (sz + 5)) 16) o0 o1 0
  else invalidInstruction

/-! ### kEncodingSimdFmov -/

def isVecD2 (r : Reg) : Bool := r.rt == rtVec128 && r.et == 4

def emitFmovRR (o0 o1 : Reg) : Result :=
  if o0.isGp && o1.isVec then
    let x := if o0.isGp64 then 1 else 0
    let sz := u32sub o1.rt rtVec16
    if o1.hasIdx then
      if x == 0 || !isVecD2 o1 || o1.idx != 1 then invalidInstruction else
      tailRd0Rn5 (0x1E260000#32 ||| addImm x 31 ||| addImm 2 22 ||| addImm 14 16) o0 o1 2
    else
      if sz > 2 || o1.et != 0 || (o1.rt == rtVec32 && x == 1) || (o1.rt == rtVec64 && x == 0) then invalidInstruction else
      tailRd0Rn5 (0x1E260000#32 ||| addImm x 31 ||| addImm (u32sub sz 1 % 4) 22 ||| addImm 6 16) o0 o1 0
  else if o0.isVec && o1.isGp then
    let x := if o1.isGp64 then 1 else 0
    let sz := u32sub o0.rt rtVec16
    if o0.hasIdx then
      if x == 0 || !isVecD2 o0 || o0.idx != 1 then invalidInstruction else
      tailRd0Rn5 (0x1E260000#32 ||| addImm x 31 ||| addImm 2 22 ||| addImm 15 16) o0 o1 1
    else
      if sz > 2 || o0.et != 0 || (o0.rt == rtVec32 && x == 1) || (o0.rt == rtVec64 && x == 0) then invalidInstruction else
      tailRd0Rn5 (0x1E260000#32 ||| addImm x 31 ||| addImm (u32sub sz 1 % 4) 22 ||| addImm 7 16) o0 o1 0
  else if o0.sameSig o1 then
    let sz := u32sub o0.rt rtVec16
    if sz > 2 || o0.et != 0 then invalidInstruction else
    tailRd0Rn5 (0x1E204000#32 ||| addImm (u32sub sz 1 % 4) 22) o0 o1 0
  else invalidInstruction

/-- `is_fp64_imm8` on the bit pattern -/
def isFp64Imm8 (bits : Nat) : Bool := bits % 2 ^ 48 == 0 && ((bits >>> 54) % 512 == 0x100 || (bits >>> 54) % 512 == 0xFF)
def encodeFp64Imm8 (bits : Nat) : Nat := let b := (bits >>> 48) % 2 ^ 32; ((b >>> 8) &&& 0x80) ||| (b &&& 0x7F)

def log2le (n : Nat) : Nat := if n ≥ 16 then 4 else if n ≥ 8 then 3 else if n ≥ 4 then 2 else if n ≥ 2 then 1 else 0

/-- the IEEE double of an `int32` immediate when it can be an FMOV immediate (1 ≤ |n| ≤ 31); all other integers are not -/
def int32AsFpImmBits (v : BitVec 64) : Option Nat :=
  let n := v.toInt
  if n < -2147483648 || n > 2147483647 then none else
  let m := n.natAbs
  if m == 0 || m > 31 then some 0 else       -- 0 = a pattern `isFp64Imm8` refuses
  let e := log2le m
  some ((if n < 0 then 2 ^ 63 else 0) + (1023 + e) * 2 ^ 52 + (m - 2 ^ e) * 2 ^ (52 - e))

/-- `bits?` = the double's bits, or `none` when the immediate is neither a double nor an int32 -/
def emitFmovImm (o0 : Reg) (bits? : Option Nat) : Result :=
  if !o0.isVec then invalidInstruction else
  match bits? with
  | none => invalidImmediate
  | some bits =>
    if !isFp64Imm8 bits then invalidImmediate else
    let imm8 := encodeFp64Imm8 bits
    if o0.et == 0 then
      let sz := u32sub o0.rt rtVec16
      if sz > 2 then invalidInstruction else
      tailRd0 (0x1E201000#32 ||| addImm (u32sub sz 1 % 4) 22 ||| addImm imm8 13) o0 (idxBit o0 0) 0
    else
      let q := u32sub o0.rt rtVec64
      let sz := u32sub o0.et 2
      if q > 1 || sz > 2 then invalidInstruction else
      let t : BitVec 32 := if sz == 0 then 0x800#32 else if sz == 1 then 0#32 else 0x20000000#32
      tailRd0 ((0x0F00F400#32 ^^^ t) ||| addImm q 30 ||| addImm (imm8 >>> 5) 16 ||| addImm (imm8 &&& 31) 5) o0 (idxBit o0 0) 0

/-! ### pairs -/

def emitFSimdPair2 (d : FSimdPairRow) (o0 o1 : Reg) : Result :=
  let sz := u32sub o0.rt rtVec16
  if sz > 2 || o0.et != 0 then invalidInstruction else
  -- signature of o1 = (Vec32 | H), (Vec64 | S), (Vec128 | D), no element index
  if !(o1.rt == rtVec32 + sz && o1.et == sz + 2 && !o1.hasIdx) || o0.hasIdx && false then invalidInstruction else
  let t : BitVec 32 := if sz == 0 then 0x20000000#32 else if sz == 1 then 0#32 else 0x400000#32
  tailRd0Rn5 (w32 d.scalar_op ^^^ t) o0 o1 0

def emitFSimdPair3 (d : FSimdPairRow) (o0 o1 o2 : Reg) : Result :=
  if !(o0.sameSig o1 && o1.sameSig o2) then invalidInstruction else
  let q := u32sub o0.rt rtVec64
  if q > 1 then invalidInstruction else
  let sz := u32sub o0.et 2
  if sz > 2 then invalidInstruction else
  let t : BitVec 32 := if sz == 0 then 0x60C000#32 else if sz == 1 then 0#32 else 0x400000#32
  tailRd0Rn5Rm16 ((w32 d.vector_op ^^^ t) ||| addImm q 30) o0 o1 o2 0

def emitISimdPair2 (d : ISimdPairRow) (o0 o1 : Reg) : Result :=
  if d.opcode2 != 0 && (o0.rt == rtVec64 && o0.et == 0) && isVecD2 o1 then
    tailRd0Rn5 ((w32 d.opcode2 <<< 10) ||| addImm 3 22) o0 o1 0
  else invalidInstruction

def emitISimdPair3 (d : ISimdPairRow) (flags : Nat) (o0 o1 o2 : Reg) : Result :=
  if !(matchSignature2 o0 o1 flags && o1.sameSig o2) then invalidInstruction else
  match sizeOpOf d.op_type3 o0 with
  | none => invalidInstruction
  | some so => tailRd0Rn5Rm16 ((w32 d.opcode3 <<< 10) ||| sizeBits so) o0 o1 o2 0

/-! ### kEncodingSimdBicOrr -/

def emitSimdBicOrrReg (d : SimdBicOrrRow) (flags : Nat) (o0 o1 o2 : Reg) : Result :=
  if !(matchSignature2 o0 o1 flags && o1.sameSig o2) then invalidInstruction else
  match sizeOpOf kVO_V_B o0 with
  | none => invalidInstruction
  | some so => tailRd0Rn5Rm16 ((w32 d.register_op <<< 10) ||| addImm (soQ so) 30) o0 o1 o2 0

def emitSimdBicOrrImm (d : SimdBicOrrRow) (o0 : Reg) (imm : BitVec 64) (sh : Option (BitVec 64 × Nat)) : Result :=
  match sizeOpOf kVO_V_HS o0 with
  | none => invalidInstruction
  | some so =>
    if imm.toNat > 0xFFFFFFFF then invalidImmediate else
    let v := imm.toNat
    let maxShift := (8 <<< soSize so) - 8
    let r : Option (Nat × Nat) :=
      match sh with
      | some (sv, sp) =>
        if sp != sopLSL then none else
        if v > 0xFF || sv.toNat > maxShift then none else
        if sv.toNat % 8 != 0 then none else some (v, sv.toNat)
      | none =>
        if v != 0 then
          let s := ctz32 v / 8 * 8
          if v >>> s > 0xFF || s > maxShift then none else some (v >>> s, s)
        else some (0, 0)
    match r with
    | none => invalidImmediate
    | some (v, shift) =>
      let cmode := (1 ||| ((shift / 8) <<< 1)) ||| (if soSize so == 1 then 8 else 0)
      tailRd0 ((w32 d.immediate_op <<< 10) ||| addImm (soQ so) 30 ||| addImm ((v >>> 5) &&& 7) 16 ||| addImm cmode 12 ||| addImm (v &&& 31) 5)
        o0 (idxBit o0 0) 0

def emitISimdVVVVx (d : ISimdVVVVxRow) (o0 o1 o2 o3 : Reg) : Result :=
  if regSignatureOf o0 != d.op0_signature || regSignatureOf o1 != d.op1_signature || regSignatureOf o2 != d.op2_signature ||
     regSignatureOf o3 != d.op3_signature then invalidInstruction else
  tailRd0Rn5Rm16Ra10 (w32 d.opcode <<< 10) o0 o1 o2 o3

def emitInst9 (r : InstRow) (rq : Request) : Result :=
  let o := rq.ops
  let enc := r.enc
  if rq.cc != 0 then notModelled
  else if enc == encSimdFcm then
    match simdFcm[r.idx]?, o with
    | some d, [.reg a, .reg b, .reg c] => emitSimdFcmReg d r.flags a b c
    | some d, [.reg a, .reg b, .imm v p] => emitSimdFcmZero d a b v p
    | some d, [.reg a, .reg b, .fimm v] => emitSimdFcmZero d a b v 0
    | _, _ => notModelled
  else if enc == encSimdFcvtLN then
    match simdFcvtLN[r.idx]?, o with
    | some d, [.reg a, .reg b] => emitSimdFcvtLN d r.flags a b
    | _, _ => notModelled
  else if enc == encSimdFcvtSV then
    match simdFcvtSV[r.idx]?, o with
    | some d, [.reg a, .reg b] => emitSimdFcvtSV d a b
    | some d, [.reg a, .reg b, .imm v _] => emitSimdFcvtSVFixed d a b v
    | _, _ => notModelled
  else if enc == encSimdFmov then
    match o with
    | [.reg a, .reg b] => emitFmovRR a b
    | [.reg a, .fimm v] => emitFmovImm a (some v.toNat)
    | [.reg a, .imm v _] => emitFmovImm a (int32AsFpImmBits v)
    | _ => notModelled
  else if enc == encFSimdPair then
    match fSimdPair[r.idx]?, o with
    | some d, [.reg a, .reg b] => emitFSimdPair2 d a b
    | some d, [.reg a, .reg b, .reg c] => emitFSimdPair3 d a b c
    | _, _ => notModelled
  else if enc == encISimdPair then
    match iSimdPair[r.idx]?, o with
    | some d, [.reg a, .reg b] => emitISimdPair2 d a b
    | some d, [.reg a, .reg b, .reg c] => emitISimdPair3 d r.flags a b c
    | _, _ => notModelled
  else if enc == encSimdBicOrr then
    match simdBicOrr[r.idx]?, o with
    | some d, [.reg a, .reg b, .reg c] => emitSimdBicOrrReg d r.flags a b c
    | some d, [.reg a, .imm v _] => emitSimdBicOrrImm d a v none
    | some d, [.reg a, .imm v _, .imm s p] => emitSimdBicOrrImm d a v (some (s, p))
    | _, _ => notModelled
  else if enc == encISimdVVVVx then
    match iSimdVVVVx[r.idx]?, o with
    | some d, [.reg a, .reg b, .reg c, .reg e] => emitISimdVVVVx d a b c e
    | _, _ => notModelled
  else notModelled

/-- all nine waves -/
def emitModel9 (rq : Request) : Result :=
  match emitModel8 rq with
  | .err "NotModelled" =>
    (match instTable[rq.inst]? with
     | some r => if rq.inst == 0 then notModelled else emitInst9 r { rq with ops := (rq.ops.reverse.dropWhile (· == .none)).reverse }
     | none => notModelled)
  | res => res

end AsmjitVerif.A64Asm

namespace AsmjitVerif.A64Asm
open AsmjitVerif.A64
open AsmjitVerif.Gen.A64Tables

/-- The whole hand model.  Every encoding class of `_emit` has a transcription now, so an operand shape that no class
pattern matches takes the `break` -> `InvalidInstruction` path of the switch.  A double immediate is an `Imm` whose value is
the bit pattern for every class but FMOV (the only reader of `is_double()`). -/
def emitTop (rq : Request) : Result :=
  match instTable[rq.inst]? with
  | none => emitModel9 rq
  | some r =>
    let rq' : Request := if r.enc == encSimdFmov || r.enc == encSimdFcm then rq else
      { rq with ops := rq.ops.map (fun o => match o with | .fimm b => .imm b 0 | o => o) }
    match emitModel9 rq' with
    | .err "NotModelled" => if rq.cc == 0 && rq.inst != 0 then invalidInstruction else notModelled
    | res => res

end AsmjitVerif.A64Asm
