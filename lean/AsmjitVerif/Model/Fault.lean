/-
C15 - allocation failure.  Model of the allocating operations of `CodeHolder` (asmjit/core/codeholder.cpp:
`new_section`, `new_label_id`, `new_named_label_id`, `new_reloc_entry`, `new_fixup` + pool release,
`ensure_address_table_section`/`add_address_to_address_table`, `grow_buffer` + `CodeHolder_reserve_internal`),
of the expression branch of `BaseAssembler::embed_label_delta` (asmjit/core/assembler.cpp), of
`ArenaVector<uint32_t>::append/reserve_additional` (support/arenavector.cpp) and of `String::append`
(core/string.cpp), written in the ORDER of the C++ statements: every allocation request (`Arena::_alloc_reusable`,
`Arena::alloc_oneshot`, `ArenaPool::alloc`, `malloc/realloc`) asks the fault oracle first - exactly where hook H1 /
the `--wrap` wrappers sit - and the mutations happen between the requests where the C++ performs them.

The arena itself is abstracted to "a request succeeds or fails" (its internals under failing `malloc` are C18's
`arena_safe`).  The state is split into the part a client can observe (`View`) and the allocation bookkeeping
(`Caps`: capacities, pooled records, hash-table growth state, buffer capacities).  Capacities follow the real growth
rules (`ArenaVector_expand_byte_size`, arena slot rounding, `String_grow_capacity`, `grow_buffer`), so that the NUMBER
of requests an operation makes is part of the correspondence with the real code.

`exprReloc` follows the REPAIRED `embed_label_delta` (fixes/C15-4.patch: the relocation entry is popped again when its
expression cannot be allocated).  Vector sizes are assumed to stay below 2^32 items (the `uint32_t` truncation of the
capacity is C18's subject).  Core-only imports.
-/
import AsmjitVerif.Model.Vector
import AsmjitVerif.Model.Str
import AsmjitVerif.Gen.HashPrimes
namespace AsmjitVerif.Fault
open AsmjitVerif

/-- Fault oracle: the failure flags of the successive allocation requests; once exhausted every request succeeds. -/
abbrev Oracle := List Bool

/-- one allocation request: (must fail, rest of the oracle) -/
def req : Oracle → Bool × Oracle
  | [] => (false, [])
  | b :: r => (b, r)

inductive Err where
  | ok | oom | invalidArgument | invalidSectionName | invalidLabelName | labelNameTooLong | invalidParentLabel
  | labelAlreadyDefined | invalidSection | invalidState
  deriving DecidableEq, Repr, Inhabited

structure Section where
  name : List Nat
  align : Nat
  order : Int
  /-- the bytes of the section buffer (`buffer().data()[0 .. size)`) -/
  data : List Nat := []
  vsize : Nat := 0
  deriving DecidableEq, Repr, Inhabited

/-- `buffer().size()` -/
def Section.size (s : Section) : Nat := s.data.length

structure Label where
  name : List Nat := []
  type : Nat := 0
  parent : Nat := 0xFFFFFFFF
  deriving DecidableEq, Repr, Inhabited

/-- what a client of the objects can observe -/
structure View where
  sections : List Section := [{ name := [46, 116, 101, 120, 116], align := 0, order := -2147483648 }]
  byOrder : List Nat := [0]
  labels : List Label := []
  /-- `_named_labels`: (name, parent, label id) -/
  named : List (List Nat × Nat × Nat) := []
  /-- `_relocations`: (type, payload is set) -/
  relocs : List (Nat × Bool) := []
  addrTab : Option Nat := none
  addrs : List Nat := []
  fixups : Nat := 0
  vec : List Nat := []
  str : List Nat := []
  deriving DecidableEq, Repr, Inhabited

/-- allocation bookkeeping, invisible to clients -/
structure Caps where
  secCap : Nat
  ordCap : Nat
  labCap : Nat := 0
  relCap : Nat := 0
  hashGrow : Nat := 1
  hashPrime : Nat := 0
  pool : Nat := 0
  bufCap : List Nat := [0]
  vecCap : Nat := 0
  strCap : Nat := 30
  deriving DecidableEq, Repr, Inhabited

structure St where
  v : View := {}
  c : Caps
  /-- set when an `append_unchecked` found `size = capacity` (would write behind the allocation) -/
  corrupt : Bool := false
  deriving DecidableEq, Repr, Inhabited

/-- the size `Arena::_alloc_reusable(size)` really hands out (slot rounding; dynamic blocks are exact) -/
def allocSize (size : Nat) : Nat :=
  if Arena.slotIndex size < Arena.kSlotCount then Arena.slotSize (Arena.slotIndex size) else size

/-- capacity after `ArenaVector_grow(n)` on a vector of `size` items of `item` bytes -/
def growCap (size n item : Nat) : Nat := allocSize (Vector.expandByteSize ((size + n) * item)) / item

/-- `reserve_additional(n)`: a request is made iff fewer than `n` items are free: (oracle, capacity, success) -/
def reserveAdd (o : Oracle) (size cap n item : Nat) : Oracle × Nat × Bool :=
  if cap - size < n then
    match req o with
    | (true, o1) => (o1, cap, false)
    | (false, o1) => (o1, growCap size n item, true)
  else (o, cap, true)

/-- state after `CodeHolder::init` (two `reserve_additional()` on empty vectors, `.text` appended) -/
def St.init : St := { c := { secCap := growCap 0 1 8, ordCap := growCap 0 1 8 } }

def kInvalidId : Nat := 0xFFFFFFFF

def isPow2 (n : Nat) : Bool := n != 0 && (n &&& (n - 1)) == 0

/-- `std::lower_bound` position in `_sections_by_order` for a new section `(order, id)` -/
def orderPos (secs : List Section) (byOrder : List Nat) (order : Int) (id : Nat) : Nat :=
  (byOrder.takeWhile fun j =>
    let oj := (secs.getD j default).order
    oj < order ∨ (oj = order ∧ j < id)).length

/-- the two `append_unchecked/insert_unchecked` of `new_section` on the view -/
def commitSection (v : View) (name : List Nat) (align : Nat) (order : Int) : View :=
  let id := v.sections.length
  { v with sections := v.sections ++ [{ name := name, align := if align = 0 then 1 else align, order := order }],
           byOrder := v.byOrder.insertIdx (orderPos v.sections v.byOrder order id) id }

/-- `CodeHolder::new_section(name, flags, alignment, order)` -/
def newSection (o : Oracle) (s : St) (name : List Nat) (align : Nat) (order : Int) : Oracle × St × Err :=
  if ¬ (align = 0 ∨ isPow2 align) then (o, s, .invalidArgument) else
  if name.length > 35 then (o, s, .invalidSectionName) else
  match reserveAdd o s.v.sections.length s.c.secCap 1 8 with
  | (o1, _, false) => (o1, s, .oom)
  | (o1, c1, true) =>
    let s1 := { s with c := { s.c with secCap := c1 } }
    match reserveAdd o1 s.v.byOrder.length s.c.ordCap 1 8 with
    | (o2, _, false) => (o2, s1, .oom)
    | (o2, c2, true) =>
      let s2 := { s1 with c := { s1.c with ordCap := c2 } }
      match req o2 with            -- `_arena.alloc_oneshot<Section>()`
      | (true, o3) => (o3, s2, .oom)
      | (false, o3) =>
        (o3, { v := commitSection s.v name align order, c := { s2.c with bufCap := s2.c.bufCap ++ [0] },
               corrupt := s.corrupt || s.v.sections.length ≥ c1 || s.v.byOrder.length ≥ c2 }, .ok)

/-- `CodeHolder::new_label_id()` -/
def newLabel (o : Oracle) (s : St) : Oracle × St × Err :=
  match reserveAdd o s.v.labels.length s.c.labCap 1 16 with
  | (o1, _, false) => (o1, s, .oom)
  | (o1, c1, true) =>
    (o1, { v := { s.v with labels := s.v.labels ++ [{}] }, c := { s.c with labCap := c1 },
           corrupt := s.corrupt || s.v.labels.length ≥ c1 }, .ok)

def primeCount : Nat := Gen.hashPrimes.length

/-- `ArenaHashBase::_insert` after the node is linked: the growth check and `_rehash` (a failed rehash is tolerated) -/
def hashInsert (o : Oracle) (c : Caps) (newSize : Nat) : Oracle × Caps :=
  if newSize > c.hashGrow then
    let pi := min (c.hashPrime + 2) (primeCount - 1)
    if pi > c.hashPrime then
      match req o with                -- `arena.alloc_reusable_zeroed(new_count * 8)`
      | (true, o1) => (o1, c)
      | (false, o1) => (o1, { c with hashGrow := (Gen.hashPrimes.getD pi (0, 0, 0, 0)).2.2.2, hashPrime := pi })
    else (o, c)
  else (o, c)

/-- label types: 0 anonymous, 1 local, 2 global, 3 external -/
def newNamed (o : Oracle) (s : St) (name : List Nat) (type parent : Nat) : Oracle × St × Err :=
  match reserveAdd o s.v.labels.length s.c.labCap 1 16 with
  | (o1, _, false) => (o1, s, .oom)
  | (o1, c1, true) =>
    let s1 := { s with c := { s.c with labCap := c1 } }
    let push (o' : Oracle) (cc : Caps) (l : Label) (nm : List (List Nat × Nat × Nat)) : Oracle × St × Err :=
      (o', { v := { s.v with labels := s.v.labels ++ [l], named := nm }, c := cc,
             corrupt := s.corrupt || s.v.labels.length ≥ c1 }, .ok)
    if name.length = 0 then
      if type ≠ 0 then (o1, s1, .invalidLabelName) else push o1 s1.c {} s.v.named
    else if name.length > 2048 then (o1, s1, .labelNameTooLong)
    else if type = 0 then
      if parent ≠ kInvalidId then (o1, s1, .invalidParentLabel) else
      match req o1 with             -- `alloc_oneshot<ExtraData>(aligned(extra + name + 1))`
      | (true, o2) => (o2, s1, .oom)
      | (false, o2) => push o2 s1.c { name := name, type := 0, parent := kInvalidId } s.v.named
    else if type > 3 then (o1, s1, .invalidArgument)
    else if type = 1 ∧ parent ≥ s.v.labels.length then (o1, s1, .invalidParentLabel)
    else if type ≠ 1 ∧ parent ≠ kInvalidId then (o1, s1, .invalidParentLabel)
    else if s.v.named.any (fun e => e.1 == name && e.2.1 == parent) then (o1, s1, .labelAlreadyDefined)
    else
      match req o1 with             -- `alloc_oneshot<NamedLabelExtraData>(...)`
      | (true, o2) => (o2, s1, .oom)
      | (false, o2) =>
        let nm := s.v.named ++ [(name, parent, s.v.labels.length)]
        let r := hashInsert o2 s1.c nm.length
        push r.1 r.2 { name := name, type := type, parent := parent } nm

/-- the capacity loop of `CodeHolder::grow_buffer` -/
def growLoop : Nat → Nat → Nat → Nat
  | 0, cap, _ => cap
  | fuel + 1, cap, required =>
    let cap' := cap + min cap (16 * 1024 * 1024)
    if cap' - 32 < required then growLoop fuel cap' required else cap'

def growBufferCap (size cap n : Nat) : Nat :=
  let c0 := if cap < 8160 then 8160 else cap + 32
  -- the C++ `do { } while` has no bound; `size + n` iterations always suffice (every iteration adds at least one byte)
  growLoop (size + n) c0 (size + n) - 32

/-- `CodeWriter::ensure_space(n)` -> `grow_buffer` -> `realloc/malloc`: (oracle, capacity, success) -/
def ensureSpace (o : Oracle) (size cap n : Nat) : Oracle × Nat × Bool :=
  if cap - size < n then
    match req o with
    | (true, o1) => (o1, cap, false)
    | (false, o1) => (o1, growBufferCap size cap n, true)
  else (o, cap, true)

/-- `CodeHolder::new_reloc_entry(type)` -/
def newReloc (o : Oracle) (s : St) (type : Nat) : Oracle × St × Err :=
  match reserveAdd o s.v.relocs.length s.c.relCap 1 8 with
  | (o1, _, false) => (o1, s, .oom)
  | (o1, c1, true) =>
    let s1 := { s with c := { s.c with relCap := c1 } }
    match req o1 with               -- `alloc_oneshot<RelocEntry>()`
    | (true, o2) => (o2, s1, .oom)
    | (false, o2) =>
      (o2, { v := { s.v with relocs := s.v.relocs ++ [(type, false)] }, c := s1.c,
             corrupt := s.corrupt || s.v.relocs.length ≥ c1 }, .ok)

/-- `embed_label_delta` after `new_reloc_entry` answered `r` -/
def exprTail (s : St) (sc : Section) (cap1 : Nat) (r : Oracle × St × Err) : Oracle × St × Err :=
  if r.2.2 ≠ .ok then r else
  match req r.1 with             -- `new_oneshot<Expression>()`
  | (true, o3) => (o3, { r.2.1 with v := s.v }, .oom)      -- `_relocations.pop()`
  | (false, o3) =>
    (o3, { r.2.1 with v := { s.v with relocs := s.v.relocs ++ [(1, true)],
                                      sections := s.v.sections.set 0 { sc with data := sc.data ++ [0, 0, 0, 0] } },
                      corrupt := r.2.1.corrupt || sc.size + 4 > cap1 }, .ok)

/-- the expression branch of `embed_label_delta(label, base, 4)` in `.text` (REPAIRED, fixes/C15-4.patch: when the
`Expression` cannot be allocated the relocation entry just created is popped again): `ensure_space(4)` (heap),
`new_reloc_entry` (arena x2), `new_oneshot<Expression>` (arena), then the payload is set and 4 zero bytes are written -/
def exprReloc (o : Oracle) (s : St) : Oracle × St × Err :=
  match s.v.sections[0]? with
  | none => (o, s, .invalidSection)
  | some sc =>
    match ensureSpace o sc.size (s.c.bufCap.getD 0 0) 4 with      -- `CodeWriter::ensure_space`
    | (o1, _, false) => (o1, s, .oom)
    | (o1, cap1, true) =>
      let s1 := { s with c := { s.c with bufCap := s.c.bufCap.set 0 cap1 } }
      exprTail s sc cap1 (newReloc o1 s1 1)

/-- `CodeHolder::new_fixup` (`ArenaPool::alloc`: a pooled record is reused without a request) -/
def newFixup (o : Oracle) (s : St) : Oracle × St × Err :=
  if s.c.pool > 0 then (o, { s with v := { s.v with fixups := s.v.fixups + 1 }, c := { s.c with pool := s.c.pool - 1 } }, .ok)
  else match req o with
    | (true, o1) => (o1, s, .oom)
    | (false, o1) => (o1, { s with v := { s.v with fixups := s.v.fixups + 1 } }, .ok)

/-- a fixup is resolved: `_fixup_data_pool.release` -/
def freeFixup (o : Oracle) (s : St) : Oracle × St × Err :=
  if s.v.fixups = 0 then (o, s, .invalidState)
  else (o, { s with v := { s.v with fixups := s.v.fixups - 1 }, c := { s.c with pool := s.c.pool + 1 } }, .ok)

/-- `ensure_address_table_section()` after `new_section` answered `r`: its error is dropped, the section pointer is set
only on success -/
def ensureTail (id : Nat) (r : Oracle × St × Err) : Oracle × St × Option Nat :=
  if r.2.2 = .ok then (r.1, { r.2.1 with v := { r.2.1.v with addrTab := some id } }, some id)
  else (r.1, r.2.1, none)

/-- `CodeHolder::ensure_address_table_section()` (64-bit target: alignment = register size 8) -/
def ensureAddrTab (o : Oracle) (s : St) : Oracle × St × Option Nat :=
  match s.v.addrTab with
  | some id => (o, s, some id)
  | none => ensureTail s.v.sections.length (newSection o s [46, 97, 100, 100, 114, 116, 97, 98] 8 2147483647)

/-- `add_address_to_address_table` after `ensure_address_table_section()` answered `r` (null = out of memory) -/
def addAddrTail (a : Nat) (r : Oracle × St × Option Nat) : Oracle × St × Err :=
  match r.2.2 with
  | none => (r.1, r.2.1, .oom)
  | some id =>
    match req r.1 with               -- `new_oneshot<AddressTableEntry>(address)`
    | (true, o2) => (o2, r.2.1, .oom)
    | (false, o2) =>
      let s1 := r.2.1
      (o2, { s1 with v := { s1.v with addrs := s1.v.addrs ++ [a],
                                      sections := s1.v.sections.modify id fun sec => { sec with vsize := sec.vsize + 8 } } }, .ok)

/-- `CodeHolder::add_address_to_address_table(address)` -/
def addAddr (o : Oracle) (s : St) (a : Nat) : Oracle × St × Err :=
  if s.v.addrs.contains a then (o, s, .ok) else addAddrTail a (ensureAddrTab o s)

/-- `embed(data, n)` into section `sec`: `CodeWriter::ensure_space` -> `grow_buffer` -> `realloc/malloc`, then the bytes -/
def emit (o : Oracle) (s : St) (sec n : Nat) : Oracle × St × Err :=
  match s.v.sections[sec]? with
  | none => (o, s, .invalidSection)
  | some sc =>
    match ensureSpace o sc.size (s.c.bufCap.getD sec 0) n with
    | (o1, _, false) => (o1, s, .oom)
    | (o1, cap', true) =>
      (o1, { s with v := { s.v with sections := s.v.sections.set sec { sc with data := sc.data ++ List.replicate n 0x90 } },
                    c := { s.c with bufCap := s.c.bufCap.set sec cap' },
                    corrupt := s.corrupt || sc.size + n > cap' }, .ok)

/-- the four plain x86 instructions the harness emits: `nop`, `mov eax, 0x11223344`, `ret`, `add rax, rcx` -/
def instBytes : Nat → List Nat
  | 0 => [0x90]
  | 1 => [0xB8, 0x44, 0x33, 0x22, 0x11]
  | 2 => [0xC3]
  | _ => [0x48, 0x01, 0xC8]

/-- `x86::Assembler::_emit` of a plain instruction into section `sec`: `writer.ensure_space(this, 16)` (-> `grow_buffer` ->
`realloc/malloc`) first, then the encoded bytes, `writer.done()` -/
def inst (o : Oracle) (s : St) (sec k : Nat) : Oracle × St × Err :=
  match s.v.sections[sec]? with
  | none => (o, s, .invalidSection)
  | some sc =>
    match ensureSpace o sc.size (s.c.bufCap.getD sec 0) 16 with
    | (o1, _, false) => (o1, s, .oom)
    | (o1, cap', true) =>
      (o1, { s with v := { s.v with sections := s.v.sections.set sec { sc with data := sc.data ++ instBytes k } },
                    c := { s.c with bufCap := s.c.bufCap.set sec cap' },
                    corrupt := s.corrupt || sc.size + (instBytes k).length > cap' }, .ok)

/-- `x86::Assembler::_emit` of `jmp L` with `L` not bound yet: `ensure_space(16)`, then at `EmitRel` `new_fixup` (a pooled
record or one arena request; on failure nothing has been committed), then `E9 00 00 00 00` -/
def jmpf (o : Oracle) (s : St) (sec : Nat) : Oracle × St × Err :=
  match s.v.sections[sec]? with
  | none => (o, s, .invalidSection)
  | some sc =>
    match ensureSpace o sc.size (s.c.bufCap.getD sec 0) 16 with
    | (o1, _, false) => (o1, s, .oom)
    | (o1, cap', true) =>
      let s1 := { s with c := { s.c with bufCap := s.c.bufCap.set sec cap' } }
      let fin (o' : Oracle) (pool' : Nat) : Oracle × St × Err :=
        (o', { s1 with v := { s.v with sections := s.v.sections.set sec { sc with data := sc.data ++ [0xE9, 0, 0, 0, 0] },
                                       fixups := s.v.fixups + 1 },
                       c := { s1.c with pool := pool' },
                       corrupt := s.corrupt || sc.size + 5 > cap' }, .ok)
      if s.c.pool > 0 then fin o1 (s.c.pool - 1)
      else match req o1 with
        | (true, o2) => (o2, s1, .oom)
        | (false, o2) => fin o2 s.c.pool

/-- `ArenaVector<uint32_t>::append(arena, x)` -/
def vappend (o : Oracle) (s : St) (x : Nat) : Oracle × St × Err :=
  match reserveAdd o s.v.vec.length s.c.vecCap 1 4 with
  | (o1, _, false) => (o1, s, .oom)
  | (o1, c1, true) =>
    (o1, { v := { s.v with vec := s.v.vec ++ [x] }, c := { s.c with vecCap := c1 },
           corrupt := s.corrupt || s.v.vec.length ≥ c1 }, .ok)

/-- `ArenaVector<uint32_t>::reserve_additional(arena, n)` -/
def vreserve (o : Oracle) (s : St) (n : Nat) : Oracle × St × Err :=
  match reserveAdd o s.v.vec.length s.c.vecCap n 4 with
  | (o1, _, false) => (o1, s, .oom)
  | (o1, c1, true) => (o1, { s with c := { s.c with vecCap := c1 } }, .ok)

/-- `String::prepare(kAppend, n)`: `malloc` iff the new size exceeds the capacity: (oracle, capacity, success) -/
def strReserve (o : Oracle) (size cap n : Nat) : Oracle × Nat × Bool :=
  if size + n > cap then
    match req o with
    | (true, o1) => (o1, cap, false)
    | (false, o1) => (o1, Str.growCapacity (n + 1) (size + n + 1) - 1, true)
  else (o, cap, true)

/-- `String::append_chars(c, n)` -/
def sappend (o : Oracle) (s : St) (n ch : Nat) : Oracle × St × Err :=
  if n = 0 then (o, s, .ok) else
  match strReserve o s.v.str.length s.c.strCap n with
  | (o1, _, false) => (o1, s, .oom)
  | (o1, cap', true) =>
    (o1, { s with v := { s.v with str := s.v.str ++ List.replicate n ch }, c := { s.c with strCap := cap' },
                  corrupt := s.corrupt || s.v.str.length + n > cap' }, .ok)

inductive Op where
  | newSection (name : List Nat) (align : Nat) (order : Int)
  | newLabel
  | newNamed (name : List Nat) (type parent : Nat)
  | newReloc (type : Nat)
  | exprReloc
  | newFixup
  | freeFixup
  | addAddr (a : Nat)
  | emit (sec n : Nat)
  | inst (sec k : Nat)
  | jmpf (sec : Nat)
  | vappend (x : Nat)
  | vreserve (n : Nat)
  | sappend (n ch : Nat)
  deriving DecidableEq, Repr, Inhabited

def step (op : Op) (o : Oracle) (s : St) : Oracle × St × Err :=
  match op with
  | .newSection name align order => newSection o s name align order
  | .newLabel => newLabel o s
  | .newNamed name type parent => newNamed o s name type parent
  | .newReloc t => newReloc o s t
  | .exprReloc => exprReloc o s
  | .newFixup => newFixup o s
  | .freeFixup => freeFixup o s
  | .addAddr a => addAddr o s a
  | .emit sec n => emit o s sec n
  | .inst sec k => inst o s sec k
  | .jmpf sec => jmpf o s sec
  | .vappend x => vappend o s x
  | .vreserve n => vreserve o s n
  | .sappend n ch => sappend o s n ch

/-- The caller's protocol the property speaks of: an operation answered out-of-memory is repeated (the oracle goes
on - memory may fail again) until it is answered otherwise; `fuel` bounds the repetitions. -/
def retry : Nat → Op → Oracle → St → Oracle × St × Err
  | 0, op, o, s => step op o s
  | fuel + 1, op, o, s =>
    match step op o s with
    | (o1, s1, .oom) => retry fuel op o1 s1
    | r => r

/-- a whole history under the retry protocol; returns the final state and the answers -/
def runRetry : List Op → Oracle → St → St × List Err
  | [], _, s => (s, [])
  | op :: rest, o, s =>
    match retry o.length op o s with
    | (o1, s1, e) => let (s2, es) := runRetry rest o1 s1; (s2, e :: es)

/-- a history where failed operations are simply skipped by the caller (no retry) -/
def run : List Op → Oracle → St → St × List Err
  | [], _, s => (s, [])
  | op :: rest, o, s =>
    match step op o s with
    | (o1, s1, e) => let (s2, es) := run rest o1 s1; (s2, e :: es)

end AsmjitVerif.Fault
