/-
C11 (c): a tiny model of threads running operations of the shape
    pre-phase  (reads immutable configuration only; no lock)      e.g. `align_up(size, impl->granularity)`
    critical section (the rest, under the allocator's one lock)
and of the sequential machine that executes the same operations atomically.  Core-only.
-/
namespace AsmjitVerif.Linearise

structure Machine (σ Cfg Op A Out : Type) where
  pre  : Cfg → Op → A            -- lock-free prefix: a function of the immutable configuration and the arguments
  crit : σ → A → σ × Out         -- critical section: an atomic transformer of the shared state

/-- a thread: the operations still to run and, if its pre-phase is done, the pending critical section -/
structure Thread (Op A : Type) where
  todo : List Op
  pending : Option A

/-- trace entry: which thread completed which operation with which result -/
structure Done (Op Out : Type) where
  tid : Nat
  op : Op
  out : Out

variable {σ Cfg Op A Out : Type}

/-- one scheduling decision: thread `t` makes one step (pre-phase or critical section); a finished thread idles -/
def stepThread (m : Machine σ Cfg Op A Out) (cfg : Cfg) (s : σ) (ths : List (Thread Op A)) (t : Nat) :
    σ × List (Thread Op A) × Option (Done Op Out) :=
  match ths[t]? with
  | none => (s, ths, none)
  | some th =>
    match th.pending, th.todo with
    | none, [] => (s, ths, none)
    | none, op :: _ => (s, ths.set t { th with pending := some (m.pre cfg op) }, none)
    | some _, [] => (s, ths, none)      -- unreachable: pending implies a current op
    | some a, op :: rest =>
      let r := m.crit s a
      (r.1, ths.set t { todo := rest, pending := none }, some { tid := t, op := op, out := r.2 })

/-- run a whole schedule (a list of thread indices); returns final state, threads and the completion trace -/
def runSched (m : Machine σ Cfg Op A Out) (cfg : Cfg) (s : σ) (ths : List (Thread Op A)) :
    List Nat → σ × List (Thread Op A) × List (Done Op Out)
  | [] => (s, ths, [])
  | t :: sched =>
    let r := stepThread m cfg s ths t
    let r' := runSched m cfg r.1 r.2.1 sched
    (r'.1, r'.2.1, match r.2.2 with | some d => d :: r'.2.2 | none => r'.2.2)

/-- the sequential machine: operations executed atomically one after the other -/
def runSeq (m : Machine σ Cfg Op A Out) (cfg : Cfg) (s : σ) : List (Nat × Op) → σ × List (Done Op Out)
  | [] => (s, [])
  | (t, op) :: rest =>
    let r := m.crit s (m.pre cfg op)
    let r' := runSeq m cfg r.1 rest
    (r'.1, { tid := t, op := op, out := r.2 } :: r'.2)

/-- pending critical sections always belong to the current operation with the pre-phase result computed from it -/
def WellFormed (m : Machine σ Cfg Op A Out) (cfg : Cfg) (ths : List (Thread Op A)) : Prop :=
  ∀ th ∈ ths, ∀ a, th.pending = some a → ∃ op rest, th.todo = op :: rest ∧ a = m.pre cfg op

end AsmjitVerif.Linearise
