/-
  Model of the argument shuffle (C06 part 2), written after

    asmjit/core/funcargscontext_p.h     get_suitable_reg_for_mem_to_mem_move, FuncArgsContext::Var, WorkData
    asmjit/core/funcargscontext.cpp     FuncArgsContext::init_work_data
    asmjit/core/emithelper.cpp          BaseEmitHelper::emit_args_assignment (three phases)
    asmjit/core/raconstraints_p.h       RAConstraints::init
    asmjit/x86/x86emithelper.cpp        EmitHelper::emit_arg_move, emit_reg_move (store form), emit_reg_swap
    asmjit/arm/a64emithelper.cpp        EmitHelper::emit_arg_move, emit_reg_move (store form), emit_reg_swap

  The FuncFrame is an *input* (what `emit_args_assignment` reads of it: preserved-FP flag, dynamic alignment, dirty and preserved
  masks, SA register and offsets, AVX flags); its computation belongs to C07.  Abstractions, all of them sync-trivial:
  `WorkData::_assigned_regs` is the set of ids with `_phys_to_var_id[id] != kVarIdNone` (the C++ updates both together in
  assign/unassign/reassign/swap); `Support::ctz(mask)` is "least id in the set".  Core-only imports.
-/
import AsmjitVerif.Model.CallConv
namespace AsmjitVerif.Shuffle
open AsmjitVerif.CallConv

/-! ### instructions as the Builder receives them -/
inductive Opnd
  | reg (rtype id : Nat)
  | mem (base : Nat) (off : Int) (size : Nat)
  deriving DecidableEq, Repr

/-- mnemonics emitted by the helpers (`vex`: the AVX spelling `v...` of an SSE mnemonic) -/
inductive Mn
  | mov | movzx | movsx | movsxd | xchg | movd | movq | movss | movsd | movaps | movups | movapd | movdqa | vmovdqa32 | kmovb | kmovw | kmovd | kmovq | movq2dq | movdq2q | cvtss2sd | cvtsd2ss | cvtps2pd | cvtpd2ps | ldr | ldrb | ldrh | ldrsb | ldrsh | ldrsw | str | strb | strh | fmov | sxtb | sxth | sxtw | uxtb | uxth | fcvt
  deriving DecidableEq, Repr

structure Inst where
  name : Mn
  vex : Bool := false
  ops : List Opnd
  deriving DecidableEq, Repr

def Mn.text : Mn → String
  | .mov => "mov"
  | .movzx => "movzx"
  | .movsx => "movsx"
  | .movsxd => "movsxd"
  | .xchg => "xchg"
  | .movd => "movd"
  | .movq => "movq"
  | .movss => "movss"
  | .movsd => "movsd"
  | .movaps => "movaps"
  | .movups => "movups"
  | .movapd => "movapd"
  | .movdqa => "movdqa"
  | .vmovdqa32 => "vmovdqa32"
  | .kmovb => "kmovb"
  | .kmovw => "kmovw"
  | .kmovd => "kmovd"
  | .kmovq => "kmovq"
  | .movq2dq => "movq2dq"
  | .movdq2q => "movdq2q"
  | .cvtss2sd => "cvtss2sd"
  | .cvtsd2ss => "cvtsd2ss"
  | .cvtps2pd => "cvtps2pd"
  | .cvtpd2ps => "cvtpd2ps"
  | .ldr => "ldr"
  | .ldrb => "ldrb"
  | .ldrh => "ldrh"
  | .ldrsb => "ldrsb"
  | .ldrsh => "ldrsh"
  | .ldrsw => "ldrsw"
  | .str => "str"
  | .strb => "strb"
  | .strh => "strh"
  | .fmov => "fmov"
  | .sxtb => "sxtb"
  | .sxth => "sxth"
  | .sxtw => "sxtw"
  | .uxtb => "uxtb"
  | .uxth => "uxth"
  | .fcvt => "fcvt"

def Inst.text (i : Inst) : String := (if i.vex then "v" else "") ++ i.name.text

/-- `RegUtils::group_of` (operand.h RegTraits); 15 = a group above `RegGroup::kMaxVirt` -/
def groupOf (rt : Nat) : Nat :=
  if 2 ≤ rt && rt ≤ 6 then 0 else if 7 ≤ rt && rt ≤ 15 then 1 else if rt = 16 then 2 else if rt = 28 then 3 else 15

/-- register size of a RegType (RegTraits kSize) -/
def regBytes (rt : Nat) : Nat :=
  if rt = 2 || rt = 3 then 1 else if rt = 4 then 2 else if rt = 5 then 4 else if rt = 6 then 8
  else if rt = 7 then 1 else if rt = 8 then 2 else if rt = 9 then 4 else if rt = 10 then 8 else if rt = 11 then 16
  else if rt = 12 then 32 else if rt = 13 then 64 else if rt = 28 then 8 else if rt = 29 then 10 else if rt = 30 then 16
  else if rt = 25 then 2 else if rt = 31 then 8 else 0

/-- `RegUtils::type_id_of` -/
def typeIdOfReg (rt : Nat) : Nat :=
  if rt = 2 || rt = 3 then 34 else if rt = 4 then 36 else if rt = 5 then 38 else if rt = 6 then 40 else if rt = 9 then 55
  else if rt = 10 then 65 else if rt = 11 then 75 else if rt = 12 then 85 else if rt = 13 then 95 else if rt = 28 then 50
  else if rt = 29 then 44 else if rt = 31 then 40 else 0

/-- `ArchTraits::has_reg_type` -/
def hasRegType (a : Arch) (rt : Nat) : Bool :=
  match a with
  | .a64 => rt = 5 || rt = 6 || (7 ≤ rt && rt ≤ 11) || rt = 16
  | .x86 => (2 ≤ rt && rt ≤ 6) || (11 ≤ rt && rt ≤ 13) || rt = 16 || (25 ≤ rt && rt ≤ 31)
  | .x64 => (2 ≤ rt && rt ≤ 6) || (11 ≤ rt && rt ≤ 13) || rt = 16 || rt = 17 || (25 ≤ rt && rt ≤ 31)

/-- `ArchTraits::has_inst_reg_swap` -/
def hasSwap (a : Arch) (g : Nat) : Bool := a ≠ .a64 && g = 0

def spId (a : Arch) : Nat := if a = .a64 then 31 else 4
def fpId (a : Arch) : Nat := if a = .a64 then 29 else 5
def regSizeOf (a : Arch) : Nat := if a = .x86 then 4 else 8

/-- `TypeUtils::scalar_of` (type.cpp) -/
def scalarOf (t : Nat) : Nat :=
  if isBetween t 32 44 then t else if t = 45 then 35 else if t = 46 then 37 else if t = 47 then 39 else if t = 48 then 41
  else if t = 49 then 39 else if t = 50 then 41
  else if isVec32 t then t - 51 + 34 else if isVec64 t then t - 61 + 34 else if isVec128 t then t - 71 + 34
  else if isVec256 t then t - 81 + 34 else if isVec512 t then t - 91 + 34 else 0

/-- `reg_size_to_gp_signature_table` (x86emithelper.cpp): size → GP RegType, 0 = invalid signature -/
def gpRtOfSize (n : Nat) : Nat := if n = 1 then 2 else if n = 2 then 4 else if n = 4 then 5 else if n = 8 then 6 else 0
/-- `RegUtils::signature_of_vec_by_size` (after fix C06-6) -/
def vecRtBySize (n : Nat) : Nat := if n ≤ 16 then 11 else if n ≤ 32 then 12 else 13

def Opnd.isMem : Opnd → Bool | .mem .. => true | _ => false
def Opnd.isReg : Opnd → Bool | .reg .. => true | _ => false
def Opnd.isGroup (o : Opnd) (g : Nat) : Bool := match o with | .reg rt _ => groupOf rt = g | _ => false
def Opnd.withRt (o : Opnd) (rt : Nat) : Opnd := match o with | .reg _ id => .reg rt id | m => m
def Opnd.withSize (o : Opnd) (n : Nat) : Opnd := match o with | .mem b off _ => .mem b off n | r => r

structure Cfg where
  arch : Arch
  avx : Bool := false        -- EmitHelper::_avx_enabled (= avx || avx512)
  avx512 : Bool := false
  stackAlign : Nat := 16     -- emitter->environment().stack_alignment()
  deriving Repr

def v (c : Cfg) (n : Mn) : Mn × Bool := (n, c.avx)
def p (n : Mn) : Mn × Bool := (n, false)

def kmovOfSize (n : Nat) : Option (Mn × Bool) :=
  if n = 1 then some (p .kmovb) else if n = 2 then some (p .kmovw) else if n = 4 then some (p .kmovd) else if n = 8 then some (p .kmovq) else none

def isSignCast (dt st : Nat) : Bool :=
  (dt = 36 && st = 34) || (dt = 38 && st = 34) || (dt = 40 && st = 34) || (dt = 38 && st = 36) || (dt = 40 && st = 36) || (dt = 40 && st = 38)

/-- what `emit_arg_move` looks at of its source operand -/
inductive SrcKind
  | mem
  | reg (rt : Nat)
  deriving DecidableEq, Repr

def SrcKind.isMem : SrcKind → Bool | .mem => true | _ => false
def SrcKind.isReg : SrcKind → Bool | .reg _ => true | _ => false
def SrcKind.isGroup (k : SrcKind) (g : Nat) : Bool := match k with | .reg rt => groupOf rt = g | _ => false
def Opnd.kind : Opnd → SrcKind | .mem .. => .mem | .reg rt _ => .reg rt

/-- the instruction `emit_arg_move` selects, without the register ids / address: mnemonic, destination register type, the register
    type the source register is re-viewed as (if any), and the memory operand size -/
structure MoveSel where
  name : Mn
  vex : Bool
  dstRt : Nat
  srcRt : Option Nat
  memSize : Nat
  deriving DecidableEq, Repr

def MoveSel.apply (m : MoveSel) (dstId : Nat) (src : Opnd) : Inst :=
  ⟨m.name, m.vex, [.reg m.dstRt dstId, ((match m.srcRt with | some r => src.withRt r | none => src).withSize m.memSize)]⟩

/-- x86 `EmitHelper::emit_arg_move`, the selection (independent of register ids and of the address); `none` = `kInvalidState`.
    The final `if (src.is_mem()) set_size(src_size)` is the `memSize` field. -/
def x86Sel (c : Cfg) (dstRt dt : Nat) (src : SrcKind) (st : Nat) : Option MoveSel :=
  let dt := if dt = 0 then typeIdOfReg dstRt else dt
  let dsz := tySize dt
  let ssz := tySize st
  let fin (name : Mn × Bool) (drt : Nat) (s : Option Nat) (msz : Nat) : Option MoveSel := some ⟨name.1, name.2, drt, s, msz⟩
  -- the chain of `if`s of the pseudo loop; each returns `some` on `break`, falls to the next otherwise
  let intPart : Option (Option MoveSel) :=
    if isInt dt then
      if isInt st && isSignCast dt st then
        some (fin (p (if dt = 40 && st = 38 then .movsxd else .movsx)) (gpRtOfSize dsz) (some (gpRtOfSize ssz)) ssz)
      else if isInt st || src.isMem then
        let movSize := min ssz dsz
        let dsz' := if movSize ≤ 4 then 4 else dsz
        let ssz' := min ssz movSize
        some (fin (p (if movSize < 4 then .movzx else .mov)) (gpRtOfSize dsz') (some (gpRtOfSize ssz')) ssz')
      else
        let ssz' := min ssz dsz
        if isMmx st then some (if ssz' = 8 then fin (p .movq) dstRt none ssz' else fin (p .movd) 5 none ssz')
        else if isMask st then
          some (match kmovOfSize ssz' with
                | some n => fin n (if ssz' ≤ 4 then 5 else 6) none ssz'
                | none => none)
        else if isVec st then some (if ssz' = 8 then fin (v c .movq) dstRt none ssz' else fin (v c .movd) 5 none ssz')
        else none
    else none
  match intPart with
  | some r => r
  | none =>
  let mmxPart : Option (Option MoveSel) :=
    if isMmx dt then
      let ssz' := min ssz dsz
      if isInt st || src.isMem then some (if ssz' = 8 then fin (p .movq) dstRt none ssz' else fin (p .movd) dstRt (some 5) ssz')
      else if isMmx st then some (fin (p .movq) dstRt none ssz')
      else if isVec st then some (fin (p .movdq2q) dstRt none ssz')
      else none
    else none
  match mmxPart with
  | some r => r
  | none =>
  let ssz1 := if isMmx dt then min ssz dsz else ssz     -- `src_size` as left by the mmx block
  let maskPart : Option (Option MoveSel) :=
    if isMask dt then
      let ssz' := min ssz1 dsz
      if isInt st || isMask st || src.isMem then
        some (match kmovOfSize ssz' with
              | some n => fin n dstRt (if src.isGroup 0 && ssz' ≤ 4 then some 5 else none) ssz'
              | none => none)
      else none
    else none
  match maskPart with
  | some r => r
  | none =>
  let ssz2 := if isMask dt then min ssz1 dsz else ssz1
  if isVec dt then
    if src.isGroup 3 then fin (p .movq2dq) 11 none ssz2
    else
      let dsc := scalarOf dt
      let ssc := scalarOf st
      if dsc = tFloat32 && ssc = tFloat64 then
        let ssz' := min (dsz * 2) ssz2
        let dsz' := ssz' / 2
        fin (v c (if ssz' ≤ 8 then .cvtsd2ss else .cvtpd2ps)) (if dsz' = 32 then 12 else 11)
            (some (vecRtBySize ssz')) ssz'
      else if dsc = tFloat64 && ssc = tFloat32 then
        let ssz' := min dsz (ssz2 * 2) / 2
        let dsz' := ssz' * 2
        fin (v c (if ssz' ≤ 4 then .cvtss2sd else .cvtps2pd)) (vecRtBySize dsz')
            (if ssz' ≥ 32 then some 12 else none) ssz'
      else
        let ssz' := min ssz2 dsz
        if (src.isGroup 0 || src.isMem) && ssz' ≤ 4 then fin (v c .movd) 11 (some 5) ssz'
        else if (src.isGroup 0 || src.isMem) && ssz' = 8 then fin (v c .movq) 11 none ssz'
        else if src.isGroup 1 || src.isMem then
          let aligned := !(src.isMem && ssz' < c.stackAlign)
          fin (v c (if aligned then .movaps else .movups)) (vecRtBySize ssz') (some (vecRtBySize ssz')) ssz'
        else none
  else none

/-- x86 `EmitHelper::emit_arg_move` -/
def x86ArgMove (c : Cfg) (dstRt dstId dt : Nat) (src : Opnd) (st : Nat) : Option Inst :=
  (x86Sel c dstRt dt src.kind st).map fun m => m.apply dstId src

/-- x86 `EmitHelper::emit_reg_move`, store form (dst memory, src register): the memory takes the register's size -/
def x86Store (c : Cfg) (base : Nat) (off : Int) (srcRt srcId : Nat) (t : Nat) : Option Inst :=
  let msz := regBytes srcRt
  let fin (name : Mn × Bool) (n : Nat) : Option Inst := some ⟨name.1, name.2, [.mem base off n, .reg srcRt srcId]⟩
  if isBetween t 34 41 then fin (p .mov) msz
  else if t = 49 then fin (p .movd) msz
  else if t = 50 then fin (p .movq) msz
  else if t = 45 then fin (p .kmovb) msz else if t = 46 then fin (p .kmovw) msz else if t = 47 then fin (p .kmovd) msz
  else if t = 48 then fin (p .kmovq) msz
  else
    let sc := scalarOf t
    if isVec32 t then fin (v c (if sc = tFloat32 then .movss else .movd)) 4
    else if isVec64 t then fin (v c (if sc = tFloat64 then .movsd else .movq)) 8
    else if sc = tFloat32 then fin (v c .movaps) msz
    else if sc = tFloat64 then fin (v c .movapd) msz
    else if !c.avx512 then fin (v c .movdqa) msz
    else fin (p .vmovdqa32) msz

/-- a64 `EmitHelper::emit_arg_move`, the selection (independent of register ids and of the address; with fix C06-13: integer
    moves and loads extend as x86 does – sign extension when both types are signed, zero extension otherwise – and scalar
    float <-> double is `fcvt`); `none` = `kInvalidState` -/
def a64Sel (dstRt dt : Nat) (src : SrcKind) (st : Nat) : Option MoveSel :=
  let dt := if dt = 0 then typeIdOfReg dstRt else dt
  let dsz := tySize dt
  let ssz := tySize st
  let intPart : Option (Option MoveSel) :=
    if isInt dt && isInt st then
      let x := dsz = 8
      let drt := if x then 6 else 5
      let widen := dsz > ssz
      let srcSigned := st % 2 = 0
      let signExt := if widen then (srcSigned && dt % 2 = 0) else srcSigned
      if src.isReg then
        if !widen then some (some ⟨.mov, false, drt, some drt, 0⟩)
        else
          let name : Option Mn :=
            if ssz = 1 then some (if signExt then .sxtb else .uxtb) else if ssz = 2 then some (if signExt then .sxth else .uxth)
            else if ssz = 4 then some (if signExt then .sxtw else .mov) else none
          some (name.map fun n => ⟨n, false, if signExt then drt else 5, some 5, 0⟩)
      else if src.isMem then
        let name : Option Mn :=
          if ssz = 1 then some (if signExt then .ldrsb else .ldrb) else if ssz = 2 then some (if signExt then .ldrsh else .ldrh)
          else if ssz = 4 then some (if x && signExt then .ldrsw else .ldr) else if ssz = 8 then some .ldr else none
        let drt' := if ssz < 8 && !(signExt && (x || ssz < 4)) then 5 else drt
        some (name.map fun n => ⟨n, false, drt', none, 0⟩)
      else none
    else none
  match intPart with
  | some r => r
  | none =>
    if (isFloat dt || isVec dt) && (isFloat st || isVec st) then
      let dsc := scalarOf dt
      let ssc := scalarOf st
      if (dsc = tFloat32 && ssc = tFloat64) || (dsc = tFloat64 && ssc = tFloat32) then
        let toDouble := dsc = tFloat64
        if !src.isReg || ssz ≠ (if toDouble then 4 else 8) then none
        else some ⟨.fcvt, false, if toDouble then 10 else 9, some (if toDouble then 9 else 10), 0⟩
      else
      let drt := if ssz = 2 then 8 else if ssz = 4 then 9 else if ssz = 8 then 10 else if ssz = 16 then 11 else 0
      if drt = 0 then none
      else if src.isReg then some ⟨if ssz ≤ 4 then .fmov else .mov, false, drt, some drt, 0⟩
      else if src.isMem then some ⟨.ldr, false, drt, none, 0⟩
      else none
    else none

/-- a64 `EmitHelper::emit_arg_move` (memory operands carry no size on this target) -/
def a64ArgMove (dstRt dstId dt : Nat) (src : Opnd) (st : Nat) : Option Inst :=
  (a64Sel dstRt dt src.kind st).map fun m => m.apply dstId src

/-- a64 `EmitHelper::emit_reg_move`, store form (operands: register, memory) -/
def a64Store (base : Nat) (off : Int) (srcRt srcId : Nat) (t : Nat) : Option Inst :=
  let m := Opnd.mem base off 0
  if t = 34 || t = 35 then some ⟨.strb, false, [.reg srcRt srcId, m]⟩
  else if t = 36 || t = 37 then some ⟨.strh, false, [.reg srcRt srcId, m]⟩
  else if t = 38 || t = 39 then some ⟨.str, false, [.reg 5 srcId, m]⟩
  else if t = 40 || t = 41 then some ⟨.str, false, [.reg 6 srcId, m]⟩
  else if t = tFloat32 || isVec32 t then some ⟨.str, false, [.reg 9 srcId, m]⟩
  else if t = tFloat64 || isVec64 t then some ⟨.str, false, [.reg 10 srcId, m]⟩
  else if isVec128 t then some ⟨.str, false, [.reg 11 srcId, m]⟩
  else none

def argMove (c : Cfg) (dstRt dstId dt : Nat) (src : Opnd) (st : Nat) : Option Inst :=
  if c.arch = .a64 then a64ArgMove dstRt dstId dt (match src with | .mem b o _ => .mem b o 0 | r => r) st
  else x86ArgMove c dstRt dstId dt src st

def regStore (c : Cfg) (base : Nat) (off : Int) (srcRt srcId t : Nat) : Option Inst :=
  if c.arch = .a64 then a64Store base off srcRt srcId t else x86Store c base off srcRt srcId t

/-- `emit_reg_swap`: x86 `xchg` for two GP registers, nothing else -/
def regSwap (c : Cfg) (rt a b : Nat) : Option Inst :=
  if c.arch ≠ .a64 && groupOf rt = 0 then some ⟨.xchg, false, [.reg rt a, .reg rt b]⟩ else none

/-! ### FuncArgsContext -/

structure Var where
  cur : FuncValue
  out : FuncValue
  outInit : Bool        -- `out.is_initialized()`
  done : Bool := false
  deriving DecidableEq, Repr

structure WorkData where
  archRegs : Nat := 0
  workRegs : Nat := 0
  dstRegs : Nat := 0
  phys : List (Option Nat) := List.replicate 32 none      -- `_phys_to_var_id`, `none` = kVarIdNone
  deriving DecidableEq, Repr

def WorkData.isAssigned (w : WorkData) (r : Nat) : Bool := (w.phys.getD r none).isSome
def WorkData.assign (w : WorkData) (var r : Nat) : WorkData := { w with phys := w.phys.set r (some var) }
def WorkData.unassign (w : WorkData) (r : Nat) : WorkData := { w with phys := w.phys.set r none }
def WorkData.reassign (w : WorkData) (var new old : Nat) : WorkData := { w with phys := (w.phys.set old none).set new (some var) }
def WorkData.swap (w : WorkData) (aVar aReg bVar bReg : Nat) : WorkData :=
  { w with phys := (w.phys.set aReg (some bVar)).set bReg (some aVar) }
def bit (m r : Nat) : Bool := m.testBit r
/-- `Support::ctz(work_regs & ~assigned_regs)` when non-empty -/
def WorkData.lowestAvailable (w : WorkData) (extra : Nat → Bool := fun _ => true) : Option Nat :=
  (List.range 32).find? fun r => bit w.workRegs r && !w.isAssigned r && extra r
def WorkData.assignedMask (w : WorkData) : Nat :=
  (List.range 32).foldl (fun m r => if w.isAssigned r then m ||| (1 <<< r) else m) 0

structure FrameIn where
  fp : Bool                 -- has_preserved_fp()
  da : Bool                 -- has_dynamic_alignment()
  saReg : Nat               -- sa_reg_id()
  saOffSp : Int             -- int32_t(sa_offset_from_sp())
  saOffSa : Int
  dirty : List Nat          -- per group
  preserved : List Nat
  deriving Repr

def FrameIn.saOffset (f : FrameIn) (a : Arch) (reg : Nat) : Int := if reg = spId a then f.saOffSp else f.saOffSa

structure Ctx where
  vars : List Var := []
  wd : List WorkData := [{}, {}, {}, {}]
  stackDstMask : Nat := 0
  hasStackSrc : Bool := false
  saVarId : Nat := 255
  deriving Repr

def Ctx.w (c : Ctx) (g : Nat) : WorkData := c.wd.getD g {}
def Ctx.setW (c : Ctx) (g : Nat) (w : WorkData) : Ctx := { c with wd := c.wd.set g w }
def Ctx.var (c : Ctx) (i : Nat) : Var := c.vars.getD i ⟨.ofType 0, .ofType 0, false, false⟩
def Ctx.setVar (c : Ctx) (i : Nat) (x : Var) : Ctx := { c with vars := c.vars.set i x }

/-- `RAConstraints::init` -/
def availableRegs (a : Arch) : List Nat :=
  match a with
  | .x86 => [0xFF - 0x10, 0xFF, 0xFF, 0xFF]
  | .x64 => [0xFFFF - 0x10, 0xFFFF, 0xFF, 0xFF]
  | .a64 => [0xFFFFFFFF - (1 <<< 18) - (1 <<< 31), 0xFFFFFFFF, 0, 0]

def not32 (x : Nat) : Nat := 0xFFFFFFFF ^^^ (x % 4294967296)

/-- `get_suitable_reg_for_mem_to_mem_move`: the register type, `none` = invalid signature -/
def suitableRegForMemMove (a : Arch) (dt st : Nat) : Option Nat :=
  let maxSize := max (tySize dt) (tySize st)
  if maxSize ≤ regSizeOf a || (isInt dt && isInt st) then some (if maxSize ≤ 4 then 5 else 6)
  else if maxSize ≤ 8 && hasRegType a 10 then some 10
  else if maxSize ≤ 16 && hasRegType a 11 then some 11
  else if maxSize ≤ 32 && hasRegType a 12 then some 12
  else if maxSize ≤ 64 && hasRegType a 13 then some 13
  else none

/-- a register destination without a TypeId gets the register's TypeId -/
def patchRegDst (dst : FuncValue) : FuncValue :=
  if dst.typeId = 0 then { dst with typeId := typeIdOfReg dst.regType } else dst

/-- destination half of one (src, dst) pair of the first loop of `init_work_data`:
    (context, patched dst, dst group (15 = kMaxValue), dst id) -/
def initDst (a : Arch) (c : Ctx) (src dst : FuncValue) : Except String (Ctx × FuncValue × Nat × Nat) :=
  if dst.isReg then
    if !hasRegType a dst.regType then .error "InvalidRegType" else
    let dst := patchRegDst dst
    let g := groupOf dst.regType
    if g > 3 then .error "InvalidRegGroup" else
    let w := c.w g
    if dst.regId ≥ 32 || !bit w.archRegs dst.regId then .error "InvalidPhysId" else
    if bit w.dstRegs dst.regId then .error "OverlappedRegs" else
    .ok (c.setW g { w with dstRegs := w.dstRegs ||| (1 <<< dst.regId) }, dst, g, dst.regId)
  else
    let dst := if dst.typeId = 0 then { dst with typeId := src.typeId } else dst
    match suitableRegForMemMove a dst.typeId src.typeId with
    | none => .error "InvalidState"
    | some rt => .ok ({ c with stackDstMask := c.stackDstMask ||| (1 <<< groupOf rt) }, dst, 15, 255)

/-- `emit_arg_move` converts between single and double precision for these scalar types (fix C06-9 consults it) -/
def needsFloatConv (dt st : Nat) : Bool :=
  (scalarOf dt = tFloat32 && scalarOf st = tFloat64) || (scalarOf dt = tFloat64 && scalarOf st = tFloat32)

/-- `dst_id == src_id` case: done unless both are GP and the destination type is wider, or (other groups, fix C06-9) the move
    would be a float <-> double conversion -/
def doneAtInit (src dst : FuncValue) (dg did : Nat) : Bool :=
  did = src.regId &&
    (if dg ≠ 0 then !needsFloatConv dst.typeId src.typeId
     else (dst.typeId = 0 || src.typeId = 0 || tySize dst.typeId ≤ tySize src.typeId))

/-- source half (the variable is created here); `varId` = index of the variable being created -/
def initSrc (c : Ctx) (reassign : Nat) (src dst : FuncValue) (dg did : Nat) : Except String (Ctx × Nat) :=
  let varId := c.vars.length
  let var : Var := { cur := src, out := dst, outInit := true }
  if src.isReg then
    let sg := groupOf src.regType
    if dg = sg then
      let c := c.setW dg ((c.w dg).assign varId src.regId)
      let reassign := reassign ||| ((if did ≠ src.regId then 1 else 0) <<< dg)
      .ok ({ c with vars := c.vars ++ [{ var with done := doneAtInit src dst dg did }] }, reassign)
    else
      if sg > 3 then .error "InvalidState" else
      let c := c.setW sg ((c.w sg).assign varId src.regId)
      .ok ({ c with vars := c.vars ++ [var] }, reassign ||| (1 <<< dg))
  else
    .ok ({ c with vars := c.vars ++ [var], hasStackSrc := true }, reassign)

/-- first loop of `init_work_data`: one (src, dst) value pair -/
def initVar (a : Arch) (c : Ctx) (reassign : Nat) (src dst : FuncValue) : Except String (Ctx × Nat) :=
  if !src.isAssigned then .error "InvalidState" else
  if src.isIndirect then .error "InvalidAssignment" else
  match initDst a c src dst with
  | .error e => .error e
  | .ok (c, dst, dg, did) => initSrc c reassign src dst dg did

def initVars (a : Arch) : Ctx → Nat → List (FuncValue × Option FuncValue) → Except String (Ctx × Nat)
  | c, re, [] => .ok (c, re)
  | c, re, (_, none) :: rest => initVars a c re rest
  | c, re, (src, some dst) :: rest =>
    match initVar a c re src dst with
    | .error e => .error e
    | .ok (c, re) => initVars a c re rest

/-- `FuncArgsContext::init_work_data` (the swap-detection tail only feeds `mark_scratch_regs`, not the emitter) -/
def initWorkData (a : Arch) (f : FrameIn) (argsSa : Nat) (vals : List (FuncValue × Option FuncValue)) : Except String Ctx :=
  let avail := availableRegs a
  let c0 : Ctx := { wd := (List.range 4).map fun g =>
    { archRegs := if g = 0 && f.fp then (avail.getD g 0) &&& not32 (1 <<< fpId a) else avail.getD g 0 } }
  match initVars a c0 0 vals with
  | .error e => .error e
  | .ok (c, _) =>
    let c := { c with wd := (List.range 4).map fun g =>
      let w := c.w g
      { w with workRegs := ((w.archRegs &&& (f.dirty.getD g 0 ||| not32 (f.preserved.getD g 0))) ||| w.dstRegs) ||| w.assignedMask } }
    let saRequired := c.hasStackSrc && f.da && !f.fp
    let gp := c.w 0
    if f.saReg ≠ 255 && gp.isAssigned f.saReg then .error "OverlappedRegs" else
    -- fix C06-10: the requested SA register must be an allocable GP register (never sp, never a preserved fp)
    if argsSa ≠ 255 && (argsSa ≥ 32 || !bit gp.archRegs argsSa) then .error "InvalidPhysId" else
    if argsSa ≠ 255 && bit gp.dstRegs argsSa then .error "OverlappedRegs" else
    let saRequired := saRequired || argsSa ≠ 255
    if !saRequired then .ok c else
    let ptrT := if a = .x86 then 39 else 41
    let ptrRt := if a = .x86 then 5 else 6
    let varId := c.vars.length
    let cur? : Option Nat :=
      if f.saReg ≠ 255 then some f.saReg
      else if argsSa ≠ 255 && !gp.isAssigned argsSa then some argsSa
      else match gp.lowestAvailable (fun r => !bit gp.dstRegs r) with     -- fix C06-8: prefer a register that is no destination
        | some r => some r
        | none =>
          match (List.range 32).find? fun r => bit gp.archRegs r && !bit gp.workRegs r with
          | some r => some r
          | none => gp.lowestAvailable
    match cur? with
    | none => .error "NoMorePhysRegs"
    | some cur =>
      let gp := (gp.assign varId cur)
      let gp := { gp with workRegs := gp.workRegs ||| (1 <<< cur) }
      let (gp, var) : WorkData × Var :=
        if argsSa ≠ 255 then
          ({ gp with dstRegs := gp.dstRegs ||| (1 <<< argsSa), workRegs := gp.workRegs ||| (1 <<< argsSa) },
           { cur := .reg ptrT ptrRt cur, out := .reg ptrT ptrRt argsSa, outInit := true })
        else (gp, { cur := .reg ptrT ptrRt cur, out := .ofType 0, outInit := false, done := true })
      .ok { (c.setW 0 gp) with vars := c.vars ++ [var], saVarId := varId }

/-! ### emit_args_assignment -/

structure Emit where
  ctx : Ctx
  out : List Inst := []       -- emitted so far (in order)
  deriving Repr

def Emit.push (e : Emit) (i : Inst) : Emit := { e with out := e.out ++ [i] }

/-- phase 1: one variable whose destination is the stack -/
def stackDstVar (cfg : Cfg) (f : FrameIn) (saId : Nat) (e : Emit) (varId : Nat) : Except (String × Emit) Emit :=
  let a := cfg.arch
  let var := e.ctx.var varId
  if !var.out.isStack then .ok e else
  let cur := var.cur
  let out := var.out
  let dstOff : Int := out.stackOffset
  let srcBase := if cur.isIndirect && cur.isReg then cur.regId else saId
  let srcOff : Int := f.saOffset a saId + cur.stackOffset
  if cur.isIndirect && cur.isStack then .error ("InvalidAssignment", e) else
  -- pick the register that carries the value
  let r : Except (String × Emit) (Emit × Nat × Nat) :=
    if cur.isReg && !cur.isIndirect then
      let g := groupOf cur.regType
      .ok ({ e with ctx := e.ctx.setW g ((e.ctx.w g).unassign cur.regId) }, cur.regType, cur.regId)
    else
      match suitableRegForMemMove a out.typeId cur.typeId with
      | none => .error ("InvalidState", e)
      | some rt =>
        match (e.ctx.w (groupOf rt)).lowestAvailable with
        | none => .error ("InvalidState", e)
        | some id =>
          match argMove cfg rt id out.typeId (.mem srcBase srcOff 0) cur.typeId with
          | none => .error ("InvalidState", e)
          | some i => .ok (e.push i, rt, id)
  match r with
  | .error x => .error x
  | .ok (e, rt, id) =>
    let e := if cur.isIndirect && cur.isReg then { e with ctx := e.ctx.setW 0 ((e.ctx.w 0).unassign cur.regId) } else e
    match regStore cfg (spId a) dstOff rt id cur.typeId with
    | none => .error ("InvalidState", e)
    | some i =>
      let e := e.push i
      .ok { e with ctx := e.ctx.setVar varId { (e.ctx.var varId) with done := true } }

def forVars (n : Nat) (f : Emit → Nat → Except (String × Emit) Emit) (e : Emit) : Except (String × Emit) Emit :=
  (List.range n).foldlM f e

/-- work flags of phase 2 -/
structure Flags where
  didSome : Bool := false
  pending : Bool := false
  postponed : Bool := false
  deriving DecidableEq, Repr

/-- the `EmitMove:` block -/
def emitMove (cfg : Cfg) (e : Emit) (varId outId : Nat) : Except (String × Emit) Emit :=
  let var := e.ctx.var varId
  let cur := var.cur
  let out := var.out
  let g := groupOf out.regType
  match argMove cfg out.regType outId out.typeId (.reg cur.regType cur.regId) cur.typeId with
  | none => .error ("InvalidState", e)
  | some i =>
    let e := e.push i
    let w := e.ctx.w g
    let w := if cur.regId ≠ outId then w.reassign varId outId cur.regId else w
    let var := { var with cur := .reg out.typeId out.regType outId, done := outId = out.regId }
    .ok { e with ctx := (e.ctx.setW g w).setVar varId var }

/-- `needs_extension` of fix C06-12: the destination type is wider than the current type -/
def needsExt (v : Var) : Bool := v.out.typeId ≠ 0 && v.cur.typeId ≠ 0 && decide (tySize v.out.typeId > tySize v.cur.typeId)

/-- phase 2: one variable of one pass -/
def shuffleVar (cfg : Cfg) (s : Emit × Flags) (varId : Nat) : Except (String × Emit) (Emit × Flags) :=
  let (e, fl) := s
  let var := e.ctx.var varId
  if var.done || !var.cur.isReg then .ok s else
  let cur := var.cur
  let out := var.out
  let cg := groupOf cur.regType
  let og := groupOf out.regType
  if cg ≠ og then .error ("InvalidAssignment", e) else
  let w := e.ctx.w og
  if !w.isAssigned out.regId || cur.regId = out.regId then
    match emitMove cfg e varId out.regId with
    | .error x => .error x
    | .ok e => .ok (e, { fl with didSome := true, pending := true })
  else
    let altId := (w.phys.getD out.regId none).getD 255
    let alt := e.ctx.var altId
    if !alt.outInit || (alt.out.isReg && groupOf alt.out.regType = cg && alt.out.regId = cur.regId) then   -- fix C06-11: group too
      if hasSwap cfg.arch cg then
        let hi := max cur.regType alt.cur.regType
        let hi := if 2 ≤ hi && hi ≤ 4 then 5 else hi
        match regSwap cfg hi out.regId cur.regId with
        | none => .error ("InvalidState", e)
        | some i =>
          let e := e.push i
          let w := w.swap varId cur.regId altId out.regId
          -- fix C06-12: a swap extends nothing; a variable that still needs extension is not done (extended in place next pass)
          let var := { var with cur := { cur with regId := out.regId }, done := !needsExt var }
          let alt := { alt with cur := { alt.cur with regId := cur.regId }, done := alt.done || (alt.outInit && !needsExt alt) }
          .ok ({ e with ctx := ((e.ctx.setW og w).setVar varId var).setVar altId alt },
               { fl with didSome := true, pending := fl.pending || needsExt var || (alt.outInit && needsExt alt) })
      else
        match w.lowestAvailable with
        | none => .ok (e, { fl with pending := true })
        | some _ =>
          let pick := match w.lowestAvailable (fun r => !bit w.dstRegs r) with
            | some r => r
            | none => (w.lowestAvailable).getD 0
          match emitMove cfg e varId pick with
          | .error x => .error x
          | .ok e => .ok (e, { fl with didSome := true, pending := true })
    else .ok (e, { fl with pending := true })

/-- the `for (;;)` of phase 2; `fuel` = `max_pass_count` of fix C06-8 (`2 * var_count + 2` passes, then `kInvalidState`) -/
def shuffleLoop (cfg : Cfg) (n : Nat) : Nat → Emit → Flags → Except (String × Emit) Emit
  | 0, e, _ => .error ("InvalidState", e)
  | fuel + 1, e, fl =>
    match (List.range n).foldlM (shuffleVar cfg) (e, fl) with
    | .error x => .error x
    | .ok (e, fl) =>
      if !fl.pending then .ok e
      else if !fl.didSome && fl.postponed then .error ("InvalidState", e)
      else shuffleLoop cfg n fuel e (if fl.didSome then {} else { postponed := true })

/-- phase 3: one variable of one iteration; returns the new iteration count request -/
def stackLoadVar (cfg : Cfg) (f : FrameIn) (saId : Nat) (s : Emit × Nat) (varId : Nat) :
    Except (String × Emit) (Emit × Nat) :=
  let (e, ic) := s
  let a := cfg.arch
  let var := e.ctx.var varId
  if var.done || !var.cur.isStack then .ok s else
  let outId := var.out.regId
  let outRt := var.out.regType
  let g := groupOf outRt
  let w := e.ctx.w g
  if outId = saId && g = 0 && ic = 1 then .ok (e, 2)      -- processed last: `iter_count++; continue`
  else
    let w := if outId = saId && g = 0 then w.unassign outId else w
    match argMove cfg outRt outId var.out.typeId (.mem saId (f.saOffset a saId + var.cur.stackOffset) 0) var.cur.typeId with
    | none => .error ("InvalidState", { e with ctx := e.ctx.setW g w })
    | some i =>
      let e := e.push i
      let w := w.assign varId outId
      let var := { var with cur := .reg var.cur.typeId outRt outId, done := true }
      .ok ({ e with ctx := (e.ctx.setW g w).setVar varId var }, ic)

/-- `BaseEmitHelper::emit_args_assignment`: status (`none` = kOk, else the error name) and everything emitted before it -/
def emitArgsAssignment (cfg : Cfg) (f : FrameIn) (argsSa : Nat) (vals : List (FuncValue × Option FuncValue)) : Option String × List Inst :=
  let a := cfg.arch
  match initWorkData a f argsSa vals with
  | .error e => (some e, [])
  | .ok ctx =>
    let n := ctx.vars.length
    let saOf (c : Ctx) : Nat := if c.saVarId < n then (c.var c.saVarId).cur.regId else f.saReg
    let sa0 := if f.da then (if f.fp then fpId a else saOf ctx) else spId a
    let e0 : Emit := { ctx := ctx }
    let p1 := if ctx.stackDstMask ≠ 0 then forVars n (stackDstVar cfg f sa0) e0 else .ok e0
    match p1 with
    | .error (m, e) => (some m, e.out)
    | .ok e =>
      match shuffleLoop cfg n (2 * n + 2) e {} with
      | .error (m, e) => (some m, e.out)
      | .ok e =>
        if !e.ctx.hasStackSrc then (none, e.out) else
        let sa := if f.da && !f.fp then saOf e.ctx else sa0
        match (List.range n).foldlM (stackLoadVar cfg f sa) (e, 1) with
        | .error (m, e) => (some m, e.out)
        | .ok (e, ic) =>
          if ic = 1 then (none, e.out) else
          match (List.range n).foldlM (stackLoadVar cfg f sa) (e, ic) with
          | .error (m, e) => (some m, e.out)
          | .ok (e, _) => (none, e.out)

end AsmjitVerif.Shuffle
