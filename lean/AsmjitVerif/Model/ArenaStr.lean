/-
Model of asmjit/support/arenastring.h (`ArenaStringBase::set_data`, `ArenaString<N>`: `reset`, `data`, `size`, `is_embedded`)
and of `Arena::dup(data, size, null_terminate)` (asmjit/support/arena.cpp).  The embedded buffer is raw memory
(`kWholeSize - 4` bytes behind the 32-bit size), writes are bounds-checked.  Core-only imports.
-/
import AsmjitVerif.Model.Arena
namespace AsmjitVerif.ArenaStr
open AsmjitVerif.Arena

/-- `Arena::dup(data, size, null_terminate)`: `none` for empty input or a failed allocation; otherwise the location, the
allocated size and the contents of the block (the last 8 bytes are zeroed first, then the data is copied) -/
def dup (a : State) (bytes : List Nat) (nt : Bool) : State × Option (Loc × Nat × List Nat) :=
  if bytes.isEmpty then (a, none) else
  let allocSize := alignUp (bytes.length + (if nt then 1 else 0)) 8
  match allocOneshot a allocSize with
  | (a', none) => (a', none)
  | (a', some p) =>
    let zeroed := List.replicate (allocSize - 8) 0xCD ++ List.replicate 8 0     -- 0xCD: uninitialised
    (a', some (p, allocSize, bytes ++ zeroed.drop bytes.length))

structure AStr where
  /-- `kWholeSize` -/
  whole : Nat := 16
  size : Nat := 0
  /-- `_embedded` extended to the whole object: `whole - 4` bytes -/
  embedded : List Nat := List.replicate 12 0
  /-- `_external` and the contents of the block it points to -/
  ext : Option (Loc × Nat × List Nat) := none
  deriving Repr, Inhabited

def new (n : Nat) : AStr := let w := max n 16; { whole := w, embedded := List.replicate (w - 4) 0 }
def AStr.maxEmbedded (s : AStr) : Nat := s.whole - 5
def AStr.isEmbedded (s : AStr) : Bool := s.size ≤ s.maxEmbedded

/-- `reset()`: `_dummy = nullptr; _external = nullptr` zeroes the first 16 bytes of the object (size and 12 embedded bytes) -/
def reset (s : AStr) : AStr := { s with size := 0, embedded := List.replicate 12 0 ++ s.embedded.drop 12, ext := none }

inductive Err where | ok | oom
  deriving DecidableEq, Repr

/-- `set_data(arena, str, size)`; outer `none` = write outside the object -/
def setData (a : State) (s : AStr) (bytes : List Nat) : Option (State × AStr × Err) :=
  let size := bytes.length
  if size ≤ s.maxEmbedded then
    if size + 1 ≤ s.embedded.length then
      some (a, { s with size := size % u32, embedded := bytes ++ 0 :: s.embedded.drop (size + 1), ext := none }, .ok)
    else none
  else
    match dup a bytes true with
    | (a', none) => some (a', s, .oom)
    | (a', some blk) => some (a', { s with size := size % u32, ext := some blk }, .ok)

/-- `data()` up to and including the terminator position -/
def content (s : AStr) : List Nat :=
  if s.isEmbedded then s.embedded.take s.size else match s.ext with | some (_, _, d) => d.take s.size | none => []
def terminated (s : AStr) : Bool :=
  if s.isEmbedded then s.embedded.getD s.size 1 == 0 else match s.ext with | some (_, _, d) => d.getD s.size 1 == 0 | none => false

end AsmjitVerif.ArenaStr
