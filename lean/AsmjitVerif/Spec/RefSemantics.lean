/-
Independent statement of what C03 / C04 *mean*, and their decidable monitor.

The monitor never looks at fixups, relocation entries or any other state of the implementation.  It keeps a
*ghost* record of the program that was assembled:
  * where each label was bound (section, offset) - taken from the assembler's cursor at the `bind` call,
  * where each reference was emitted (section, start, end of the instruction / data item), which label it names,
    with which addend, and what kind of field the ISA / data format says it contains,
and, given the final section bytes and layout, asks for every reference what the CPU (or a data reader) would
compute from the bytes that are really there (x86: end of instruction + sign-extended displacement; A64: pc +
field (Spec/Offset.lean decoders), ADRP page arithmetic; data: the little-endian value) and compares it with
`base + section offset + label offset + addend`.
-/
import AsmjitVerif.Model.Prog
import AsmjitVerif.Spec.Offset
namespace AsmjitVerif.RefSpec
open AsmjitVerif.Offset
open AsmjitVerif.CodeHolder (Op Err Arch JKind MKind AKind FormOpt)

inductive RefKind where
  | x86rel                       -- jmp/jcc/call/jecxz/loop: rel8 or rel32 by opcode
  | x86rip (immLen : Nat)        -- [rip + disp32] followed by immLen immediate bytes
  | abs32 (immLen : Nat)         -- 32-bit absolute address field followed by immLen immediate bytes
  | a64 (k : CodeHolder.A64Kind)
  | dataAbs (n : Nat)            -- embedded label address of n bytes
  | dataDelta (n : Nat) (base : Nat)   -- embedded (label - base) of n bytes
  | jmpAbs                       -- jmp/call/jcc to an absolute address (label field unused)
  | a64Abs (k : CodeHolder.A64Kind)
  | memAbs (immLen : Nat)        -- memory operand naming an absolute address (no base / index / label)
  deriving Repr, Inhabited, DecidableEq

structure Ref where
  sec    : Nat
  start  : Nat
  stop   : Nat
  kind   : RefKind
  label  : Nat
  addend : BitVec 64          -- addend, or the absolute target for jmpAbs / a64Abs
  seg    : Option (BitVec 8) := none   -- FS / GS override the instruction was written with (its prefix byte must come first)
  deriving Repr, Inhabited

structure Ghost where
  arch     : Arch
  cur      : Nat := 0
  sizes    : List Nat := [0]                       -- size of each section's buffer as the assembler reported it
  labels   : List (Option (Nat × Nat)) := []       -- where each label was bound
  refs     : List Ref := []
  relocated : Option (BitVec 64) := none           -- base of the last successful relocate_to_base
  initBase : Option (BitVec 64) := none            -- base given to CodeHolder::init
  deriving Repr, Inhabited

def getSize (g : Ghost) (i : Nat) : Nat := g.sizes.getD i 0
def setSize (sizes : List Nat) (i n : Nat) : List Nat :=
  if i < sizes.length then sizes.set i n else sizes ++ List.replicate (i - sizes.length) 0 ++ [n]

/-- ghost transition: `err` and `size` (size of the current section after the call) are what the assembler answered -/
def ghostStep (g : Ghost) (op : Op) (err : Err) (size : Nat) : Ghost :=
  let start := getSize g g.cur
  let g1 := { g with sizes := setSize g.sizes g.cur size }
  let addRef (k : RefKind) (l : Nat) (a : BitVec 64) (seg : Option (BitVec 8) := none) : Ghost :=
    if err = .ok then { g1 with refs := g1.refs ++ [{ sec := g.cur, start := start, stop := size, kind := k, label := l, addend := a, seg := seg }] }
    else g1
  match op with
  | .newLabel => { g with labels := g.labels ++ [none] }
  | .newSection _ _ => if err = .ok then { g with sizes := g.sizes ++ [0] } else g
  | .section id => if err = .ok then { g with cur := id } else g
  | .bind l =>
    -- (repaired bind_label validates before it binds: any error means "nothing changed")
    if err = .ok ∧ l < g.labels.length then { g with labels := g.labels.set l (some (g.cur, start)) } else g
  | .align _ | .embed _ => g1
  | .jmp _ _ l => addRef .x86rel l 0#64
  | .mem k l d =>
    let immLen := (k.shape g.arch).imm.length
    addRef (if g.arch = .x86 then .abs32 immLen else .x86rip immLen) l (d.signExtend 64) (k.ashape g.arch).seg
  | .a64 k l a => addRef (.a64 k.kind) l a
  | .elabel l n => addRef (.dataAbs (if n = 0 then g.arch.regSize else n)) l 0#64
  | .edelta l b n => addRef (.dataDelta (if n = 0 then g.arch.regSize else n) b) l 0#64
  | .vsize _ _ | .flatten | .resolve => g
  | .relocate b => if err = .ok then { g with relocated := some b } else g
  | .jmpAbs _ _ t => addRef .jmpAbs 0 t
  | .a64Abs k t => addRef (.a64Abs k.kind) 0 t
  | .memAbs k _ t => addRef (.memAbs (k.ashape g.arch).imm.length) 0 t (k.ashape g.arch).seg

/-- what the implementation shows at the end: layout + bytes of every section, and its unresolved counter -/
structure DumpSec where
  offset : BitVec 64
  virt   : BitVec 64
  buf    : Bytes
  deriving Repr, Inhabited

structure Dump where
  secs  : List DumpSec
  count : Nat
  deriving Repr, Inhabited

def secOff (d : Dump) (i : Nat) : BitVec 64 := match d.secs[i]? with | some s => s.offset | none => 0#64
def secBuf (d : Dump) (i : Nat) : Bytes := match d.secs[i]? with | some s => s.buf | none => []

/-- position of a bound label relative to the base: section offset + label offset (`none`: unbound or address wraps) -/
def labelAddr (g : Ghost) (d : Dump) (l : Nat) : Option (BitVec 64) :=
  match g.labels[l]? with
  | some (some (sec, off)) =>
    if (secOff d sec).toNat + off < 2 ^ 64 then some (secOff d sec + BitVec.ofNat 64 off) else none
  | _ => none

/-- x86 ISA: where the relative displacement of a branch instruction starting at `p` is, and its size -/
def x86BranchField (buf : Bytes) (p0 : Nat) : Option (Nat × Nat) :=
  let p1 := if buf[p0]? = some 0x67#8 then p0 + 1 else p0
  let p := if buf[p1]? = some 0x40#8 then p1 + 1 else p1      -- bare REX (kept so that the relocator can patch)
  match buf[p]? with
  | some b =>
    if b = 0xEB#8 ∨ b = 0xE3#8 ∨ b = 0xE2#8 ∨ (0x70#8 ≤ b ∧ b ≤ 0x7F#8) then some (p + 1, 1)
    else if b = 0xE8#8 ∨ b = 0xE9#8 then some (p + 1, 4)
    else if b = 0x0F#8 then
      match buf[p + 1]? with
      | some c => if 0x80#8 ≤ c ∧ c ≤ 0x8F#8 then some (p + 2, 4) else none
      | none => none
    else none
  | none => none

def sextN (n : Nat) (v : Nat) : BitVec 64 := (BitVec.ofNat (8 * n) v).signExtend 64

/-- x86 ISA: the memory operand of a one-byte-opcode instruction that starts at `p0` (legacy prefixes 67h / 66h, then a REX
prefix in 64-bit mode, the opcode, ModRM [, SIB]); returns (has 67h, REX.W, opcode, rip-relative?, position of disp32) for
the two forms without a base register: `mod=00 rm=101` and `mod=00 rm=100` + SIB `base=101 index=100` -/
def x86AbsOperand (buf : Bytes) (p00 : Nat) (is64 : Bool) : Option (Bool × Bool × BitVec 8 × Bool × Nat) :=
  -- an FS / GS segment override (64h / 65h) adds the segment base to the effective address computed below; it comes first
  let p0 := if buf[p00]? = some 0x64#8 ∨ buf[p00]? = some 0x65#8 then p00 + 1 else p00
  let has67 := buf[p0]? = some 0x67#8
  let p1 := if has67 then p0 + 1 else p0
  let p2 := if buf[p1]? = some 0x66#8 then p1 + 1 else p1
  let rex : Option (BitVec 8) := match buf[p2]? with
    | some b => if is64 ∧ b &&& 0xF0#8 = 0x40#8 then some b else none
    | none => none
  let p3 := if rex.isSome then p2 + 1 else p2
  let rexW := match rex with | some b => b &&& 0x08#8 ≠ 0#8 | none => false
  match buf[p3]?, buf[p3 + 1]? with
  | some opc, some m =>
    if m &&& 0xC7#8 = 0x05#8 then some (has67, rexW, opc, is64, p3 + 2)
    else if m &&& 0xC7#8 = 0x04#8 ∧ buf[p3 + 2]? = some 0x25#8 then some (has67, rexW, opc, false, p3 + 3)
    else none
  | _, _ => none

/-- x86 ISA: `A0..A3` (mov between the accumulator and `[moffs]`): position and size of the address literal
(address size = 4 in 32-bit mode, 8 in 64-bit mode; no 67h in the menu) -/
def x86Moffs (buf : Bytes) (p00 : Nat) (is64 : Bool) : Option (Nat × Nat) :=
  let p0 := if buf[p00]? = some 0x64#8 ∨ buf[p00]? = some 0x65#8 then p00 + 1 else p00
  let p1 := if buf[p0]? = some 0x66#8 then p0 + 1 else p0
  let p2 := match buf[p1]? with
    | some b => if is64 ∧ b &&& 0xF0#8 = 0x40#8 then p1 + 1 else p1
    | none => p1
  match buf[p2]? with
  | some b => if b &&& 0xFC#8 = 0xA0#8 then some (p2 + 1, if is64 then 8 else 4) else none
  | none => none

inductive Verdict where
  | correct            -- the bytes designate exactly the target
  | pendingOk          -- not (yet) resolved, and legitimately so (label unbound / displacement not representable)
  | bad (why : String)
  deriving Repr, Inhabited, DecidableEq

/-- judge one relative reference: `field` decodes the displacement from the bytes, `anchor` is the address the
displacement is relative to, `fmt` the field format (for representability) -/
def judgeRel (tgt : Option (BitVec 64)) (anchor : BitVec 64) (anchorWraps : Bool) (disp : BitVec 64) (fmt : OffsetFormat) : Verdict :=
  match tgt with
  | none => .pendingOk
  | some t =>
    if anchor + disp == t ∧ !anchorWraps then .correct
    else if anchorWraps ∨ !representable fmt (t - anchor) then .pendingOk
    else .bad "representable-reference-not-resolved-or-wrong-target"

def judgeRef (g : Ghost) (d : Dump) (r : Ref) : Verdict :=
  let buf := secBuf d r.sec
  let so := secOff d r.sec
  let wraps (p : Nat) : Bool := so.toNat + p ≥ 2 ^ 64
  let tgt : Option (BitVec 64) := (labelAddr g d r.label).map (· + r.addend)
  -- the segment override the program asked for must be the first byte of the instruction (x86: fs = 64h, gs = 65h)
  if (match r.seg with | some b => buf[r.start]? != some b | none => false) then .bad "segment-override-missing" else
  match r.kind with
  | .x86rel =>
    match x86BranchField buf r.start with
    | some (fp, n) =>
      if fp + n ≠ r.stop then .bad "branch-length" else
      match loadLE buf fp n with
      | some v => judgeRel tgt (so + BitVec.ofNat 64 r.stop) (wraps r.stop) (sextN n v) (simpleValue .signed n)
      | none => .bad "branch-out-of-buffer"
    | none => .bad "not-a-branch-opcode"
  | .x86rip immLen =>
    match loadLE buf (r.stop - immLen - 4) 4 with
    | some v => judgeRel tgt (so + BitVec.ofNat 64 r.stop) (wraps r.stop) (sextN 4 v) (simpleValue .signed 4)
    | none => .bad "field-out-of-buffer"
  | .a64 k =>
    match loadLE buf r.start 4 with
    | some v =>
      let pc := so + BitVec.ofNat 64 r.start
      let disp := decode32 k.fmt (BitVec.ofNat 32 v)
      if k = .adrp then
        -- ADRP: Xd = (pc & ~0xFFF) + imm * 4096 must be the page of the target
        match tgt with
        | none => .pendingOk
        | some t =>
          -- asmjit's ADRP format only represents targets congruent to the site modulo 4096 (`t - pc` a multiple of the
          -- page size); anything else is refused at bind/resolve and stays counted, whatever the zero field happens to mean
          if wraps r.start ∨ !representable k.fmt (t - pc) then .pendingOk
          else if (pc &&& ~~~ 0xFFF#64) + disp == (t &&& ~~~ 0xFFF#64) then .correct
          else .bad "representable-adrp-not-resolved-or-wrong-page"
      else judgeRel tgt pc (wraps r.start) disp k.fmt
    | none => .bad "field-out-of-buffer"
  | .abs32 immLen =>
    -- run-time address = base + section offset + label offset + addend, truncated to the 32-bit address space
    match g.relocated, tgt, loadLE buf (r.stop - immLen - 4) 4 with
    | some base, some t, some v =>
      if BitVec.ofNat 64 v == base + t then .correct else .bad "abs32-wrong-address"
    | some _, none, _ => .bad "relocated-with-unbound-label"
    | _, _, _ => .pendingOk
  | .dataAbs n =>
    match g.relocated, tgt, loadLE buf r.start n with
    | some base, some t, some v =>
      if BitVec.ofNat 64 v == base + t then .correct else .bad "embedded-label-address-wrong"
    | some _, none, _ => .bad "relocated-with-unbound-label"
    | _, _, _ => .pendingOk
  | .dataDelta n b =>
    match labelAddr g d r.label, labelAddr g d b, loadLE buf r.start n with
    | some tl, some tb, some v =>
      let delta := tl - tb
      -- a label difference is a signed quantity of n bytes
      if sextN n v == delta then .correct
      else if g.relocated.isSome then .bad "label-delta-wrong-or-truncated"
      else
        -- before relocation only the immediate path (both bound in one section at emission time) has written it;
        -- a zero field of an expression relocation is legitimately pending
        if v = 0 then .pendingOk else .bad "label-delta-wrong-or-truncated"
    | _, _, _ => if g.relocated.isSome then .bad "relocated-with-unbound-label" else .pendingOk
  | .jmpAbs =>
    -- meaningful once the code has been relocated (programs assembled with a known base are relocated to that base)
    let base? := g.relocated
    match base? with
    | none => .pendingOk
    | some base =>
      match x86BranchField buf r.start with
      | some (fp, n) =>
        if fp + n ≠ r.stop then .bad "branch-length" else
        match loadLE buf fp n with
        | some v =>
          let t := base + so + BitVec.ofNat 64 r.stop + sextN n v
          let t' := if g.arch = .x86 then t &&& 0xFFFFFFFF#64 else t
          let want := if g.arch = .x86 then r.addend &&& 0xFFFFFFFF#64 else r.addend
          if t' == want then .correct else .bad "absolute-jump-wrong-target"
        | none => .bad "branch-out-of-buffer"
      | none =>
        -- FF /2 or FF /4 [rip + rel32] through an address-table slot
        let p := r.stop - 6
        match buf[p]?, buf[p + 1]?, loadLE buf (p + 2) 4 with
        | some b0, some b1, some v =>
          if b0 ≠ 0xFF#8 ∨ (b1 ≠ 0x15#8 ∧ b1 ≠ 0x25#8) then .bad "not-a-branch-opcode" else
          let slot := so + BitVec.ofNat 64 r.stop + sextN 4 v        -- relative to the base
          -- the slot must lie inside the bytes of some section and hold the target
          let hit := d.secs.any fun s =>
            s.offset.toNat ≤ slot.toNat ∧ slot.toNat + 8 ≤ s.offset.toNat + s.buf.length ∧
            loadLE s.buf (slot.toNat - s.offset.toNat) 8 == some r.addend.toNat
          if hit then .correct else .bad "address-table-slot-missing-or-wrong"
        | _, _, _ => .bad "not-a-branch-opcode"
  | .memAbs immLen =>
    -- the address the CPU uses: rip-relative = end of instruction + sext(disp32) (needs the final base); absolute =
    -- sext(disp32), or zext(disp32) under a 67h prefix; `lea r32, [..]` keeps the low 32 bits
    match x86Moffs buf r.start (g.arch = .x64) with
    | some (fp, n) =>
      -- `mov acc, [moffs]` / `mov [moffs], acc`: the address is the literal that follows the opcode
      if fp + n ≠ r.stop then .bad "memory-operand-length" else
      match loadLE buf fp n with
      | some v => if BitVec.ofNat 64 v == (if g.arch = .x86 then r.addend &&& 0xFFFFFFFF#64 else r.addend) then .correct
                  else .bad "absolute-operand-wrong-address"
      | none => .bad "field-out-of-buffer"
    | none =>
    match x86AbsOperand buf r.start (g.arch = .x64) with
    | none => .bad "not-an-absolute-memory-operand"
    | some (has67, rexW, opc, ripRel, fp) =>
      if fp + 4 + immLen ≠ r.stop then .bad "memory-operand-length" else
      match loadLE buf fp 4 with
      | none => .bad "field-out-of-buffer"
      | some v =>
        if ripRel then
          match g.relocated with
          | none => .pendingOk
          | some base =>
            if base + so + BitVec.ofNat 64 r.stop + sextN 4 v == r.addend then .correct else .bad "absolute-operand-wrong-address"
        else
          let ea : BitVec 64 := if g.arch = .x86 ∨ has67 then BitVec.ofNat 64 v else sextN 4 v
          let want : BitVec 64 := if g.arch = .x86 then r.addend &&& 0xFFFFFFFF#64 else r.addend
          if ea == want ∨ (opc = 0x8D#8 ∧ !rexW ∧ ea &&& 0xFFFFFFFF#64 == want) then .correct
          else .bad "absolute-operand-wrong-address"
  | .a64Abs k =>
    match g.relocated, loadLE buf r.start 4 with
    | some base, some v =>
      let pc := base + so + BitVec.ofNat 64 r.start
      let disp := decode32 k.fmt (BitVec.ofNat 32 v)
      if k = .adrp then
        if (pc &&& ~~~ 0xFFF#64) + disp == (r.addend &&& ~~~ 0xFFF#64) then .correct else .bad "absolute-adrp-wrong-page"
      else if pc + disp == r.addend then .correct else .bad "absolute-branch-wrong-target"
    | none, _ => .pendingOk
    | _, none => .bad "field-out-of-buffer"

/-- a reference that the unresolved counter is supposed to count: label-relative fields and fixups that feed a relocation -/
def counted (k : RefKind) : Bool :=
  match k with
  | .x86rel | .x86rip _ | .a64 _ => true
  | _ => false

/-- **The monitor of C03 (and of C04 after a relocation).**
 (J1) every reference is `correct` or legitimately pending - never a wrong target, never silently truncated, never a
      representable reference left unresolved after `resolve`;
 (J2) the reported number of unresolved references is zero exactly when no counted reference remains. -/
def judge (g : Ghost) (d : Dump) : Verdict :=
  let vs := g.refs.map (fun r => (r, judgeRef g d r))
  match vs.find? (fun p => match p.2 with | .bad _ => true | _ => false) with
  | some (r, .bad why) => .bad s!"{why} sec={r.sec} at={r.start}..{r.stop} label={r.label}"
  | _ =>
    let remaining := vs.any fun p =>
      (counted p.1.kind && p.2 != .correct) ||
      -- embed_label / 32-bit absolute operands are counted while their label is unbound
      ((match p.1.kind with | .dataAbs _ | .abs32 _ => true | _ => false) && (g.labels[p.1.label]?.join).isNone)
    if (d.count == 0) == !remaining then .correct
    else .bad s!"unresolved-count={d.count}-but-remaining={remaining}"

/-- run the ghost over a program and the answers the implementation gave -/
def ghostRun (g : Ghost) : List (Op × Err × Nat) → Ghost
  | [] => g
  | (op, e, n) :: rest => ghostRun (ghostStep g op e n) rest

end AsmjitVerif.RefSpec
