/-
C18 — independent specification: what "behaves like its abstract data type" means, as decidable predicates
the driver runs on the IMPLEMENTATION's answers (the monitor).  Nothing here refers to the models.

 * arena: the regions the implementation handed out and that are still live are 8-aligned, inside their block and
   pairwise disjoint (`regionOk`);
 * vector / list / string / bit set: the reported contents equal the textbook `List` after the same operation;
 * hash: every node sits in bucket `hash % buckets` (independent `%`), the multiset of nodes is the textbook multiset;
 * tree: the reported shape is a binary search tree, root black, no red node with a red child, equal black height on
   every path, and its in-order key list is the textbook sorted set;
 * string: null terminated, `size ≤ capacity`; `append_uint` text parses back to the number.
Core-only imports.
-/
namespace AsmjitVerif.SpecC18

/-! ### arena regions -/
structure Region where
  owner : String
  pos : Nat
  off : Nat
  size : Nat
  deriving Repr, Inhabited, DecidableEq

def disjoint (a b : Region) : Bool := a.pos != b.pos || a.off + a.size ≤ b.off || b.off + b.size ≤ a.off

/-- a new live region is acceptable next to the already live ones -/
def regionOk (live : List Region) (r : Region) (blockSize : Nat) : Bool :=
  r.off % 8 == 0 && r.off + r.size ≤ blockSize && live.all (disjoint r)

def allDisjoint : List Region → Bool
  | [] => true
  | r :: rest => rest.all (disjoint r) && allDisjoint rest

/-! ### red-black tree shape -/
inductive RB where
  | nil
  | node (key : Nat) (red : Bool) (l r : RB)
  deriving Repr, Inhabited

def RB.inorder : RB → List Nat
  | .nil => []
  | .node k _ l r => l.inorder ++ k :: r.inorder

def RB.isRed : RB → Bool
  | .node _ true _ _ => true
  | _ => false

def RB.noRedRed : RB → Bool
  | .nil => true
  | .node _ red l r => (!red || (!l.isRed && !r.isRed)) && l.noRedRed && r.noRedRed

/-- black height if it is the same on all paths -/
def RB.blackHeight : RB → Option Nat
  | .nil => some 1
  | .node _ red l r =>
    match l.blackHeight, r.blackHeight with
    | some a, some b => if a = b then some (a + (if red then 0 else 1)) else none
    | _, _ => none

def strictlySorted : List Nat → Bool
  | a :: b :: rest => a < b && strictlySorted (b :: rest)
  | _ => true

/-- the structural invariants of a red-black search tree -/
def RB.valid (t : RB) : Bool :=
  !t.isRed && t.noRedRed && t.blackHeight.isSome && strictlySorted t.inorder

/-- textbook sorted-set insert / erase -/
def setInsert (k : Nat) : List Nat → List Nat
  | [] => [k]
  | x :: xs => if k < x then k :: x :: xs else if k = x then x :: xs else x :: setInsert k xs
def setErase (k : Nat) (xs : List Nat) : List Nat := xs.filter (· != k)

/-! ### digits -/
def digitVal (c : Nat) : Option Nat :=
  if 48 ≤ c ∧ c ≤ 57 then some (c - 48) else if 65 ≤ c ∧ c ≤ 70 then some (c - 55) else none

/-- textbook positional parse; `none` on a non-digit or a digit ≥ base -/
def parseDigits (base : Nat) (cs : List Nat) : Option Nat :=
  if cs.isEmpty then none else
  cs.foldl (fun acc c => match acc, digitVal c with
    | some a, some d => if d < base then some (a * base + d) else none
    | _, _ => none) (some 0)

/-! ### hash -/
def multisetEq (a b : List (Nat × Nat)) : Bool :=
  a.length == b.length && a.all (fun x => a.count x == b.count x)

/-! ### bits -/
def bitsOfWords (ws : List Nat) (n : Nat) : List Bool :=
  (List.range n).map fun i => (ws.getD (i / 64) 0) >>> (i % 64) % 2 == 1

/-- no bit at or after `n` is set in the last used word -/
def tailClean (ws : List Nat) (n : Nat) : Bool :=
  n % 64 == 0 || (ws.getD (n / 64) 0) >>> (n % 64) == 0

end AsmjitVerif.SpecC18
