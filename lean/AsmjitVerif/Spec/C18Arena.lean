/-
C18 – memory safety of the arena allocator (asmjit/support/arena.cpp, arena.h): ghost state, client
operation language and the decidable safety monitor.  Independent of the allocator's internals: the ghost
state only records what the *client* was handed (`Live`) and the monitor only looks at the block sizes and
the set of dynamic blocks of the arena.

Ghost live set: `(key, location, byte size)`.
  key = 0      : an `alloc_oneshot` region (no handle; stays live until `reset`)
  key = h + 1  : the `alloc_reusable` region the client named `h` (live until `put h` or `reset`);
                 the recorded size is the *allocated* size reported by `_alloc_reusable`, which is also the
                 size the client must pass to `free_reusable`.

Client protocol encoded in `step` (operations violating it are no-ops):
  `one size`   needs `size % 8 = 0` (ASMJIT_ASSERT(is_aligned(size, kAlignment)) in `alloc_oneshot`) and
               `0 < size` (a zero-size request on an arena without any block returns the address of the zero
               block: a region of zero bytes at position 0 of an empty chain, for which "`pos < blocks.length`"
               is meaningless – see `one_zero_on_empty_arena` in Lemmas/C18Arena2.lean)
  `get h size` needs `0 < size` and `h` not live
  `put h`      needs `h` live; frees with the recorded location and allocated size
Core-only imports.
-/
import AsmjitVerif.Model.Arena
namespace AsmjitVerif.Arena

/-- client operations -/
inductive AOp where
  | one (size : Nat)
  | get (h : Nat) (size : Nat)
  | put (h : Nat)
  | reset (hard : Bool)
  deriving DecidableEq, Repr, Inhabited

/-- ghost live set: (key, location, byte size); key 0 = oneshot, key h+1 = reusable handle `h` -/
abbrev Live := List (Nat × Loc × Nat)

/-- an owned piece of memory: location and byte size -/
abbrev Item := Loc × Nat

def liveItems (live : Live) : List Item := live.map (fun e => e.2)

/-- first entry with the given key -/
def findH : Live → Nat → Option (Loc × Nat)
  | [], _ => none
  | (k, l, sz) :: rest, key => if k = key then some (l, sz) else findH rest key

/-- remove the first entry with the given key -/
def eraseH : Live → Nat → Live
  | [], _ => []
  | e :: rest, key => if e.1 = key then rest else e :: eraseH rest key

def step : State × Live → AOp → State × Live
  | (s, live), .one size =>
    if size % 8 = 0 ∧ 0 < size then
      match allocOneshot s size with
      | (s', some p) => (s', (0, p, size) :: live)
      | (s', none) => (s', live)
    else (s, live)
  | (s, live), .get h size =>
    if 0 < size ∧ findH live (h + 1) = none then
      match allocReusable s size with
      | (s', some p, asz) => (s', (h + 1, p, asz) :: live)
      | (s', none, _) => (s', live)
    else (s, live)
  | (s, live), .put h =>
    match findH live (h + 1) with
    | some (p, sz) => (freeReusable s p sz, eraseH live (h + 1))
    | none => (s, live)
  | (s, _), .reset hard => (Arena.reset s hard, [])

def run (ops : List AOp) (init : State × Live) : State × Live := ops.foldl step init

/-! ### The safety monitor -/

/-- a live region lies inside its block and is 8-aligned; a live dynamic block is registered -/
def itemSafe (s : State) : Item → Bool
  | (.managed pos off, sz) =>
    off % 8 == 0 && decide (pos < s.blocks.length) && decide (off + sz ≤ s.blocks.getD pos 0)
  | (.dyn id, _) => s.dyns.contains id

/-- two owned pieces do not overlap (managed: different block or disjoint byte ranges; dynamic: different ids) -/
def disjB : Item → Item → Bool
  | (.managed p1 o1, s1), (.managed p2 o2, s2) => p1 != p2 || decide (o1 + s1 ≤ o2) || decide (o2 + s2 ≤ o1)
  | (.dyn a, _), (.dyn b, _) => a != b
  | _, _ => true

def pairwiseB {α : Type} (r : α → α → Bool) : List α → Bool
  | [] => true
  | x :: xs => xs.all (r x) && pairwiseB r xs

/-- The C18 safety predicate (run-time monitor):
 * every live managed region is 8-aligned and inside an existing block,
 * any two distinct live entries do not overlap (managed) / have different ids (dynamic),
 * every live dynamic id is in `s.dyns` and every member of `s.dyns` is live. -/
def safe (s : State) (live : Live) : Bool :=
  (liveItems live).all (itemSafe s)
  && pairwiseB disjB (liveItems live)
  && s.dyns.all (fun id => (liveItems live).any (fun it => it.1 == Loc.dyn id))

/-- `Prop` reading of `safe` -/
structure Safe (s : State) (live : Live) : Prop where
  inBlock : ∀ key pos off sz, (key, Loc.managed pos off, sz) ∈ live →
    off % 8 = 0 ∧ pos < s.blocks.length ∧ off + sz ≤ s.blocks.getD pos 0
  dynReg : ∀ key id sz, (key, Loc.dyn id, sz) ∈ live → id ∈ s.dyns
  disjoint : (liveItems live).Pairwise (fun a b => disjB a b = true)
  dynLive : ∀ id ∈ s.dyns, ∃ key sz, (key, Loc.dyn id, sz) ∈ live

end AsmjitVerif.Arena
