/-
C18 – `ArenaVector<T>`: operation language and the *textbook* meaning of every operation on a plain
`List Nat` (written from the documented behaviour of a dynamic array, not from the C++), plus the glue
(`modelStep`, `run`) that drives the executable model `Model/Vector.lean` with the same operations.

* a step whose precondition fails (`insert i` with `i > length`, `removeAt i` with `i ≥ length`, `pop` of an
  empty vector) is a no-op on both sides;
* a step that the model answers with `Err.oom` (`ok = false`) leaves the list unchanged;
* `Step.env s` models every other client of the same arena and the allocation oracle: the arena state is
  replaced by an ARBITRARY state `s` (any `mallocMax`, any blocks/slots: the oracle may grant or refuse anything).
  (The model follows the repaired code: the capacity is clamped to `0xFFFFFFFF`, so no bound on the size of a
  granted allocation is needed.)
Core-only imports.
-/
import AsmjitVerif.Model.Vector
namespace AsmjitVerif.Vector
open AsmjitVerif.Arena

inductive VOp where
  | append (x : Nat)
  | prepend (x : Nat)
  | insert (i x : Nat)
  | removeAt (i : Nat)
  | pop
  | clear
  | truncate (n : Nat)
  | reserveFit (n : Nat)
  | reserveGrow (n : Nat)
  | resizeFit (n : Nat)
  | resizeGrow (n : Nat)
  | release
  deriving Repr, DecidableEq, Inhabited

/-- textbook semantics; `ok = false` means "the implementation reported out-of-memory" -/
def specStep (l : List Nat) (op : VOp) (ok : Bool) : List Nat :=
  match op with
  | .append x => if ok then l ++ [x] else l
  | .prepend x => if ok then x :: l else l
  | .insert i x => if i ≤ l.length ∧ ok then l.take i ++ x :: l.drop i else l
  | .removeAt i => if i < l.length then l.eraseIdx i else l
  | .pop => l.dropLast
  | .clear => []
  | .truncate n => l.take n
  | .reserveFit _ => l
  | .reserveGrow _ => l
  | .resizeFit n => if ok then l.take n ++ List.replicate (n - l.length) 0 else l
  | .resizeGrow n => if ok then l.take n ++ List.replicate (n - l.length) 0 else l
  | .release => []

/-- textbook index of the first / last occurrence -/
def firstIdx (x : Nat) : List Nat → Option Nat
  | [] => none
  | y :: ys => if y = x then some 0 else (firstIdx x ys).map (· + 1)

def lastIdx (x : Nat) : List Nat → Option Nat
  | [] => none
  | y :: ys => match lastIdx x ys with
    | some j => some (j + 1)
    | none => if y = x then some 0 else none

def okB (e : Err) : Bool := e == .ok

/-- one vector operation on the model; `none` = the model detected a write outside the allocation -/
def modelStep (itemSize : Nat) (a : State) (v : Vec) (op : VOp) : Option (State × Vec × Bool) :=
  match op with
  | .append x => (insert a v v.size x itemSize).map fun r => (r.1, r.2.1, okB r.2.2)
  | .prepend x => (insert a v 0 x itemSize).map fun r => (r.1, r.2.1, okB r.2.2)
  | .insert i x =>
    if i ≤ v.size then (insert a v i x itemSize).map fun r => (r.1, r.2.1, okB r.2.2) else some (a, v, true)
  | .removeAt i => if i < v.size then (removeAt v i).map fun v' => (a, v', true) else some (a, v, true)
  | .pop => if 0 < v.size then some (a, (pop v).1, true) else some (a, v, true)
  | .clear => some (a, clear v, true)
  | .truncate n => some (a, truncate v n, true)
  | .reserveFit n => let r := reserveFitP a v n itemSize; some (r.1, r.2.1, okB r.2.2)
  | .reserveGrow n => let r := reserveGrowP a v n itemSize; some (r.1, r.2.1, okB r.2.2)
  | .resizeFit n => (resize false a v n itemSize).map fun r => (r.1, r.2.1, okB r.2.2)
  | .resizeGrow n => (resize true a v n itemSize).map fun r => (r.1, r.2.1, okB r.2.2)
  | .release => let r := release a v itemSize; some (r.1, r.2, true)

inductive Step where
  /-- an operation on the vector -/
  | vec (op : VOp)
  /-- anything the other clients of the arena do: the arena becomes `s` (any state) -/
  | env (s : State)
  deriving Repr, Inhabited

/-- model (arena, vector) and specification (list) run in lockstep; the list only sees the `ok` flag -/
def stepAll (itemSize : Nat) (c : State × Vec × List Nat) (st : Step) : Option (State × Vec × List Nat) :=
  match st with
  | .vec op => (modelStep itemSize c.1 c.2.1 op).map fun r => (r.1, r.2.1, specStep c.2.2 op r.2.2)
  | .env s => some (s, c.2.1, c.2.2)

def run (itemSize : Nat) (c : State × Vec × List Nat) : List Step → Option (State × Vec × List Nat)
  | [] => some c
  | st :: rest => match stepAll itemSize c st with
    | none => none
    | some c' => run itemSize c' rest

end AsmjitVerif.Vector
