/-
  Specification side of `serialize_replays` / `serialize_groups` (C08): what an Assembler is handed when the emitter calls of an
  operation sequence are issued to it directly, with the Assembler's own call-time acceptance rules (BaseAssembler::bind,
  embed_data_array, embed_label, embed_label_delta, embed_const_pool, section) - written without any reference to nodes or lists.
  `ASt.out` is the list of accepted calls in issue order; `ASt.reentered` records whether some `section` call went back to a section
  that had been current before (then a Builder regroups its nodes and only the per-section projections are preserved).
-/
import AsmjitVerif.Model.Builder
import AsmjitVerif.Spec.Builder

namespace AsmjitVerif.Builder.Spec
open AsmjitVerif.Builder

/-- operands as `_emit` passes them on: slot `i` survives iff `i < op_count` -/
def normOps (ops : List Operand) : List Operand :=
  (List.range 6).map fun i => if i < opCountFromArgs ops then getOp ops i else noneOp

structure ASt where
  regSize : Nat := 8
  nLabels : Nat := 0
  bound : List Nat := []          -- labels bound so far
  nSections : Nat := 1
  entered : List Nat := [0]       -- sections that have been current
  cur : Nat := 0                  -- current section
  reentered : Bool := false
  opts : Nat := 0
  extra : String := "-"
  cmt : String := "-"
  out : List Call := []
  deriving Repr

def ASt.emit (a : ASt) (c : Call) : ASt := { a with out := a.out ++ [c] }

/-- one operation issued directly to an Assembler (node-list editing does not exist there) -/
def astep (a : ASt) : Op → ASt
  | .newlabel => { a with nLabels := a.nLabels + 1 }
  | .newsection => { a with nSections := a.nSections + 1 }
  | .opts v => { a with opts := a.opts ||| v }
  | .extra s => { a with extra := s }
  | .icomment s => { a with cmt := s }
  | .inst id ops =>
      { (a.emit (.inst id (clearReserved a.opts) a.extra a.cmt (normOps ops))) with opts := 0, extra := "-", cmt := "-" }
  | .bind l => if l < a.nLabels && !a.bound.contains l then { (a.emit (.bind l)) with bound := l :: a.bound } else a
  | .align m n => a.emit (.align m n)
  | .embed b => a.emit (.data 35 (hexLen b) 1 b)
  | .data ty items rep bytes =>
      if !typeModelled ty then a else
      match typeSize a.regSize ty with
      | none => a
      | some sz => a.emit (.data ty items rep (if items * sz = 0 then "-" else bytes))
  | .elabel l size => if l < a.nLabels && sizeOk size then a.emit (.elabel l size) else a
  | .edelta l b size => if (l < a.nLabels && b < a.nLabels) && sizeOk size then a.emit (.edelta l b size) else a
  | .comment t => a.emit (.comment t)
  | .section s =>
      if s < a.nSections then
        { (a.emit (.section s)) with cur := s, entered := s :: a.entered, reentered := a.reentered || a.entered.contains s }
      else a
  -- embed_const_pool is described by its node-level decomposition align; bind; data (what a Builder serialises). Whether the assembler
  -- then accepts the bind (ranges of pending fixups) is outside this model; a directly issued embed_const_pool validates that first and
  -- leaves nothing when it refuses, whereas the decomposed sequence has emitted the padding - equal first error, equal accepted prefix.
  | .cpool l isz bytes =>
      if !cpoolPre isz bytes then a else
      if !(l < a.nLabels) then a else
      if a.bound.contains l then a else       -- BaseAssembler::embed_const_pool refuses a bound label before the padding is emitted
      let a := a.emit (.align 1 (if hexLen bytes = 0 then 0 else isz))
      { ((a.emit (.bind l)).emit (.data 35 (hexLen bytes) 1 bytes)) with bound := l :: a.bound }
  | _ => a

def arun (a : ASt) (ops : List Op) : ASt := ops.foldl astep a

/-- an operation outside the plain emitter-call interface: the node-list editing API, and the Compiler's global constant pool
    (`_new_const`), which an Assembler does not have (there the pool is embedded by one final embed_const_pool call) -/
def isEdit : Op → Bool
  | .cursor _ | .remove _ | .removerange _ _ | .addnode _ | .addafter _ _ | .addbefore _ _ | .gconst _ _ => true
  | _ => false

/-- section current after a call sequence -/
def curAfter : Nat → List Call → Nat
  | cur, [] => cur
  | _, .section t :: cs => curAfter t cs
  | cur, _ :: cs => curAfter cur cs

end AsmjitVerif.Builder.Spec
