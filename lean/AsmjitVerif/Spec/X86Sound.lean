/-
Soundness of the x86 signature tables against the ISA database (C13, `validate_sound`): every operand-kind tuple a
signature row admits is an instance of a database form of that instruction in that mode.

A database form is read (tools/x86just.py - independently of tools/tablegen-x86.js) as a mode mask and, per operand
position (implicit operands included), the set of operand kinds (the kind bits of `InstDB::OpFlags`) the form admits,
with the three readings AsmJit documents on top of the database: a memory operand may be given without size, the target
of a relative branch may be given as an absolute address (immediate), the memory operand of `lea` has no size.
`covers forms refs` says: whichever single kind is chosen at every position from what the row admits there, some
database form admits all the choices simultaneously (tuple-exact, not just per position).
-/
import AsmjitVerif.Model.X86Validate
namespace AsmjitVerif.X86Sound
open AsmjitVerif.X86Validate

/-- mode mask (1 = 32-bit, 2 = 64-bit) and the kind set of every operand position -/
abbrev DbForm := Nat × List Nat

/-- the single-bit values contained in `x` (OpFlags kinds live below bit 56) -/
def bitsOf (x : Nat) : List Nat := ((List.range 56).filter fun i => x.testBit i).map fun i => 1 <<< i

def headHas (b : Nat) : List Nat → Bool
  | k :: _ => k &&& b != 0
  | [] => false

def covers : List (List Nat) → List Nat → Bool
  | forms, [] => forms.any (· == [])
  | forms, r :: rs => (bitsOf r).all fun b => covers ((forms.filter (headHas b)).map List.tail) rs

/-- one signature row `(op_count, mode, implicit_op_count, operand signatures)` against the forms of its instruction -/
def rowSound (forms : List DbForm) (row : Nat × Nat × Nat × List (Nat × Nat)) : Bool :=
  row.2.2.2.length == row.1 && row.2.2.2.all (fun r => r.1 &&& fOpMask != 0) &&
  [1, 2].all fun mb => row.2.1 &&& mb == 0 ||
    covers ((forms.filter fun f => f.1 &&& mb != 0 && f.2.length == row.1).map (·.2)) (row.2.2.2.map fun r => r.1 &&& fOpMask)

def instSound (T : SigTables) (e : Nat × List DbForm) : Bool :=
  match resolve T e.1 with
  | some R => !R.rows.isEmpty && R.rows.all (rowSound e.2)
  | none => false

/-- position-wise relation of two lists of equal length -/
def All2 {α β : Type} (p : α → β → Prop) : List α → List β → Prop
  | [], [] => True
  | a :: as, b :: bs => p a b ∧ All2 p as bs
  | _, _ => False

/-- what `covers` means: for every choice of one admitted kind per position there is a form admitting all of them -/
theorem covers_spec : ∀ (refs : List Nat) (forms : List (List Nat)) (choice : List Nat), covers forms refs = true →
    All2 (fun b r => b ∈ bitsOf r) choice refs →
    ∃ f ∈ forms, All2 (fun k b => k &&& b ≠ 0) f choice := by
  intro refs
  induction refs with
  | nil =>
    intro forms choice h hc
    cases choice with
    | cons _ _ => exact absurd hc (by simp [All2])
    | nil =>
      simp only [covers, List.any_eq_true, beq_iff_eq] at h
      obtain ⟨f, hf, e⟩ := h
      exact ⟨f, hf, by rw [e]; simp [All2]⟩
  | cons r rs ih =>
    intro forms choice h hc
    cases choice with
    | nil => exact absurd hc (by simp [All2])
    | cons b bs =>
      simp only [All2] at hc
      obtain ⟨hb, htl⟩ := hc
      simp only [covers, List.all_eq_true] at h
      have h1 := h b hb
      obtain ⟨f', hf', hall⟩ := ih _ bs h1 htl
      obtain ⟨f, hf, e⟩ := List.mem_map.mp hf'
      have ⟨hfm, hhead⟩ := List.mem_filter.mp hf
      cases f with
      | nil => simp [headHas] at hhead
      | cons k ks =>
        simp only [List.tail_cons] at e
        subst e
        refine ⟨k :: ks, hfm, ?_⟩
        simp only [All2]
        exact ⟨by simpa [headHas] using hhead, hall⟩

/-- How the given operands (translated signatures `ops`) sit in a database form with kind sets `f`, along the reference
    operands `refs` of the matched row: a reference flagged implicit may be skipped (the operand is not spelled), every
    spelled operand shares a kind with the form at its position. -/
def Embeds : List (Nat × Nat) → List (Nat × Nat) → List Nat → Prop
  | [], [], [] => True
  | ops, r :: rs, k :: ks =>
    (test r.1 fFlagImplicit = true ∧ Embeds ops rs ks) ∨
    (match ops with
     | o :: os => o.1 &&& k ≠ 0 ∧ Embeds os rs ks
     | [] => Embeds [] rs ks)
  | _, _, _ => False

end AsmjitVerif.X86Sound
