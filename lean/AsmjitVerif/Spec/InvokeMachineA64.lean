/-
  C06 – what an AArch64 callee sees (byte-granular, because Apple arm64 packs 8/16-bit stack arguments at their natural size: a
  store that is wider than its argument overlaps its neighbours, and the order of the stores decides what survives).

  GP registers hold 64-bit numbers, vector registers opaque tokens, memory is a map from the offset to sp to a byte: a number's
  byte or byte `j` of a vector token.  `calleeSeesA64` compares every argument's bytes at the location the ABI rules give it.
-/
import AsmjitVerif.Model.InvokeLower
import AsmjitVerif.Spec.InvokeMachine
namespace AsmjitVerif.InvokeSpecA64
open AsmjitVerif.CallConv AsmjitVerif.Invoke

inductive BVal
  | num (b : BitVec 8)
  | vec (tok : Nat) (idx : Nat)
  deriving DecidableEq, Repr

structure MA where
  gp : List (Nat × BitVec 64) := []
  vr : List (Nat × Nat) := []
  mem : List (Int × BVal) := []
  deriving Repr

def MA.getGp (m : MA) (id : Nat) : Option (BitVec 64) := (m.gp.find? (·.1 == id)).map (·.2)
def MA.setGp (m : MA) (id : Nat) (v : BitVec 64) : MA := { m with gp := (id, v) :: m.gp.filter (·.1 != id) }
def MA.getV (m : MA) (id : Nat) : Option Nat := (m.vr.find? (·.1 == id)).map (·.2)
def MA.setV (m : MA) (id tok : Nat) : MA := { m with vr := (id, tok) :: m.vr.filter (·.1 != id) }
def MA.byte (m : MA) (a : Int) : Option BVal := (m.mem.find? (·.1 == a)).map (·.2)
def MA.setByte (m : MA) (a : Int) (b : BVal) : MA := { m with mem := (a, b) :: m.mem.filter (·.1 != a) }

def byteOf (v : BitVec 64) (j : Nat) : BitVec 8 := (v >>> (8 * j)).truncate 8

/-- store the low `n` bytes of a number, little endian -/
def storeBytes (m : MA) (a : Int) (n : Nat) (v : BitVec 64) : MA :=
  (List.range n).foldl (fun m j => m.setByte (a + (j : Nat)) (.num (byteOf v j))) m
def storeVec (m : MA) (a : Int) (n tok : Nat) : MA :=
  (List.range n).foldl (fun m j => m.setByte (a + (j : Nat)) (.vec tok j)) m

/-- read `n` bytes as a number -/
def loadBytes (m : MA) (a : Int) (n : Nat) : Option (BitVec 64) :=
  (List.range n).foldl (fun acc j =>
    match acc, m.byte (a + (j : Nat)) with
    | some v, some (.num b) => some (v ||| ((b.zeroExtend 64) <<< (8 * j)))
    | _, _ => none) (some 0)
def loadVec (m : MA) (a : Int) (n : Nat) : Option Nat :=
  match m.byte a with
  | some (.vec tok 0) => if (List.range n).all (fun j => m.byte (a + (j : Nat)) == some (.vec tok j)) then some tok else none
  | _ => none

def gpBytes (rt : Nat) : Nat := if rt = 5 then 4 else 8
def vBytes (rt : Nat) : Nat := if rt = 7 then 1 else if rt = 8 then 2 else if rt = 9 then 4 else if rt = 10 then 8 else 16
def isGpRt (rt : Nat) : Bool := rt = 5 || rt = 6
def isVRt (rt : Nat) : Bool := 7 ≤ rt && rt ≤ 11
def magicBase : Nat := 0x7E0000000000

def step (m : MA) (i : XI) : Option MA :=
  match i.name, i.ops with
  | .mov, [.reg rt id, .imm v] => if isGpRt rt then some (m.setGp id (if rt = 5 then InvokeSpec.lowBytes 4 v else v)) else none
  | .mov, [.reg rt id, .reg rs s] =>
    if isGpRt rt && isGpRt rs then (m.getGp s).map fun v => m.setGp id (if rt = 5 then InvokeSpec.lowBytes 4 v else v)
    else if isVRt rt && isVRt rs then (m.getV s).map fun t => m.setV id t
    else none
  | .str, [.reg rt id, .mem 31 o _] =>
    if isGpRt rt then (m.getGp id).map fun v => storeBytes m o (gpBytes rt) v
    else if isVRt rt then (m.getV id).map fun t => storeVec m o (vBytes rt) t
    else none
  | .sxtb, [.reg rt id, .reg _ s] => if isGpRt rt then (m.getGp s).map fun v => m.setGp id (if rt = 5 then InvokeSpec.lowBytes 4 (sext8 v) else sext8 v) else none
  | .sxth, [.reg rt id, .reg _ s] => if isGpRt rt then (m.getGp s).map fun v => m.setGp id (if rt = 5 then InvokeSpec.lowBytes 4 (sext16 v) else sext16 v) else none
  | .sxtw, [.reg rt id, .reg _ s] => if rt = 6 then (m.getGp s).map fun v => m.setGp id (sext32 v) else none
  | .uxtb, [.reg rt id, .reg _ s] => if isGpRt rt then (m.getGp s).map fun v => m.setGp id (zext8 v) else none
  | .uxth, [.reg rt id, .reg _ s] => if isGpRt rt then (m.getGp s).map fun v => m.setGp id (zext16 v) else none
  | .strb, [.reg rt id, .mem 31 o _] => if isGpRt rt then (m.getGp id).map fun v => storeBytes m o 1 v else none
  | .strh, [.reg rt id, .mem 31 o _] => if isGpRt rt then (m.getGp id).map fun v => storeBytes m o 2 v else none
  | .ldr, [.reg rt id, .mem b o _] =>
    if b = 31 then
      (if isGpRt rt then (loadBytes m o (gpBytes rt)).map fun v => m.setGp id v
       else if isVRt rt then (loadVec m o (vBytes rt)).map fun t => m.setV id t
       else none)
    else
      -- a load from a magic address creates the vector token
      match m.getGp b with
      | some a =>
        let n := a.toNat + o.toNat
        if isVRt rt && n ≥ magicBase && (n - magicBase) % 64 = 0 && n < magicBase + 64 * 64 then some (m.setV id ((n - magicBase) / 64)) else none
      | none => none
  | _, _ => none

def valueOk (m : MA) (arg : FuncValue) (w : InvokeSpec.Want) : Bool :=
  let n := tySize arg.typeId
  match w with
  | .none => true
  | .int v =>
    if arg.isReg then (match m.getGp arg.regId with | some r => InvokeSpec.lowBytes n r == InvokeSpec.lowBytes n v | none => false)
    else (match loadBytes m arg.stackOffset n with | some r => r == InvokeSpec.lowBytes n v | none => false)
  | .vtok k =>
    if arg.isReg then m.getV arg.regId == some k
    else loadVec m arg.stackOffset n == some k

/-- the local of the harness (16 marker bytes at `lso ..`) is intact -/
def localOk (m : MA) (lso : Nat) : Bool :=
  (List.range 4).all fun k => loadBytes m (lso + 4 * k : Nat) 4 == some (BitVec.ofNat 64 (0x5A5A5A50 + k))

end AsmjitVerif.InvokeSpecA64
