/-
C01 specification: an x86 / x86-64 instruction DECODER written from the Intel SDM vol. 2 chapter 2 (instruction format:
legacy prefixes, REX, VEX2/VEX3, XOP, EVEX P0/P1/P2, ModRM/SIB/displacement incl. 16-bit addressing, RIP-relative and
EVEX disp8*N compression, immediates) and the MONITOR of property C01: "the bytes decode, under the encoding rule of
some ISA-database form of that instruction that the operands instantiate, to exactly those operands; nothing else
is appended; the number of bytes equals the decoded length".

Independent of AsmJit: nothing in this file is derived from x86assembler.cpp. The database forms (`Rule`) are handed
in as data (translated from db/isa_x86.json by tools/gen_c01.py through the repository's reader db/x86.js).

Core-only (the driver links it).
-/
set_option linter.constructorNameAsVariable false
namespace Spec.X86

abbrev Byte := BitVec 8

/-! ## Operands as the caller states them -/

inductive RegKind
  | none | label | gpb | gpbhi | gpw | gpd | gpq | xmm | ymm | zmm | k | mm | st | sreg | creg | dreg | bnd | tmm | rip
  deriving DecidableEq, Repr, Inhabited

def RegKind.ofName : String → Option RegKind
  | "none" => some .none | "label" => some .label | "gpb" => some .gpb | "gpbhi" => some .gpbhi | "gpw" => some .gpw
  | "gpd" => some .gpd | "gpq" => some .gpq | "xmm" => some .xmm | "ymm" => some .ymm | "zmm" => some .zmm | "k" => some .k
  | "mm" => some .mm | "st" => some .st | "sreg" => some .sreg | "creg" => some .creg | "dreg" => some .dreg
  | "bnd" => some .bnd | "tmm" => some .tmm | "rip" => some .rip | _ => Option.none

structure MemOp where
  size : Nat            -- bytes, 0 = unspecified
  baseKind : RegKind    -- none | gpw | gpd | gpq | rip | label
  baseId : Nat          -- register id, or label position
  indexKind : RegKind   -- none | gpw | gpd | gpq | xmm | ymm | zmm
  indexId : Nat
  shift : Nat
  disp : BitVec 64
  seg : Nat             -- 0 none, 1 es 2 cs 3 ss 4 ds 5 fs 6 gs
  bcst : Nat            -- 0 none, n = {1to(2^n)}
  addrType : Nat        -- 0 default 1 abs 2 rel
  deriving Repr, Inhabited

inductive Operand
  | reg (kind : RegKind) (id : Nat)
  | mem (m : MemOp)
  | imm (v : BitVec 64)
  | label (pos : Nat)
  deriving Repr, Inhabited

/-- prefixes / decorations of the call that are visible in the encoding -/
structure Decor where
  lock : Bool := false
  rep : Bool := false
  repne : Bool := false
  xacquire : Bool := false
  xrelease : Bool := false
  z : Bool := false
  er : Bool := false
  sae : Bool := false
  rc : Nat := 0          -- rounding mode 0 rn 1 rd 2 ru 3 rz (only with er)
  k : Nat := 0           -- {k} register id, 0 = none
  deriving Repr, Inhabited

/-! ## Database forms -/

/-- one alternative of a database operand (`r32/m32` has two) -/
inductive Alt
  | reg (kind : RegKind) (fixed : Option Nat)      -- register class, optionally a fixed register (al, cl, xmm0, st(0) ...)
  | mem (size : Option Nat) (vsib : RegKind)       -- memory of `size` bytes (none = any); vsib = xmm/ymm/zmm index or none
  | imm (bits : Nat) (sign : Nat) (fixed : Option Nat)  -- sign: 0 either, 1 signed, 2 unsigned
  | rel (bits : Nat)
  deriving Repr, Inhabited

/-- where the operand lives in the encoding -/
inductive Role
  | none      -- fixed / implicit register or implicit memory: not encoded
  | reg       -- ModRM.reg (+ R, R')
  | rm        -- ModRM.rm / memory (+ B, X)
  | vvvv      -- VEX/EVEX.vvvv (+ V')
  | is4       -- imm8[7:4]
  | opc       -- low three bits of the opcode byte (+ B)
  | imm       -- immediate bytes, in operand order
  | rel       -- relative displacement
  | moff      -- absolute memory offset after the opcode (A0..A3)
  | implmem   -- implicit memory operand ([zdi], [zsi], [zax] ...): only its segment / address size is encoded
  deriving DecidableEq, Repr, Inhabited

structure FormOp where
  role : Role
  implicit : Bool
  alts : List Alt
  deriving Repr, Inhabited

structure Rule where
  modes : Nat            -- bit 0: valid in 32-bit mode, bit 1: valid in 64-bit mode
  space : Nat            -- 0 legacy, 1 VEX, 2 EVEX, 3 XOP, 4 3DNow!
  pp : Nat               -- mandatory prefixes: bit0 66, bit1 F3, bit2 F2, bit3 9B
  map : Nat              -- legacy: 0 one-byte, 1 0F, 2 0F38, 3 0F3A; VEX/EVEX/XOP: mmmmm
  w : Nat                -- 0 W0, 1 W1, 2 ignored
  l : Nat                -- 0 128, 1 256, 2 512, 3 ignored
  opcode : Nat
  ri : Bool              -- register in the low 3 bits of the opcode
  modKind : Nat          -- 0 no ModRM, 1 any mod, 2 mod = 11, 3 mod != 11
  modr : Nat             -- 0..7 fixed /digit, 8 = register operand
  modrm : Nat            -- 0..7 fixed, 8 = operand
  immBytes : Nat
  relBytes : Nat
  moff : Bool
  osz : Nat              -- operand-size attribute the form needs: 0 none stated, 16, 32, 64 (legacy groups)
  a67 : Bool             -- the form itself carries a 67 prefix
  tuple : Nat            -- EVEX tuple type: 0 none, 1 fv, 2 hv, 3 fvm, 4 t1s, 5 t1f, 6 t2, 7 t4, 8 t8, 9 hvm, 10 qvm, 11 ovm, 12 m128, 13 dup, 14 qv, 15 t1-by-W
  elem : Nat             -- element / scalar size in bytes for t1s, t2.., broadcast element for fv/hv (0 = unknown)
  kmask : Bool
  zmask : Bool
  er : Bool
  sae : Bool
  bcst : Bool
  immRev : Bool          -- far pointers (9A / EA): the offset is stored before the selector, i.e. immediates in reverse operand order
  ops : List FormOp
  deriving Repr, Inhabited

/-! ## Generic instruction-format parser (SDM 2.1 - 2.3, 2.7) -/

structure Parsed where
  prefixes : List Byte := []       -- legacy prefixes, in order
  rex : Option Byte := Option.none -- REX byte (legacy space only)
  vexKind : Nat := 0               -- 0 none, 2 VEX2, 3 VEX3, 4 EVEX, 5 XOP
  -- extension fields, already un-inverted (true = bit contributes 8 / 16 to the register number)
  W : Bool := false
  R : Bool := false
  X : Bool := false
  B : Bool := false
  R' : Bool := false
  V' : Bool := false
  vvvv : Nat := 0                  -- un-inverted
  L : Nat := 0                     -- L'L
  pp : Nat := 0                    -- 0 none 1 66 2 F3 3 F2
  map : Nat := 0
  z : Bool := false
  b : Bool := false
  aaa : Nat := 0
  opcode : Byte := 0
  modrm : Option Byte := Option.none
  sib : Option Byte := Option.none
  dispSize : Nat := 0
  disp : Nat := 0                  -- raw little-endian value
  imm : List Byte := []            -- everything after ModRM/SIB/disp (immediates, rel, moffs, 3DNow! opcode)
  addr16 : Bool := false
  length : Nat := 0
  deriving Repr, Inhabited

def isLegacyPrefix (b : Byte) (fwait : Bool) : Bool :=
  b == 0xF0 || b == 0xF2 || b == 0xF3 || b == 0x2E || b == 0x36 || b == 0x3E || b == 0x26 || b == 0x64 || b == 0x65 ||
  b == 0x66 || b == 0x67 || (fwait && b == 0x9B)

/-- splits the leading legacy prefixes off (at most 14: an instruction is at most 15 bytes) -/
def takePrefixes (fwait : Bool) : Nat → List Byte → List Byte × List Byte
  | 0, bs => ([], bs)
  | _, [] => ([], [])
  | n + 1, b :: bs =>
    if isLegacyPrefix b fwait then
      let (p, r) := takePrefixes fwait n bs
      (b :: p, r)
    else ([], b :: bs)

def leNat : List Byte → Nat
  | [] => 0
  | b :: bs => b.toNat + 256 * leNat bs

def bit (b : Byte) (i : Nat) : Bool := b.getLsbD i
def bits (b : Byte) (lo n : Nat) : Nat := (b.extractLsb' lo n).toNat

/-- ModRM / SIB / displacement, SDM tables 2-1 (16-bit), 2-2 and 2-3 (32/64-bit). Returns the parse with the rest. -/
def parseModRM (addr16 : Bool) (p : Parsed) : List Byte → Except String (Parsed × List Byte)
  | [] => .error "truncated: ModRM expected"
  | m :: rest =>
    let mod := bits m 6 2
    let rm := bits m 0 3
    let p := { p with modrm := some m, addr16 := addr16 }
    if mod == 3 then .ok (p, rest)
    else if addr16 then
      let dsz := if mod == 0 then (if rm == 6 then 2 else 0) else if mod == 1 then 1 else 2
      if rest.length < dsz then .error "truncated: disp16" else
      .ok ({ p with dispSize := dsz, disp := leNat (rest.take dsz) }, rest.drop dsz)
    else
      -- optional SIB
      if rm == 4 then
        match rest with
        | [] => .error "truncated: SIB expected"
        | s :: rest =>
          let base := bits s 0 3
          let dsz := if mod == 0 then (if base == 5 then 4 else 0) else if mod == 1 then 1 else 4
          if rest.length < dsz then .error "truncated: disp" else
          .ok ({ p with sib := some s, dispSize := dsz, disp := leNat (rest.take dsz) }, rest.drop dsz)
      else
        let dsz := if mod == 0 then (if rm == 5 then 4 else 0) else if mod == 1 then 1 else 4
        if rest.length < dsz then .error "truncated: disp" else
        .ok ({ p with dispSize := dsz, disp := leNat (rest.take dsz) }, rest.drop dsz)

/-- legacy opcode map escape bytes -/
def legacyEscape : Nat → List Byte
  | 0 => [] | 1 => [0x0F] | 2 => [0x0F, 0x38] | 3 => [0x0F, 0x3A] | _ => [0xFF, 0xFF, 0xFF]

/-- Parses `bytes` as ONE instruction of the shape the rule's encoding space prescribes. What must be known to find
the instruction boundary (presence of ModRM, number of immediate bytes) is taken from the rule, as in any table-driven
decoder; every field is returned for the monitor to judge. -/
def parse (mode64 : Bool) (r : Rule) (bytes : List Byte) : Except String Parsed := do
  let (pfx, rest) := takePrefixes (r.pp &&& 8 != 0) 14 bytes
  let has67 := pfx.contains 0x67
  let addr16 := !mode64 && has67
  let p : Parsed := { prefixes := pfx }
  -- prefix / opcode
  let (p, rest) ←
    if r.space == 0 || r.space == 4 then
      -- legacy: optional REX (64-bit mode only), escape bytes, opcode
      let (rex, rest) := match rest with
        | b :: bs => if mode64 && b.toNat / 16 == 4 then (some b, bs) else (Option.none, rest)
        | [] => (Option.none, rest)
      let p := match rex with
        | some b => { p with rex := some b, W := bit b 3, R := bit b 2, X := bit b 1, B := bit b 0 }
        | Option.none => p
      let esc := if r.space == 4 then [0x0F, 0x0F] else legacyEscape r.map
      if rest.take esc.length != esc then throw s!"opcode map escape {r.map} not found" else
      let rest := rest.drop esc.length
      if r.space == 4 then pure ({ p with map := r.map }, rest) else
      match rest with
      | [] => throw "truncated: opcode expected"
      | o :: rest => pure ({ p with map := r.map, opcode := o }, rest)
    else match rest with
      | 0xC5#8 :: b1 :: o :: rest =>
        if r.space != 1 then throw "VEX2 prefix on a non-VEX form" else
        if !mode64 && bits b1 6 2 != 3 then throw "C5 is LDS in 32-bit mode (R/vvvv[3] must be 1)" else
        pure ({ p with vexKind := 2, R := !bit b1 7, vvvv := 15 - bits b1 3 4, L := bits b1 2 1, pp := bits b1 0 2, map := 1, opcode := o }, rest)
      | 0xC4#8 :: b1 :: b2 :: o :: rest =>
        if r.space != 1 then throw "VEX3 prefix on a non-VEX form" else
        if !mode64 && bits b1 6 2 != 3 then throw "C4 is LES in 32-bit mode (R/X must be 1)" else
        pure ({ p with vexKind := 3, R := !bit b1 7, X := !bit b1 6, B := !bit b1 5, map := bits b1 0 5, W := bit b2 7,
                       vvvv := 15 - bits b2 3 4, L := bits b2 2 1, pp := bits b2 0 2, opcode := o }, rest)
      | 0x8F#8 :: b1 :: b2 :: o :: rest =>
        if r.space != 3 then throw "XOP prefix on a non-XOP form" else
        if bits b1 0 5 < 8 then throw "8F with mmmmm < 8 is POP" else
        pure ({ p with vexKind := 5, R := !bit b1 7, X := !bit b1 6, B := !bit b1 5, map := bits b1 0 5, W := bit b2 7,
                       vvvv := 15 - bits b2 3 4, L := bits b2 2 1, pp := bits b2 0 2, opcode := o }, rest)
      | 0x62#8 :: p0 :: p1 :: p2 :: o :: rest =>
        if r.space != 2 then throw "EVEX prefix on a non-EVEX form" else
        if !mode64 && bits p0 6 2 != 3 then throw "62 is BOUND in 32-bit mode (R/X must be 1)" else
        if bit p0 3 then throw "EVEX P0[3] must be 0" else
        if !bit p1 2 then throw "EVEX P1[2] must be 1" else
        pure ({ p with vexKind := 4, R := !bit p0 7, X := !bit p0 6, B := !bit p0 5, R' := !bit p0 4, map := bits p0 0 3,
                       W := bit p1 7, vvvv := 15 - bits p1 3 4, pp := bits p1 0 2,
                       z := bit p2 7, L := bits p2 5 2, b := bit p2 4, V' := !bit p2 3, aaa := bits p2 0 3, opcode := o }, rest)
      | _ => throw "VEX/EVEX/XOP prefix expected"
  -- ModRM
  let (p, rest) ← if r.modKind != 0 then parseModRM addr16 p rest else pure (p, rest)
  -- tail: immediates / rel / moffs / 3DNow! opcode
  let moffBytes := if r.moff then (if mode64 then (if has67 then 4 else 8) else (if has67 then 2 else 4)) else 0
  let tail := r.immBytes + r.relBytes + moffBytes + (if r.space == 4 then 1 else 0)
  if rest.length != tail then throw s!"length: {rest.length} bytes after opcode/ModRM/disp, the form has {tail}" else
  pure { p with imm := rest, length := bytes.length }

/-! ## The monitor: operands ↔ database form ↔ decoded fields -/

def fitsImm (bits sign : Nat) (v : BitVec 64) : Bool :=
  let s := v.toInt
  if bits ≥ 64 then true else
  let lo : Int := -(2 ^ (bits - 1) : Nat)
  let hiS : Int := (2 ^ (bits - 1) : Nat)
  let hiU : Int := (2 ^ bits : Nat)
  match sign with
  | 1 => lo ≤ s && s < hiS
  | 2 => 0 ≤ s && s < hiU
  | _ => lo ≤ s && s < hiU

def vsibOf (m : MemOp) : RegKind := match m.indexKind with | .xmm => .xmm | .ymm => .ymm | .zmm => .zmm | _ => .none

/-- operand size (bits) an immediate is extended / truncated to, when the form states one -/
def Rule.oszEff (r : Rule) : Nat :=
  if r.osz != 0 then r.osz else if (r.space == 0 || r.space == 4) && r.w == 1 then 64 else 0

/-- value range of a sign-extended immediate of an `osz`-bit operation: anything that is an `osz`-bit pattern -/
def fitsOsz (osz : Nat) (v : BitVec 64) : Bool :=
  let s := v.toInt
  decide (-((2 ^ (osz - 1) : Nat) : Int) ≤ s) && decide (s < ((2 ^ osz : Nat) : Int))

def altMatches (osz : Nat) (a : Alt) (o : Operand) : Bool :=
  match a, o with
  | .reg k fx, .reg k' id => k == k' && (match fx with | some f => f == id | Option.none => true)
  | .mem sz vs, .mem m => (match sz with | some s => m.size == s || (m.bcst != 0) | Option.none => true) && vsibOf m == vs
  | .imm bits sign fx, .imm v => (if sign == 1 && osz != 0 && bits < osz then fitsOsz osz v else fitsImm bits sign v) &&
      (match fx with | some f => v.toNat == f | Option.none => true)
  | .rel _, .label _ => true
  | .rel _, .imm _ => true
  | _, _ => false

def formOpMatches (osz : Nat) (f : FormOp) (o : Operand) : Bool := f.alts.any (altMatches osz · o)

/-- aligns the caller's operands with the form's operands: implicit form operands may be left out by the caller -/
def alignOps (osz : Nat) : List FormOp → List Operand → Option (List (FormOp × Option Operand))
  | [], [] => some []
  | [], _ :: _ => Option.none
  | f :: fs, [] => if f.implicit then (alignOps osz fs []).map ((f, Option.none) :: ·) else Option.none
  | f :: fs, o :: os =>
    if formOpMatches osz f o then
      match alignOps osz fs os with
      | some r => some ((f, some o) :: r)
      | Option.none => if f.implicit then (alignOps osz fs (o :: os)).map ((f, Option.none) :: ·) else Option.none
    else if f.implicit then (alignOps osz fs (o :: os)).map ((f, Option.none) :: ·) else Option.none

def segPrefix : Nat → Option Byte
  | 1 => some 0x26 | 2 => some 0x2E | 3 => some 0x36 | 4 => some 0x3E | 5 => some 0x64 | 6 => some 0x65 | _ => Option.none

def sextNat (v bitsN : Nat) : Int := if v ≥ 2 ^ (bitsN - 1) then (v : Int) - (2 ^ bitsN : Nat) else v

/-- EVEX disp8*N, SDM vol. 2 table 2-34 / 2-35 ("Compressed Displacement (DISP8*N)") -/
def disp8Nf (r : Rule) (L : Nat) (W b : Bool) : Nat :=
  let vl := match L with | 0 => 16 | 1 => 32 | _ => 64
  let w := if W then 8 else 4
  let e := if r.elem != 0 then r.elem else w
  match r.tuple with
  | 1 => if b then e else vl               -- full vector
  | 2 => if b then e else vl / 2           -- half vector
  | 3 => vl                                   -- full vector mem
  | 4 => e                                    -- tuple1 scalar
  | 5 => e                                    -- tuple1 fixed
  | 6 => 2 * e                                -- tuple2
  | 7 => 4 * e                                -- tuple4
  | 8 => 8 * e                                -- tuple8
  | 9 => vl / 2                               -- half mem
  | 10 => vl / 4                              -- quarter mem
  | 11 => vl / 8                              -- eighth mem
  | 12 => 16                                  -- mem128
  | 13 => if vl == 16 then 8 else vl          -- movddup
  | 14 => if b then e else vl / 4           -- quarter vector
  | 15 => w                                   -- tuple1 by W
  | _ => 1

def disp8N (r : Rule) (p : Parsed) : Nat := disp8Nf r p.L p.W p.b

structure Ctx where
  mode64 : Bool
  base : Option Nat      -- base address of the code, if known
  off : Nat              -- offset of the instruction

def regNum (hi4 hi3 : Bool) (lo : Nat) : Nat := lo + (if hi3 then 8 else 0) + (if hi4 then 16 else 0)

def addrSizeOfKind (mode64 : Bool) : RegKind → Nat
  | .gpw => 16 | .gpd => 32 | .gpq => 64 | _ => if mode64 then 64 else 32

/-- address size the memory operand asks for -/
def wantedAddrSize (mode64 : Bool) (m : MemOp) : Nat :=
  match m.baseKind, m.indexKind with
  | .gpw, _ => 16 | .gpd, _ => 32 | .gpq, _ => 64
  | _, .gpw => 16 | _, .gpd => 32 | _, .gpq => 64
  | _, _ => if mode64 then 64 else 32

/-- 16-bit addressing forms, SDM table 2-1: rm -> (base, index) register ids (3 = BX, 5 = BP, 6 = SI, 7 = DI) -/
def addr16Regs : Nat → Option Nat × Option Nat
  | 0 => (some 3, some 6) | 1 => (some 3, some 7) | 2 => (some 5, some 6) | 3 => (some 5, some 7)
  | 4 => (some 6, Option.none) | 5 => (some 7, Option.none) | 6 => (some 5, Option.none) | _ => (some 3, Option.none)

def checkMem (c : Ctx) (r : Rule) (p : Parsed) (m : MemOp) : Except String Unit := do
  let some mb := p.modrm | throw "memory operand but no ModRM"
  let mod := bits mb 6 2
  let rm := bits mb 0 3
  if mod == 3 then throw "memory operand but ModRM.mod = 11" else
  let has67 := p.prefixes.contains 0x67
  let asz := if c.mode64 then (if has67 then 32 else 64) else (if has67 then 16 else 32)
  let vsib := vsibOf m != .none
  if p.addr16 then
    -- 16-bit addressing
    if wantedAddrSize c.mode64 m != 16 then throw "16-bit addressing (67 prefix) but the operand does not use 16-bit registers" else
    if vsib then throw "VSIB with 16-bit addressing" else
    if mod == 0 && rm == 6 then
      if m.baseKind != .none || m.indexKind != .none then throw "disp16-only form but the operand has registers" else
      if (m.disp.toNat % 65536) != p.disp then throw s!"disp16 {p.disp} != {m.disp.toNat % 65536}" else pure ()
    else
      let (b, i) := addr16Regs rm
      -- the operand may give the two registers in either order
      let ob := if m.baseKind == .gpw then some m.baseId else Option.none
      let oi := if m.indexKind == .gpw then some m.indexId else Option.none
      if !((ob == b && oi == i) || (ob == i && oi == b && i.isSome) || (ob == Option.none && oi == b && i == Option.none)) then
        throw s!"16-bit address registers: decoded rm={rm}, operand base={repr ob} index={repr oi}" else
      if m.shift != 0 && oi.isSome then throw "scaled index in 16-bit addressing" else
      let d : Int := if p.dispSize == 0 then 0 else if p.dispSize == 1 then sextNat p.disp 8 else sextNat p.disp 16
      let want : Int := sextNat (m.disp.toNat % 65536) 16
      if d != want then throw s!"disp16: decoded {d}, expected {want}" else pure ()
  else do
    -- 32/64-bit addressing
    let wantA := wantedAddrSize c.mode64 m
    -- decoded components
    let (dBase, dIndex, dScale, ripRel) : (Option Nat × Option Nat × Nat × Bool) :=
      match p.sib with
      | Option.none =>
        if mod == 0 && rm == 5 then (Option.none, Option.none, 0, c.mode64)
        else (some (regNum false p.B rm), Option.none, 0, false)
      | some s =>
        let sb := bits s 0 3
        let si := bits s 3 3
        let ss := bits s 6 2
        let base := if mod == 0 && sb == 5 then Option.none else some (regNum false p.B sb)
        let idx := if vsib then some (regNum p.V' p.X si)
                   else if regNum false p.X si == 4 then Option.none else some (regNum false p.X si)
        (base, idx, ss, false)
    if vsib && p.sib.isNone then throw "VSIB form without SIB byte" else
    -- displacement
    let n := if p.vexKind == 4 then disp8N r p else 1
    let d : Int := if p.dispSize == 0 then 0 else if p.dispSize == 1 then sextNat p.disp 8 * n else sextNat p.disp 32
    let hasRegs := m.baseKind == .gpd || m.baseKind == .gpq || m.indexKind != .none
    if hasRegs then
      if asz != wantA then throw s!"address size: decoded {asz}, operand registers need {wantA}" else
      let ob := if m.baseKind == .gpd || m.baseKind == .gpq then some m.baseId else Option.none
      let oi := if m.indexKind != .none then some m.indexId else Option.none
      if m.baseKind == .label || m.baseKind == .rip then throw "label/rip base with index" else
      if ripRel then throw "decoded RIP-relative, operand has registers" else
      if dBase != ob then throw s!"base register: decoded {repr dBase}, expected {repr ob}" else
      if dIndex != oi then throw s!"index register: decoded {repr dIndex}, expected {repr oi}" else
      if oi.isSome && dScale != m.shift then throw s!"scale: decoded {dScale}, expected {m.shift}" else
      if oi.isNone && dScale != 0 then throw "scale bits without index" else
      let want : Int := if ob.isSome then sextNat (m.disp.toNat % 2 ^ 32) 32 else sextNat (m.disp.toNat % 2 ^ 32) 32
      if d != want then throw s!"displacement: decoded {d}, expected {want}" else pure ()
    else do
      -- no registers: absolute address, RIP-relative, or label
      if dIndex.isSome then throw "decoded an index register, operand has none" else
      if dScale != 0 then throw "scale bits without index" else
      let next : Option Nat := c.base.map (· + c.off + p.length)
      match m.baseKind with
      | .rip =>
        if !ripRel then throw "operand is [rip+disp] but the encoding is not RIP-relative" else
        if has67 then throw "67 prefix on a RIP-relative operand" else
        if d != sextNat (m.disp.toNat % 2 ^ 32) 32 then throw s!"rip displacement: decoded {d}" else pure ()
      | .label =>
        if !c.mode64 then throw "label memory operand in 32-bit mode is a relocation (not judged here)" else
        if !ripRel then throw "operand is [label] but the encoding is not RIP-relative" else
        -- target = label position + disp, relative to the end of the instruction
        let want : Int := (m.baseId : Int) + sextNat (m.disp.toNat % 2 ^ 32) 32 - ((c.off + p.length : Nat) : Int)
        if d != want then throw s!"label displacement: decoded {d}, expected {want}" else pure ()
      | _ =>
        if dBase.isSome then throw s!"decoded base register {repr dBase}, operand has none" else
        if ripRel then
          match next with
          | Option.none => throw "RIP-relative encoding of an absolute address without a base address"
          | some nx =>
            if m.addrType == 1 then throw "operand asks for an absolute address, encoding is RIP-relative" else
            let tgt : Int := ((nx : Int) + d) % (2 ^ 64 : Nat)
            if tgt != (m.disp.toNat : Int) then throw s!"rip-relative target {tgt}, expected {m.disp.toNat}" else pure ()
        else
          if m.addrType == 2 then throw "operand asks for a relative address, encoding is absolute" else
          -- disp32 sign-extended to the address size, address truncated to the address size
          let ea : Int := d % (2 ^ asz : Nat)
          if ea != (m.disp.toNat : Int) then throw s!"absolute address: decoded {ea} (address size {asz}), expected {m.disp.toNat}" else pure ()

def immBytesOf (bits : Nat) : Nat := if bits ≤ 8 then 1 else bits / 8

/-- little-endian bytes of the low `n` bytes of `v` -/
def leBytes (v : Nat) : Nat → List Byte
  | 0 => []
  | n + 1 => BitVec.ofNat 8 v :: leBytes (v / 256) n

/-- which alternative of a form operand is the immediate one (bits) -/
def immSignOf (f : FormOp) : Nat := f.alts.foldl (fun acc a => match a with | .imm _ s _ => s | _ => acc) 0
def immBitsOf (f : FormOp) : Nat := f.alts.foldl (fun acc a => match a with | .imm b _ _ => b | .rel b => b | _ => acc) 0

/-! ### The predicate, as a list of named conditions

`conds` lists every condition of the property for ONE database form, in order; the form explains the bytes iff all hold
(`formOk`), and the first failing one is the diagnostic (`checkForm`). Having ONE definition for the verdict and for the
message keeps the theorems of Props/C01Front.lean about exactly what the monitor evaluates. -/

structure Chk where
  ok : Bool
  msg : Unit → String

def allOk (l : List Chk) : Bool := l.all (·.ok)
def firstFail : List Chk → Option String
  | [] => Option.none
  | c :: cs => if c.ok then firstFail cs else some (c.msg ())

def ofExcept (pre : String) (e : Except String Unit) : Chk :=
  match e with
  | .ok _ => ⟨true, fun _ => ""⟩
  | .error m => ⟨false, fun _ => pre ++ m⟩

def memOperandOf (ops : List Operand) : Option MemOp :=
  ops.foldl (fun acc o => match o with | .mem m => some m | _ => acc) Option.none

def implMemOf (al : List (FormOp × Option Operand)) : Option MemOp :=
  al.foldl (fun acc fo => match fo with
    | (f, some (.mem m)) => if f.role == .implmem || f.role == .rm || f.role == .moff then some m else acc
    | _ => acc) Option.none

def hasBcst (mo : Option MemOp) : Bool := match mo with | some m => m.bcst != 0 | Option.none => false

/-- stage 1: decorations allowed by the form -/
def decorConds (r : Rule) (d : Decor) (memOp : Option MemOp) : List Chk :=
  [⟨!(d.k != 0 && !r.kmask), fun _ => "1 {k} not allowed by the form"⟩,
   ⟨!(d.z && !r.zmask), fun _ => "1 {z} not allowed by the form"⟩,
   ⟨!(d.er && !r.er), fun _ => "1 {er} not allowed by the form"⟩,
   ⟨!(d.sae && !r.sae && !r.er), fun _ => "1 {sae} not allowed by the form"⟩,
   ⟨!(hasBcst memOp && !r.bcst), fun _ => "1 broadcast not allowed by the form"⟩]

def isLegacySpace (r : Rule) : Bool := r.space == 0 || r.space == 4
def ppWant (r : Rule) : Nat := if r.pp &&& 1 != 0 then 1 else if r.pp &&& 2 != 0 then 2 else if r.pp &&& 4 != 0 then 3 else 0
def wWant (r : Rule) : Nat := if isLegacySpace r then (if r.w == 1 || r.osz == 64 then 1 else if r.w == 2 then 2 else 0) else r.w

/-- stage 3: opcode, map, mandatory prefix, W, L -/
def headConds (r : Rule) (p : Parsed) (memOp : Option MemOp) : List Chk :=
  let opc := if r.ri then (p.opcode &&& 0xF8#8).toNat else p.opcode.toNat
  [⟨r.space == 4 || opc == r.opcode, fun _ => s!"3 opcode byte {p.opcode.toNat}, the form has {r.opcode}"⟩,
   ⟨r.space != 4 || p.imm.getLast? == some (BitVec.ofNat 8 r.opcode), fun _ => "3 3DNow! opcode suffix"⟩,
   ⟨p.vexKind == 0 || p.map == r.map, fun _ => s!"3 opcode map {p.map}, the form has {r.map}"⟩,
   ⟨p.vexKind == 0 || p.pp == ppWant r, fun _ => s!"3 pp {p.pp}, the form has {ppWant r}"⟩,
   ⟨wWant r == 2 || p.W == (wWant r == 1), fun _ => s!"3 W bit {p.W}, the form needs {wWant r}"⟩,
   ⟨p.vexKind == 0 || r.l == 3 || (p.vexKind == 4 && p.b && memOp.isNone) || p.L == r.l, fun _ => s!"3 vector length L={p.L}, the form has {r.l}"⟩,
   ⟨!((p.vexKind == 2 || p.vexKind == 3 || p.vexKind == 5) && p.L > 1), fun _ => "3 L"⟩]

def isSegByte (b : Byte) : Bool := b == 0x26 || b == 0x2E || b == 0x36 || b == 0x3E || b == 0x64 || b == 0x65

/-- stage 4: legacy prefixes: exactly the ones the form and the call ask for -/
def prefixConds (c : Ctx) (r : Rule) (p : Parsed) (d : Decor) (implMem : Option MemOp) : List Chk :=
  let want66 := isLegacySpace r && (r.pp &&& 1 != 0 || r.osz == 16)
  let wantF3 := (isLegacySpace r && r.pp &&& 2 != 0) || d.rep || d.xrelease
  let wantF2 := (isLegacySpace r && r.pp &&& 4 != 0) || d.repne || d.xacquire
  let want9B := r.pp &&& 8 != 0
  let wantSeg := match implMem with | some m => segPrefix m.seg | Option.none => Option.none
  let aszWant := match implMem with
    | some m => wantedAddrSize c.mode64 m
    | Option.none => if c.mode64 then 64 else 32
  let has67 := p.prefixes.contains 0x67
  let cnt (b : Byte) := p.prefixes.count b
  let segs := p.prefixes.filter isSegByte
  let absNoRegs := match implMem with
    | some m => m.baseKind == .none && m.indexKind == .none
    | Option.none => false
  let defA := if c.mode64 then 64 else 32
  [⟨cnt 0x66 == (if want66 then 1 else 0), fun _ => s!"4 operand-size prefix 66: {cnt 0x66} present, wanted {want66}"⟩,
   ⟨cnt 0xF3 == (if wantF3 then 1 else 0), fun _ => s!"4 F3 prefix: {cnt 0xF3} present, wanted {wantF3}"⟩,
   ⟨cnt 0xF2 == (if wantF2 then 1 else 0), fun _ => s!"4 F2 prefix: {cnt 0xF2} present, wanted {wantF2}"⟩,
   ⟨cnt 0xF0 == (if d.lock then 1 else 0), fun _ => s!"4 lock prefix: {cnt 0xF0} present, wanted {d.lock}"⟩,
   ⟨cnt 0x9B == (if want9B then 1 else 0), fun _ => "4 fwait prefix"⟩,
   ⟨segs == (match wantSeg with | some s => [s] | Option.none => []), fun _ => s!"4 segment prefixes {repr (segs.map (·.toNat))}, wanted {repr (wantSeg.map (·.toNat))}"⟩,
   ⟨cnt 0x67 ≤ 1, fun _ => "4 67 twice"⟩,
   ⟨absNoRegs || r.a67 || has67 == (aszWant != defA), fun _ => s!"4 address-size prefix 67 present={has67}, operand address size {aszWant}"⟩,
   ⟨p.vexKind == 0 || (cnt 0x66 + cnt 0xF2 + cnt 0xF3 + cnt 0xF0 == 0 && p.rex.isNone), fun _ => "4 66/F2/F3/F0/REX before VEX/EVEX"⟩]

/-- stage 5: fixed parts of ModRM -/
def modrmConds (r : Rule) (p : Parsed) : List Chk :=
  match p.modrm with
  | some mb =>
    [⟨!(r.modKind == 2 && bits mb 6 2 != 3), fun _ => "5 ModRM.mod must be 11"⟩,
     ⟨!(r.modKind == 3 && bits mb 6 2 == 3), fun _ => "5 ModRM.mod must not be 11"⟩,
     ⟨!(r.modr < 8 && bits mb 3 3 != r.modr), fun _ => s!"5 ModRM.reg {bits mb 3 3}, the form has /{r.modr}"⟩,
     ⟨!(r.modrm < 8 && bits mb 0 3 != r.modrm), fun _ => s!"5 ModRM.rm {bits mb 0 3}, the form has {r.modrm}"⟩]
  | Option.none => []

/-- a register operand in a register field; `n` is the decoded register number -/
def regConds (what : String) (k : RegKind) (id n : Nat) (p : Parsed) : List Chk :=
  match k with
  | .gpbhi =>
    [⟨p.rex.isNone, fun _ => s!"{what}: AH..BH with a REX prefix decodes as SPL..DIL"⟩,
     ⟨n == id + 4, fun _ => s!"{what}: decoded register {n}, expected {id + 4} (high byte register {id})"⟩]
  | .gpb =>
    [⟨!(id ≥ 4 && id < 8 && p.rex.isNone && p.vexKind == 0), fun _ => s!"{what}: SPL..DIL without REX decodes as AH..BH"⟩,
     ⟨n == id, fun _ => s!"{what}: decoded register {n}, expected {id}"⟩]
  | .sreg => [⟨n + 1 == id, fun _ => s!"{what}: decoded segment register {n}, expected {id - 1}"⟩]
  | _ => [⟨n == id, fun _ => s!"{what}: decoded register {n}, expected {id}"⟩]

/-- stage 6: one operand in its field; returns the conditions and the new position in the immediate bytes -/
def opConds (c : Ctx) (r : Rule) (p : Parsed) (immPos : Nat) (f : FormOp) (o : Operand) : List Chk × Nat :=
  match f.role, o with
  | .none, _ => ([], immPos)
  | .implmem, _ => ([], immPos)
  | .reg, .reg k id =>
    match p.modrm with
    | some mb => (regConds "6 ModRM.reg" k id (regNum p.R' p.R (bits mb 3 3)) p, immPos)
    | Option.none => ([⟨false, fun _ => "6 no ModRM for a reg operand"⟩], immPos)
  | .rm, .reg k id =>
    match p.modrm with
    | some mb =>
      (⟨bits mb 6 2 == 3, fun _ => "6 register operand but ModRM.mod != 11"⟩ ::
        regConds "6 ModRM.rm" k id (regNum (p.vexKind == 4 && p.X) p.B (bits mb 0 3)) p, immPos)
    | Option.none => ([⟨false, fun _ => "6 no ModRM for a r/m operand"⟩], immPos)
  | .rm, .mem m => ([ofExcept "6 mem: " (checkMem c r p m)], immPos)
  | .vvvv, .reg k id =>
    (⟨p.vexKind != 0, fun _ => "6 vvvv operand without VEX/EVEX"⟩ :: regConds "6 vvvv" k id (regNum p.V' false p.vvvv) p, immPos)
  | .opc, .reg k id => (regConds "6 opcode+r" k id (regNum false p.B (bits p.opcode 0 3)) p, immPos)
  | .is4, .reg _ id =>
    match p.imm[immPos]? with
    | some b =>
      let n := if c.mode64 then bits b 4 4 else bits b 4 3
      ([⟨n == id, fun _ => s!"6 is4 register {n}, expected {id}"⟩], immPos)
    | Option.none => ([⟨false, fun _ => "6 is4 byte missing"⟩], immPos)
  | .imm, .imm v =>
    let nb := immBitsOf f
    if nb == 4 then
      match p.imm[immPos]? with
      | some b => ([⟨bits b 0 4 == v.toNat % 16, fun _ => s!"6 imm4 {bits b 0 4}, expected {v.toNat % 16}"⟩], immPos)
      | Option.none => ([⟨false, fun _ => "6 imm4 byte missing"⟩], immPos)
    else
      let n := immBytesOf nb
      let pos := if r.immRev then (if immPos == 0 then r.immBytes - n else 0) else immPos
      let got := (p.imm.drop pos).take n
      let osz := r.oszEff
      if immSignOf f == 1 && osz != 0 && 8 * n < osz then
        let ext : Int := sextNat (leNat got) (8 * n) % ((2 ^ osz : Nat) : Int)
        ([⟨ext == ((v.toNat % 2 ^ osz : Nat) : Int), fun _ => s!"6 sign-extended immediate {ext}, expected {v.toNat % 2 ^ osz}"⟩], immPos + n)
      else
        ([⟨got == leBytes v.toNat n, fun _ => s!"6 immediate bytes {repr (got.map (·.toNat))}, expected {repr ((leBytes v.toNat n).map (·.toNat))}"⟩], immPos + n)
  | .rel, o =>
    let n := r.relBytes
    let got := leNat ((p.imm.drop immPos).take n)
    let dsp : Int := sextNat got (8 * n)
    let endOff : Int := ((c.off + p.length : Nat) : Int)
    match o with
    | .label pos => ([⟨endOff + dsp == (pos : Int), fun _ => s!"6 rel target offset {endOff + dsp}, label is at {pos}"⟩], immPos + n)
    | .imm v =>
      match c.base with
      | Option.none => ([⟨false, fun _ => "6 rel to an absolute address without base address (relocation, not judged here)"⟩], immPos + n)
      | some b =>
        let w := if c.mode64 then 64 else 32
        let tgt : Int := ((b : Int) + endOff + dsp) % (2 ^ w : Nat)
        ([⟨tgt == ((v.toNat % 2 ^ w : Nat) : Int), fun _ => s!"6 rel target {tgt}, expected {v.toNat}"⟩], immPos + n)
    | _ => ([⟨false, fun _ => "6 rel operand kind"⟩], immPos + n)
  | .moff, .mem m =>
    let n := p.imm.length - r.immBytes
    let got := leNat (p.imm.take n)
    ([⟨m.baseKind == .none && m.indexKind == .none, fun _ => "6 moffs operand with registers"⟩,
      ⟨got == m.disp.toNat, fun _ => s!"6 moffs address {got}, expected {m.disp.toNat}"⟩], immPos)
  | _, _ => ([⟨false, fun _ => "6 operand kind does not fit its encoding role"⟩], immPos)

def operandConds (c : Ctx) (r : Rule) (p : Parsed) : Nat → List (FormOp × Option Operand) → List Chk
  | _, [] => []
  | immPos, (_, Option.none) :: rest => operandConds c r p immPos rest
  | immPos, (f, some o) :: rest =>
    let (cs, immPos') := opConds c r p immPos f o
    cs ++ operandConds c r p immPos' rest

/-- the first explicit operand (the destination) is a memory operand in ModRM.rm -/
def memDestOf (al : List (FormOp × Option Operand)) : Bool :=
  match al.find? (fun fo => fo.2.isSome) with
  | some (f, some (.mem _)) => f.role == .rm
  | _ => false

def usesVvvv (al : List (FormOp × Option Operand)) : Bool :=
  al.any (fun fo => match fo with | (f, some (.reg _ _)) => f.role == .vvvv | _ => false)

/-- stage 7: fields no operand uses must be neutral; EVEX decorations -/
def tailConds (p : Parsed) (d : Decor) (memOp : Option MemOp) (usedVvvv : Bool) (memDest : Bool := false) : List Chk :=
  let vsibM := match memOp with | some m => vsibOf m != .none | Option.none => false
  [⟨!(p.vexKind != 0 && !usedVvvv && p.vvvv != 0), fun _ => s!"7 vvvv = {p.vvvv} but no operand is encoded there"⟩,
   ⟨!(p.vexKind == 4 && !usedVvvv && !vsibM && p.V'), fun _ => "7 V' set but unused"⟩] ++
  (if p.vexKind == 4 then
    [⟨p.aaa == d.k, fun _ => s!"7 aaa = {p.aaa}, call has k{d.k}"⟩,
     ⟨p.z == d.z, fun _ => s!"7 z = {p.z}, call has z={d.z}"⟩,
     ⟨p.b == (hasBcst memOp || d.er || d.sae), fun _ => s!"7 b = {p.b}"⟩,
     ⟨!(d.er && p.L != d.rc), fun _ => s!"7 rounding control {p.L}, wanted {d.rc}"⟩,
     -- SDM 2.7: EVEX gather / scatter need a mask register other than k0 (aaa = 000 is #UD)
     ⟨!(vsibM && p.aaa == 0), fun _ => "7 EVEX gather/scatter without a mask register (aaa = 000) is undefined"⟩,
     -- SDM 2.7.4: zeroing-masking is not defined for a memory destination (EVEX.z must be 0)
     ⟨!(p.z && memDest), fun _ => "7 {z} with a memory destination is undefined"⟩,
     ⟨p.map < 8, fun _ => "7 EVEX map"⟩]
   else
    [⟨!(d.k != 0 || d.z || d.er || d.sae), fun _ => "7 AVX-512 decoration without EVEX"⟩,
     ⟨!hasBcst memOp, fun _ => "7 broadcast without EVEX"⟩])

/-- all conditions of the property for ONE database form -/
def conds (c : Ctx) (r : Rule) (ops : List Operand) (d : Decor) (bytes : List Byte) : List Chk :=
  ⟨(if c.mode64 then r.modes &&& 2 else r.modes &&& 1) != 0, fun _ => "1 form not available in this mode"⟩ ::
  match alignOps r.oszEff r.ops ops with
  | Option.none => [⟨false, fun _ => "1 operands do not instantiate the form"⟩]
  | some al =>
    let memOp := memOperandOf ops
    decorConds r d memOp ++
    match parse c.mode64 r bytes with
    | .error e => [⟨false, fun _ => "2 " ++ e⟩]
    | .ok p =>
      headConds r p memOp ++ prefixConds c r p d (implMemOf al) ++ modrmConds r p ++ operandConds c r p 0 al ++
      tailConds p d memOp (usesVvvv al) (memDestOf al)

/-- The property's predicate for ONE database form (what the theorems are about). -/
def formOk (c : Ctx) (r : Rule) (ops : List Operand) (d : Decor) (bytes : List Byte) : Bool := allOk (conds c r ops d bytes)

/-- the same predicate with the first failing condition as diagnostic -/
def checkForm (c : Ctx) (r : Rule) (ops : List Operand) (d : Decor) (bytes : List Byte) : Except String Unit :=
  match firstFail (conds c r ops d bytes) with
  | Option.none => .ok ()
  | some m => .error m

theorem checkForm_ok_iff (c : Ctx) (r : Rule) (ops : List Operand) (d : Decor) (bytes : List Byte) :
    checkForm c r ops d bytes = .ok () ↔ formOk c r ops d bytes = true := by
  unfold checkForm formOk
  generalize conds c r ops d bytes = l
  induction l with
  | nil => simp [firstFail, allOk]
  | cons a l ih =>
    cases h : a.ok
    · simp [firstFail, allOk, h]
    · simp only [firstFail, h, ↓reduceIte, allOk, List.all_cons, Bool.true_and]
      simpa [allOk] using ih

/-- The monitor of C01: some form of the instruction's database entry explains the bytes.
Returns the index of the form, or the reason of the form that got furthest. -/
def check (c : Ctx) (forms : Array Rule) (ops : List Operand) (d : Decor) (bytes : List Byte) : Except String Nat := Id.run do
  let mut best := "0 instruction has no database form"
  for h : i in [0:forms.size] do
    match checkForm c forms[i] ops d bytes with
    | .ok _ => return .ok i
    | .error e => if e > best then best := e
  return .error best

end Spec.X86
