/-
Decoder of the generated instance rows of Gen/X86Forms.lean (one instantiated ISA-database form = one list of naturals,
see tools/gen_x86forms.py `encode_line`) and the two statements the regenerated tables are checked against:
every implemented database form is accepted by the validator model in every mode the database allows, and refused in a
mode the database excludes.
-/
import AsmjitVerif.Model.X86Validate
namespace AsmjitVerif.X86Forms
open AsmjitVerif.X86Validate

def decodeOps : Nat → List Nat → List Operand
  | 0, _ => []
  | _ + 1, [] => []
  | f + 1, 0 :: r => .none :: decodeOps f r
  | f + 1, 1 :: t :: i :: r => .reg t i :: decodeOps f r
  | f + 1, 2 :: sz :: bt :: bi :: it :: ii :: sh :: off :: seg :: bc :: r => .mem sz bt bi it ii sh off seg bc :: decodeOps f r
  | f + 1, 3 :: v :: r => .imm v :: decodeOps f r
  | f + 1, 4 :: r => .label :: decodeOps f r
  | _ + 1, _ => [.other]

def decodeInstance : List Nat → Option (Inst × List Operand)
  | mode :: id :: opts :: ef :: et :: ei :: r =>
    some ({ mode := mode, id := id, options := opts, extra := if ef = 1 then some (et, ei) else none }, decodeOps r.length r)
  | _ => none

/-- base-2^65 digits of a packed chunk, least significant first -/
def digits : Nat → Nat → List Nat
  | 0, _ => []
  | f + 1, n => n % 0x20000000000000000 :: digits f (n >>> 65)

/-- rows are terminated by the digit 2^64 -/
def splitRows : List Nat → List Nat → List (List Nat)
  | [], _ => []
  | d :: r, acc => if d = 0x10000000000000000 then acc.reverse :: splitRows r [] else splitRows r (d :: acc)

def unpack (chunk : Nat × Nat) : List (List Nat) := splitRows (digits chunk.2 chunk.1) []

/-- the instruction data a bucket of rows needs, by instruction id -/
def lookupR (rs : List (Nat × ResolvedInst)) (id : Nat) : Option ResolvedInst := (rs.find? (·.1 == id)).map (·.2)

/-- one row = expectation (1: the database allows the mode, the validator must accept; 0: excluded mode, must refuse)
    followed by the instance -/
def rowOk (rs : List (Nat × ResolvedInst)) (row : List Nat) : Bool :=
  match row with
  | [] => false
  | exp :: rest =>
    match decodeInstance rest with
    | none => false
    | some (i, ops) =>
      if i.id = 0 then false else      -- `Inst::kIdNone` is not an instruction (and no row names it)
      match lookupR rs i.id with
      | none => false
      | some R => if exp = 1 then validateR R i ops == .ok else validateR R i ops != .ok

def bucketOk (rs : List (Nat × ResolvedInst)) (chunk : Nat × Nat) : Bool := (unpack chunk).all (rowOk rs)

/-- the per-bucket copy of the instruction data is what the tables say -/
def resolvedOk (T : SigTables) (rs : List (Nat × ResolvedInst)) : Bool := rs.all fun (id, R) => resolve T id == some R

/-- a checked row, stated about the validator over the full tables -/
theorem rowOk_sound (T : SigTables) (rs : List (Nat × ResolvedInst)) (hrs : resolvedOk T rs = true) (row : List Nat)
    (h : rowOk rs row = true) :
    ∃ exp rest i ops, row = exp :: rest ∧ decodeInstance rest = some (i, ops) ∧
      (exp = 1 → validate T i ops = .ok) ∧ (exp ≠ 1 → validate T i ops ≠ .ok) := by
  unfold rowOk at h
  cases row with
  | nil => exact absurd h (by simp)
  | cons exp rest =>
    simp only at h
    cases hd : decodeInstance rest with
    | none => rw [hd] at h; exact absurd h (by simp)
    | some p =>
      obtain ⟨i, ops⟩ := p
      rw [hd] at h
      simp only at h
      by_cases hid : i.id = 0
      · rw [if_pos hid] at h; exact absurd h (by simp)
      rw [if_neg hid] at h
      cases hl : lookupR rs i.id with
      | none => rw [hl] at h; exact absurd h (by simp)
      | some R =>
        rw [hl] at h
        simp only at h
        have hres : resolve T i.id = some R := by
          unfold lookupR at hl
          cases hf : rs.find? (·.1 == i.id) with
          | none => rw [hf] at hl; simp at hl
          | some q =>
            rw [hf] at hl
            simp only [Option.map_some, Option.some.injEq] at hl
            have hm := List.mem_of_find?_eq_some hf
            have hq := List.find?_some hf
            have := (List.all_eq_true.mp hrs) q hm
            obtain ⟨qid, qR⟩ := q
            simp only at hl hq this
            have e1 : qid = i.id := by simpa using hq
            subst hl
            rw [← e1]
            simpa using this
        have hv : validate T i ops = validateR R i ops := by unfold validate; rw [if_neg hid, hres]
        refine ⟨exp, rest, i, ops, rfl, hd, ?_, ?_⟩
        · intro he; rw [hv]; simpa [he] using h
        · intro he; rw [hv]; simpa [he] using h

end AsmjitVerif.X86Forms
