/-
Decoder of the generated instance rows of Gen/X86Forms.lean (one instantiated ISA-database form = one list of naturals,
see tools/gen_x86forms.py `encode_line`) and the two statements the regenerated tables are checked against:
every implemented database form is accepted by the validator model in every mode the database allows, and refused in a
mode the database excludes.
-/
import AsmjitVerif.Model.X86Validate
namespace AsmjitVerif.X86Forms
open AsmjitVerif.X86Validate

def decodeOps : Nat → List Nat → List Operand
  | 0, _ => []
  | _ + 1, [] => []
  | f + 1, 0 :: r => .none :: decodeOps f r
  | f + 1, 1 :: t :: i :: r => .reg t i :: decodeOps f r
  | f + 1, 2 :: sz :: bt :: bi :: it :: ii :: sh :: off :: seg :: bc :: r => .mem sz bt bi it ii sh off seg bc :: decodeOps f r
  | f + 1, 3 :: v :: r => .imm v :: decodeOps f r
  | f + 1, 4 :: r => .label :: decodeOps f r
  | _ + 1, _ => [.other]

def decodeInstance : List Nat → Option (Inst × List Operand)
  | mode :: id :: opts :: ef :: et :: ei :: r =>
    some ({ mode := mode, id := id, options := opts, extra := if ef = 1 then some (et, ei) else none }, decodeOps r.length r)
  | _ => none

/-- base-2^65 digits of a packed chunk, least significant first -/
def digits : Nat → Nat → List Nat
  | 0, _ => []
  | f + 1, n => n % 0x20000000000000000 :: digits f (n >>> 65)

/-- rows are terminated by the digit 2^64 -/
def splitRows : List Nat → List Nat → List (List Nat)
  | [], _ => []
  | d :: r, acc => if d = 0x10000000000000000 then acc.reverse :: splitRows r [] else splitRows r (d :: acc)

def unpack (chunk : Nat × Nat) : List (List Nat) := splitRows (digits chunk.2 chunk.1) []

def accepted (T : SigTables) (row : List Nat) : Bool :=
  match decodeInstance row with
  | some (i, ops) => validate T i ops == .ok
  | none => false

def refused (T : SigTables) (row : List Nat) : Bool :=
  match decodeInstance row with
  | some (i, ops) => validate T i ops != .ok
  | none => false

def allAccepted (T : SigTables) (chunk : Nat × Nat) : Bool := (unpack chunk).all (accepted T)
def allRefused (T : SigTables) (chunk : Nat × Nat) : Bool := (unpack chunk).all (refused T)

end AsmjitVerif.X86Forms
