/-
C15 - what "allocation failure yields an error" MEANS, independent of the model's allocation bookkeeping.

1. `specStep`: the effect of every modelled operation on the observable state when memory is unlimited - no oracle, no
   capacities, no pools (sections kept sorted by `(order, id)` by plain sorted insertion, labels / relocations / addresses
   appended, the address table section created on first use).
2. `Atomic`/`Converges`: the two shapes of the property for one API call (spelled out in Props/C15.lean).
3. `runGood`: the decidable monitor for ONE fault-injected run of a workload of the real library (the driver evaluates it on
   every record the harness prints): an injected failure surfaces as an error or the call completes correctly (same bytes
   as the failure-free run, or - for the register allocator, which tolerates some failures - code that executes to the same
   results); nothing leaks; the very same objects, reset / re-initialised, and fresh objects reproduce the failure-free
   output exactly.
-/
import AsmjitVerif.Model.Fault
namespace AsmjitVerif.Fault

/-- sorted insertion (before the first element that is not smaller) -/
def insertSorted (lt : Nat → Bool) (x : Nat) : List Nat → List Nat
  | [] => [x]
  | y :: r => if lt y then y :: insertSorted lt x r else x :: y :: r

def specNewSection (v : View) (name : List Nat) (align : Nat) (order : Int) : View :=
  let id := v.sections.length
  let lt (j : Nat) : Bool :=
    let oj := (v.sections.getD j default).order
    decide (oj < order ∨ (oj = order ∧ j < id))
  { v with sections := v.sections ++ [{ name := name, align := if align = 0 then 1 else align, order := order }],
           byOrder := insertSorted lt id v.byOrder }

def specNewNamed (v : View) (name : List Nat) (type parent : Nat) : View × Err :=
  let id := v.labels.length
  if name.length = 0 then
    if type ≠ 0 then (v, .invalidLabelName) else ({ v with labels := v.labels ++ [{}] }, .ok)
  else if name.length > 2048 then (v, .labelNameTooLong)
  else if type = 0 then
    if parent ≠ kInvalidId then (v, .invalidParentLabel)
    else ({ v with labels := v.labels ++ [{ name := name, type := 0, parent := kInvalidId }] }, .ok)
  else if type > 3 then (v, .invalidArgument)
  else if type = 1 ∧ parent ≥ id then (v, .invalidParentLabel)
  else if type ≠ 1 ∧ parent ≠ kInvalidId then (v, .invalidParentLabel)
  else if v.named.any (fun e => e.1 == name && e.2.1 == parent) then (v, .labelAlreadyDefined)
  else ({ v with labels := v.labels ++ [{ name := name, type := type, parent := parent }],
                 named := v.named ++ [(name, parent, id)] }, .ok)

def specAddAddr (v : View) (a : Nat) : View :=
  if v.addrs.contains a then v else
  let (v1, id) :=
    match v.addrTab with
    | some id => (v, id)
    | none => ({ specNewSection v [46, 97, 100, 100, 114, 116, 97, 98] 8 2147483647 with addrTab := some v.sections.length },
               v.sections.length)
  { v1 with addrs := v1.addrs ++ [a], sections := v1.sections.modify id fun sec => { sec with vsize := sec.vsize + 8 } }

/-- the failure-free meaning of every operation -/
def specStep (op : Op) (v : View) : View × Err :=
  match op with
  | .newSection name align order =>
    if ¬ (align = 0 ∨ isPow2 align) then (v, .invalidArgument)
    else if name.length > 35 then (v, .invalidSectionName)
    else (specNewSection v name align order, .ok)
  | .newLabel => ({ v with labels := v.labels ++ [{}] }, .ok)
  | .newNamed name type parent => specNewNamed v name type parent
  | .newReloc t => ({ v with relocs := v.relocs ++ [(t, false)] }, .ok)
  | .exprReloc =>
    match v.sections[0]? with
    | none => (v, .invalidSection)
    | some sc => ({ v with relocs := v.relocs ++ [(1, true)], sections := v.sections.set 0 { sc with data := sc.data ++ [0, 0, 0, 0] } }, .ok)
  | .newFixup => ({ v with fixups := v.fixups + 1 }, .ok)
  | .freeFixup => if v.fixups = 0 then (v, .invalidState) else ({ v with fixups := v.fixups - 1 }, .ok)
  | .addAddr a => (specAddAddr v a, .ok)
  | .emit sec n =>
    match v.sections[sec]? with
    | none => (v, .invalidSection)
    | some sc => ({ v with sections := v.sections.set sec { sc with data := sc.data ++ List.replicate n 0x90 } }, .ok)
  | .inst sec k =>
    match v.sections[sec]? with
    | none => (v, .invalidSection)
    | some sc => ({ v with sections := v.sections.set sec { sc with data := sc.data ++ instBytes k } }, .ok)
  | .jmpf sec =>
    match v.sections[sec]? with
    | none => (v, .invalidSection)
    | some sc => ({ v with sections := v.sections.set sec { sc with data := sc.data ++ [0xE9, 0, 0, 0, 0] },
                           fixups := v.fixups + 1 }, .ok)
  | .vappend x => ({ v with vec := v.vec ++ [x] }, .ok)
  | .vreserve _ => (v, .ok)
  | .sappend n ch => ({ v with str := v.str ++ List.replicate n ch }, .ok)

/-- a failure-free history -/
def specRun : List Op → View → View × List Err
  | [], v => (v, [])
  | op :: rest, v =>
    let (v1, e) := specStep op v
    let (v2, es) := specRun rest v1
    (v2, e :: es)

/-- number of failures still to come -/
def faults (o : Oracle) : Nat := o.count true

/-! ## Monitor for one fault-injected run of a real workload -/

structure RunRec where
  /-- number of injected failures that were actually reached -/
  fired : Nat
  /-- the first error the API reported (`ok` = none), and whether it was `ok` -/
  errOk : Bool
  /-- digest of the produced bytes / of the results of executing them (`-` = none) -/
  out : String
  exec : String
  /-- the same objects, reset or re-initialised, repeating the workload with memory available -/
  reuse : String
  rexec : String
  /-- fresh objects repeating the workload -/
  fresh : String
  fexec : String
  leak : Nat
  /-- the failure-free run -/
  clean : String
  cexec : String
  /-- the workload repeats every failed call itself (Assembler level) and the faults are a fixed finite set: the run must
  then complete and produce exactly the failure-free bytes -/
  strictRetry : Bool := false
  deriving Repr, Inhabited

/-- "completes correctly": the very bytes of the failure-free run, or (only where the workload is executed) other bytes
that compute the same results -/
def sameCode (out exec clean cexec : String) : Bool :=
  out == clean || (exec != "-" && exec == cexec && out != "-")

def runGood (r : RunRec) : Bool :=
  -- an error, or correct completion
  (r.errOk == false || sameCode r.out r.exec r.clean r.cexec) &&
  -- an error is never reported without a cause
  (r.fired > 0 || r.errOk) &&
  -- no leak after everything was destroyed
  r.leak == 0 &&
  -- reusable: the same objects and fresh objects reproduce the failure-free output
  sameCode r.reuse r.rexec r.clean r.cexec && r.reuse.contains ':' &&
  r.fresh == r.clean && r.fexec == r.cexec &&
  -- repeating each failed call produces exactly the code of the failure-free run
  (!r.strictRetry || (r.errOk && r.out == r.clean))

end AsmjitVerif.Fault
