/-
C18 — ArenaTree: the abstract side of the refinement.  An index heap (`Model/Tree.lean`) REPRESENTS an inductive
red-black tree `T` whose nodes remember their heap index; the textbook data type is the strictly sorted key list
(`SpecC18.setInsert / setErase` of Spec/C18.lean are restated here to keep this file self-contained).
Core-only imports (only the model's data structure and accessors are used, none of its algorithms).
-/
import AsmjitVerif.Model.Tree
namespace AsmjitVerif.Tree.Spec
open AsmjitVerif.Tree

/-- inductive tree; `idx` is the heap index (pointer identity) of the node -/
inductive T where
  | nil
  | node (idx key : Nat) (red : Bool) (l r : T)
  deriving Repr, Inhabited, DecidableEq

/-- in-order key list -/
def T.keys : T → List Nat
  | .nil => []
  | .node _ k _ l r => l.keys ++ k :: r.keys

/-- heap indices used by the tree (in-order) -/
def T.idxs : T → List Nat
  | .nil => []
  | .node i _ _ l r => l.idxs ++ i :: r.idxs

def T.rootIdx : T → Nat
  | .nil => 0
  | .node i _ _ _ _ => i

def T.isRed : T → Bool
  | .node _ _ true _ _ => true
  | _ => false

def T.height : T → Nat
  | .nil => 0
  | .node _ _ _ l r => max l.height r.height + 1

def T.size : T → Nat
  | .nil => 0
  | .node _ _ _ l r => l.size + r.size + 1

/-- strictly ascending -/
def Sorted : List Nat → Prop
  | a :: b :: rest => a < b ∧ Sorted (b :: rest)
  | _ => True

/-- binary search tree: the in-order key list is strictly ascending -/
def T.BST (t : T) : Prop := Sorted t.keys

/-- no red node has a red child -/
def T.noRedRed : T → Prop
  | .nil => True
  | .node _ _ red l r => (red = true → l.isRed = false ∧ r.isRed = false) ∧ l.noRedRed ∧ r.noRedRed

/-- `blackH t n`: every root-to-nil path of `t` crosses exactly `n` black nodes -/
inductive T.blackH : T → Nat → Prop
  | nil : T.blackH .nil 0
  | red {i k l r n} : T.blackH l n → T.blackH r n → T.blackH (.node i k true l r) n
  | black {i k l r n} : T.blackH l n → T.blackH r n → T.blackH (.node i k false l r) (n + 1)

/-- red-black balance: root black, no red-red, equal black height -/
def T.RB (t : T) : Prop := t.isRed = false ∧ t.noRedRed ∧ ∃ n, t.blackH n

/-- heap node `n` of `h` is the root of (a heap image of) the inductive tree -/
inductive Rep (h : Tree) : Nat → T → Prop
  | nil : Rep h 0 .nil
  | node {n k c L R} : 2 ≤ n → n < h.nodes.size → (nd h n).key = k → (nd h n).red = c →
      Rep h (nd h n).l L → Rep h (nd h n).r R → Rep h n (.node n k c L R)

/-- the whole `ArenaTree` object represents `t`: reachable from `_root`, no node shared (hence acyclic) -/
def Represents (h : Tree) (t : T) : Prop := Rep h h.root t ∧ t.idxs.Nodup

/-- textbook ordered-set operations on a strictly ascending list -/
def setInsert (k : Nat) : List Nat → List Nat
  | [] => [k]
  | x :: xs => if k < x then k :: x :: xs else if k = x then x :: xs else x :: setInsert k xs
def setErase (k : Nat) (xs : List Nat) : List Nat := xs.filter (· != k)

/-- the operation language of the sequence theorems (the harness protocol: insert skips duplicates, remove skips
absent keys) -/
inductive TOp where
  | insert (k : Nat)
  | remove (k : Nat)
  deriving DecidableEq

def specStep (s : List Nat) : TOp → List Nat
  | .insert k => setInsert k s
  | .remove k => setErase k s

def modelStep (t : Tree) : TOp → Tree
  | .insert k => if get t k ≠ 0 then t else let (t1, n) := newNode t k; insertNode t1 n
  | .remove k => let n := get t k; if n = 0 then t else removeNode t n

def runModel (ops : List TOp) (t : Tree) : Tree := ops.foldl modelStep t
def runSpec (ops : List TOp) (s : List Nat) : List Nat := ops.foldl specStep s

end AsmjitVerif.Tree.Spec
