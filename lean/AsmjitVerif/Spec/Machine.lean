/-
  C06 part 2 – an abstract machine for the argument shuffle (`BaseEmitHelper::emit_args_assignment`).

  A location is a physical register (group, id), a slot of the incoming stack-argument area, or a slot of the outgoing
  (destination) stack area.  A location holds a *token*: which argument's value it contains and whether that value already
  has the width/extension its destination type requires.  Instructions are the ones `emit_arg_move` / `emit_reg_move` /
  `emit_reg_swap` emit (x86: mov movzx movsx movsxd xchg movd movq movaps movups movdqa kmov*; a64: mov fmov ldr* str*),
  given by name + operands, with their architectural effect on extension:
    * `movsx/movsxd/ldrs*`                 sign-extend from the source operand size
    * `movzx`, `mov` to a 32-bit register, `ldrb/ldrh/ldr w`   zero-extend
    * `mov` between 64-bit registers, vector moves, `xchg`      copy bits, extend nothing
  The monitor `shuffleOk` is the post-condition of the property: every destination ends up holding the value of its argument,
  extended as its type requires.
-/
import AsmjitVerif.Model.CallConv
namespace AsmjitVerif.Machine
open AsmjitVerif.CallConv

inductive Loc
  | reg (group id : Nat)
  | argStack (off : Int)     -- relative to the base of the incoming stack arguments
  | outStack (off : Int)     -- relative to sp
  deriving DecidableEq, Repr

inductive Ext | none | zero | sign
  deriving DecidableEq, Repr

structure Tok where
  var : Nat
  ext : Bool       -- already extended as the destination type requires
  deriving DecidableEq, Repr

abbrev State := List (Loc × Tok)

def State.get (s : State) (l : Loc) : Option Tok := (s.find? (·.1 == l)).map (·.2)
def State.set (s : State) (l : Loc) (t : Option Tok) : State :=
  let s := s.filter (·.1 != l)
  match t with | some t => (l, t) :: s | none => s

/-- register group of a RegType (operand.h RegTraits): Gp 0, Vec 1, Mask 2, MM 3 -/
def groupOf (rt : Nat) : Nat := if rt ≤ 6 then 0 else if rt ≤ 15 then 1 else if rt = 16 then 2 else if rt = 28 then 3 else 9
def regBytes (rt : Nat) : Nat :=
  if rt = 2 || rt = 3 then 1 else if rt = 4 then 2 else if rt = 5 then 4 else if rt = 6 then 8
  else if rt = 9 then 4 else if rt = 10 then 8 else if rt = 11 then 16 else if rt = 12 then 32 else if rt = 13 then 64 else 8

def isSigned (t : Nat) : Bool := isInt t && t % 2 == 0

/-- what a move from a value of type `st` into a destination of type `dt` has to do -/
def required (dt st : Nat) : Ext :=
  if dt = 0 || st = 0 || tySize dt ≤ tySize st then .none
  else if isInt dt && isInt st then (if isSigned dt && isSigned st then .sign else .zero)
  else .none

inductive Opnd
  | reg (rtype id : Nat)
  | mem (base : Nat) (off : Int) (size : Nat)
  deriving DecidableEq, Repr

structure Inst where
  name : String
  ops : List Opnd
  deriving Repr

/-- extension performed by a register-destination move, from its name and operand sizes -/
def performed (name : String) (dstRt : Nat) (srcBytes : Nat) : Ext × Nat :=   -- (kind, from bytes)
  -- AArch64 loads carry their access size in the mnemonic (the memory operand has none)
  let srcBytes := if name == "ldrsb" || name == "ldrb" then 1 else if name == "ldrsh" || name == "ldrh" then 2
                  else if name == "ldrsw" then 4 else if name == "ldr" then regBytes dstRt else srcBytes
  if name == "movsx" || name == "movsxd" || name == "ldrsb" || name == "ldrsh" || name == "ldrsw" then (.sign, srcBytes)
  else if name == "movzx" || name == "ldrb" || name == "ldrh" then (.zero, srcBytes)
  else if (name == "mov" || name == "ldr") && groupOf dstRt = 0 && regBytes dstRt ≤ 4 then (.zero, min srcBytes 4)
  else (.none, srcBytes)

structure VarInfo where
  srcType : Nat
  dstType : Nat
  deriving Repr

/-- does executing the move give the token the required extension? -/
def extendsOk (vars : List VarInfo) (tok : Tok) (name : String) (dstRt srcBytes : Nat) : Bool :=
  match vars[tok.var]? with
  | none => false
  | some v =>
    let (k, frm) := performed name dstRt srcBytes
    match required v.dstType v.srcType with
    | .none => true
    | .zero => tok.ext || (k == .zero && frm == tySize v.srcType)
    | .sign => tok.ext || (k == .sign && frm == tySize v.srcType && regBytes dstRt ≥ tySize v.dstType)

/-- memory operand → location. Loads read the incoming arguments (`saBase` + `saOff` addresses their base), stores write the
    outgoing area (relative to `sp`). -/
def loadLoc (saBase : Nat) (saOff : Int) (base : Nat) (off : Int) : Option Loc :=
  if base = saBase then some (.argStack (off - saOff)) else none
def storeLoc (sp : Nat) (base : Nat) (off : Int) : Option Loc :=
  if base = sp then some (.outStack off) else none

def step (vars : List VarInfo) (saBase : Nat) (saOff : Int) (sp : Nat) (s : State) (i : Inst) : Option State :=
  match i.ops with
  | [.reg ra a, .reg rb b] =>
    let la := Loc.reg (groupOf ra) a
    let lb := Loc.reg (groupOf rb) b
    if i.name == "xchg" then
      some ((s.set la (s.get lb)).set lb (s.get la))
    else
      match s.get lb with
      | none => some (s.set la none)
      | some t => some (s.set la (some { t with ext := extendsOk vars t i.name ra (regBytes rb) }))
  | [.reg ra a, .mem base off size] =>
    if i.name.startsWith "str" then      -- AArch64 stores name the register first
      match storeLoc sp base off with
      | none => none
      | some l => some (s.set l (s.get (.reg (groupOf ra) a)))
    else
    match loadLoc saBase saOff base off with
    | none => none
    | some l =>
      match s.get l with
      | none => some (s.set (.reg (groupOf ra) a) none)
      | some t => some (s.set (.reg (groupOf ra) a) (some { t with ext := extendsOk vars t i.name ra size }))
  | [.mem base off _, .reg rb b] =>
    match storeLoc sp base off with
    | none => none
    | some l => some (s.set l (s.get (.reg (groupOf rb) b)))
  | _ => none

def run (vars : List VarInfo) (saBase : Nat) (saOff : Int) (sp : Nat) : State → List Inst → Option State
  | s, [] => some s
  | s, i :: is => match step vars saBase saOff sp s i with
    | none => none
    | some s' => run vars saBase saOff sp s' is

/-- post-condition: destination `d` of variable `v` holds `v`, extended as required -/
def destOk (vars : List VarInfo) (s : State) (v : Nat) (d : Loc) : Bool :=
  match s.get d, vars[v]? with
  | some t, some vi => t.var == v && (t.ext || required vi.dstType vi.srcType == .none)
  | _, _ => false

def shuffleOk (vars : List VarInfo) (dests : List (Nat × Loc)) (s : State) : Bool :=
  dests.all fun (v, d) => destOk vars s v d

end AsmjitVerif.Machine
