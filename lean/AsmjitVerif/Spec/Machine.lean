/-
  C06 part 2 – an abstract machine for the argument shuffle (`BaseEmitHelper::emit_args_assignment`).

  A location is a physical register (group, id), a slot of the incoming stack-argument area, or a slot of the outgoing
  (destination) stack area.  A location holds a *token* `(var, sv, dv)`:
    * `sv` – the low `size(source type)` bytes are the argument as it was passed (bytes above are unspecified, as the ABIs say);
    * `dv` – the location holds the argument in the form its destination requires: the low `size(destination type)` bytes are
             the value sign- or zero-extended from the source type (when the destination is not wider: the low min(size) bytes).
  Instructions are the ones `emit_arg_move` / `emit_reg_move` / `emit_reg_swap` emit, given by mnemonic + operands, with their
  architectural effect `(kind, c, w)`: `c` low bytes of the source are copied, then extended by `kind` up to `w` bytes
  (a write to a 32-bit GP register zeroes bits 32..63; `mov r64,r64`, vector moves, `xchg r64` copy and extend nothing).
  The monitor `shuffleOk` is the post-condition of the property: every destination ends up holding the value of its argument,
  extended as its type requires (`dv`).  Byte overlap between different stack slots is not modelled (slots are keyed by offset).
-/
import AsmjitVerif.Model.ArgShuffle
namespace AsmjitVerif.Machine
open AsmjitVerif.CallConv AsmjitVerif.Shuffle

inductive Loc
  | reg (group id : Nat)
  | argStack (off : Int)     -- relative to the base of the incoming stack arguments
  | outStack (off : Int)     -- relative to sp
  deriving DecidableEq, Repr

inductive Ext | none | zero | sign | fwiden | fnarrow     -- fwiden: float -> double, fnarrow: double -> float
  deriving DecidableEq, Repr

structure Tok where
  var : Nat
  sv : Bool
  dv : Bool
  deriving DecidableEq, Repr

abbrev State := List (Loc × Tok)

def State.get (s : State) (l : Loc) : Option Tok := (s.find? (·.1 == l)).map (·.2)
def State.set (s : State) (l : Loc) (t : Option Tok) : State :=
  let s := s.filter (·.1 != l)
  match t with | some t => (l, t) :: s | none => s

def isSigned (t : Nat) : Bool := isInt t && t % 2 == 0

structure VarInfo where
  srcType : Nat
  dstType : Nat
  deriving DecidableEq, Repr

def VarInfo.S (v : VarInfo) : Nat := tySize v.srcType
def VarInfo.D (v : VarInfo) : Nat := if v.dstType = 0 then tySize v.srcType else tySize v.dstType

/-- what a move of a value of the source type into a destination of the destination type has to do: integers that get wider are
    sign-extended when both types are signed and zero-extended otherwise; nothing else is extended -/
def VarInfo.required (v : VarInfo) : Ext :=
  if scalarOf v.dstType = tFloat64 && scalarOf v.srcType = tFloat32 then .fwiden
  else if scalarOf v.dstType = tFloat32 && scalarOf v.srcType = tFloat64 then .fnarrow
  else if v.D ≤ v.S then .none
  else if isInt v.dstType && isInt v.srcType then (if isSigned v.dstType && isSigned v.srcType then .sign else .zero)
  else .none

/-- bytes a destination-form token must carry -/
def VarInfo.need (v : VarInfo) : Nat := if v.required = .none then min v.D v.S else v.D

/-- architectural effect of a register-destination move: (kind, bytes copied, bytes defined) -/
def effect (n : Mn) (dstRt : Nat) (srcBytes : Nat) : Option (Ext × Nat × Nat) :=
  let gpDst := groupOf dstRt = 0
  match n with
  | .movsx | .movsxd => some (.sign, srcBytes, if regBytes dstRt ≤ 4 then 4 else 8)
  | .ldrsb => some (.sign, 1, regBytes dstRt)
  | .ldrsh => some (.sign, 2, regBytes dstRt)
  | .ldrsw => some (.sign, 4, regBytes dstRt)
  | .sxtb => some (.sign, 1, regBytes dstRt)
  | .sxth => some (.sign, 2, regBytes dstRt)
  | .sxtw => some (.sign, 4, regBytes dstRt)
  | .uxtb => some (.zero, 1, 8)
  | .uxth => some (.zero, 2, 8)
  | .fcvt => if regBytes dstRt = 8 then some (.fwiden, srcBytes, 8) else some (.fnarrow, srcBytes, regBytes dstRt)
  | .movzx => some (.zero, srcBytes, 8)
  | .ldrb => some (.zero, 1, 8)
  | .ldrh => some (.zero, 2, 8)
  | .mov | .ldr =>
    if gpDst then (if regBytes dstRt ≤ 4 then some (.zero, 4, 8) else some (.none, 8, 8))
    else some (.none, regBytes dstRt, regBytes dstRt)
  | .fmov => some (.none, regBytes dstRt, regBytes dstRt)
  | .movd | .movss | .kmovd => some (.none, 4, 4)
  | .movq | .movsd | .kmovq | .movq2dq | .movdq2q => some (.none, 8, 8)
  | .kmovb => some (.none, 1, 1)
  | .kmovw => some (.none, 2, 2)
  | .movaps | .movups | .movapd | .movdqa | .vmovdqa32 => some (.none, min (regBytes dstRt) srcBytes, min (regBytes dstRt) srcBytes)
  | .cvtss2sd | .cvtps2pd => some (.fwiden, srcBytes, regBytes dstRt)
  | .cvtsd2ss | .cvtpd2ps => some (.fnarrow, srcBytes, regBytes dstRt)
  | .xchg | .str | .strb | .strh => none

/-- bytes written by a store -/
def storeBytes (n : Mn) (srcRt memSize : Nat) : Option Nat :=
  match n with
  | .strb => some 1
  | .strh => some 2
  | .str => some (regBytes srcRt)
  | .mov | .movaps | .movups | .movapd | .movdqa | .vmovdqa32 => some memSize
  | .movd | .movss | .kmovd => some 4
  | .movq | .movsd | .kmovq => some 8
  | .kmovb => some 1
  | .kmovw => some 2
  | _ => none

def isStoreMn : Mn → Bool | .str | .strb | .strh => true | _ => false

/-- the token after it went through an instruction with effect `(k, c, w)` -/
def moveTok (vars : List VarInfo) (t : Tok) (k : Ext) (c w : Nat) : Tok :=
  match vars[t.var]? with
  | none => { t with sv := false, dv := false }
  | some vi =>
    { var := t.var
      sv := t.sv && decide (c ≥ vi.S) && k != .fwiden && k != .fnarrow
      dv := (t.dv && decide (c ≥ vi.need)) ||
            (t.sv && vi.required != .none && k == vi.required &&
              ((k == .fwiden || k == .fnarrow) || (c == vi.S && decide (w ≥ vi.D)))) }

/-- token id of the stack-arguments base pointer (the SA variable of `init_work_data`) -/
def saTokVar : Nat := 1000000

/-- a load addresses the incoming arguments: through `sp` (displacement `saOffSp`) when the frame is not dynamically aligned,
    through the frame pointer when it is preserved, otherwise through whatever register holds the stack-arguments base pointer
    *at the time of the load* – the pointer is a token like the arguments and moves with `mov` / `xchg` -/
def loadLoc (f : FrameIn) (ar : Arch) (s : State) (base : Nat) (off : Int) : Option Loc :=
  if !f.da then (if base = spId ar then some (.argStack (off - f.saOffSp)) else none)
  else if f.fp then (if base = fpId ar then some (.argStack (off - f.saOffSa)) else none)
  else match s.get (.reg 0 base) with
    | some t => if t.var = saTokVar then some (.argStack (off - f.saOffSa)) else none
    | none => none
def storeLoc (sp : Nat) (base : Nat) (off : Int) : Option Loc :=
  if base = sp then some (.outStack off) else none

def step (vars : List VarInfo) (f : FrameIn) (ar : Arch) (s : State) (i : Inst) : Option State :=
  match i.ops with
  | [.reg ra a, .reg rb b] =>
    let la := Loc.reg (groupOf ra) a
    let lb := Loc.reg (groupOf rb) b
    if i.name == .xchg then
      let (k, c) := if regBytes ra ≤ 4 then (Ext.zero, 4) else (Ext.none, 8)
      some ((s.set la ((s.get lb).map fun t => moveTok vars t k c 8)).set lb ((s.get la).map fun t => moveTok vars t k c 8))
    else
      match effect i.name ra (regBytes rb) with
      | none => none
      | some (k, c, w) => some (s.set la ((s.get lb).map fun t => moveTok vars t k c w))
  | [.reg ra a, .mem base off size] =>
    if isStoreMn i.name then      -- AArch64 stores name the register first
      match storeLoc (spId ar) base off, storeBytes i.name ra size with
      | some l, some c => some (s.set l ((s.get (.reg (groupOf ra) a)).map fun t => moveTok vars t .none c c))
      | _, _ => none
    else
      match loadLoc f ar s base off, effect i.name ra size with
      | some l, some (k, c, w) => some (s.set (.reg (groupOf ra) a) ((s.get l).map fun t => moveTok vars t k c w))
      | _, _ => none
  | [.mem base off size, .reg rb b] =>
    match storeLoc (spId ar) base off, storeBytes i.name rb size with
    | some l, some c => some (s.set l ((s.get (.reg (groupOf rb) b)).map fun t => moveTok vars t .none c c))
    | _, _ => none
  | _ => none

def run (vars : List VarInfo) (f : FrameIn) (ar : Arch) : State → List Inst → Option State
  | s, [] => some s
  | s, i :: is => match step vars f ar s i with
    | none => none
    | some s' => run vars f ar s' is

/-- initial token of argument `v` -/
def initTok (vars : List VarInfo) (v : Nat) : Tok :=
  { var := v, sv := true, dv := match vars[v]? with | some vi => vi.required == .none | none => false }

/-- post-condition: destination `d` of variable `v` holds `v` in destination form -/
def destOk (s : State) (v : Nat) (d : Loc) : Bool :=
  match s.get d with
  | some t => t.var == v && t.dv
  | none => false

def shuffleOk (dests : List (Nat × Loc)) (s : State) : Bool :=
  dests.all fun (v, d) => destOk s v d

def varInfoOf (p : FuncValue × Option FuncValue) : VarInfo :=
  match p.2 with
  | some o => { srcType := p.1.typeId,
                dstType := if o.typeId ≠ 0 then o.typeId else if o.isReg then typeIdOfReg o.regType else p.1.typeId }
  | none => { srcType := p.1.typeId, dstType := p.1.typeId }

def srcLoc (src : FuncValue) : Option Loc :=
  if src.isReg then some (.reg (groupOf src.regType) src.regId)
  else if src.isStack then some (.argStack src.stackOffset) else none

def dstLoc (o : FuncValue) : Loc :=
  if o.isReg then .reg (groupOf o.regType) o.regId else .outStack o.stackOffset

/-- initial machine state: argument `k`, `k+1`, … sits at its source location as an initial token -/
def initFrom (vis : List VarInfo) : Nat → List (FuncValue × Option FuncValue) → State
  | _, [] => []
  | k, (src, dd) :: rest =>
    match dd, srcLoc src with
    | some _, some l => (l, initTok vis k) :: initFrom vis (k + 1) rest
    | _, _ => initFrom vis (k + 1) rest

def destsFrom : Nat → List (FuncValue × Option FuncValue) → List (Nat × Loc)
  | _, [] => []
  | k, (_, dd) :: rest =>
    match dd with
    | some o => (k, dstLoc o) :: destsFrom (k + 1) rest
    | none => destsFrom (k + 1) rest

/-- variable infos, initial machine state and destinations of an assignment `(source location, requested destination)*`:
    what `shuffle_correct` and the monitor judge a schedule against -/
def setup (vals : List (FuncValue × Option FuncValue)) : List VarInfo × State × List (Nat × Loc) :=
  let vis := vals.map varInfoOf
  (vis, initFrom vis 0 vals, destsFrom 0 vals)

/-- the judgement: `none` = the schedule contains something the machine does not know; `some b` = post-condition holds / fails -/
def judge (arch : Arch) (f : FrameIn) (vals : List (FuncValue × Option FuncValue)) (insts : List Inst) : Option Bool :=
  let (vars, init, dests) := setup vals
  (run vars f arch init insts).map (shuffleOk dests)

/-- where the stack-arguments base pointer lives on entry: the frame's SA register, when the frame is dynamically aligned and
    keeps no frame pointer -/
def saInit (f : FrameIn) : State :=
  if f.da && !f.fp && f.saReg != 255 then [(.reg 0 f.saReg, ⟨saTokVar, false, false⟩)] else []

/-- the judgement with the base pointer tracked (what the monitor runs; equal to `judge` when the frame has no such pointer) -/
def judgeSA (arch : Arch) (f : FrameIn) (vals : List (FuncValue × Option FuncValue)) (insts : List Inst) : Option Bool :=
  let (vars, init, dests) := setup vals
  (run vars f arch (saInit f ++ init) insts).map (shuffleOk dests)

end AsmjitVerif.Machine
