/-
C18 — independent specification of what AsmJit's `String` is supposed to be: a plain byte list (`List Nat`),
plus textbook number parsing / formatting.  Written from the documentation of `String`, not from string.cpp;
imports nothing (core only), in particular not the model.
-/
namespace AsmjitVerif.Str

/-! ### Textbook digit parser -/

/-- value of an (upper-case) hexadecimal digit character -/
def digitVal (c : Nat) : Option Nat :=
  if 48 ≤ c ∧ c ≤ 57 then some (c - 48)          -- '0'..'9'
  else if 65 ≤ c ∧ c ≤ 70 then some (c - 55)     -- 'A'..'F'
  else none

/-- one step of the left fold: `acc * base + digit`, failing on a non-digit or a digit `≥ base` -/
def parseStep (base : Nat) (acc : Option Nat) (c : Nat) : Option Nat :=
  match acc, digitVal c with
  | some a, some d => if d < base then some (a * base + d) else none
  | _, _ => none

/-- positional value of a digit string, most significant digit first -/
def parseDigits (base : Nat) (cs : List Nat) : Option Nat := cs.foldl (parseStep base) (some 0)

/-! ### Textbook number formatting (printf-like) -/

/-- character of a digit value `< 16` -/
def digitChar (d : Nat) : Nat := if d < 10 then 48 + d else 55 + d

/-- positional representation, most significant digit first, no leading zero (`0` ↦ "0") -/
def specDigits (base n : Nat) : List Nat :=
  if _h : 2 ≤ base ∧ base ≤ n then specDigits base (n / base) ++ [digitChar (n % base)] else [digitChar n]
termination_by n
decreasing_by exact Nat.div_lt_self (by omega) (by omega)

/-- bit `k` of the flag word -/
def flagSet (flags k : Nat) : Bool := flags / 2 ^ k % 2 = 1

/-- `String::append_int/append_uint(i, base, width, flags)`: sign or '+' or ' ', then "0"/"0x" for `kAlternate`,
then zero padding up to `min width 256` digits, then the digits of the magnitude.  `i` is the raw 64-bit value;
with `kSigned` (bit 31) it is read as two's complement. `none` = `kInvalidArgument` (base ∉ {0,2,8,10,16}). -/
def specNumberText (i base0 width flags : Nat) : Option (List Nat) :=
  let base := if base0 = 0 then 10 else base0
  if base = 2 ∨ base = 8 ∨ base = 10 ∨ base = 16 then
    let neg : Bool := flagSet flags 31 && decide (2 ^ 63 ≤ i)
    let mag := if neg then 2 ^ 64 - i else i
    let sign := if neg then [45] else if flagSet flags 0 then [43] else if flagSet flags 1 then [32] else []
    let alt := if flagSet flags 2 then (if base = 8 ∧ i ≠ 0 then [48] else if base = 16 then [48, 120] else []) else []
    let ds := specDigits base mag
    some (sign ++ alt ++ List.replicate (min width 256 - ds.length) 48 ++ ds)
  else none

/-- two upper-case hex digits per byte, optionally separated -/
def specHexText (bytes : List Nat) (sep : Nat) : List Nat :=
  match bytes with
  | [] => []
  | [b] => [digitChar (b / 16 % 16), digitChar (b % 16)]
  | b :: rest => [digitChar (b / 16 % 16), digitChar (b % 16)] ++ (if sep ≠ 0 then [sep] else []) ++ specHexText rest sep

/-! ### The byte-list ADT and operation sequences -/

/-- the operations of `String` (with `assign = true`: replace, `false`: append) -/
inductive SOp where
  | reset
  | clear
  | assign (bytes : List Nat)
  | string (assign : Bool) (bytes : List Nat)
  | char (assign : Bool) (c : Nat)
  | chars (assign : Bool) (c n : Nat)
  | padEnd (n c : Nat)
  | number (assign : Bool) (i : BitVec 64) (base width flags : Nat)
  | hex (assign : Bool) (bytes : List Nat) (sep : Nat)
  | truncate (n : Nat)
  /-- `append_format/assign_format`: `out` is the text `vsnprintf` produces for the arguments -/
  | format (assign : Bool) (out : List Nat)

/-- effect of one successful operation on the abstract byte list -/
def stepSpec (op : SOp) (l : List Nat) : List Nat :=
  let put (a : Bool) (t : List Nat) : List Nat := if a then t else l ++ t
  match op with
  | .reset => []
  | .clear => []
  | .assign bs => bs
  | .string a bs => put a bs
  | .char a c => put a [c]
  | .chars a c n => put a (List.replicate n c)
  | .padEnd n c => l ++ List.replicate (n - l.length) c
  | .number a i b w f => match specNumberText i.toNat b w f with
                         | some t => put a t
                         | none => l          -- kInvalidArgument: unchanged
  | .hex a bs sep => put a (specHexText bs sep)
  | .truncate n => l.take n
  | .format a out => put a out

/-- what the allocator did to one operation: it succeeded (`ok`: the operation has its specified effect — this
includes `kInvalidArgument`, whose specified effect is "nothing"); it failed and the string keeps its content
(`unchanged`); or it failed inside an assign-format whose output had already overwritten the old text, and the string
was emptied (`cleared`) -/
inductive Flag where | ok | unchanged | cleared
  deriving DecidableEq, Repr

/-- a sequence of operations; `fl` says for each operation what the allocator did -/
def runSpecE : List SOp → List Flag → List Nat → List Nat
  | op :: ops, f :: fl, l =>
    runSpecE ops fl (match f with | .ok => stepSpec op l | .unchanged => l | .cleared => [])
  | _, _, l => l

/-- a sequence of operations when memory never runs out -/
def runSpec (ops : List SOp) (l : List Nat) : List Nat := ops.foldl (fun l op => stepSpec op l) l

/-- number of bytes an operation can add (used to bound a sequence so that no allocation fails) -/
def SOp.cost : SOp → Nat
  | .assign bs => bs.length
  | .string _ bs => bs.length
  | .char _ _ => 1
  | .chars _ _ n => n
  | .padEnd n _ => n
  | .number _ _ _ _ _ => 330
  | .hex _ bs _ => 3 * bs.length
  | .format _ out => out.length
  | _ => 0

end AsmjitVerif.Str
