/-
What property C19 *means*, stated on what a user of a constant pool can observe – independent of how the pool works
inside (no trees, no gaps).  The ghost state is the list of constants that were accepted so far with the offsets that
were returned for them.

* every answer to `add(data)`:
  - a size that is not one of 1,2,4,8,16,32,64 is refused and the reported size/alignment do not move;
  - otherwise an offset `off` is returned with `size ∣ off` (aligned), `off + size ≤` reported pool size, `size ∣` reported
    (non-zero) alignment, the pool never shrinks, and against every earlier accepted constant `e`:
    equal bytes (hence equal size) ⇒ equal offset (deduplicated, stable), and `e` and the new constant agree on every
    byte position they have in common (distinct storage never overlaps: two *different* placed constants can only share
    positions where they carry the same byte, i.e. when one is a sub-constant of the other).
* every image produced by `fill` (at any time – that is "stays valid as more constants are added"):
  length = reported size; at every returned offset the bytes are the constant; every position not covered by a returned
  constant is zero; the reported alignment is a multiple of every constant's size.
* `embed_const_pool`: the label is bound at a multiple of the alignment, nothing before it is disturbed, and what
  follows the label is a correct image.

`accepts` is the decidable monitor the driver runs over the *implementation's* answers; `Props/C19.lean` proves that it
accepts the model's answers for every history.
-/
import AsmjitVerif.Model.ConstPool
namespace AsmjitVerif.ConstPool.Spec
open AsmjitVerif.ConstPool

/-- an accepted constant and the offset that was returned for it -/
structure Entry where
  data : Bytes
  offset : Nat
deriving DecidableEq, Repr

def validSize (n : Nat) : Bool := n == 1 || n == 2 || n == 4 || n == 8 || n == 16 || n == 32 || n == 64

def slice (img : Bytes) (off len : Nat) : Bytes := (img.drop off).take len

def covers (e : Entry) (p : Nat) : Bool := decide (e.offset ≤ p) && decide (p < e.offset + e.data.length)

/-- the two placed constants carry the same byte at every position they have in common -/
def compatible (a b : Entry) : Bool :=
  (List.range a.data.length).all fun k =>
    !(covers b (a.offset + k)) || a.data[k]? == b.data[a.offset + k - b.offset]?

/-- aligning the pool to `align` aligns a constant of size `len` placed at a multiple of `len`: `align` is a non-zero
multiple of `len` (an alignment of 0 covers nothing) -/
def alignCovers (align len : Nat) : Bool := decide (len ≤ align) && align % len == 0

/-- judgement of an accepted `add` against the history -/
def placedOk (hist : List Entry) (n : Entry) : Bool :=
  hist.all fun e => (!(e.data == n.data) || e.offset == n.offset) && compatible e n

/-- judgement of a pool image -/
def imageOk (hist : List Entry) (size align : Nat) (img : Bytes) : Bool :=
  img.length == size
  && hist.all (fun e => slice img e.offset e.data.length == e.data)
  && (List.range size).all (fun p => hist.any (covers · p) || img[p]? == some 0#8)
  && hist.all (fun e => alignCovers align e.data.length)

/-- what the implementation shows for one operation -/
inductive Obs where
  | add (data : Bytes) (r : Result) (size align : Nat)
  | reset
  | fill (img : Bytes) (size align : Nat)
  | embed (pre : Bytes) (labelOffset : Nat) (section_ : Bytes) (size align : Nat)
deriving Repr

/-- monitor state: accepted constants, last reported size and alignment -/
structure Mon where
  hist : List Entry
  size : Nat
  align : Nat
deriving Repr

def Mon.init : Mon := { hist := [], size := 0, align := 0 }

def Mon.step (m : Mon) : Obs → Bool × Mon
  | .add data r size align =>
    if validSize data.length then
      match r with
      | .ok off =>
        (off % data.length == 0 && decide (off + data.length ≤ size) && alignCovers align data.length
          && decide (m.size ≤ size) && decide (m.align ≤ align) && placedOk m.hist ⟨data, off⟩,
         { hist := ⟨data, off⟩ :: m.hist, size := size, align := align })
      | .invalidArgument => (false, m)
    else
      (r == .invalidArgument && size == m.size && align == m.align, m)
  | .reset => (true, Mon.init)
  | .fill img size align =>
    (size == m.size && align == m.align && imageOk m.hist size align img, m)
  | .embed pre labelOffset sec size align =>
    (size == m.size && align == m.align
      && decide (pre.length ≤ labelOffset) && labelOffset % (max align 1) == 0
      && sec.take pre.length == pre
      && imageOk m.hist size align (sec.drop labelOffset), m)

/-- index of the first observation the monitor rejects -/
def firstBad : Mon → Nat → List Obs → Option Nat
  | _, _, [] => none
  | m, i, o :: rest =>
    let (ok, m') := m.step o
    if ok then firstBad m' (i + 1) rest else some i

def accepts (tr : List Obs) : Bool := (firstBad Mon.init 0 tr).isNone

/-! ### the observations the *model* produces -/

def observe (s : Pool) : Op → Obs
  | .add d => let (s', r) := add s d; .add d r s'.size s'.alignment
  | .reset => .reset
  | .fill => .fill (fill s) s.size s.alignment
  | .embed pad pre => let (l, sec) := embed pad pre s; .embed pre l sec s.size s.alignment

def trace : Pool → List Op → List Obs
  | _, [] => []
  | s, o :: rest => observe s o :: trace (step s o) rest

end AsmjitVerif.ConstPool.Spec
