/-
  C06 – the platform ABIs written as *rules* (independent of the one-pass counter loops of x86func.cpp / a64func.cpp):
  the location of an argument is a function of its type and of the types of the arguments before it ("the k-th
  INTEGER-class argument travels in gp[k]", "a Win64 argument owns the slot of its position", "NSAA is rounded up to the
  natural alignment").  Sources: System V psABI x86-64 1.0 §3.2.3, i386 psABI §2.2 + GCC/MSVC documentation of
  __stdcall/__fastcall/__thiscall/regparm, Microsoft x64 calling convention, AAPCS64 (IHI 0055) §6.8.2 rules C.1–C.17,
  Apple "Writing ARM64 code for Apple platforms".

  The answer reuses the `FuncValue` record of the model only as a container (type, register type/id, stack offset, indirect).
  `older` is always the list of the types of the preceding arguments, most recent first.
-/
import AsmjitVerif.Model.CallConv
namespace AsmjitVerif.ABI
open AsmjitVerif.CallConv

/-- register view of an integer: 32-bit register for sizes up to 4, 64-bit otherwise -/
def gpView (t : Nat) : Nat := if tySize t ≤ 4 then rtGp32 else rtGp64
/-- x86 vector register view by size -/
def xmmView (t : Nat) : Nat := if tySize t ≤ 16 then rtVec128 else if tySize t ≤ 32 then rtVec256 else rtVec512

def isF32F64 (t : Nat) : Bool := t = tFloat32 || t = tFloat64

/-! ## System V x86-64 -/
inductive Cls | integer | sse | memory | none
  deriving DecidableEq, Repr

/-- classification (psABI 3.2.3): integers → INTEGER, float/double/__m64/__m128/__m256/__m512 → SSE(+SSEUP),
    long double → X87 (passed in memory); opmask types have no C-level class (no location prescribed) -/
def sysvClass (t : Nat) : Cls :=
  if isInt t then .integer else if isF32F64 t || isVec t || isMmx t then .sse else if t = tFloat80 then .memory else .none

def sysvGp : List Nat := [7, 6, 2, 1, 8, 9]      -- rdi rsi rdx rcx r8 r9
def nCls (c : Cls) (older : List Nat) : Nat := older.countP (fun u => sysvClass u == c)

def sysvOnStack (older : List Nat) (t : Nat) : Bool :=
  match sysvClass t with
  | .integer => nCls .integer older ≥ 6
  | .sse => nCls .sse older ≥ 8
  | .memory => true
  | .none => false

/-- every stack argument occupies a multiple of eight bytes -/
def slotSize (t : Nat) : Nat := alignUp (tySize t) 8
/-- alignment of a stack argument: 8, or the type's own alignment when that is 16 or more -/
def slotAlign (t : Nat) : Nat := if slotSize t ≥ 16 then slotSize t else 8

/-- end of the stack-argument area after the arguments `older` (most recent first) have been placed -/
def sysvStackEnd : List Nat → Nat
  | [] => 0
  | t :: older =>
    if sysvOnStack older t then alignUp (sysvStackEnd older) (slotAlign t) + slotSize t else sysvStackEnd older

def sysvArg (older : List Nat) (t : Nat) : FuncValue :=
  match sysvClass t with
  | .integer =>
    if nCls .integer older < 6 then .reg t (gpView t) (sysvGp.getD (nCls .integer older) 0)
    else .stack t (alignUp (sysvStackEnd older) (slotAlign t))
  | .sse =>
    if nCls .sse older < 8 then .reg t (xmmView t) (nCls .sse older)
    else .stack t (alignUp (sysvStackEnd older) (slotAlign t))
  | .memory => .stack t (alignUp (sysvStackEnd older) (slotAlign t))
  | .none => .ofType t

/-! ## Microsoft x64: the position decides -/
def win64Gp : List Nat := [1, 2, 8, 9]           -- rcx rdx r8 r9

/-- argument at position `i`: integer / __m64 in the GP register of the position, float/double in the XMM register of
    the position, everything of 16 bytes and more by reference (the pointer takes the integer rule); positions 4.. own
    the 8-byte slot `8*i` (slots 0..3 are the register home area) -/
def win64Arg (i t : Nat) : FuncValue :=
  if isInt t || isMmx t then
    if i < 4 then .reg t (if isMmx t then rtGp64 else gpView t) (win64Gp.getD i 0) else .stack t (8 * i)
  else if isF32F64 t then
    if i < 4 then .reg t rtVec128 i else .stack t (8 * i)
  else
    if i < 4 then .reg t rtGp64 (win64Gp.getD i 0) true else .stack t (8 * i) true

def win64Supported (t : Nat) : Bool := isInt t || isMmx t || isF32F64 t || isVec t

/-! ## AAPCS64 and Apple's variant -/
def a64Supported (t : Nat) : Bool := isInt t || isF32F64 t || isVec32 t || isVec64 t || isVec128 t || isMask t || isMmx t
def a64IsSimd (t : Nat) : Bool := isF32F64 t || isVec t

def a64OnStack (older : List Nat) (t : Nat) : Bool :=
  if isInt t then older.countP isInt ≥ 8 else if a64IsSimd t then older.countP a64IsSimd ≥ 8 else false

/-- C.14/C.16: size rounded up to 8 (AAPCS64); Apple: the argument's own size -/
def a64SlotSize (apple : Bool) (t : Nat) : Nat := if apple then tySize t else max (tySize t) 8
/-- C.14: NSAA is rounded up to max(8, natural alignment); Apple: natural alignment -/
def a64SlotAlign (apple : Bool) (t : Nat) : Nat := min (a64SlotSize apple t) 16

def a64StackEnd (apple : Bool) : List Nat → Nat
  | [] => 0
  | t :: older =>
    if a64OnStack older t then alignUp (a64StackEnd apple older) (a64SlotAlign apple t) + a64SlotSize apple t
    else a64StackEnd apple older

def a64SimdView (t : Nat) : Nat := if tySize t ≤ 4 then rtVec32 else if tySize t ≤ 8 then rtVec64 else rtVec128

def a64Arg (apple : Bool) (older : List Nat) (t : Nat) : FuncValue :=
  if isInt t then
    if older.countP isInt < 8 then .reg t (gpView t) (older.countP isInt)
    else .stack t (alignUp (a64StackEnd apple older) (a64SlotAlign apple t))
  else if a64IsSimd t then
    if older.countP a64IsSimd < 8 then .reg t (a64SimdView t) (older.countP a64IsSimd)
    else .stack t (alignUp (a64StackEnd apple older) (a64SlotAlign apple t))
  else .ofType t

/-! ## 32-bit x86: cdecl, stdcall, fastcall, thiscall, regparm(n)
    Integer arguments of at most 32 bits use the convention's register list while it lasts, float/double always the stack,
    SSE vectors xmm0–2 unless the function is variadic; everything else goes to 4-byte stack slots (16-byte vectors aligned).
    A 64-bit integer occupies two consecutive slots (low half first). -/
def x32Supported (gp : List Nat) (t : Nat) : Bool :=
  -- 64-bit integers: cdecl/stdcall (all on the stack) and Microsoft __fastcall / __thiscall ("the first two DWORD or smaller
  -- arguments ... are passed in ECX and EDX; all other arguments are passed on the stack"); GCC regparm pairs are not written
  (isInt t && (tySize t ≤ 4 || gp.isEmpty || gp = [1, 2] || gp = [1])) || isF32F64 t || isVec t || isMask t

def isSmallInt (t : Nat) : Bool := isInt t && tySize t ≤ 4

def x32OnStack (gp : List Nat) (va : Bool) (older : List Nat) (t : Nat) : Bool :=
  if isInt t then (if tySize t ≤ 4 then older.countP isSmallInt ≥ gp.length else true)
  else if isF32F64 t then true
  else if isVec t then va || older.countP isVec ≥ 3
  else false

def x32SlotSize (t : Nat) : Nat := max (tySize t) 4
def x32SlotAlign (t : Nat) : Nat := if isVec t && tySize t ≥ 16 then tySize t else 1

def x32StackEnd (gp : List Nat) (va : Bool) : List Nat → Nat
  | [] => 0
  | t :: older =>
    if x32OnStack gp va older t then alignUp (x32StackEnd gp va older) (x32SlotAlign t) + x32SlotSize t
    else x32StackEnd gp va older

def x32Arg (gp : List Nat) (va : Bool) (older : List Nat) (t : Nat) : List FuncValue :=
  let off := alignUp (x32StackEnd gp va older) (x32SlotAlign t)
  if isInt t then
    if tySize t ≤ 4 then
      if older.countP isSmallInt < gp.length then [.reg t rtGp32 (gp.getD (older.countP isSmallInt) 0)] else [.stack t off]
    else [.stack tUInt32 off, .stack (t - 2) (off + 4)]
  else if isF32F64 t then [.stack t off]
  else if isVec t then
    if !va && older.countP isVec < 3 then [.reg t (xmmView t) (older.countP isVec)] else [.stack t off]
  else [.ofType t]

/-! ## the conventions -/
inductive Conv
  | sysv | win64 | aapcs64 | apple
  | x32 (gp : List Nat) (calleePops : Bool)
  deriving DecidableEq, Repr

/-- which ABI a (target, convention id) pair of AsmJit denotes; `none`: no external ABI is claimed here (light-call,
    x64 vectorcall – see notes/C06.md) -/
def convOf (e : Env) (ccid : Nat) : Option Conv :=
  match e.arch with
  | .x64 => if ccid = 32 then some .sysv else if ccid = 33 then some .win64
            else if cdeclLike ccid then some (if e.win then .win64 else .sysv) else none
  | .a64 => if cdeclLike ccid || ccid = 3 then some (if e.darwin then .apple else .aapcs64) else none
  | .x86 =>
    if ccid = 0 then some (.x32 [] false) else if ccid = 1 then some (.x32 [] true)
    else if ccid = 2 then some (.x32 [1, 2] true)
    else if ccid = 4 then some (if e.win then .x32 [1] true else .x32 [] false)
    else if ccid = 5 then some (.x32 [0] false) else if ccid = 6 then some (.x32 [0, 2] false)
    else if ccid = 7 then some (.x32 [0, 2, 1] false) else none

def Conv.supported : Conv → Nat → Bool
  | .sysv, t => isInt t || isF32F64 t || isVec t || isMask t || isMmx t || t = tFloat80
  | .win64, t => win64Supported t
  | .aapcs64, t => a64Supported t
  | .apple, t => a64Supported t
  | .x32 gp _, t => x32Supported gp t

/-- locations of all arguments: the rule applied to every position; `older` grows as we walk -/
def argsFrom (c : Conv) (va : Bool) : List Nat → List Nat → List (List FuncValue)
  | _, [] => []
  | older, t :: rest =>
    (match c with
     | .sysv => [sysvArg older t]
     | .win64 => [win64Arg older.length t]
     | .aapcs64 => [a64Arg false older t]
     | .apple => [a64Arg true older t]
     | .x32 gp _ => x32Arg gp va older t) :: argsFrom c va (t :: older) rest

/-- size of the stack-argument area (what the callee pops when it pops) -/
def argStackSize (c : Conv) (va : Bool) (args : List Nat) : Nat :=
  match c with
  | .sysv => sysvStackEnd args.reverse
  | .win64 => 8 * max args.length 4
  | .aapcs64 => alignUp (a64StackEnd false args.reverse) 8
  | .apple => alignUp (a64StackEnd true args.reverse) 8
  | .x32 gp _ => x32StackEnd gp va args.reverse

structure Frame where
  calleePops : Bool
  redZone : Nat
  shadow : Nat            -- register home / spill area the caller reserves
  stackAlign : Nat
  presGp : List Nat
  presVec : List Nat
  deriving DecidableEq, Repr

def Conv.frame : Conv → Frame
  | .sysv => ⟨false, 128, 0, 16, [3, 4, 5, 12, 13, 14, 15], []⟩
  | .win64 => ⟨false, 0, 32, 16, [3, 4, 5, 6, 7, 12, 13, 14, 15], [6, 7, 8, 9, 10, 11, 12, 13, 14, 15]⟩
  | .aapcs64 => ⟨false, 0, 0, 16, [18, 19, 20, 21, 22, 23, 24, 25, 26, 27, 28, 29, 30], [8, 9, 10, 11, 12, 13, 14, 15]⟩
  | .apple => ⟨false, 0, 0, 16, [18, 19, 20, 21, 22, 23, 24, 25, 26, 27, 28, 29, 30], [8, 9, 10, 11, 12, 13, 14, 15]⟩
  | .x32 _ pops => ⟨pops, 0, 0, 4, [3, 4, 5, 6, 7], []⟩

/-- return value: (register type, register id) per part -/
def retLoc (c : Conv) (t : Nat) : Option (List (Nat × Nat)) :=
  if t = tVoid then some [] else
  match c with
  | .sysv =>
    if isInt t then some [(gpView t, 0)] else if isF32F64 t || isVec t || isMmx t then some [(xmmView t, 0)]
    else if t = tFloat80 then some [(rtSt, 0)] else none
  | .win64 =>
    if isInt t then some [(gpView t, 0)] else if isMmx t then some [(rtGp64, 0)]
    else if isF32F64 t || isVec128 t then some [(rtVec128, 0)] else none
  | .aapcs64 | .apple =>
    if isInt t then some [(gpView t, 0)]
    else if isF32F64 t || isVec32 t || isVec64 t || isVec128 t then some [(a64SimdView t, 0)] else none
  | .x32 _ _ =>
    if isInt t then (if tySize t ≤ 4 then some [(rtGp32, 0)] else some [(rtGp32, 0), (rtGp32, 2)])
    else if isFloat t then some [(rtSt, 0)] else if isVec t then some [(xmmView t, 0)]
    else if isMmx t then some [(rtMm, 0)] else none

/-! ## the decidable monitor: what the implementation answered versus the rules -/
structure Observed where
  argStackSize : Nat
  args : List (List FuncValue)
  rets : List (Nat × Nat)
  calleePops : Bool
  redZone : Nat
  spillZone : Nat
  naturalAlign : Nat
  presGp : Nat
  presVec : Nat
  deriving DecidableEq, Repr

/-- `none` = signature outside the domain of the written rules (nothing is claimed); `some true` = conforms -/
def monitor (c : Conv) (va : Bool) (ret : Nat) (args : List Nat) (o : Observed) : Option Bool :=
  if !(args.all c.supported) then none else
  match retLoc c ret with
  | none => none
  | some r =>
    let f := c.frame
    some (o.args == argsFrom c va [] args && o.argStackSize == argStackSize c va args && o.rets == r
          && o.calleePops == f.calleePops && o.redZone == f.redZone && o.spillZone == f.shadow
          && o.naturalAlign == f.stackAlign && o.presGp == maskOf f.presGp && o.presVec == maskOf f.presVec)

/-- which part differs (for the violation key) -/
def monitorWhy (c : Conv) (va : Bool) (ret : Nat) (args : List Nat) (o : Observed) : String :=
  let f := c.frame
  if o.args != argsFrom c va [] args then "args"
  else if o.argStackSize != argStackSize c va args then "stack-size"
  else if some o.rets != retLoc c ret then "ret"
  else if o.calleePops != f.calleePops then "callee-pops"
  else if o.redZone != f.redZone || o.spillZone != f.shadow then "zones"
  else if o.naturalAlign != f.stackAlign then "stack-align"
  else "preserved"

-- sanity examples of the rules (documents' own examples)
example : argsFrom .sysv false [] [tInt32, tFloat64, tInt64] =
    [[.reg tInt32 rtGp32 7], [.reg tFloat64 rtVec128 0], [.reg tInt64 rtGp64 6]] := by decide +kernel
-- seven integers: the seventh on the stack at 0; nine doubles: the ninth at 0
example : (argsFrom .sysv false [] (List.replicate 7 tInt64)).getLast? = some [.stack tInt64 0] := by decide +kernel
-- Microsoft's example func2(int a, double b, int c, float d): ECX, XMM1, R8, XMM3
example : argsFrom .win64 false [] [tInt32, tFloat64, tInt32, tFloat32] =
    [[.reg tInt32 rtGp32 1], [.reg tFloat64 rtVec128 1], [.reg tInt32 rtGp32 8], [.reg tFloat32 rtVec128 3]] := by decide +kernel
-- func(__m128 a, int b, int c, int d, int e): a by reference in RCX, e in the fifth slot (offset 32)
example : argsFrom .win64 false [] [79, tInt32, tInt32, tInt32, tInt32] =
    [[.reg 79 rtGp64 1 true], [.reg tInt32 rtGp32 2], [.reg tInt32 rtGp32 8], [.reg tInt32 rtGp32 9], [.stack tInt32 32]] := by decide +kernel
-- Apple: nine ints then four chars and a short: 0,1,2,3 and 4
example : (argsFrom .apple false [] (List.replicate 8 tInt32 ++ [tInt8, tInt8, tInt8, tInt8, tInt16])).drop 8 =
    [[.stack tInt8 0], [.stack tInt8 1], [.stack tInt8 2], [.stack tInt8 3], [.stack tInt16 4]] := by decide +kernel
-- AAPCS64: the same arguments take one 8-byte slot each
example : (argsFrom .aapcs64 false [] (List.replicate 8 tInt32 ++ [tInt8, tInt8, tInt16])).drop 8 =
    [[.stack tInt8 0], [.stack tInt8 8], [.stack tInt16 16]] := by decide +kernel
-- a 16-byte vector after one 8-byte stack slot is 16-aligned (AAPCS64 C.14, SysV 3.2.3)
example : (argsFrom .aapcs64 false [] (List.replicate 8 tFloat64 ++ [tFloat64, 79])).drop 8 = [[.stack tFloat64 0], [.stack 79 16]] := by decide +kernel
example : (argsFrom .sysv false [] (List.replicate 8 tFloat64 ++ [tFloat32, tFloat32, 79])).drop 8 =
    [[.stack tFloat32 0], [.stack tFloat32 8], [.stack 79 16]] := by decide +kernel
-- __fastcall f(int a, long long b, int c): ECX, the whole 64-bit value on the stack, EDX
example : argsFrom (.x32 [1, 2] true) false [] [tInt32, tInt64, tInt32] =
    [[.reg tInt32 rtGp32 1], [.stack tUInt32 0, .stack tInt32 4], [.reg tInt32 rtGp32 2]] := by decide +kernel
-- __fastcall f(int a, double b, int c, int d): ECX, stack 0, EDX, stack 8
example : argsFrom (.x32 [1, 2] true) false [] [tInt32, tFloat64, tInt32, tInt32] =
    [[.reg tInt32 rtGp32 1], [.stack tFloat64 0], [.reg tInt32 rtGp32 2], [.stack tInt32 8]] := by decide +kernel

end AsmjitVerif.ABI
