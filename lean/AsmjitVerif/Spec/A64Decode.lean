/-
Independent specification for C02: what an AArch64 instruction word *means*, read off the ISA database.

A database form (regenerated into `Gen/A64DB.lean` by tools/gen_a64.py from db/isa_aarch64.json through db/index.js)
is a bit template `(mask, value)`, named fields with their positions, and one `OpSpec` per assembly operand that says
how the operand is denoted by the fields (Arm ARM: register numbers with 31 = SP or ZR by form, shift / extend kinds
and amounts, `imm12 LSL (0|12)`, logical immediates through `DecodeBitMasks` (Spec/A64Imm.lean, proved against the
encoder in C17), bit-field aliases, condition codes, scaled / unscaled / pre / post / register-index addressing,
PC-relative offsets).  `describes f ops pos w` decides whether word `w` is form `f` applied to operands `ops`.

The *monitor of the property* is `judge`: an accepted instruction must be described by some form of its mnemonic.
Operand kinds the spec does not interpret yet (vector arrangements through `sz/Q`, element indices, system-operation
immediates) make a form *partial*: template and every register field are still checked.
-/
import AsmjitVerif.Model.A64Operand
import AsmjitVerif.Spec.A64Imm
namespace AsmjitVerif.A64Spec
open AsmjitVerif.A64
open AsmjitVerif.A64Imm

structure Piece where
  pos : Nat      -- bit position in the instruction word
  frm : Nat      -- bit position inside the field value
  size : Nat
  deriving DecidableEq, Repr

structure Field where
  name : String
  pieces : List Piece
  deriving DecidableEq, Repr

def Field.get (f : Field) (w : Nat) : Nat :=
  f.pieces.foldl (fun acc p => acc ||| (((w >>> p.pos) % 2 ^ p.size) <<< p.frm)) 0

def Field.width (f : Field) : Nat := f.pieces.foldl (fun acc p => max acc (p.frm + p.size)) 0

/-- value of field `name`; a field that occurs several times (e.g. `Rn|cond|01|Rn`) must hold the same value everywhere -/
def fieldGet (fs : List Field) (name : String) (w : Nat) : Option Nat :=
  match fs.filter (·.name == name) with
  | [] => none
  | f :: rest => if rest.all (fun g => g.get w == f.get w) then some (f.get w) else none

def fieldWidth (fs : List Field) (name : String) : Nat :=
  match fs.find? (·.name == name) with
  | some f => f.width
  | none => 0

inductive GpW where | w32 | x64 | any
  deriving DecidableEq, Repr

/-- addressing mode selector of a memory form -/
inductive MemMode where
  | fixed | pre | post
  | byFields      -- `{@}{!}`: fields `!post` and `W` select offset / pre / post
  deriving DecidableEq, Repr

inductive OpSpec where
  /-- general-purpose register: width, field holding the number, and whether number 31 is SP (else ZR) -/
  | gp (w : GpW) (field : String) (sp : Bool)
  /-- second register of a consecutive pair `2x{Xs}+` (number = field + 1 mod 32) -/
  | gpNext (w : GpW) (field : String) (delta : Nat)
  /-- scalar SIMD&FP register B/H/S/D/Q (RegType 7..11, no element type) -/
  | vscalar (rt : Nat) (field : String)
  /-- vector with a fixed arrangement, e.g. `Vn.4S` = (Vec128, S) -/
  | vfixed (rt : Nat) (et : Nat) (field : String)
  /-- vector whose arrangement is selected by other fields (`.t/.ta/.tb`): register number only  [partial] -/
  | vany (field : String) (delta : Nat)
  /-- element access `V.x[i]`: register number only [partial] -/
  | velem (field : String) (delta : Nat)
  /-- plain unsigned field: value = field * scale -/
  | immU (field : String) (scale : Nat)
  /-- plain signed field of `bits` bits -/
  | immS (field : String)
  /-- the constant `#k` -/
  | immConst (k : Nat)
  /-- condition code (asmjit numbering: EQ = 2 ... LE = 15, AL = 0, NA = 1) held in a 4-bit field, optionally inverted (CINC, CSET, ... aliases) -/
  | cond (field : String) (inverted : Bool)
  /-- optional `{lsl|lsr|asr|ror #n}`: fields (sop, n); `ror` allowed?; operation width -/
  | shift (sopField nField : String) (ror : Bool) (bits64 : Bool)
  /-- optional `{extend #n}`: fields (option, n) -/
  | extend (optField nField : String) (bits64 : Bool)
  /-- `#imm, {lsl #0|12}`: value = imm12 LSL (sh ? 12 : 0); consumes one or two operands -/
  | addSubImm (immField shField : String)
  /-- logical immediate N:immr:imms in one 13-bit field or in (N?) immr imms; 64-bit op? ; negated by the mnemonic (BIC...)? -/
  | logical (field : String) (bits64 : Bool)
  /-- move-wide immediate `#imm16 {, lsl #(16*hw)}` -/
  | wide (immField hwField : String) (bits64 : Bool)
  /-- bit-field alias operands `#lsb, #width` (consumes two operands); kind 0 = BFI/SBFIZ/UBFIZ/BFC, 1 = BFXIL/SBFX/UBFX -/
  | bfLsbWidth (kind : Nat) (bits64 : Bool)
  /-- shift-immediate aliases: 0 = LSL (UBFM), 1 = LSR/ASR (immr = n, imms = all ones), 2 = ROR (EXTR: field n) -/
  | shiftAlias (kind : Nat) (bits64 : Bool)
  /-- PC-relative target: field value sign-extended * scale = target - pc (adrp: pages) -/
  | rel (field : String) (scale : Nat) (page : Bool)
  /-- `[Xn|SP]` -/
  | memBase (baseField : String)
  /-- `[Xn|SP, #off]` forms: signed?, scale, addressing mode -/
  | memOff (baseField offField : String) (signed : Bool) (scale : Nat) (mode : MemMode)
  /-- `[Xn|SP, Rm, {uxtw|lsl|sxtw|sxtx #n}]`: fields (Rn, Rm, option, S); log2 access size from the word (size field) or fixed -/
  | memIndex (baseField rmField optField sField : String) (fixedScale : Option Nat)
  /-- literal `[PC, #off]` -/
  | memLit (field : String) (scale : Nat)
  /-- a memory operand of which only the base register is interpreted [partial] -/
  | memBaseOnly (baseField : String)
  /-- anything else: accepted without interpretation [partial] -/
  | unchecked (what : String)
  deriving DecidableEq, Repr

def OpSpec.isPartial : OpSpec → Bool
  | .vany .. | .velem .. | .unchecked _ | .memBaseOnly _ => true
  | _ => false

/-- is the DB operand optional (`{...}`)? -/
def OpSpec.optional : OpSpec → Bool
  | .shift .. | .extend .. => true
  | _ => false

structure Form where
  name : String
  mask : Nat
  value : Nat
  fields : List Field
  ops : List OpSpec
  /-- fields that no operand spec accounts for (their content is not interpreted) -/
  freeFields : List String := []
  deriving Repr

def Form.isPartial (f : Form) : Bool := f.ops.any (·.isPartial) || !f.freeFields.isEmpty

def Form.matchesTemplate (f : Form) (w : Nat) : Bool := w &&& f.mask == f.value

/-! ### operand semantics -/

def gpWidthOk (w : GpW) (r : Reg) : Bool :=
  match w with
  | .w32 => r.rt == rtGp32
  | .x64 => r.rt == rtGp64
  | .any => r.isGp

/-- register number designated by a GP operand: 0..30, SP only where the form says 31 = SP, ZR only where it says 31 = ZR -/
def gpNumber (r : Reg) (sp : Bool) : Option Nat :=
  if r.id < 31 then some r.id
  else if r.id == idSP then (if sp then some 31 else none)
  else if r.id == idZR then (if sp then none else some 31)
  else none

def sext (bits : Nat) (v : Nat) : Int :=
  if bits == 0 then 0 else if v ≥ 2 ^ (bits - 1) then (v : Int) - (2 ^ bits : Nat) else v

/-- asmjit CondCode -> architectural 4-bit condition -/
def condField (c : Nat) : Nat := (c + 14) % 16

def opWidth (b64 : Bool) : Nat := if b64 then 64 else 32

/-- extend option number of a ShiftOp (UXTB..SXTX = 6..13) -/
def extendOption (sop : Nat) : Option Nat := if sop ≥ 6 ∧ sop ≤ 13 then some (sop - 6) else none

/-- log2 access size of a load/store (register offset) word: `size` = bits 31:30; SIMD&FP (bit 26) adds opc<1> (bit 23) as bit 2 -/
def ldstScale (w : Nat) : Nat :=
  let size := (w >>> 30) % 4
  if (w >>> 26) % 2 == 1 then size + 4 * ((w >>> 23) % 2) else size

structure Ctx where
  fields : List Field
  w : Nat
  pc : BitVec 64         -- address of this instruction
  name : String

def Ctx.get (c : Ctx) (n : String) : Option Nat := fieldGet c.fields n c.w

def memBaseOk (c : Ctx) (m : Mem) (baseField : String) : Bool :=
  m.baseType == rtGp64 &&
  (match gpNumber { rt := rtGp64, id := m.baseId } true, c.get baseField with
   | some n, some v => n == v
   | _, _ => false)

/-- Match one operand spec against the head of the operand list; returns the rest of the list. -/
def matchOp (c : Ctx) (s : OpSpec) (ops : List Operand) : Option (List Operand) :=
  match s, ops with
  | .gp w fld sp, .reg r :: rest =>
    if gpWidthOk w r && r.et == 0 && !r.hasIdx then
      match gpNumber r sp, c.get fld with
      | some n, some v => if n == v then some rest else none
      | _, _ => none
    else none
  | .gpNext w fld d, .reg r :: rest =>
    if gpWidthOk w r && r.et == 0 && !r.hasIdx && r.id < 31 then
      match c.get fld with
      | some v => if r.id == (v + d) % 32 then some rest else none
      | none => none
    else none
  | .vscalar rt fld, .reg r :: rest =>
    if r.rt == rt && r.et == 0 && !r.hasIdx && r.id < 32 && c.get fld == some r.id then some rest else none
  | .vfixed rt et fld, .reg r :: rest =>
    if r.rt == rt && r.et == et && !r.hasIdx && r.id < 32 && c.get fld == some r.id then some rest else none
  | .vany fld d, .reg r :: rest =>
    if r.isVec && !r.hasIdx && r.id < 32 then
      match c.get fld with
      | some v => if r.id == (v + d) % 32 then some rest else none
      | none => none
    else none
  | .velem fld d, .reg r :: rest =>
    if r.isVec && r.hasIdx && r.id < 32 then
      match c.get fld with
      | some v => if r.id < 2 ^ fieldWidth c.fields fld && r.id == (v + d) % 32 then some rest else none
      | none => none
    else none
  | .immU fld scale, .imm v _ :: rest =>   -- the shift predicate of an Imm has no meaning in a plain immediate position
    match c.get fld with
    | some f => if v.toNat == f * scale then some rest else none
    | none => none
  | .immS fld, .imm v _ :: rest =>
    match c.get fld with
    | some f => if v.toInt == sext (fieldWidth c.fields fld) f then some rest else none
    | none => none
  | .immConst k, .imm v _ :: rest => if v.toNat == k then some rest else none
  | .cond fld inv, .imm v _ :: rest =>
    match c.get fld with
    | some f => if v.toNat < 16 && f == (if inv then (condField v.toNat) ^^^ 1 else condField v.toNat) then some rest else none
    | none => none
  | .shift sopF nF ror b64, ops =>
    match c.get sopF, c.get nF with
    | some sop, some n =>
      match ops with
      | .imm v p :: rest =>
        if p == sop && (p ≤ 2 || (ror && p == 3)) && v.toNat == n && n < opWidth b64 then some rest else none
      | [] => if sop == 0 && n == 0 then some [] else none
      | _ => none
    | _, _ => none
  | .extend optF nF b64, ops =>
    match c.get optF, c.get nF with
    | some opt, some n =>
      match ops with
      | .imm v p :: rest =>
        -- explicit extend, or `lsl #n` which stands for UXTX (64-bit) / UXTW (32-bit) (Arm ARM: LSL is the preferred form when Rd or Rn is SP)
        if n ≤ 4 && v.toNat == n &&
           (extendOption p == some opt || (p == sopLSL && opt == (if b64 then 3 else 2))) then some rest else none
      | [] => if n == 0 && opt == (if b64 then 3 else 2) then some [] else none
      | _ => none
    | _, _ => none
  | .addSubImm immF shF, .imm v p :: rest0 =>
    match c.get immF, c.get shF with
    | some i, some sh =>
      let denoted := i * (if sh == 1 then 4096 else 1)
      let _ := p
      match rest0 with
      | .imm s ps :: rest =>
        if ps == sopLSL && (s.toNat == 0 || s.toNat == 12) && v.toNat * 2 ^ s.toNat == denoted then some rest else none
      | rest => if v.toNat == denoted then some rest else none
    | _, _ => none
  | .logical fld b64, .imm v p :: rest =>
    match c.get fld with
    | some e =>
      let n := (e >>> 12) % 2 == 1
      let immr := BitVec.ofNat 6 ((e >>> 6) % 64)
      let imms := BitVec.ofNat 6 (e % 64)
      let dec := if b64 then decodeBitMasks n imms immr else decodeBitMasks32 n imms immr
      let want := if b64 then v else v &&& 0xFFFFFFFF#64
      -- BIC / BICS (immediate) are aliases of AND / ANDS with the inverted immediate
      let want := if c.name == "bic" || c.name == "bics" then (if b64 then ~~~want else (~~~want) &&& 0xFFFFFFFF#64) else want
      let _ := p
      if dec == some want then some rest else none
    | none => none
  | .wide immF hwF b64, .imm v p :: rest0 =>
    match c.get immF, c.get hwF with
    | some i, some hw =>
      let _ := p
      if v.toNat != i || (!b64 && hw ≥ 2) then none else
      match rest0 with
      | .imm s ps :: rest => if ps == sopLSL && s.toNat == 16 * hw then some rest else none
      | rest => if hw == 0 then some rest else none
    | _, _ => none
  | .bfLsbWidth kind b64, .imm lsb p1 :: .imm width p2 :: rest =>
    match c.get "immr", c.get "imms" with
    | some immr, some imms =>
      let sz := opWidth b64
      let l := lsb.toNat
      let wd := width.toNat
      let _ := (p1, p2)
      if l ≥ sz || wd == 0 || l + wd > sz then none else
      if kind == 0 then (if immr == (sz - l) % sz && imms == wd - 1 then some rest else none)
      else (if immr == l && imms == l + wd - 1 then some rest else none)
    | _, _ => none
  | .shiftAlias kind b64, .imm v p :: rest =>
    let sz := opWidth b64
    let n := v.toNat
    let _ := p
    if n ≥ sz then none else
    if kind == 2 then (if c.get "n" == some n || c.get "imm" == some n then some rest else none) else
    match c.get "immr", c.get "imms" with
    | some immr, some imms =>
      if kind == 0 then (if immr == (sz - n) % sz && imms == sz - 1 - n then some rest else none)
      else (if immr == n && imms == sz - 1 then some rest else none)
    | _, _ => (if kind == 1 && c.get "immr" == some n then some rest else none)
  | .rel fld scale page, op :: rest =>
    match c.get fld with
    | some f =>
      let disp : Int := sext (fieldWidth c.fields fld) f * scale
      let pcv : Nat := if page then c.pc.toNat / 4096 * 4096 else c.pc.toNat
      let target : Option (BitVec 64) :=
        match op with
        | .imm v _ => some v
        | .label => some baseAddress
        | _ => none
      match target with
      | some t => if BitVec.ofInt 64 ((pcv : Int) + disp) == t then some rest else none
      | none => none
    | none => none
  | .memBase bF, .mem m :: rest =>
    if memBaseOk c m bF && m.indexType == 0 && m.off == 0 then some rest else none
  | .memOff bF oF signed scale mode, .mem m :: rest =>
    match c.get oF with
    | some f =>
      let disp : Int := (if signed then sext (fieldWidth c.fields oF) f else (f : Int)) * scale
      let modeOk : Bool :=
        match mode with
        | .fixed => m.mode == 0 || disp == 0
        | .pre => m.mode == 1
        | .post => m.mode == 2
        | .byFields =>
          match c.get "!post", c.get "W" with
          | some np, some wb =>
            -- (!post, W): (1,0) signed offset, (1,1) pre-index, (0,1) post-index; (0,0) is not an immediate-offset form
            (np == 1 && wb == 0 && (m.mode == 0 || disp == 0)) || (np == 1 && wb == 1 && m.mode == 1) || (np == 0 && wb == 1 && m.mode == 2)
          | _, _ => false
      if memBaseOk c m bF && m.indexType == 0 && m.off.toInt == disp && modeOk then some rest else none
    | none => none
  | .memIndex bF rmF optF sF fixedScale, .mem m :: rest =>
    match c.get rmF, c.get optF, c.get sF with
    | some rm, some opt, some s =>
      let scale := fixedScale.getD (ldstScale c.w)
      let wantOpt : Option Nat :=
        if m.shiftOp == sopUXTW then some 2 else if m.shiftOp == sopLSL then some 3
        else if m.shiftOp == sopSXTW then some 6 else if m.shiftOp == sopSXTX then some 7 else none
      -- option<0> = 1 designates an X index register, 0 a W register
      let idxTypeOk := if opt % 2 == 1 then m.indexType == rtGp64 else m.indexType == rtGp32
      let idxNum := gpNumber { rt := m.indexType, id := m.indexId } false
      if memBaseOk c m bF && m.mode == 0 && m.off == 0 && wantOpt == some opt && idxTypeOk && idxNum == some rm &&
         ((s == 0 && m.shift == 0) || (s == 1 && m.shift == scale)) then some rest else none
    | _, _, _ => none
  | .memLit fld scale, op :: rest =>
    match c.get fld with
    | some f =>
      let disp : Int := sext (fieldWidth c.fields fld) f * scale
      let target : Option (BitVec 64) :=
        match op with
        | .abs a => some a
        | .memLabel off => some (baseAddress + off)
        | _ => none
      match target with
      | some t => if BitVec.ofInt 64 ((c.pc.toNat : Int) + disp) == t then some rest else none
      | none => none
    | none => none
  | .memBaseOnly bF, .mem m :: rest => if memBaseOk c m bF then some rest else none
  | .unchecked _, _ :: rest => some rest
  | .unchecked what, [] => if what.startsWith "{" then some [] else none     -- `{lsl #n}`: optional operand left out
  | _, _ => none

def matchOps (c : Ctx) : List OpSpec → List Operand → Bool
  | [], ops => ops.all (· == .none)
  | s :: ss, ops =>
    match matchOp c s (match ops with | .none :: _ => [] | o => o) with
    | some rest => matchOps c ss rest
    | none => false

/-- Does word `w` at address `pc` encode form `f` applied to `ops`? -/
def describes (f : Form) (ops : List Operand) (pc : BitVec 64) (w : BitVec 32) : Bool :=
  f.matchesTemplate w.toNat && matchOps { fields := f.fields, w := w.toNat, pc := pc, name := f.name } f.ops ops

/-! ### `mov Rd, #imm` is a pseudo instruction: one to four move-wide words or one ORR (immediate).
It is judged by what the words do to the destination register (a W-form write zero-extends, so `movn w0, #..` may
load a 64-bit value with a zero upper half). -/

/-- value in Rd after `orr Rd|SP, ZR, #logical` -/
def orrImmVal (b64 : Bool) (w : BitVec 32) : Option (BitVec 64) :=
  let wn := w.toNat
  let fixed := if b64 then 0xB2000000 else 0x32000000
  if wn &&& 0xFF800000 != fixed || (wn >>> 5) % 32 != 31 then none else
  let n := (wn >>> 22) % 2 == 1
  let immr := BitVec.ofNat 6 ((wn >>> 16) % 64)
  let imms := BitVec.ofNat 6 ((wn >>> 10) % 64)
  if b64 then decodeBitMasks n imms immr else decodeBitMasks32 n imms immr

def describesMovImm (r : Reg) (v : BitVec 64) (words : List (BitVec 32)) : Bool :=
  let b64 := r.rt == rtGp64
  let want := if b64 then v else v &&& 0xFFFFFFFF#64
  if !r.isGp || r.et != 0 || r.hasIdx then false else
  match words with
  | [] => false
  | [w] =>
    (match gpNumber r true with          -- ORR (immediate): Rd = 31 is SP
     | some rd => (w.toNat % 32 == rd) && orrImmVal b64 w == some want
     | none => false) ||
    (match gpNumber r false with         -- move wide: Rd = 31 is ZR
     | some rd =>
       let e := execMovSeq (BitVec.ofNat 32 rd) 0xdeadbeefcafef00d#64 [w]
       e.1 && e.2 == want
     | none => false)
  | ws =>
    match gpNumber r false with
    | some rd =>
      let e1 := execMovSeq (BitVec.ofNat 32 rd) 0xdeadbeefcafef00d#64 ws
      let e2 := execMovSeq (BitVec.ofNat 32 rd) 0x0123456789abcdef#64 ws
      ws.length ≤ 4 && e1.1 && e1.2 == want && e2.2 == want
    | none => false

/-- `LDR/STR (immediate)` with an offset that the scaled unsigned form cannot hold is assembled as the unscaled
`LDUR/STUR` form (Arm ARM C6.2 "LDUR ... alias"; GNU as and LLVM do the same): forms of the alias mnemonic also describe it. -/
def unscaledAlias (name : String) : Option String :=
  match name with
  | "ldr" => some "ldur" | "ldrb" => some "ldurb" | "ldrh" => some "ldurh" | "ldrsb" => some "ldursb"
  | "ldrsh" => some "ldursh" | "ldrsw" => some "ldursw" | "str" => some "stur" | "strb" => some "sturb"
  | "strh" => some "sturh" | "prfm" => some "prfum"
  | _ => none

/-! ### `movi` / `mvni` (vector, immediate): judged by the vector the word loads (Arm ARM AdvSIMDExpandImm) against the vector
the operands denote (`#imm {, LSL|MSL #n}` replicated over the arrangement's elements; no shift exists for 64-bit elements). -/

def replicate64 (es : Nat) (v : Nat) : Nat :=
  let e := v % 2 ^ es
  (List.range (64 / es)).foldl (fun acc i => acc ||| (e <<< (es * i))) 0

/-- AdvSIMDExpandImm for the MOVI/MVNI encodings (`none`: the ORR/BIC/FMOV uses of the same template) -/
def moviExpand (op cmode imm8 : Nat) : Option Nat :=
  let k := cmode / 2
  if k ≤ 3 then (if cmode % 2 == 1 then none else some (replicate64 32 (imm8 <<< (8 * k))))
  else if k ≤ 5 then (if cmode % 2 == 1 then none else some (replicate64 16 (imm8 <<< (8 * (k - 4)))))
  else if k == 6 then some (replicate64 32 (if cmode % 2 == 0 then (imm8 <<< 8) ||| 0xFF else (imm8 <<< 16) ||| 0xFFFF))
  else if cmode % 2 == 1 then none
  else if op == 0 then some (replicate64 8 imm8)
  else some ((List.range 8).foldl (fun acc i => if (imm8 >>> i) % 2 == 1 then acc ||| (0xFF <<< (8 * i)) else acc) 0)

/-- `true` for every mnemonic but movi / mvni (and for operand shapes this check does not interpret) -/
def moviOk (name : String) (ops : List Operand) (w : Nat) : Bool :=
  if name != "movi" && name != "mvni" then true else
  match ops.filter (· != .none) with
  | .reg r :: .imm v _ :: rest =>
    let sh : Option (Nat × Nat) := match rest with
      | [] => some (0, sopLSL)
      | [.imm s p] => some (s.toNat, p)
      | _ => none
    let es : Option Nat := if r.et == 1 then some 8 else if r.et == 2 then some 16 else if r.et == 3 then some 32 else if r.et == 4 then some 64
                           else if r.et == 0 && r.rt == rtVec64 then some 64 else none
    match sh, es with
    | some (s, p), some es =>
      let q := (w >>> 30) % 2
      let op := (w >>> 29) % 2
      let cmode := (w >>> 12) % 16
      let imm8 := (((w >>> 16) % 8) <<< 5) ||| ((w >>> 5) % 32)
      let val : Option Nat :=
        if s > 63 then none       -- (also keeps the shifts below small)
        else if es == 64 then (if s == 0 && p == sopLSL then some v.toNat else none)
        else if p == sopLSL then (if s % 8 == 0 && s < es && v.toNat <<< s < 2 ^ es then some (v.toNat <<< s) else none)
        else if p == sopMSL && es == 32 then (if (s == 8 || s == 16) && (v.toNat <<< s) ||| (2 ^ s - 1) < 2 ^ 32 then some ((v.toNat <<< s) ||| (2 ^ s - 1)) else none)
        else none
      match val, moviExpand op cmode imm8 with
      | some val, some e =>
        let isMvni := op == 1 && cmode != 14
        let enc := if isMvni then 2 ^ 64 - 1 - e else e
        let den := if name == "mvni" then 2 ^ 64 - 1 - replicate64 es val else replicate64 es val
        enc == den && (q == 1) == (r.rt == rtVec128) && !r.hasIdx
      | _, _ => false
    | _, _ => true
  | _ => true

/-- `fmov Vd|Hd|Sd|Dd, #fimm` (the operand is a double): the imm8 of the word - `imm8` at 20:13 in the scalar form, abc:defgh in the
vector form - must expand (VFPExpandImm, read as a double; the H/S/D expansions of one imm8 denote the same number) to the operand.
`true` for every other mnemonic / operand shape. -/
def fmovImmOk (name : String) (ops : List Operand) (w : Nat) : Bool :=
  if name != "fmov" then true else
  match ops.filter (· != .none) with
  | [.reg _, .fimm bits] =>
    let scalar := (w >>> 24) % 32 == 30
    let imm8 := if scalar then (w >>> 13) % 256 else (((w >>> 16) % 8) <<< 5) ||| ((w >>> 5) % 32)
    vfpExpandImm 64 (BitVec.ofNat 8 imm8) == bits
  | _ => true

/-! ### the monitor -/

inductive Verdict where
  | full            -- described by a fully interpreted form
  | partialOk       -- template + register fields of a partially interpreted form
  | bad (why : String)
  deriving DecidableEq, Repr

/-- The property predicate on one answer of the assembler.  `forms` = all database forms of the mnemonic. -/
def judge (forms : List Form) (name : String) (ops : List Operand) (pc : BitVec 64) (res : Result) : Verdict :=
  match res with
  | .err _ => .full                       -- refusing is always allowed by C02 (it only forbids wrong encodings)
  | .ok words =>
    match name, ops with
    | "mov", [.reg r, .imm v p] =>
      let _ := p
      if describesMovImm r v words then .full else .bad "mov-imm-does-not-load-the-value"
    | _, _ =>
    match words with
    | [w] =>
      if forms.any (fun f => !f.isPartial && describes f ops pc w) then .full
      else if forms.any (fun f => f.isPartial && describes f ops pc w) then
        (if !moviOk name ops w.toNat then .bad "movi-immediate-or-shift-not-denoted"
         else if !fmovImmOk name ops w.toNat then .bad "fmov-immediate-not-denoted" else .partialOk)
      else if forms.any (fun f => f.matchesTemplate w.toNat) then .bad "operands-not-denoted-by-fields"
      else .bad "no-template-of-this-mnemonic-matches"
    | _ => .bad "unexpected-word-count"

end AsmjitVerif.A64Spec
