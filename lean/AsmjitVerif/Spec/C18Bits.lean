/-
C18 — independent (textbook) reading of a word buffer as a sequence of bits.

A buffer of 64-bit words `ws` denotes the infinite bit sequence `j ↦ bit (j mod 64) of word (j div 64)`
(zero outside the buffer).  All `C18` theorems relate the word-level primitives of `Model/Bits.lean`
to pointwise statements about `bitAt`.  Core-only imports; does not depend on the model.
-/
namespace AsmjitVerif.Bits.Spec

/-- bit `j` of the buffer `ws` (little-endian bit order inside a word; `false` outside the buffer) -/
def bitAt (ws : List (BitVec 64)) (j : Nat) : Bool :=
  (ws.getD (j / 64) 0#64).getLsbD (j % 64)

/-- the bits `0 .. n-1` of the buffer as a `List Bool` -/
def bitsList (ws : List (BitVec 64)) (n : Nat) : List Bool :=
  (List.range n).map (bitAt ws)

/-- textbook "fill / clear the range [index, index+count)" on the pointwise view -/
def rangeSet (old : Nat → Bool) (index count : Nat) (fill : Bool) (j : Nat) : Bool :=
  if index ≤ j ∧ j < index + count then fill else old j

/-- textbook "first position ≥ start holding value v" as a relation -/
def IsFirst (bit : Nat → Bool) (start : Nat) (v : Bool) (i : Nat) : Prop :=
  start ≤ i ∧ bit i = v ∧ ∀ j, start ≤ j → j < i → bit j ≠ v

end AsmjitVerif.Bits.Spec
