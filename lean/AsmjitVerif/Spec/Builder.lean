/-
  Specification for C08: what "the code of the edited sequence" means.

  The node list of a Builder is a *document with a gap* (the textbook gap buffer): a sequence of items and an insertion
  position `gap ∈ [0, length]`.  Emitter calls insert at the gap and advance it; editing inserts or deletes at explicit
  positions and shifts the gap by plain index arithmetic; switching to a section moves the gap to the end of that section's
  region (just in front of the next section item, or to the end) or opens a new region at the end.
  No node pointers, no cached links, no recursion over the list: positions only (`insertIdx`, `eraseIdx`, `take`, `drop`).

  `Spec.St` = the emitter front end (shared with the model: which item a call creates) + the document.
  `linearize` = the emitter calls the document stands for = what an Assembler has to be given.
  `monitor…` = the decidable predicates the driver evaluates on the implementation's answers.
-/
import AsmjitVerif.Model.Builder

namespace AsmjitVerif.Builder.Spec
open AsmjitVerif.Builder

structure Doc where
  items : List Nat := []
  gap : Nat := 0
  secNodes : List Nat := []
  deriving Repr

namespace Doc

def has (d : Doc) (n : Nat) : Bool := d.items.contains n
def isSec (d : Doc) (n : Nat) : Bool := d.secNodes.contains n
def pos (d : Doc) (n : Nat) : Nat := d.items.idxOf n

/-- insert item `n` at position `j`; the gap stays between the same two old items -/
def insertAt (d : Doc) (j n : Nat) : Doc :=
  { d with items := d.items.insertIdx j n, gap := if j < d.gap then d.gap + 1 else d.gap }

/-- delete the items at positions `i .. j` (inclusive); a gap inside or right behind the deleted block lands at `i` -/
def deleteBlock (d : Doc) (i j : Nat) : Doc :=
  { d with items := d.items.take i ++ d.items.drop (j + 1),
           gap := if d.gap ≤ i then d.gap else if d.gap ≤ j + 1 then i else d.gap - (j + 1 - i) }

def apply (d : Doc) : Act → Doc
  | .add n =>
      if d.has n then d else { d with items := d.items.insertIdx d.gap n, gap := d.gap + 1 }
  | .addAfter n r => if d.has n || !d.has r then d else d.insertAt (d.pos r + 1) n
  | .addBefore n r => if d.has n || !d.has r then d else d.insertAt (d.pos r) n
  | .remove n => if !d.has n then d else d.deleteBlock (d.pos n) (d.pos n)
  | .removeRange a b =>
      if a = b then (if !d.has a then d else d.deleteBlock (d.pos a) (d.pos a))
      else if !d.has a then d
      else if !(d.has b && d.pos a < d.pos b) then d
      else d.deleteBlock (d.pos a) (d.pos b)
  | .setCursor none => { d with gap := 0 }
  | .setCursor (some c) => if d.has c then { d with gap := d.pos c + 1 } else d
  | .regSection n => if d.has n then d else { d with secNodes := n :: d.secNodes }
  | .section n =>
      if !d.isSec n then d
      else if !d.has n then { d with items := d.items ++ [n], gap := d.items.length + 1 }
      else
        -- the gap goes to the end of n's region: in front of the next section item behind n, or to the very end
        match (d.items.drop (d.pos n + 1)).find? d.isSec with
        | some nx => { d with gap := d.pos nx }
        | none => { d with gap := d.items.length }

/-- the node the cursor designates: the item in front of the gap -/
def cursorItem (d : Doc) : Option Nat := if d.gap = 0 then none else d.items[d.gap - 1]?

end Doc

structure St where
  f : Front := {}
  d : Doc := {}
  deriving Repr

def St.init (regSize : Nat) (isCompiler : Bool := false) : St :=
  { f := { regSize := regSize, nodes := [.section 0], sectionNodes := [(0, 0)], isCompiler := isCompiler },
    d := { items := [0], gap := 1, secNodes := [0] } }

def rangePre (d : Doc) : Op → Bool
  | .removerange a b => a = b || !d.has a || (d.has b && d.pos a < d.pos b)
  | _ => true

def step (s : St) (op : Op) : St × Res :=
  if !rangePre s.d op then (s, .pre) else
  let (f, r, acts) := front s.f s.d.has op
  ({ f := f, d := acts.foldl Doc.apply s.d }, r)

def run (s : St) (ops : List Op) : St := ops.foldl (fun s op => (step s op).1) s

/-- the emitter calls the document stands for -/
def linearize (s : St) : List Call := s.d.items.map fun n => (nodeAt s.f n).toCall

/-- finalize of a Compiler: the pending global constant pool becomes the LAST item of the document, whatever the gap position is
    (the gap itself stays where it was) -/
def runPasses (s : St) : St :=
  match s.f.gpool, s.d.items.getLast? with
  | some n, some r => { f := { s.f with gpool := none }, d := s.d.apply (.addAfter n r) }
  | _, _ => s

/-- what finalize hands to the assembler: the document's calls, then the global constant pool -/
def finalizeCalls (s : St) : List Call := linearize (runPasses s)

/-! ## Section projection: what one section receives from a call sequence -/

/-- the calls of `cs` that are issued while section `s` is current (`cur` = section current at the start);
    `section` calls themselves are not part of any projection -/
def project (s : Nat) : Nat → List Call → List Call
  | _, [] => []
  | _, .section t :: cs => project s t cs
  | cur, c :: cs => if cur = s then c :: project s cur cs else project s cur cs

/-! ## Monitors (evaluated by the driver on what the real Builder / Assembler answered) -/

/-- structural sanity of one node-list dump of the real Builder: backward traversal is the reverse of the forward one, no node
    twice, the cursor is a linked node -/
def monitorDump (fwd bwd : List Nat) (cur : Option Nat) : Bool :=
  bwd == fwd.reverse && fwd.eraseDups.length == fwd.length &&
  (match cur with | none => true | some c => fwd.contains c)

/-- the real Builder's list and cursor after an operation are the document's -/
def monitorState (s : St) (fwd bwd : List Nat) (cur : Option Nat) : Bool :=
  monitorDump fwd bwd cur && fwd == s.d.items && cur == s.d.cursorItem

/-- finalize: the calls the real `serialize_to` issued are the document's linearisation, and the code produced through the
    Builder equals the code produced by the Assembler (error, sections, labels, relocations – the dumps are canonical text) -/
def monitorFinal (s : St) (implCalls : List Call) (finB finA : String) (dumpB dumpA : List String) : Bool :=
  implCalls == linearize s && finB == finA && dumpB == dumpA

end AsmjitVerif.Builder.Spec
