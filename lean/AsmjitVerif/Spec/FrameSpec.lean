/-
C07 specification side, part 2: what a finalized `FuncFrame` *reports* (plain data), what an
"arbitrary body confined to the areas the frame declares" is, and the decidable monitor of the property.

Nothing here computes a frame: `Frame` is just the record of numbers `FuncFrame` exposes through its
accessors after `finalize()`.  The monitor takes such a record together with a prolog and an epilog
(instruction lists in the syntax of `StackMachine.lean`) - on the driver these are the *implementation's*
answers - runs them on the stack machine around the most hostile body the frame allows, and checks the
clauses of C07.  The theorems of `Props/C07.lean` are stated with the same predicates
(`BodyOK`, `bodyEntryOk`, `exitOk`, `layoutOk`).
-/
import AsmjitVerif.Spec.StackMachine
namespace AsmjitVerif.Frame

/-- `FuncFrame::kTagInvalidOffset` -/
def invalidOff : Nat := 0xFFFFFFFF

/-- The numbers a `FuncFrame` reports (names follow the C++ members without the underscore). -/
structure Frame where
  arch : Arch
  attrs : Nat
  spRegId : Nat
  saRegId : Nat
  redZone : Nat
  spillZone : Nat
  natAlign : Nat
  minDynAlign : Nat
  callAlign : Nat
  localAlign : Nat
  finalAlign : Nat
  calleeCleanup : Nat
  callSize : Nat
  localSize : Nat
  finalSize : Nat
  localOff : Nat
  daOff : Nat
  saOffSp : Nat
  saOffSa : Nat
  stackAdj : Nat
  dirty : Nat → Nat
  preserved : Nat → Nat
  srSize : Nat → Nat
  srAlign : Nat → Nat
  ppSize : Nat
  xSize : Nat
  ppOff : Nat
  xOff : Nat

/-! FuncAttributes bits -/
def Frame.hasFP (f : Frame) : Bool := f.attrs.testBit 4
def Frame.hasFuncCalls (f : Frame) : Bool := f.attrs.testBit 5
def Frame.alignedVecSR (f : Frame) : Bool := f.attrs.testBit 6
def Frame.hasIBP (f : Frame) : Bool := f.attrs.testBit 7
def Frame.avx (f : Frame) : Bool := f.attrs.testBit 16
def Frame.avx512 (f : Frame) : Bool := f.attrs.testBit 17
def Frame.mmxCleanup (f : Frame) : Bool := f.attrs.testBit 18
def Frame.avxCleanup (f : Frame) : Bool := f.attrs.testBit 19
def Frame.avxAutoCleanup (f : Frame) : Bool := f.attrs.testBit 20

/-- `has_dynamic_alignment()` -/
def Frame.hasDA (f : Frame) : Bool := decide (f.minDynAlign ≤ f.finalAlign)
/-- `saved_regs(group)` -/
def Frame.saved (f : Frame) (g : Nat) : Nat := f.dirty g &&& f.preserved g
/-- end of the area the body owns, relative to the body's `sp` -/
def Frame.localEnd (f : Frame) : Nat := f.localOff + f.localSize

/-- The frame owns stack memory or calls other functions (otherwise `finalize` adds no alignment pad and
the alignment of `sp` inside the body is immaterial: nothing is addressed through it). -/
def Frame.usesStack (f : Frame) : Bool :=
  f.hasFuncCalls || f.xOff + f.xSize != 0 || f.daOff != 0xFFFFFFFF

/-- Registers the body may overwrite: the dirty ones, never `sp`, and not the frame pointer when the
frame says it is preserved (the body addresses the frame through it). -/
def Frame.bodyMayWrite (f : Frame) (g r : Nat) : Bool :=
  (f.dirty g).testBit r && !(g == 0 && (r == f.arch.spId || (f.hasFP && r == f.arch.fpId)))

/-- first address of the caller's outgoing area (spill zone, then stack arguments) -/
def saBase (a : Arch) (sp0 : Nat) : Nat := sp0 + a.retSize

/-- **Arbitrary body confined to the declared areas.** It may change any byte below `localEnd` (call
area, local area, everything below `sp` incl. the red zone) and the spill zone the caller provides,
any register the frame lists as dirty; it ends with the `sp` it was given and has not returned. -/
structure BodyOK (f : Frame) (sp0 : Nat) (s1 s2 : St) : Prop where
  sp : s2.gp f.arch.spId = s1.gp f.arch.spId
  mem : ∀ a, s1.gp f.arch.spId + f.localEnd ≤ a →
        ¬ (saBase f.arch sp0 ≤ a ∧ a < saBase f.arch sp0 + f.spillZone) → s2.mem a = s1.mem a
  gp : ∀ r, f.bodyMayWrite 0 r = false → s2.gp r = s1.gp r
  x : ∀ g r, g ≠ 0 → f.bodyMayWrite g r = false → s2.x g r = s1.x g r
  ret : s2.ret = none

def junkGp (r : Nat) : Nat := 0x5EED0000 + r
def junkX : Nat := 256 ^ 32 - 1

/-- The most hostile body: overwrites everything `BodyOK` allows (registers with id < 32). -/
def junkBody (f : Frame) (sp0 : Nat) (s1 : St) : St :=
  let sp1 := s1.gp f.arch.spId
  { s1 with
    gp := fun r => if f.bodyMayWrite 0 r then junkGp r else s1.gp r
    x := fun g r => if g ≠ 0 ∧ f.bodyMayWrite g r then junkX else s1.x g r
    mem := fun a =>
      if a < sp1 + f.localEnd ∧ (a < sp1 + f.callSize ∨ sp1 + f.localOff ≤ a) then 0xCC
      else if saBase f.arch sp0 ≤ a ∧ a < saBase f.arch sp0 + f.spillZone then 0xCD
      else s1.mem a }

/-! ### the clauses of C07 as Boolean checks -/

def isPow2 (n : Nat) : Bool := n != 0 && (n &&& (n - 1)) == 0

/-- bytes the convention declares as preserved for a register of group `g` -/
def Frame.keepBytes (f : Frame) (g : Nat) : Nat := if g = 0 then f.arch.W else f.srSize g

/-- Entry condition of the calling convention: `sp` (after the call pushed the return address) is
naturally aligned, and the stack has room. -/
def entryOk (f : Frame) (s0 : St) : Bool :=
  s0.ret.isNone && (s0.gp f.arch.spId + f.arch.retSize) % f.natAlign == 0

/-- Inside the body: promised alignment, and stack arguments where the frame reports them. -/
def bodyEntryOk (f : Frame) (s0 s1 : St) : Bool :=
  let sp := f.arch.spId
  (!f.usesStack || s1.gp sp % f.finalAlign == 0)
  && (if f.saRegId == sp then s1.gp sp + f.saOffSp == saBase f.arch (s0.gp sp)
      else s1.gp f.saRegId + f.saOffSa == saBase f.arch (s0.gp sp))
  && (f.saOffSp == invalidOff || s1.gp sp + f.saOffSp == saBase f.arch (s0.gp sp))

def returnAddress (a : Arch) (s0 : St) : Nat :=
  match a.lrId with
  | some lr => s0.gp lr
  | none => loadBytes s0.mem (s0.gp a.spId) a.W

/-- Registers (group, id) the convention says must survive: preserved bit set, except `sp` itself. -/
def Frame.calleeSaved (f : Frame) (g r : Nat) : Bool :=
  (f.preserved g).testBit r && !(g == 0 && r == f.arch.spId)

/-- After the epilog: returned to the caller's return address, `sp` where the convention requires,
every callee-saved register holds its entry value (in the bytes the convention declares). -/
def exitOk (f : Frame) (s0 s3 : St) : Bool :=
  let sp := f.arch.spId
  s3.ret == some (returnAddress f.arch s0)
  && s3.gp sp == s0.gp sp + f.arch.retSize + f.calleeCleanup
  && (List.range 4).all fun g => (List.range 32).all fun r =>
       !f.calleeSaved g r || s3.reg g r % 256 ^ f.keepBytes g == s0.reg g r % 256 ^ f.keepBytes g

/-- The reported areas are ordered (hence pairwise disjoint) and aligned:
call area, local area, extra-register save area, DA slot, push/pop save area, return address. -/
def layoutOk (f : Frame) : Bool :=
  let daEnd := if f.daOff == invalidOff then f.xOff + f.xSize else f.daOff + f.arch.W
  decide (f.callSize ≤ f.localOff)
  && f.localOff % f.finalAlign == 0
  && decide (f.localEnd ≤ f.xOff)
  && (f.daOff == invalidOff || decide (f.xOff + f.xSize ≤ f.daOff))
  && decide (daEnd ≤ f.ppOff)
  && f.ppOff + f.ppSize == f.finalSize
  && (!f.alignedVecSR || f.xOff % f.srSize 1 == 0)
  && (if f.usesStack || f.arch.retSize == 0 then (f.finalSize + f.arch.retSize) % f.finalAlign == 0 else f.finalSize == f.ppSize)
  && (f.hasDA || f.saOffSp == f.finalSize + f.arch.retSize)
  && decide (f.callAlign ≤ f.finalAlign) && decide (f.localAlign ≤ f.finalAlign)

/-! ### call area of a frame the Compiler built: the stores the register allocator emits before a call

The lowering of an invoke writes stack arguments and by-reference temporaries through `sp`. Every such store must lie inside the
call area `[0, call_stack_size)` the frame reports; in particular none may reach the local area `[local_offset, local_offset+size)`. -/

/-- verdict on one store `(offset from sp, size)` -/
def callAreaStore (callSize localOff localSize : Nat) (st : Int × Nat) : Option String :=
  if st.1 < 0 then some "store-below-sp"
  else if st.2 = 0 then some "store-of-unknown-size"
  else if st.1.toNat + st.2 ≤ callSize then none
  else if st.1.toNat < localOff + localSize ∧ localOff < st.1.toNat + st.2 then some "store-hits-local-area"
  else some "store-outside-call-area"

def callAreaMonitor (callSize localOff localSize : Nat) (stores : List (Int × Nat)) : Option String :=
  if callSize ≤ localOff then (stores.filterMap (callAreaStore callSize localOff localSize)).head?
  else some "call-area-overlaps-local-area"

/-! ### monitor: the property on one (frame, prolog, epilog, entry stack position) -/

def initGp (r : Nat) : Nat := 0x10000000 + r * 0x101
def initX (g r : Nat) : Nat := (g * 64 + r + 1) * ((256 ^ 16 - 1) / 255)
def initMemByte (a : Nat) : Nat := (a * 7 + 3) % 251
def raMagic : Nat := 0x7A11C0DE

def initState (a : Arch) (sp0 : Nat) : St :=
  let gp := fun r => if r = a.spId then sp0 else if some r = a.lrId then raMagic else initGp r
  let mem : Mem := match a.lrId with
    | some _ => initMemByte
    | none => storeBytes initMemByte sp0 a.W raMagic
  { gp := gp, x := initX, mem := mem }

/-- bytes `[lo, hi)` agree -/
def memSame (m1 m2 : Mem) (lo hi : Nat) : Bool :=
  (List.range (hi - lo)).all fun i => m1 (lo + i) == m2 (lo + i)

def monitorAt (f : Frame) (prolog epilog : List Instr) (sp0 : Nat) : Option String :=
  let a := f.arch
  let s0 := initState a sp0
  let callerHi := sp0 + a.retSize + f.spillZone + 96
  if !entryOk f s0 then some "spec-error-entry" else
  match run a prolog s0 with
  | none => some "prolog-fault"
  | some s1 =>
    if s1.ret.isSome then some "prolog-returns" else
    let sp1 := s1.gp a.spId
    if !memSame s0.mem s1.mem sp0 callerHi then some "prolog-wrote-caller-frame" else
    if f.usesStack && sp1 % f.finalAlign != 0 then some "body-sp-misaligned" else
    if !bodyEntryOk f s0 s1 then some "stack-args-misplaced" else
    if !(if f.hasDA then decide (sp1 + f.finalSize ≤ sp0) else sp1 + f.finalSize == sp0) then some "frame-size-mismatch" else
    let s2 := junkBody f sp0 s1
    match run a epilog s2 with
    | none => some "epilog-fault"
    | some s3 =>
      if s3.ret.isNone then some "no-ret" else
      if s3.ret != some (returnAddress a s0) then some "wrong-return-address" else
      if s3.gp a.spId != sp0 + a.retSize + f.calleeCleanup then some "wrong-final-sp" else
      if !exitOk f s0 s3 then some "callee-saved-lost" else
      if !memSame s2.mem s3.mem sp0 callerHi then some "epilog-wrote-caller-frame" else
      none

/-- entry stack positions: every residue modulo 128 the convention allows (at most 32) -/
def entrySps (f : Frame) : List Nat :=
  let base := 0x40000000
  let n := if f.natAlign = 0 then 1 else min 32 (128 / f.natAlign)
  (List.range (max n 1)).map fun k => base + k * f.natAlign - f.arch.retSize

/-- The monitor of C07: `none` = good, `some reason` = the property fails on this frame. -/
def monitor (f : Frame) (prolog epilog : List Instr) : Option String :=
  if !(isPow2 f.finalAlign && isPow2 f.natAlign) then some "spec-error-alignment-not-power-of-two" else
  if !layoutOk f then some "layout-areas-overlap-or-misaligned" else
  (entrySps f).foldl (fun acc sp0 => match acc with
    | some e => some e
    | none => (monitorAt f prolog epilog sp0).map fun e => e ++ " sp0=" ++ toString sp0) none

end AsmjitVerif.Frame
