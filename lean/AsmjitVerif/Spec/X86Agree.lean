/-
What "strict validation and the assembler agree" means on one instruction (C13), as a decidable predicate over what the
real code answered (core-only; the driver runs it as the monitor on every answer of the implementation):

  v   = InstAPI::validate(arch, inst, operands)                                   (error name)
  e0  = Assembler::emit(...) without DiagnosticOptions::kValidateAssembler         (error name, bytes)
  e1  = the same emit with kValidateAssembler                                      (error name, bytes)

and what the ISA database says about the instance (`Expect`).
-/
namespace AsmjitVerif.X86Agree

inductive Expect
  | allow      -- an instantiation of a database form in a mode the form's `arch` allows (and AsmJit implements the form)
  | exclude    -- an instantiation of a database form in a mode no form with these operands allows
  | any        -- a near-miss mutation: the database makes no statement, only the two verdicts are compared
  | regExcluded  -- a register id the architecture does not have for that register class in that mode (k8.., r8.. in
                 -- 32-bit mode, r16.., xmm8.. in 32-bit mode): strict validation must refuse
  | decoExcluded -- an implemented EVEX register form decorated with {er}/{sae} that no database form of it carries:
                 -- validator AND assembler (validation off) must refuse - the assembler has its own {er}/{sae} tests
  deriving DecidableEq, Repr

structure Outcome where
  v : String
  e0 : String × String
  e1 : String × String
  deriving Repr

/-- `none` = the property holds on this instruction; `some cls` = it is violated, `cls` names how -/
def violation (exp : Expect) (o : Outcome) : Option String :=
  -- switching validation on changes neither the success nor the bytes of an instruction the assembler encodes
  if o.e1.1 == "Ok" && (o.e0.1 != "Ok" || o.e0.2 != o.e1.2) then some "validation-changes-encoding"
  else if o.v == "Ok" && o.e0.1 == "Ok" && (o.e1.1 != "Ok" || o.e1.2 != o.e0.2) then some "validation-changes-encoding"
  -- the validating assembler and InstAPI::validate give the same verdict
  else if o.v != "Ok" && o.e1.1 == "Ok" then some "assembler-validation-differs-from-validate"
  -- an encoder path that rejects what validation admits
  else if o.v == "Ok" && o.e0.1 != "Ok" then some "validator-admits-encoder-rejects"
  -- a refused instruction leaves no bytes behind
  else if (o.e0.1 != "Ok" && o.e0.2 != "-") || (o.e1.1 != "Ok" && o.e1.2 != "-") then some "failed-emit-left-bytes"
  else match exp with
    | .allow => if o.v != "Ok" then some "db-form-refused-by-validator" else if o.e0.1 != "Ok" then some "db-form-refused-by-encoder" else none
    | .exclude => if o.v == "Ok" then some "validator-accepts-excluded-mode" else none
    | .any => none
    | .regExcluded => if o.v == "Ok" then some "validator-accepts-nonexistent-register" else none
    | .decoExcluded =>
      if o.v == "Ok" then some "validator-accepts-excluded-decoration"
      else if o.e0.1 == "Ok" then some "encoder-accepts-excluded-decoration"
      else none

/-- AArch64: `a64::InstInternal::validate` accepts everything (no validator is implemented), so the only clause of the
    property that says something there is "switching validation on changes neither the success nor the bytes":
    `e0` / `e1` = the assembler's answer for the same instruction without / with `kValidateAssembler`. -/
def violationA64 (e0 e1 : String × String) : Option String :=
  if e0.1 != e1.1 then some "validation-changes-success"
  else if e0.2 != e1.2 then some "validation-changes-encoding"
  else none

end AsmjitVerif.X86Agree
