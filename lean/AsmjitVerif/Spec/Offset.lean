/-
Independent statement of what a displacement field *means* (written from the ISA manuals, not from
the C++): how a CPU / a data reader recovers the displacement from the patched word.

* signed field  : bits [shift, shift+bits) of the word, sign-extended, times 2^discard
  (x86 rel8/rel32: bits = 8·size, shift = 0, discard = 0;  A64 B/BL: imm26 at 0, ×4;
   B.cond/CBZ/LDR-literal: imm19 at 5, ×4;  TBZ: imm14 at 5, ×4)
* unsigned field: the same, zero-extended (absolute addresses / embedded label addresses)
* A64 ADR       : imm = immhi(bits 23..5) : immlo(bits 30..29), sign-extended from 21 bits
* A64 ADRP      : the same, times 4096
-/
import AsmjitVerif.Model.Offset
namespace AsmjitVerif.Offset

/-- sign extension of the low `bits` bits of `x` (bits ≥ 1), written bit-wise -/
def sext64 (bits : Nat) (x : BitVec 64) : BitVec 64 :=
  let lo := x &&& BitVec.ofNat 64 (2 ^ bits - 1)
  if x.getLsbD (bits - 1) then lo ||| BitVec.ofNat 64 (2 ^ 64 - 2 ^ bits) else lo

/-- bits of a 32-bit word that belong to the displacement field -/
def fieldMask32 (f : OffsetFormat) : BitVec 32 :=
  match f.type with
  | .a64Adr | .a64Adrp => 0x60FFFFE0#32
  | _ => BitVec.ofNat 32 ((2 ^ f.bitCount - 1) * 2 ^ f.bitShift)

def fieldMask64 (f : OffsetFormat) : BitVec 64 :=
  BitVec.ofNat 64 ((2 ^ f.bitCount - 1) * 2 ^ f.bitShift)

/-- displacement designated by a 32-bit (or narrower, zero-extended) word -/
def decode32 (f : OffsetFormat) (w : BitVec 32) : BitVec 64 :=
  match f.type with
  | .signed   => (sext64 f.bitCount ((w >>> f.bitShift).zeroExtend 64)) <<< f.discard
  | .unsigned => (((w >>> f.bitShift).zeroExtend 64) &&& BitVec.ofNat 64 (2 ^ f.bitCount - 1)) <<< f.discard
  | .a64Adr   =>
    let immlo := (w >>> 29) &&& 3#32
    let immhi := (w >>> 5) &&& 0x7FFFF#32
    sext64 21 (((immhi <<< 2) ||| immlo).zeroExtend 64)
  | .a64Adrp  =>
    let immlo := (w >>> 29) &&& 3#32
    let immhi := (w >>> 5) &&& 0x7FFFF#32
    (sext64 21 (((immhi <<< 2) ||| immlo).zeroExtend 64)) <<< 12
  | _ => 0#64

def decode64 (f : OffsetFormat) (w : BitVec 64) : BitVec 64 :=
  match f.type with
  | .signed   => (sext64 f.bitCount (w >>> f.bitShift)) <<< f.discard
  | .unsigned => ((w >>> f.bitShift) &&& BitVec.ofNat 64 (2 ^ f.bitCount - 1)) <<< f.discard
  | _ => 0#64

/-! ### the decidable monitor of the property (run by the driver on the implementation's answers) -/

/-- canonical field content for a displacement (spec side, independent of the model) -/
def specEnc32 (f : OffsetFormat) (off : BitVec 64) : BitVec 32 :=
  match f.type with
  | .a64Adr  =>
    let v := off.truncate 32 &&& 0x1FFFFF#32
    ((v &&& 3#32) <<< 29) ||| ((v >>> 2) <<< 5)
  | .a64Adrp =>
    let v := (off >>> 12).truncate 32 &&& 0x1FFFFF#32
    ((v &&& 3#32) <<< 29) ||| ((v >>> 2) <<< 5)
  | _ => (((off >>> f.discard).truncate 32) &&& BitVec.ofNat 32 (2 ^ f.bitCount - 1)) <<< f.bitShift

def specEnc64 (f : OffsetFormat) (off : BitVec 64) : BitVec 64 :=
  ((off >>> f.discard) &&& BitVec.ofNat 64 (2 ^ f.bitCount - 1)) <<< f.bitShift

/-- `off` has an encoding in format `f` (proved complete per format: `*_repr_complete` in Props/C17) -/
def representable (f : OffsetFormat) (off : BitVec 64) : Bool :=
  if f.valueSize = 8 then decode64 f (specEnc64 f off) == off else decode32 f (specEnc32 f off) == off

/-- The property predicate on one answer of the implementation: `some m` = accepted with mask `m`. -/
def monitor (f : OffsetFormat) (off : BitVec 64) (answer : Option (BitVec 64)) : Bool :=
  match answer with
  | some m =>
    if f.valueSize = 8 then decode64 f m == off && (m &&& ~~~ fieldMask64 f) == 0#64
    else decode32 f (m.truncate 32) == off && ((m.truncate 32) &&& ~~~ fieldMask32 f) == 0#32 && m.toNat < 2 ^ (8 * f.valueSize)
  | none => !representable f off

end AsmjitVerif.Offset
