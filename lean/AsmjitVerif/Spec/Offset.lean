/-
Independent statement of what a displacement field *means* (written from the ISA manuals, not from
the C++): how a CPU / a data reader recovers the displacement from the patched word.

* signed field  : bits [shift, shift+bits) of the word, sign-extended, times 2^discard
  (x86 rel8/rel32: bits = 8·size, shift = 0, discard = 0;  A64 B/BL: imm26 at 0, ×4;
   B.cond/CBZ/LDR-literal: imm19 at 5, ×4;  TBZ: imm14 at 5, ×4)
* unsigned field: the same, zero-extended (absolute addresses / embedded label addresses)
* A64 ADR       : imm = immhi(bits 23..5) : immlo(bits 30..29), sign-extended from 21 bits
* A64 ADRP      : the same, times 4096

A32 / T32 (Arm ARM DDI 0406C, A8.8; a T32 instruction is the word `hw1:hw2`, first half-word in bits 31..16,
as in the encoding diagrams):
* T32 ADR  (T3 add / T2 sub): imm32 = ZeroExtend(i:imm3:imm8), i = bit 26, imm3 = bits 14..12, imm8 = bits 7..0;
  T2 (bits 23 and 21 set) subtracts, T3 (both clear) adds
* T32 B.W  (T4): imm32 = SignExtend(S:I1:I2:imm10:imm11:'0'), S = bit 26, imm10 = 25..16, J1 = bit 13, J2 = bit 11,
  imm11 = 10..0, I1 = NOT(J1 EOR S), I2 = NOT(J2 EOR S)
* T32 BLX  (T2): imm32 = SignExtend(S:I1:I2:imm10H:imm10L:'00'), imm10L = bits 10..1, bit 0 (H) must be 0
* T32 B<c>.W (T3): imm32 = SignExtend(S:J2:J1:imm6:imm11:'0'), imm6 = bits 21..16
* A32 ADR  (A1 add = bit 23, A2 sub = bit 22): imm32 = ARMExpandImm(imm12) = ROR(ZeroExtend(imm8), 2*rot4)
* A32 LDR (literal) style: U = bit 23 (1 = add), magnitude = the immediate field (imm12, or imm8*4 for VLDR)
* A32 LDRH/LDRD (literal): U = bit 23, imm8 = imm4H(bits 11..8):imm4L(bits 3..0)
* A32 BLX (A2): imm32 = SignExtend(imm24:H:'0'), H = bit 24
-/
import AsmjitVerif.Model.Offset
namespace AsmjitVerif.Offset

/-- sign extension of the low `bits` bits of `x` (bits ≥ 1), written bit-wise -/
def sext64 (bits : Nat) (x : BitVec 64) : BitVec 64 :=
  let lo := x &&& BitVec.ofNat 64 (2 ^ bits - 1)
  if x.getLsbD (bits - 1) then lo ||| BitVec.ofNat 64 (2 ^ 64 - 2 ^ bits) else lo

/-- bits of a 32-bit word that belong to the displacement field -/
def fieldMask32 (f : OffsetFormat) : BitVec 32 :=
  match f.type with
  | .a64Adr | .a64Adrp => 0x60FFFFE0#32
  | .thumb32Adr => 0x04A070FF#32                    -- i, the two op bits that tell ADD from SUB, imm3, imm8
  | .thumb32Blx | .thumb32B => 0x07FF2FFF#32        -- S, imm10, J1, J2, imm11
  | .thumb32BCond => 0x043F2FFF#32                  -- S, imm6, J1, J2, imm11
  | .a32Adr => 0x00C00FFF#32                        -- the two op bits that tell ADD from SUB, imm12
  | .a32U23Signed => 0x00800000#32 ||| BitVec.ofNat 32 ((2 ^ f.bitCount - 1) * 2 ^ f.bitShift)
  | .a32U23Split => 0x00800F0F#32
  | .a32_1To24 => 0x01FFFFFF#32
  | _ => BitVec.ofNat 32 ((2 ^ f.bitCount - 1) * 2 ^ f.bitShift)

/-- `ROR(x, n)` of the Arm ARM on 32 bits, n < 32 -/
def rorSpec (x : BitVec 32) (n : BitVec 32) : BitVec 32 := (x >>> n) ||| (x <<< ((32#32 - n) &&& 31#32))

/-- T32 branch immediates: S:I1:I2 with I = NOT(J EOR S) -/
def t32BranchHigh (w : BitVec 32) : BitVec 32 :=
  let sgn := (w >>> 26) &&& 1#32
  let i1 := ((w >>> 13) ^^^ sgn ^^^ 1#32) &&& 1#32
  let i2 := ((w >>> 11) ^^^ sgn ^^^ 1#32) &&& 1#32
  (sgn <<< 2) ||| (i1 <<< 1) ||| i2

/-- add or subtract a magnitude -/
def signMag (add : Bool) (mag : BitVec 64) : BitVec 64 := if add then mag else -mag

/-- constraints the architecture puts on the field bits themselves (a word violating them is a different
instruction): T32 ADR op bits equal, A32 ADR exactly one op bit, T32 BLX bit 0 clear -/
def fieldValid32 (f : OffsetFormat) (w : BitVec 32) : Bool :=
  match f.type with
  | .thumb32Adr => w.getLsbD 23 == w.getLsbD 21
  | .a32Adr => w.getLsbD 23 != w.getLsbD 22
  | .thumb32Blx => !w.getLsbD 0
  | _ => true

def fieldMask64 (f : OffsetFormat) : BitVec 64 :=
  BitVec.ofNat 64 ((2 ^ f.bitCount - 1) * 2 ^ f.bitShift)

/-- displacement designated by a 32-bit (or narrower, zero-extended) word -/
def decode32 (f : OffsetFormat) (w : BitVec 32) : BitVec 64 :=
  match f.type with
  | .signed   => (sext64 f.bitCount ((w >>> f.bitShift).zeroExtend 64)) <<< f.discard
  | .unsigned => (((w >>> f.bitShift).zeroExtend 64) &&& BitVec.ofNat 64 (2 ^ f.bitCount - 1)) <<< f.discard
  | .a64Adr   =>
    let immlo := (w >>> 29) &&& 3#32
    let immhi := (w >>> 5) &&& 0x7FFFF#32
    sext64 21 (((immhi <<< 2) ||| immlo).zeroExtend 64)
  | .a64Adrp  =>
    let immlo := (w >>> 29) &&& 3#32
    let immhi := (w >>> 5) &&& 0x7FFFF#32
    (sext64 21 (((immhi <<< 2) ||| immlo).zeroExtend 64)) <<< 12
  | .thumb32Adr =>
    let imm := (((w >>> 26) &&& 1#32) <<< 11) ||| (((w >>> 12) &&& 7#32) <<< 8) ||| (w &&& 0xFF#32)
    signMag (!w.getLsbD 23) (imm.zeroExtend 64)
  | .thumb32B =>
    let imm := (t32BranchHigh w <<< 22) ||| (((w >>> 16) &&& 0x3FF#32) <<< 12) ||| ((w &&& 0x7FF#32) <<< 1)
    sext64 25 (imm.zeroExtend 64)
  | .thumb32Blx =>
    let imm := (t32BranchHigh w <<< 22) ||| (((w >>> 16) &&& 0x3FF#32) <<< 12) ||| (((w >>> 1) &&& 0x3FF#32) <<< 2)
    sext64 25 (imm.zeroExtend 64)
  | .thumb32BCond =>
    let imm := (((w >>> 26) &&& 1#32) <<< 20) ||| (((w >>> 11) &&& 1#32) <<< 19) ||| (((w >>> 13) &&& 1#32) <<< 18) |||
               (((w >>> 16) &&& 0x3F#32) <<< 12) ||| ((w &&& 0x7FF#32) <<< 1)
    sext64 21 (imm.zeroExtend 64)
  | .a32Adr =>
    let imm12 := (w >>> f.bitShift) &&& 0xFFF#32
    let imm := rorSpec (imm12 &&& 0xFF#32) ((imm12 >>> 8) <<< 1)
    signMag (w.getLsbD 23) (imm.zeroExtend 64)
  | .a32U23Signed =>
    signMag (w.getLsbD 23) ((((w >>> f.bitShift).zeroExtend 64) &&& BitVec.ofNat 64 (2 ^ f.bitCount - 1)) <<< f.discard)
  | .a32U23Split =>
    signMag (w.getLsbD 23) (((((w >>> 8) &&& 0xF#32) <<< 4) ||| (w &&& 0xF#32)).zeroExtend 64)
  | .a32_1To24 =>
    sext64 26 ((((w &&& 0xFFFFFF#32) <<< 2) ||| (((w >>> 24) &&& 1#32) <<< 1)).zeroExtend 64)

def decode64 (f : OffsetFormat) (w : BitVec 64) : BitVec 64 :=
  match f.type with
  | .signed   => (sext64 f.bitCount (w >>> f.bitShift)) <<< f.discard
  | .unsigned => ((w >>> f.bitShift) &&& BitVec.ofNat 64 (2 ^ f.bitCount - 1)) <<< f.discard
  | _ => 0#64

/-! ### the decidable monitor of the property (run by the driver on the implementation's answers) -/

/-- magnitude of a displacement read as a signed number -/
def absOff (off : BitVec 64) : BitVec 64 := if off.msb then -off else off

/-- T32 B.W / BL / BLX field from the 24-bit value S:I1:I2:imm10:imm11 -/
def t32BranchEnc (v : BitVec 32) : BitVec 32 :=
  let sgn := (v >>> 23) &&& 1#32
  let j1 := (((v >>> 22) ^^^ sgn) ^^^ 1#32) &&& 1#32
  let j2 := (((v >>> 21) ^^^ sgn) ^^^ 1#32) &&& 1#32
  (v &&& 0x7FF#32) ||| (((v >>> 11) &&& 0x3FF#32) <<< 16) ||| (sgn <<< 26) ||| (j1 <<< 13) ||| (j2 <<< 11)

/-- canonical field content for a displacement (spec side, independent of the model) -/
def specEnc32 (f : OffsetFormat) (off : BitVec 64) : BitVec 32 :=
  match f.type with
  | .a64Adr  =>
    let v := off.truncate 32 &&& 0x1FFFFF#32
    ((v &&& 3#32) <<< 29) ||| ((v >>> 2) <<< 5)
  | .a64Adrp =>
    let v := (off >>> 12).truncate 32 &&& 0x1FFFFF#32
    ((v &&& 3#32) <<< 29) ||| ((v >>> 2) <<< 5)
  | .signed | .unsigned => (((off >>> f.discard).truncate 32) &&& BitVec.ofNat 32 (2 ^ f.bitCount - 1)) <<< f.bitShift
  | .thumb32Adr =>
    let v := (absOff off).truncate 32 &&& 0xFFF#32
    let n : BitVec 32 := if off.msb then 1#32 else 0#32
    (v &&& 0xFF#32) ||| (((v >>> 8) &&& 7#32) <<< 12) ||| ((v >>> 11) <<< 26) ||| (n <<< 21) ||| (n <<< 23)
  | .thumb32B => t32BranchEnc ((off >>> 1).truncate 32 &&& 0xFFFFFF#32)
  | .thumb32Blx => t32BranchEnc (((off >>> 2).truncate 32 &&& 0x7FFFFF#32) <<< 1)
  | .thumb32BCond =>
    let v := (off >>> 1).truncate 32 &&& 0xFFFFF#32
    (v &&& 0x7FF#32) ||| (((v >>> 11) &&& 0x3F#32) <<< 16) ||| (((v >>> 17) &&& 1#32) <<< 13) |||
      (((v >>> 18) &&& 1#32) <<< 11) ||| ((v >>> 19) <<< 26)
  | .a32Adr =>
    let v := (absOff off).truncate 32
    let op : BitVec 32 := if off.msb then 0x400000#32 else 0x800000#32
    -- the first (smallest) rotation that brings the value into 8 bits, if any (ROL by 2k undoes ROR by 2k)
    (List.range 16).foldr (fun k acc =>
      let imm8 := rorSpec v (BitVec.ofNat 32 ((32 - 2 * k) % 32))
      if imm8.ule 0xFF#32 then op ||| (((BitVec.ofNat 32 k <<< 8) ||| imm8) <<< f.bitShift) else acc) op
  | .a32U23Signed =>
    let u : BitVec 32 := if off.msb then 0#32 else 0x800000#32
    u ||| ((((absOff off >>> f.discard).truncate 32) &&& BitVec.ofNat 32 (2 ^ f.bitCount - 1)) <<< f.bitShift)
  | .a32U23Split =>
    let u : BitVec 32 := if off.msb then 0#32 else 0x800000#32
    let v := (absOff off).truncate 32 &&& 0xFF#32
    u ||| (v &&& 0xF#32) ||| ((v >>> 4) <<< 8)
  | .a32_1To24 =>
    let v := (off >>> 1).truncate 32 &&& 0x1FFFFFF#32
    ((v &&& 1#32) <<< 24) ||| (v >>> 1)

def specEnc64 (f : OffsetFormat) (off : BitVec 64) : BitVec 64 :=
  ((off >>> f.discard) &&& BitVec.ofNat 64 (2 ^ f.bitCount - 1)) <<< f.bitShift

/-- `off` has an encoding in format `f` (proved complete per format: `*_repr_complete` in Props/C17) -/
def representable (f : OffsetFormat) (off : BitVec 64) : Bool :=
  if f.valueSize = 8 then decode64 f (specEnc64 f off) == off else decode32 f (specEnc32 f off) == off

/-- The property predicate on one answer of the implementation: `some m` = accepted with mask `m`. -/
def monitor (f : OffsetFormat) (off : BitVec 64) (answer : Option (BitVec 64)) : Bool :=
  match answer with
  | some m =>
    if f.valueSize = 8 then decode64 f m == off && (m &&& ~~~ fieldMask64 f) == 0#64
    else decode32 f (m.truncate 32) == off && ((m.truncate 32) &&& ~~~ fieldMask32 f) == 0#32 && m.toNat < 2 ^ (8 * f.valueSize)
         && fieldValid32 f (m.truncate 32)
  | none => !representable f off

end AsmjitVerif.Offset
