/-
C14 - what the property *means*, stated on observations of one public-API call (independent of Model/Emitter.lean), and the decidable
monitor the driver runs on the answers of the real code.

An observation is what a client can see around one call:
  * the call (kind, and for `emit` the operand facts needed: label ids named, physical register ids with their admissible maximum),
  * the return code, the errors handed to the attached ErrorHandler during the call, whether the handler threw,
  * the one-shot state after the call,
  * a snapshot of everything the CodeHolder/emitter owns before and after the call (section sizes, label / bound-label / relocation /
    unresolved-fixup counts, node count, and a digest `δ` of the complete content),
  * the same snapshot of a *shadow* emitter that has been fed exactly the calls that were accepted so far (a fresh emitter that never saw
    a failing call).
-/
namespace AsmjitVerif.EmitterSpec

structure Snap (δ : Type) where
  sizes : List Nat
  labels : Nat
  bound : Nat
  relocs : Nat
  fixups : Nat
  nodes : Nat
  digest : δ
  deriving DecidableEq, Repr

inductive Handler | none | returning | recording | throwing
  deriving DecidableEq, Repr

inductive CallKind
  | emit            -- an instruction (consumes the one-shot state)
  | bind            -- Assembler::bind: consumes the inline comment (the label line is logged with it), whether it fails or not
  | emitterCall     -- align / embed* / section / new_label / new_named_label (and Builder bind): never consume one-shot state
  | holderCall      -- CodeHolder::new_section: plain return code, no handler
  | finalize        -- Builder/Compiler::finalize: a batch (serialises every node); only reporting and shadow equality are judged
  deriving DecidableEq, Repr

structure Obs (δ : Type) where
  kind : CallKind
  isAssembler : Bool
  handler : Handler
  ret : Nat
  handled : List Nat
  thrown : Bool
  oneShot : Nat × Nat × Nat × Bool          -- options, extra-reg signature, extra-reg id, inline comment present (after the call)
  oneShotBefore : Nat × Nat × Nat × Bool    -- the same right before the call (what the client had set for it)
  before : Snap δ
  after : Snap δ
  shadow : Snap δ
  labelRefs : List Nat                      -- label ids named by the operands of an `emit`
  physIds : List (Nat × Nat)                -- (physical register id, largest id its register file has) of an AArch64 `emit`
  deriving Repr

variable {δ : Type} [DecidableEq δ]

/-- the error is reported exactly once through the handler (if one is attached) and through the return value; a successful call
reports nothing; the handler's exception (if it throws) is the only way out other than the return -/
def reportedOnce (o : Obs δ) : Bool :=
  match o.kind with
  | .holderCall => o.handled == [] && !o.thrown
  | .finalize => true     -- a batch: the serialising Assembler reports through the CodeHolder's handler, not the Builder's
  | _ =>
    if o.ret = 0 then o.handled == [] && !o.thrown
    else match o.handler with
      | .none => o.handled == [] && !o.thrown
      | .throwing => o.handled == [o.ret] && o.thrown
      | _ => o.handled == [o.ret] && !o.thrown

/-- a failed call leaves everything untouched: no bytes, labels, fixups, relocations, nodes - the complete content digest is equal -/
def failedIsAtomic (o : Obs δ) : Bool :=
  o.ret = 0 || o.kind = .finalize || o.after = o.before

/-- the one-shot state (options, extra register, inline comment) after a call, **failed or not, whatever the handler does**:
an instruction call consumes all of it; `Assembler::bind` consumes the inline comment; every other call leaves it exactly as the client
set it (a failed `align` must neither keep half of it nor clear what it does not own) -/
def oneShotCleared (o : Obs δ) : Bool :=
  match o.kind with
  | .emit => o.oneShot = (0, 0, 0, false)
  | .bind => o.oneShot = (o.oneShotBefore.1, o.oneShotBefore.2.1, o.oneShotBefore.2.2.1, false)
  | .emitterCall | .holderCall => o.oneShot = o.oneShotBefore
  | .finalize => true

/-- the emitter is indistinguishable from one that has only ever seen the accepted calls (`finalize` is replayed on the shadow
whether it fails or not: it must behave identically on identical node lists) -/
def likeFresh (o : Obs δ) : Bool := o.after = o.shadow

/-- an accepted call never shrinks anything -/
def monotone (o : Obs δ) : Bool :=
  o.ret ≠ 0 ||
  (o.before.labels ≤ o.after.labels && o.before.relocs ≤ o.after.relocs && o.before.sizes.length ≤ o.after.sizes.length &&
   (List.zip o.before.sizes o.after.sizes).all (fun p => p.1 ≤ p.2))

/-- an accepted instruction of an Assembler names only labels that exist (a label id has no encoding otherwise) -/
def labelsExist (o : Obs δ) : Bool :=
  !(o.kind = .emit && o.isAssembler && o.ret = 0) || o.labelRefs.all (· < o.before.labels)

/-- an accepted instruction names only registers that exist: AArch64 ids fit the 5-bit (or, by element, 4-bit) field; x86 under strict
validation ids fit the register file (a virtual id only in a Compiler) -/
def physIdsEncodable (o : Obs δ) : Bool :=
  !(o.kind = .emit && o.ret = 0) || o.physIds.all (fun p => p.1 ≤ p.2)

/-- the monitor of C14: first violated clause, or `none` -/
def verdict (o : Obs δ) : Option String :=
  if !reportedOnce o then some "report" else
  if !failedIsAtomic o then some "atomic" else
  if !oneShotCleared o then some "oneshot" else
  if !labelsExist o then some "label" else
  if !physIdsEncodable o then some "physid" else
  if !monotone o then some "shrink" else
  if !likeFresh o then some "fresh" else none

def good (o : Obs δ) : Bool := (verdict o).isNone

theorem good_iff (o : Obs δ) :
    good o = (reportedOnce o && failedIsAtomic o && oneShotCleared o && labelsExist o && physIdsEncodable o && monotone o && likeFresh o) := by
  unfold good verdict
  cases reportedOnce o <;> cases failedIsAtomic o <;> cases oneShotCleared o <;> cases labelsExist o <;>
    cases physIdsEncodable o <;> cases monotone o <;> cases likeFresh o <;> simp

end AsmjitVerif.EmitterSpec
