/-
  C20 spec, second file — what a kExplainImms annotation `{a|b|c}` SAYS about the immediate it is glued to, read from the text
  back to bits (Intel SDM Vol. 2 / AMD XOP manual: the immediate layouts of the instructions concerned), and the monitor
  `monExplain`: every statement of the annotation is true of the immediate.

  Independent of Model/FormatExplain.lean (which transcribes asmjit's tables value -> text): here every printed word is decoded
  into a *claim* `imm & mask = value`.
-/
import AsmjitVerif.Spec.FormatText

namespace AsmjitVerif.FormatText
open AsmjitVerif.Format

/-- the bits under `mask` have the value `value` -/
structure Claim where
  mask : Nat
  value : Nat
  deriving Repr, DecidableEq

def Claim.holds (u8 : Nat) (c : Claim) : Bool := (u8 &&& c.mask) == c.value

/-- the field `value` of `w` bits at bit `pos` -/
def fieldClaim (pos w value : Nat) : Option Claim :=
  if value < 2 ^ w then some ⟨(2 ^ w - 1) <<< pos, value <<< pos⟩ else none

def splitBar (s : Str) : List Str :=
  s.foldr (fun c acc => if c = '|' then [] :: acc else match acc with | h :: t => (c :: h) :: t | [] => [[c]]) [[]]

/-- the annotations of a line, in order: `{...}` directly after a decimal or upper-case hexadecimal digit (only immediates end so) -/
def immAnnotationsF : Nat → Str → List Str
  | 0, _ => []
  | _, [] => []
  | fuel + 1, c :: '{' :: rest =>
    if c.isDigit ∨ ('A' ≤ c ∧ c ≤ 'F') then
      rest.takeWhile (· ≠ '}') :: immAnnotationsF fuel ((rest.dropWhile (· ≠ '}')).drop 1)
    else immAnnotationsF fuel rest
  | fuel + 1, _ :: rest => immAnnotationsF fuel rest
def immAnnotations (s : Str) : List Str := immAnnotationsF s.length s

def indexOfName (names : List String) (s : Str) : Option Nat :=
  let i := names.findIdx (fun n => n.toList == s)
  if i < names.length then some i else none

/-- comparison predicates of CMPPS/VCMPPS (SDM Table 3-1 / 3-7), in the order of their encoding -/
def cmpPredicates : List String :=
  ["EQ_OQ", "LT_OS", "LE_OS", "UNORD_Q", "NEQ_UQ", "NLT_US", "NLE_US", "ORD_Q", "EQ_UQ", "NGE_US", "NGT_US", "FALSE_OQ", "NEQ_OQ", "GE_OS",
   "GT_OS", "TRUE_UQ", "EQ_OS", "LT_OQ", "LE_OQ", "UNORD_S", "NEQ_US", "NLT_UQ", "NLE_UQ", "ORD_S", "EQ_US", "NGE_UQ", "NGT_UQ", "FALSE_OS",
   "NEQ_OS", "GE_OQ", "GT_OQ", "TRUE_US"]

/-- what an annotation of this instruction consists of -/
inductive ExplainKind
  /-- numeric selectors of `w` bits each, the highest first; at least `count` of them (all the elements of the vector) -/
  | sel (w count : Nat)
  /-- exactly `count` words, the lowest field first; word `i` is decoded by position -/
  | pos (count : Nat) (decode : Nat → Str → Option Claim)
  /-- any number of words, each a statement of its own; `cover`: every set bit of the immediate under this mask must be stated -/
  | facts (decode : Str → Option Claim) (cover : Nat)

def letterIndex (s : Str) : Option (Char × Nat) :=
  match s with
  | c :: d => (parseDec d).map fun k => (c, k)
  | [] => none

def roundFacts (s : Str) : Option Claim :=
  match String.ofList s with
  | "ROUND" => some ⟨7, 0⟩ | "FLOOR" => some ⟨7, 1⟩ | "CEIL" => some ⟨7, 2⟩ | "TRUNC" => some ⟨7, 3⟩
  | "CURRENT" => some ⟨4, 4⟩      -- imm8[2] = 1: the rounding mode of MXCSR
  | "SUPPRESS" => some ⟨8, 8⟩     -- imm8[3]: precision exception suppressed
  | _ => none

def explainKind (name : String) (vec : Nat) : Option ExplainKind :=
  if name ∈ ["vblendpd", "blendpd", "vpermilpd"] then some (.sel 1 (vec / 8))
  else if name ∈ ["vblendps", "blendps", "vpblendd"] then some (.sel 1 (min (vec / 4) 8))
  else if name ∈ ["vdppd", "vdpps", "dppd", "dpps", "vpblendw", "pblendw", "vpternlogd", "vpternlogq"] then some (.sel 1 8)
  else if name ∈ ["vdbpsadbw", "vpermilps", "vpshufd", "pshufd", "vpshufhw", "vpshuflw", "pshufhw", "pshuflw", "pshufw", "vpermq", "vpermpd"] then
    some (.sel 2 4)
  else if name ∈ ["vshuff32x4", "vshuff64x2", "vshufi32x4", "vshufi64x2"] then some (if vec ≥ 64 then .sel 2 4 else .sel 1 2)
  else if name ∈ ["vcmppd", "vcmpps", "vcmpsd", "vcmpss"] then
    some (.pos 1 fun _ s => (indexOfName cmpPredicates s).bind (fieldClaim 0 5))
  else if name ∈ ["cmppd", "cmpps", "cmpsd", "cmpss"] then
    some (.pos 1 fun _ s => (indexOfName (cmpPredicates.take 8) s).bind (fieldClaim 0 3))
  else if name ∈ ["vpcmpb", "vpcmpd", "vpcmpq", "vpcmpw", "vpcmpub", "vpcmpud", "vpcmpuq", "vpcmpuw"] then
    some (.pos 1 fun _ s => match String.ofList s with
      | "EQ" => some ⟨7, 0⟩ | "LT" => some ⟨7, 1⟩ | "LE" => some ⟨7, 2⟩ | "FALSE" => some ⟨7, 3⟩ | "NEQ" => some ⟨7, 4⟩ | "NE" => some ⟨7, 4⟩
      | "NLT" => some ⟨7, 5⟩ | "GE" => some ⟨7, 5⟩ | "NLE" => some ⟨7, 6⟩ | "GT" => some ⟨7, 6⟩ | "TRUE" => some ⟨7, 7⟩ | _ => none)
  else if name ∈ ["vpcomb", "vpcomd", "vpcomq", "vpcomw", "vpcomub", "vpcomud", "vpcomuq", "vpcomuw"] then
    some (.pos 1 fun _ s => match String.ofList s with
      | "LT" => some ⟨7, 0⟩ | "LE" => some ⟨7, 1⟩ | "GT" => some ⟨7, 2⟩ | "GE" => some ⟨7, 3⟩ | "EQ" => some ⟨7, 4⟩ | "NEQ" => some ⟨7, 5⟩
      | "FALSE" => some ⟨7, 6⟩ | "TRUE" => some ⟨7, 7⟩ | _ => none)
  else if name ∈ ["vshufpd", "shufpd"] then
    -- destination element i: from the first source when i is even, from the second when odd; bit i picks the low or the high
    -- element of the same 128-bit lane
    some (.pos (min (vec / 8) 8) fun i s => (letterIndex s).bind fun (c, k) =>
      if c = (if i % 2 = 0 then 'A' else 'B') ∧ k / 2 = i / 2 then fieldClaim i 1 (k % 2) else none)
  else if name ∈ ["vshufps", "shufps"] then
    -- destination elements 0,1 from the first source, 2,3 from the second; two bits each pick one of the four elements of the lane
    some (.pos 4 fun i s => (letterIndex s).bind fun (c, k) =>
      if c = (if i < 2 then 'A' else 'B') then fieldClaim (2 * i) 2 k else none)
  else if name ∈ ["vpclmulqdq", "pclmulqdq"] then
    -- printed: the quadword of the second source (imm8[4]), then the quadword of the first source (imm8[0])
    some (.pos 2 fun i s => match String.ofList s with
      | "LQ" => fieldClaim (if i = 0 then 4 else 0) 1 0 | "HQ" => fieldClaim (if i = 0 then 4 else 0) 1 1 | _ => none)
  else if name ∈ ["vperm2f128", "vperm2i128"] then
    -- printed: the high destination lane (imm8[7:4]), then the low one (imm8[3:0]); bit 3 of a nibble zeroes the lane
    some (.pos 2 fun i s =>
      let sh := if i = 0 then 4 else 0
      match String.ofList s with
      | "A0" => some ⟨0xB <<< sh, 0 <<< sh⟩ | "A1" => some ⟨0xB <<< sh, 1 <<< sh⟩ | "B0" => some ⟨0xB <<< sh, 2 <<< sh⟩
      | "B1" => some ⟨0xB <<< sh, 3 <<< sh⟩ | "0" => some ⟨8 <<< sh, 8 <<< sh⟩ | _ => none)
  else if name ∈ ["vroundpd", "vroundps", "vroundsd", "vroundss", "roundpd", "roundps", "roundsd", "roundss", "vcvtps2ph"] then
    some (.facts roundFacts 0)
  else if name ∈ ["vreducepd", "vreduceps", "vreducesd", "vreducess", "vrndscalepd", "vrndscaleps", "vrndscalesd", "vrndscaless"] then
    -- imm8[1:0] rounding control, imm8[2] = 1: MXCSR.RC instead, imm8[3] suppress the precision exception, imm8[7:4] = M
    some (.facts (fun s => match String.ofList s with
      | "SAE" => some ⟨8, 8⟩
      | _ => match s with
        | 'L' :: 'E' :: 'N' :: '=' :: d => (parseDec d).bind (fieldClaim 4 4)
        | _ => roundFacts s) 0)
  else if name ∈ ["vmpsadbw", "mpsadbw"] then
    -- low lane: imm8[2] BLK1 offset, imm8[1:0] BLK2 offset; high lane of the 256-bit form: imm8[5], imm8[4:3] (named 4.. here)
    some (.facts (fun s => match String.ofList s with
      | "BLK1[0]" => some ⟨4, 0⟩ | "BLK1[1]" => some ⟨4, 4⟩
      | "BLK2[0]" => some ⟨3, 0⟩ | "BLK2[1]" => some ⟨3, 1⟩ | "BLK2[2]" => some ⟨3, 2⟩ | "BLK2[3]" => some ⟨3, 3⟩
      | "BLK1[4]" => if vec ≥ 32 then some ⟨0x20, 0⟩ else none | "BLK1[5]" => if vec ≥ 32 then some ⟨0x20, 0x20⟩ else none
      | "BLK2[4]" => if vec ≥ 32 then some ⟨0x18, 0⟩ else none | "BLK2[5]" => if vec ≥ 32 then some ⟨0x18, 8⟩ else none
      | "BLK2[6]" => if vec ≥ 32 then some ⟨0x18, 0x10⟩ else none | "BLK2[7]" => if vec ≥ 32 then some ⟨0x18, 0x18⟩ else none
      | _ => none) 0)
  else if name ∈ ["vfpclasspd", "vfpclassps", "vfpclasssd", "vfpclassss"] then
    -- imm8 is a SET of categories to test for, one bit each
    some (.facts (fun s => match String.ofList s with
      | "QNAN" => some ⟨1, 1⟩ | "+0" => some ⟨2, 2⟩ | "-0" => some ⟨4, 4⟩ | "+INF" => some ⟨8, 8⟩ | "-INF" => some ⟨16, 16⟩
      | "DENORMAL" => some ⟨32, 32⟩ | "-FINITE" => some ⟨64, 64⟩ | "SNAN" => some ⟨128, 128⟩ | _ => none) 0xFF)
  else if name ∈ ["vfixupimmpd", "vfixupimmps", "vfixupimmsd", "vfixupimmss"] then
    -- imm8[0] zero -> #ZE, [1] zero -> #IE, [2] one -> #ZE, [3] one -> #IE, [4] SNaN -> #IE, [5] -Inf -> #IE, [6] negative -> #IE, [7] +Inf -> #IE
    some (.facts (fun s => match String.ofList s with
      | "ZERO_ZE" => some ⟨1, 1⟩ | "ZERO_IE" => some ⟨2, 2⟩ | "ONE_ZE" => some ⟨4, 4⟩ | "ONE_IE" => some ⟨8, 8⟩ | "SNAN_IE" => some ⟨16, 16⟩
      | "-INF_IE" => some ⟨32, 32⟩ | "-VE_IE" => some ⟨64, 64⟩ | "+INF_IE" => some ⟨128, 128⟩ | _ => none) 0xFF)
  else if name ∈ ["vgetmantpd", "vgetmantps", "vgetmantsd", "vgetmantss"] then
    some (.facts (fun s => match String.ofList s with
      | "[1, 2)" => some ⟨3, 0⟩ | "[.5, 2)" => some ⟨3, 1⟩ | "[.5, 1)" => some ⟨3, 2⟩ | "[.75, 1.5)" => some ⟨3, 3⟩
      | "NO_SIGN" => some ⟨4, 4⟩ | "QNAN_IF_SIGN" => some ⟨8, 8⟩ | _ => none) 0)
  else if name ∈ ["vrangepd", "vrangeps", "vrangesd", "vrangess"] then
    some (.facts (fun s => match String.ofList s with
      | "SIGN_A" => some ⟨12, 0⟩ | "SIGN_B" => some ⟨12, 4⟩ | "SIGN_0" => some ⟨12, 8⟩ | "SIGN_1" => some ⟨12, 12⟩
      | "MIN" => some ⟨3, 0⟩ | "MAX" => some ⟨3, 1⟩ | "MIN_ABS" => some ⟨3, 2⟩ | "MAX_ABS" => some ⟨3, 3⟩ | _ => none) 0)
  else none

def allClaims (u8 : Nat) (cs : List (Option Claim)) : Bool := cs.all fun c => match c with | some c => c.holds u8 | none => false

/-- the words of one annotation are true of the immediate -/
def annotationAgrees (kind : ExplainKind) (u8 : Nat) (words : List Str) : Bool :=
  match kind with
  | .sel w count =>
    let n := words.length
    decide (n ≥ count) && allClaims u8 (words.zipIdx.map fun (s, i) => (parseDec s).bind (fieldClaim (w * (n - 1 - i)) w))
  | .pos count decode => words.length == count && allClaims u8 (words.zipIdx.map fun (s, i) => decode i s)
  | .facts decode cover =>
    let cs := words.map decode
    allClaims u8 cs && ((cs.foldl (fun acc c => match c with | some c => acc ||| c.value | none => acc) 0) &&& cover) == (u8 &&& cover)

/-- the annotation printed for the only immediate of an x86 instruction line tells the truth about it -/
def monExplain (name : String) (vec u8 : Nat) (text : Str) : Bool :=
  match explainKind name vec, immAnnotations text with
  | none, [] => true                                    -- nothing to say, nothing said
  | none, _ => false
  | some (.facts _ cover), [] => (u8 &&& cover) == 0    -- statements may be absent unless a set bit has to be named
  | some _, [] => false                                 -- selectors / positional words are always printed
  | some k, [a] => annotationAgrees k u8 (splitBar a)
  | some _, _ => false

end AsmjitVerif.FormatText
