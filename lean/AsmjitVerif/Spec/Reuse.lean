/-
C16 — what "no residue" means.

`World.obs` is the observation the property talks about: everything a `dump` prints in its `code|…` part — sections
(names, flags, bytes), labels with their fixups, relocations, the unresolved-fixup counter, the attachment list and
the generation-relevant state of every emitter (cursor, one-shot options, node list, containers' sizes).  What `obs`
erases is exactly the state that is *allowed* to depend on history or configuration: retained buffer/arena capacity,
the loggers and diagnostic options with the flags derived from them, and the Builder's recomputation flag.

The monitor `noResidue` is the same statement on the implementation's own dumps: the `code|` parts of the dump taken
after a program on recycled objects and of the dump taken after the same program on fresh objects are identical;
it names the first component that differs.
-/
import AsmjitVerif.Model.Reuse
namespace AsmjitVerif.Reuse

/-- erase logging state and the recomputation flag; the model keeps one record type for all three emitter kinds, so the
    members a C++ object of that kind does not have (node list of an Assembler, buffer cursor of a Builder, …) are erased too -/
def Emitter.obs (e : Emitter) : Emitter :=
  match e.kind with
  | .asm => { e with ownLogger := false, logger := false, logComments := false, diag := false, reserved := true, dirty := false,
                     nodes := [], cursor := none, labelNodes := 0, sectionNodes := 0, passes := 0, vregs := 0, janns := 0 }
  | .bld => { e with ownLogger := false, logger := false, logComments := false, diag := false, reserved := true, dirty := false,
                     sec := none, off := 0, vregs := 0, janns := 0 }
  | .cmp => { e with ownLogger := false, logger := false, logComments := false, diag := false, reserved := true, dirty := false,
                     sec := none, off := 0 }

def Holder.obs (h : Holder) : Holder :=
  { h with logger := false, textCap := false, arena := Arena.init 16384 0 }

def World.obs (w : World) : World := { h := w.h.obs, es := w.es.map Emitter.obs }

/-- two worlds are indistinguishable for the property -/
def Sim (a b : World) : Prop := a.obs = b.obs

instance (a b : World) : Decidable (Sim a b) := inferInstanceAs (Decidable (a.obs = b.obs))

/-! ### rendering (must agree character for character with harness/c16.cpp `dump`) -/

def hexDigit (n : Nat) : Char := if n < 10 then Char.ofNat (48 + n) else Char.ofNat (87 + n)

def hexBytes (bs : List Nat) : String :=
  if bs.isEmpty then "-" else String.ofList (bs.flatMap fun b => [hexDigit (b / 16 % 16), hexDigit (b % 16)])

def joinMap {α : Type} (l : List α) (f : α → String) : String := l.foldl (fun acc a => acc ++ f a) ""

def enum {α : Type} (l : List α) : List (Nat × α) := (List.range l.length).zip l

def archNum : Option Arch → Nat
  | none => 0
  | some .x86 => 1
  | some .x64 => 2
  | some .a64 => 6

def optStr : Option Nat → String
  | none => "none"
  | some n => toString n

def b01 (b : Bool) : String := if b then "1" else "0"

def renderFixup (f : Fixup) : String :=
  "(" ++ toString f.sec ++ "," ++ toString f.off ++ "," ++ toString f.rel ++ "," ++ toString f.size ++ "," ++
    (match f.reloc with | none => "-" | some r => toString r) ++ ")"

def renderNode : Node → String
  | .section s => "s" ++ toString s
  | .label l => "l" ++ toString l
  | .data bs => "d" ++ (if bs.isEmpty then "" else hexBytes bs)
  | .jmp l o => "j" ++ toString l ++ "o" ++ toString (o % 64 / 16 * 16)
  | .elabel l s => "e" ++ toString l ++ "/" ++ toString s

def renderNodes (ns : List Node) : String :=
  if ns.isEmpty then "-" else ".".intercalate (ns.map renderNode)

/-- the members of an emitter that a dump prints first -/
structure EHead where
  code : Bool
  instOpts : Nat
  comment : Bool
  invalidRex : Bool
  instAlign : Nat
  arch : Option Arch

/-- the kind-specific members a dump prints -/
inductive EView where
  | asm (sec : Option Nat) (off : Nat)
  | bld (nodes : List Node) (cursor : Option Nat) (ln sn p : Nat)
  | cmp (nodes : List Node) (cursor : Option Nat) (ln sn p vr ja : Nat)

def Emitter.head (e : Emitter) : EHead :=
  { code := e.code, instOpts := e.instOpts, comment := e.comment, invalidRex := e.invalidRex, instAlign := e.instAlign, arch := e.arch }

def Emitter.view (e : Emitter) : EView :=
  match e.kind with
  | .asm => .asm e.sec e.off
  | .bld => .bld e.nodes e.cursor e.labelNodes e.sectionNodes e.passes
  | .cmp => .cmp e.nodes e.cursor e.labelNodes e.sectionNodes e.passes e.vregs e.janns

def renderBld (nodes : List Node) (cursor : Option Nat) (ln sn p : Nat) : String :=
  "nodes" ++ renderNodes nodes ++ ":cur" ++ (match cursor with | none => "-1" | some c => toString c) ++
    ":ln" ++ toString ln ++ ":sn" ++ toString sn ++ ":p" ++ toString p

def renderView : EView → String
  | .asm sec off => (match sec with | none => "sec-" | some s => "sec" ++ toString s ++ "@" ++ toString off)
  | .bld nodes cursor ln sn p => renderBld nodes cursor ln sn p
  | .cmp nodes cursor ln sn p vr ja => renderBld nodes cursor ln sn p ++ ":vr" ++ toString vr ++ ":ja" ++ toString ja ++ ":fn0:pd0:wr0"

def renderHV (i : Nat) (hd : EHead) (v : EView) : String :=
  ";E" ++ toString i ++ "=[" ++ b01 hd.code ++ ":" ++ toString hd.instOpts ++ ":0:" ++ b01 hd.comment ++ ":" ++
    (if hd.invalidRex then "2147483648" else "0") ++ ":" ++ toString hd.instAlign ++ ":" ++ toString (archNum hd.arch) ++ ":" ++
    renderView v ++ "]"

def renderEmitter (i : Nat) (e : Emitter) : String := renderHV i e.head e.view

/-- holder part of the `code|…` dump, from the six observable members -/
def dumpH (arch : Option Arch) (base : Option Nat) (secs : List Sec) (labels : List LabelE) (relocs : List Reloc) (unres : Nat) (attached : List Nat) : String :=
  "code|" ++ (match arch with | none => "uninit" | some .x64 => "x64" | some .x86 => "x86" | some .a64 => "a64") ++
  ";base=" ++ optStr base ++
  ";secs=" ++ joinMap (enum secs) (fun (i, s) =>
    "[" ++ toString i ++ ":" ++ hexBytes s.name ++ ":" ++ toString s.flags ++ ":" ++ toString s.align ++ ":" ++ toString s.order ++ ":" ++
    (if s.hasOffset then "0" else "none") ++ ":0:" ++ hexBytes s.bytes ++ "]") ++
  ";order=" ++ joinMap (enum secs) (fun (i, _) => toString i ++ ",") ++
  ";labels=" ++ joinMap (enum labels) (fun (i, l) =>
    "[" ++ toString i ++ ":" ++ toString l.ltype ++ ":" ++ hexBytes l.name ++ ":" ++
    (match l.bound with
     | some (s, o) => "b" ++ toString s ++ "+" ++ toString o
     | none => "u" ++ joinMap l.fixups renderFixup) ++ "]") ++
  ";byname_bad=0" ++
  ";relocs=" ++ joinMap (enum relocs) (fun (i, r) =>
    "[" ++ toString i ++ ":" ++ toString r.rtype ++ ":" ++ toString r.srcSec ++ ":" ++ toString r.srcOff ++ ":" ++ optStr r.tgtSec ++ ":" ++
    toString r.payload ++ ":" ++ toString r.size ++ "]") ++
  ";unres=" ++ toString unres ++ ";addrtab=0" ++
  ";att=" ++ joinMap attached (fun i => toString i ++ ",")

def dumpHolder (h : Holder) : String := dumpH h.arch h.base h.secs h.labels h.relocs h.unres h.attached

def dumpEmitters (es : List Emitter) : String := joinMap (enum es) (fun p => renderEmitter p.1 p.2)

/-- the `code|…` part of a dump: a function of `w.obs` only (theorem `dumpCode_obs`) -/
def dumpCode (w : World) : String := dumpHolder w.h ++ dumpEmitters w.es

/-- the `aux|…` part: retained capacity and logging state (tied to the implementation, never compared across histories) -/
def dumpAux (w : World) : String :=
  "aux|hlog=" ++ b01 w.h.logger ++ ";textcap=" ++ b01 w.h.textCap ++
  joinMap (enum w.es) (fun (i, e) =>
    (if e.kind = .asm then "" else ";dirty" ++ toString i ++ "=" ++ b01 e.dirty) ++
    ";L" ++ toString i ++ "=" ++ b01 e.logger ++ b01 e.ownLogger ++ b01 e.logComments ++ b01 e.reserved ++ ":" ++ (if e.diag then "3" else "0"))

/-! ### the monitor -/

/-- the `code|…` part of an implementation dump line -/
def codePart (dump : String) : String := (dump.splitOn "|aux|").headD ""

def componentName (c : String) : String := (c.splitOn "=").headD c

/-- `none` = no residue; `some c` = first component of the output that differs between the two dumps -/
def firstDiff : List String → List String → Option String
  | [], [] => none
  | a :: r, b :: s => if a == b then firstDiff r s else some (componentName a)
  | a :: _, [] => some (componentName a)
  | [], b :: _ => some (componentName b)

/-- **the property's predicate on implementation outputs**: dump after the program on recycled objects vs. dump after
    the same program on fresh objects -/
def noResidue (recycled fresh : String) : Option String :=
  let a := codePart recycled
  let b := codePart fresh
  if a.isEmpty || !a.startsWith "code|" then some "malformed"
  else firstDiff (a.splitOn ";") (b.splitOn ";")

/-- the decimal number that follows the first occurrence of `tag` -/
def numAfter (s tag : String) : Option Nat :=
  match s.splitOn tag with
  | _ :: rest :: _ => (String.ofList (rest.toList.takeWhile Char.isDigit)).toNat?
  | _ => none

/-- **no memory of the earlier use is referenced**: between two API calls no Builder/Compiler node may carry pass data
    (`RAInst` / `RABlock` live in the pass arena, which `run_passes` resets) and no virtual register may still be tied to
    a work register.  `none` = fine; `some c` names the offending counter of the dump. -/
def noDeadRefs (dump : String) : Option String :=
  let c := codePart dump
  match numAfter c ":pd", numAfter c ":wr" with
  | some n, some m => if n != 0 then some "pd (nodes still pointing into the reset pass arena)"
                      else if m != 0 then some "wr (virtual registers still tied to a work register)" else none
  | _, _ => none

/-- last function of a `fnbytes` answer (`fn:<hex of function 1>:<hex of function 2>…`) -/
def lastFn (s : String) : String := ((s.splitOn ":").getLast?).getD ""

/-- **a later function does not inherit from earlier ones**: the bytes of the last function compiled after other functions
    in the same Compiler (one `finalize`) equal its bytes when it is compiled alone. `none` = fine. -/
def laterFunctionIndependent (afterOthers alone : String) : Option String :=
  if !afterOthers.startsWith "fn:" || !alone.startsWith "fn:" then some "malformed"
  else if lastFn alone == "" || lastFn alone == "unbound" then some "not compiled"
  else if lastFn afterOthers == lastFn alone then none else some "function bytes differ"

end AsmjitVerif.Reuse
