/-
What C09 *means*, independent of how the allocator works: a ghost table of the spans the caller holds, and a decidable
monitor that judges every answer of an allocator (the real one through the harness, or the model) against that table.

The monitor knows nothing of bit vectors, search windows, cursors or counters.  It only uses
* the configuration (granularity g, pools with granularity g·2^p, padding option, fill option, immediate-release option),
* the answers themselves (block id / pool / block size / offset / size of a span; statistics; colours; query results).

Reading of the property's text that the monitor fixes (see notes/C09.md):
* the initial-padding granule of a block is a span reserved by the allocator: it counts as used memory in the statistics,
  `query` reports it as a one-granule span, nothing else may overlap it;
* "reusable": a request may be answered from a NEW block only if no existing block of the pool that served it has a free
  gap of the size that was handed out;
* retention policy: at most one block without live spans per pool, none with kImmediateRelease, none after a hard reset.
-/
import AsmjitVerif.Model.JitAlloc
namespace AsmjitVerif.JitAlloc.Spec
open AsmjitVerif.JitAlloc

/-- ghost record of one `alloc` -/
structure GH where
  live : Bool
  blk : Nat
  off : Nat
  size : Nat
  tag : Option Nat     -- byte last written over the whole span
  deriving Repr, DecidableEq

structure GBlock where
  id : Nat
  pool : Nat
  size : Nat
  deriving Repr, DecidableEq

structure Ghost where
  cfg : Config
  tab : List GH := []
  blocks : List GBlock := []
  deriving Repr

def Ghost.init (cfg : Config) : Ghost := { cfg }

def Ghost.pad (g : Ghost) : Bool := !g.cfg.noPad
def Ghost.liveIn (g : Ghost) (blk : Nat) : List GH := g.tab.filter fun x => x.live && x.blk == blk
def Ghost.liveCount (g : Ghost) : Nat := (g.tab.filter (·.live)).length
def Ghost.block? (g : Ghost) (id : Nat) : Option GBlock := g.blocks.find? (·.id == id)

def overlaps (o1 s1 o2 s2 : Nat) : Bool := o1 < o2 + s2 && o2 < o1 + s1

/-- occupied byte intervals of a block: live spans and the padding granule -/
def Ghost.occupied (g : Ghost) (b : GBlock) : List (Nat × Nat) :=
  let sp := (g.liveIn b.id).map fun x => (x.off, x.size)
  if g.pad then (0, g.cfg.poolGran b.pool) :: sp else sp

/-- is there a free gap of `size` bytes in block `b`? -/
def Ghost.hasGap (g : Ghost) (b : GBlock) (size : Nat) : Bool :=
  let occ := (g.occupied b).mergeSort fun x y => x.1 ≤ y.1
  let rec go : List (Nat × Nat) → Nat → Bool
    | [], cur => decide (size ≤ b.size - cur)
    | (o, s) :: rest, cur => decide (cur + size ≤ o) || go rest (max cur (o + s))
  go occ 0

def Ghost.emptyBlocks (g : Ghost) (p : Nat) : Nat :=
  (g.blocks.filter fun b => b.pool == p && (g.liveIn b.id).isEmpty).length

def Ghost.expectedStats (g : Ghost) : Nat × Nat × Nat × Nat :=
  let used := ((g.tab.filter (·.live)).map (·.size)).sum +
              (g.blocks.map fun b => if g.pad then g.cfg.poolGran b.pool else 0).sum
  (g.blocks.length, g.liveCount, used, (g.blocks.map (·.size)).sum)

/-- statistics reflect exactly the ghost state; the retention policy holds -/
def Ghost.checkStats (g : Ghost) (st : Stats) : Except String Unit := do
  let (b, a, u, r) := g.expectedStats
  if st.blocks ≠ b then throw s!"statistics: block_count {st.blocks}, {b} blocks are known"
  if st.allocs ≠ a then throw s!"statistics: allocation_count {st.allocs}, {a} spans are live"
  if st.used ≠ u then throw s!"statistics: used_size {st.used}, live spans + padding = {u}"
  if st.reserved ≠ r then throw s!"statistics: reserved_size {st.reserved}, blocks sum to {r}"
  let allowed := if g.cfg.immediate then 0 else 1
  for p in List.range g.cfg.poolCount do
    if g.emptyBlocks p > allowed then throw s!"retention: pool {p} keeps {g.emptyBlocks p} empty blocks, policy allows {allowed}"

/-- a block that lost its last span may have been freed: the statistics tell -/
def Ghost.afterRelease (g : Ghost) (blk : Nat) (st : Stats) : Ghost :=
  if st.blocks + 1 = g.blocks.length && (g.liveIn blk).isEmpty then { g with blocks := g.blocks.filter (·.id != blk) } else g

def setTab (tab : List GH) (h : Nat) (f : GH → GH) : List GH := tab.mapIdx fun i x => if i = h then f x else x

/-- judge a freshly returned span -/
def Ghost.checkNewSpan (g : Ghost) (req : Nat) (sp : SpanOut) (rwOff : Nat) (dual : Bool) : Except String Ghost := do
  let gp := g.cfg.poolGran sp.pool
  if sp.size < req then throw s!"span smaller than requested ({sp.size} < {req})"
  if sp.off % g.cfg.gran ≠ 0 then throw s!"span not aligned to the granularity (offset {sp.off})"
  if sp.size % g.cfg.gran ≠ 0 then throw s!"span size {sp.size} not a multiple of the granularity"
  if rwOff ≠ sp.off then throw "rx and rw views at different offsets"
  if dual ≠ g.cfg.dual then throw "mapping kind differs from the configuration"
  if sp.pool ≥ g.cfg.poolCount then throw "unknown pool"
  if sp.off + sp.size > sp.blockSize then throw "span leaves its block"
  let g ← match g.block? sp.blk with
    | some b =>
      if b.pool ≠ sp.pool || b.size ≠ sp.blockSize then throw "block changed pool or size"
      pure g
    | none =>
      -- new block: only legitimate when no existing block of the pool has room (released memory is reusable)
      for b in g.blocks do
        if b.pool == sp.pool && g.hasGap b ((sp.size + gp - 1) / gp * gp) then
          throw s!"free memory not reused: block b{b.id} has a gap of {sp.size} bytes but a new block was mapped"
      if g.blocks.any (·.id == sp.blk) then throw "block id reused"
      pure { g with blocks := g.blocks ++ [{ id := sp.blk, pool := sp.pool, size := sp.blockSize }] }
  if g.pad && sp.off < gp then throw "span overlaps the padding granule"
  for x in g.liveIn sp.blk do
    if overlaps sp.off sp.size x.off x.size then throw s!"span [{sp.off},+{sp.size}) overlaps live span [{x.off},+{x.size}) in b{sp.blk}"
  pure g

/-- expected colour of every granule of block `b` (`none` = unconstrained) -/
def Ghost.expectedColours (g : Ghost) (b : GBlock) : List (Option Nat) :=
  let gp := g.cfg.poolGran b.pool
  let base : List (Option Nat) := List.replicate (b.size / gp) (if g.cfg.fillUnused then some (patColour g.cfg) else none)
  (g.liveIn b.id).foldl (fun acc x =>
    match x.tag with
    | some t => setRange acc (x.off / gp) ((x.off + x.size) / gp) (some t)
    | none => if g.cfg.fillUnused then acc else setRange acc (x.off / gp) ((x.off + x.size) / gp) none) base

def unrle (cs : List (Nat × Nat)) : List Nat := cs.flatMap fun (c, k) => List.replicate k c

def coloursOk : List (Option Nat) → List Nat → Bool
  | [], [] => true
  | e :: es, c :: cs => (match e with | some x => x == c | none => true) && coloursOk es cs
  | _, _ => false

/-- spans `query` must report over a block: live spans and the padding granule, in address order (granule units) -/
def Ghost.expectedSweep (g : Ghost) (b : GBlock) : List (Nat × Nat) :=
  let gp := g.cfg.poolGran b.pool
  ((g.occupied b).map fun (o, s) => (o / gp, s / gp)).mergeSort fun x y => x.1 ≤ y.1

/-- the span (live or padding) that contains byte `addr` of block `blk` -/
def Ghost.spanAt (g : Ghost) (blk addr : Nat) : Option (Nat × Nat) :=
  match g.block? blk with
  | none => none
  | some b => (g.occupied b).find? fun (o, s) => o ≤ addr && addr < o + s

def maxRequest : Nat := 2147483647

/-- one step of the monitor: the operation, the allocator's answer (span answers come with rw offset and mapping kind), statistics -/
def mstep (g : Ghost) (op : Op) (ans : Ans) (rwOff : Nat) (dual : Bool) (st : Stats) : Except String Ghost := do
  let dead : GH := { live := false, blk := 0, off := 0, size := 0, tag := none }
  let g ← (match op, ans with
    | .alloc req, .span sp => do
      if req = 0 then throw "alloc(0) succeeded"
      let g ← g.checkNewSpan req sp rwOff dual
      pure { g with tab := g.tab ++ [{ live := true, blk := sp.blk, off := sp.off, size := sp.size, tag := none }] }
    | .alloc req, .err _ =>
      if 1 ≤ req && req ≤ 1073741824 then throw s!"alloc({req}) failed"
      else pure { g with tab := g.tab ++ [dead] }
    | .release h, a =>
      match g.tab[h]? with
      | some x =>
        if x.live then
          match a with
          | .ok => pure ({ g with tab := setTab g.tab h fun x => { x with live := false } }.afterRelease x.blk st)
          | _ => throw "release of a live span was refused"
        else if a matches .dead then pure g else throw "protocol: release of a dead handle"
      | none => if a matches .dead then pure g else throw "protocol: release of an unknown handle"
    | .shrink h newSize, a | .wtrunc h _ newSize, a =>
      match g.tab[h]? with
      | some x =>
        if !x.live then (if a matches .dead then pure g else throw "protocol: shrink of a dead handle") else
        let x := match op with | .wtrunc _ byte _ => { x with tag := some (byte % 256) } | _ => x
        let g := { g with tab := setTab g.tab h fun _ => x }
        let isW := match op with | .wtrunc .. => true | _ => false
        if isW && newSize ≥ x.size then
          (match a with | .size n => if n = x.size then pure g else throw "write without truncation changed the span size" | _ => throw "write was refused")
        else if newSize = 0 then
          match a with
          | .size 0 => pure ({ g with tab := setTab g.tab h fun x => { x with live := false } }.afterRelease x.blk st)
          | _ => throw "shrink to 0 did not release the span"
        else if newSize > x.size then
          match a with
          | .err _ => pure g
          | _ => throw "shrink to a larger size was accepted"
        else
          match a with
          | .size n =>
            if n < newSize then throw s!"shrunk span smaller than requested ({n} < {newSize})"
            else if n > x.size then throw "shrink enlarged the span"
            else if n % g.cfg.gran ≠ 0 then throw "shrunk size not a multiple of the granularity"
            else pure { g with tab := setTab g.tab h fun x => { x with size := n } }
          | _ => throw "shrink of a live span was refused"
      | none => if a matches .dead then pure g else throw "protocol: unknown handle"
    | .query h byteOff, a =>
      match g.tab[h]? with
      | some x =>
        match a with
        | .span sp =>
          match g.spanAt x.blk (x.off + byteOff) with
          | some (o, s) =>
            if sp.blk = x.blk && sp.off = o && sp.size = s && rwOff = o then pure g
            else throw s!"query answers [{sp.off},+{sp.size}) of b{sp.blk}, the span there is [{o},+{s}) of b{x.blk}"
          | none => throw s!"query accepted an address that is in no live span (b{x.blk}+{x.off + byteOff})"
        | .err _ =>
          match g.spanAt x.blk (x.off + byteOff) with
          | some (o, s) => throw s!"query rejected an address inside the live span [{o},+{s}) of b{x.blk}"
          | none => pure g
        | .gone | .oob | .dead => pure g
        | _ => throw "protocol: query answer"
      | none => if a matches .dead then pure g else throw "protocol: unknown handle"
    | .sstale _ _, a =>
      match a with
      | .ok => throw "shrink through a stale span (released allocation) was accepted"
      | .size _ => throw "shrink through a stale span (released allocation) was accepted"
      | _ => pure g
    | .write h byte, a =>
      match g.tab[h]? with
      | some x =>
        if x.live then
          match a with
          | .ok => pure { g with tab := setTab g.tab h fun x => { x with tag := some (byte % 256) } }
          | _ => throw "write to a live span was refused"
        else if a matches .dead then pure g else throw "protocol: write to a dead handle"
      | none => if a matches .dead then pure g else throw "protocol: unknown handle"
    | .read h, a =>
      match g.tab[h]?, a with
      | some x, .colours cs =>
        if !x.live then throw "protocol: read of a dead handle" else
        match g.block? x.blk with
        | none => throw "live span in an unknown block"
        | some b =>
          let gp := g.cfg.poolGran b.pool
          let exp := ((g.expectedColours b).drop (x.off / gp)).take (x.size / gp)
          if coloursOk exp (unrle cs) then pure g else throw s!"contents of live span h{h} changed (or free memory without fill pattern)"
      | _, .dead => pure g
      | _, _ => throw "protocol: read answer"
    | .mem, .memAll bs =>
      if bs.map (·.1) ≠ g.blocks.map (·.id) then throw "mem: block list differs from the known blocks" else do
      for (b, cs) in g.blocks.zip (bs.map (·.2)) do
        if !coloursOk (g.expectedColours b) (unrle cs) then
          throw s!"memory of b{b.id}: a live span lost its contents or reusable memory does not carry the fill pattern"
      pure g
    | .sweep, .sweepAll bs =>
      if bs.map (·.1) ≠ g.blocks.map (·.id) then throw "sweep: block list differs from the known blocks" else do
      for (b, sp) in g.blocks.zip (bs.map (·.2)) do
        if sp ≠ g.expectedSweep b then throw s!"query sweep of b{b.id} does not report exactly the live spans"
      pure g
    | .blocks, .blockList bs =>
      if bs = g.blocks.map (fun b => (b.id, b.pool, b.size, g.pad)) then pure g else throw "block list differs from the known blocks"
    | .dump, _ => pure g
    | .reset hard, .blockList bs => do
      let keep := if hard || g.cfg.immediate then 0 else 1
      for (id, p, sz, _) in bs do
        if !(g.blocks.any fun b => b.id == id && b.pool == p && b.size == sz) then throw "reset: unknown block survives"
      for p in List.range g.cfg.poolCount do
        if (bs.filter fun x => x.2.1 == p).length > keep then throw s!"reset: pool {p} keeps more blocks than the policy allows"
      pure { g with tab := g.tab.map fun _ => dead, blocks := bs.map fun (id, p, sz, _) => { id, pool := p, size := sz } }
    | .isinit, .flag b => if b then pure g else throw "is_initialized() is false for a working allocator"
    | .rforeign _, a | .qforeign _, a | .sforeign, a =>
      match a with
      | .err _ => pure g
      | _ => throw "foreign pointer accepted"
    | _, _ => throw "protocol: unexpected answer")
  g.checkStats st
  pure g

/-- the monitor over a whole trace; `none` = property holds on the trace -/
def monitor (g : Ghost) : List (Op × Ans × Stats) → Option String
  | [] => none
  | (op, ans, st) :: rest =>
    let (rw, dual) := match ans with | .span sp => (sp.off, g.cfg.dual) | _ => (0, false)
    match mstep g op ans rw dual st with
    | .ok g' => monitor g' rest
    | .error e => some e

end AsmjitVerif.JitAlloc.Spec
