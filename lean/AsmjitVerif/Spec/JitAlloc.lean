/-
What C09 *means*, independent of how the allocator works: a ghost table of the spans the caller holds, and a decidable
monitor that judges every answer of an allocator (the real one through the harness, or the model) against that table.

The monitor knows nothing of bit vectors, search windows, cursors or counters.  It only uses
* the configuration (granularity g, pools with granularity g·2^p, padding option, fill option, immediate-release option),
* the answers themselves (block id / pool / block size / offset / size of a span; statistics; colours; query results).

Reading of the property's text that the monitor fixes (see notes/C09.md):
* the initial-padding granule of a block is a span reserved by the allocator: it counts as used memory in the statistics,
  `query` reports it as a one-granule span, nothing else may overlap it;
* "reusable": a request may be answered from a NEW block only if no existing block of the pool that served it has a free
  gap of the size that was handed out (a gap starts at the block's first byte or right behind an occupied range);
* retention policy: at most one block without live spans per pool, none with kImmediateRelease, none after a hard reset.

The monitor is written as plain `if … then .error … else …` chains over `List.all`/`List.any` so that
`Props/C09.lean : model_accepted_by_spec` (every run of the model is accepted) can be proved.
-/
import AsmjitVerif.Model.JitAlloc
namespace AsmjitVerif.JitAlloc.Spec
open AsmjitVerif.JitAlloc

/-- ghost record of one `alloc` -/
structure GH where
  live : Bool
  blk : Nat
  off : Nat
  size : Nat
  tag : Option Nat     -- byte last written over the whole span
  deriving Repr, DecidableEq

structure GBlock where
  id : Nat
  pool : Nat
  size : Nat
  deriving Repr, DecidableEq

structure Ghost where
  cfg : Config
  tab : List GH := []
  blocks : List GBlock := []
  deriving Repr

def Ghost.init (cfg : Config) : Ghost := { cfg }

def Ghost.pad (g : Ghost) : Bool := !g.cfg.noPad
def Ghost.liveIn (g : Ghost) (blk : Nat) : List GH := g.tab.filter fun x => x.live && x.blk == blk
def Ghost.liveCount (g : Ghost) : Nat := g.tab.countP (·.live)
def Ghost.block? (g : Ghost) (id : Nat) : Option GBlock := g.blocks.find? (·.id == id)

def overlaps (o1 s1 o2 s2 : Nat) : Bool := decide (o1 < o2 + s2) && decide (o2 < o1 + s1)

/-- occupied byte intervals of a block: the padding granule and the live spans -/
def Ghost.occupied (g : Ghost) (b : GBlock) : List (Nat × Nat) :=
  let sp := (g.liveIn b.id).map fun x => (x.off, x.size)
  if g.pad then (0, g.cfg.poolGran b.pool) :: sp else sp

/-- is there a free gap of `size` bytes in block `b` (starting at 0 or right behind an occupied interval)? -/
def Ghost.hasGap (g : Ghost) (b : GBlock) (size : Nat) : Bool :=
  let occ := g.occupied b
  (0 :: occ.map fun (o, s) => o + s).any fun c =>
    decide (c + size ≤ b.size) && occ.all fun (o, s) => !overlaps c size o s

def Ghost.emptyBlocks (g : Ghost) (p : Nat) : Nat :=
  (g.blocks.filter fun b => b.pool == p && (g.liveIn b.id).isEmpty).length

def Ghost.liveBytes (g : Ghost) : Nat := (g.tab.map fun x => if x.live then x.size else 0).sum
def Ghost.padBytes (g : Ghost) : Nat := (g.blocks.map fun b => if g.pad then g.cfg.poolGran b.pool else 0).sum
def Ghost.reserved (g : Ghost) : Nat := (g.blocks.map (·.size)).sum

/-- statistics reflect exactly the ghost state; the retention policy holds -/
def Ghost.checkStats (g : Ghost) (st : Stats) : Except String Unit :=
  if st.blocks ≠ g.blocks.length then .error s!"statistics: block_count {st.blocks}, {g.blocks.length} blocks are known"
  else if st.allocs ≠ g.liveCount then .error s!"statistics: allocation_count {st.allocs}, {g.liveCount} spans are live"
  else if st.used ≠ g.liveBytes + g.padBytes then .error s!"statistics: used_size {st.used}, live spans + padding = {g.liveBytes + g.padBytes}"
  else if st.reserved ≠ g.reserved then .error s!"statistics: reserved_size {st.reserved}, blocks sum to {g.reserved}"
  else if (List.range g.cfg.poolCount).any (fun p => decide (g.emptyBlocks p > (if g.cfg.immediate then 0 else 1))) then
    .error s!"retention: more empty blocks are kept than the policy allows"
  else .ok ()

/-- a block that lost its last span may have been freed: the statistics tell -/
def Ghost.afterRelease (g : Ghost) (blk : Nat) (st : Stats) : Ghost :=
  if st.blocks + 1 = g.blocks.length && (g.liveIn blk).isEmpty then { g with blocks := g.blocks.filter (·.id != blk) } else g

def setTab (tab : List GH) (h : Nat) (f : GH → GH) : List GH := tab.mapIdx fun i x => if i = h then f x else x

/-- judge a freshly returned span; returns the ghost state with the block known -/
def Ghost.checkNewSpan (g : Ghost) (req : Nat) (sp : SpanOut) (rwOff : Nat) (dual : Bool) : Except String Ghost :=
  let gp := g.cfg.poolGran sp.pool
  if sp.size < req then .error s!"span smaller than requested ({sp.size} < {req})"
  else if sp.off % g.cfg.gran ≠ 0 then .error s!"span not aligned to the granularity (offset {sp.off})"
  else if sp.size % g.cfg.gran ≠ 0 then .error s!"span size {sp.size} not a multiple of the granularity"
  else if rwOff ≠ sp.off then .error "rx and rw views at different offsets"
  else if dual ≠ g.cfg.dual then .error "mapping kind differs from the configuration"
  else if sp.pool ≥ g.cfg.poolCount then .error "unknown pool"
  else if sp.off + sp.size > sp.blockSize then .error "span leaves its block"
  else if g.pad && decide (sp.off < gp) then .error "span overlaps the padding granule"
  else if (g.liveIn sp.blk).any (fun x => overlaps sp.off sp.size x.off x.size) then
    .error s!"span [{sp.off},+{sp.size}) overlaps a live span in b{sp.blk}"
  else
    match g.block? sp.blk with
    | some b => if b.pool ≠ sp.pool || b.size ≠ sp.blockSize then .error "block changed pool or size" else .ok g
    | none =>
      -- new block: only legitimate when no existing block of the pool has room (released memory is reusable)
      if g.blocks.any (fun b => b.pool == sp.pool && g.hasGap b ((sp.size + gp - 1) / gp * gp)) then
        .error s!"free memory not reused: a block of pool {sp.pool} has a gap of {sp.size} bytes but a new block was mapped"
      else .ok { g with blocks := g.blocks ++ [{ id := sp.blk, pool := sp.pool, size := sp.blockSize }] }

/-- expected colour of granule `i` of block `b` (`none` = unconstrained) -/
def Ghost.expectedColour (g : Ghost) (b : GBlock) (i : Nat) : Option Nat :=
  let gp := g.cfg.poolGran b.pool
  let free : Option Nat := if g.cfg.fillUnused then some (patColour g.cfg) else none
  match (g.liveIn b.id).find? (fun x => decide (x.off ≤ i * gp) && decide (i * gp < x.off + x.size)) with
  | some x => (match x.tag with | some t => some t | none => free)
  | none => free

def unrle (cs : List (Nat × Nat)) : List Nat := cs.flatMap fun (c, k) => List.replicate k c

/-- colours `cs` of the granules `start, start+1, …` of block `b` agree with the expectation -/
def Ghost.coloursOk (g : Ghost) (b : GBlock) (start : Nat) (cs : List Nat) : Bool :=
  cs.zipIdx.all fun (c, k) => match g.expectedColour b (start + k) with | some x => x == c | none => true

/-- spans `query` must report over a block: the padding granule and the live spans (granule units) -/
def Ghost.occupiedG (g : Ghost) (b : GBlock) : List (Nat × Nat) :=
  let gp := g.cfg.poolGran b.pool
  (g.occupied b).map fun (o, s) => (o / gp, s / gp)

/-- reported spans are in address order and do not overlap -/
def increasing : List (Nat × Nat) → Bool
  | [] => true
  | [_] => true
  | x :: y :: r => decide (x.1 + x.2 ≤ y.1) && increasing (y :: r)

/-- the sweep reports exactly the occupied intervals: in order, each one, nothing else -/
def Ghost.sweepOk (g : Ghost) (b : GBlock) (sp : List (Nat × Nat)) : Bool :=
  increasing sp && sp.all (fun x => (g.occupiedG b).contains x) && (g.occupiedG b).all (fun x => sp.contains x)

/-- the span (live or padding) that contains byte `addr` of block `blk` -/
def Ghost.spanAt (g : Ghost) (blk addr : Nat) : Option (Nat × Nat) :=
  match g.block? blk with
  | none => none
  | some b => (g.occupied b).find? fun (o, s) => decide (o ≤ addr) && decide (addr < o + s)

def deadGH : GH := { live := false, blk := 0, off := 0, size := 0, tag := none }

def Ghost.kill (g : Ghost) (h : Nat) : Ghost := { g with tab := setTab g.tab h fun x => { x with live := false } }

/-- shrink-like answers (shrink, write-with-truncation after the tag update) -/
def Ghost.judgeShrink (g : Ghost) (h : Nat) (x : GH) (isW : Bool) (newSize : Nat) (a : Ans) (st : Stats) : Except String Ghost :=
  if isW && decide (newSize ≥ x.size) then
    (match a with
     | .size n => if n = x.size then .ok g else .error "write without truncation changed the span size"
     | _ => .error "write was refused")
  else if newSize = 0 then
    (match a with
     | .size 0 => .ok ((g.kill h).afterRelease x.blk st)
     | _ => .error "shrink to 0 did not release the span")
  else if newSize > x.size then
    (match a with
     | .err _ => .ok g
     | _ => .error "shrink to a larger size was accepted")
  else
    (match a with
     | .size n =>
       if n < newSize then .error s!"shrunk span smaller than requested ({n} < {newSize})"
       else if n > x.size then .error "shrink enlarged the span"
       else if n % g.cfg.gran ≠ 0 then .error "shrunk size not a multiple of the granularity"
       else .ok { g with tab := setTab g.tab h fun x => { x with size := n } }
     | _ => .error "shrink of a live span was refused")

/-- one step of the monitor without the statistics check -/
def judge (g : Ghost) (op : Op) (ans : Ans) (rwOff : Nat) (dual : Bool) (st : Stats) : Except String Ghost :=
  match op, ans with
  | .alloc req, .span sp =>
    if req = 0 then .error "alloc(0) succeeded"
    else match g.checkNewSpan req sp rwOff dual with
      | .ok g => .ok { g with tab := g.tab ++ [{ live := true, blk := sp.blk, off := sp.off, size := sp.size, tag := none }] }
      | .error e => .error e
  | .alloc req, .err _ =>
    if decide (1 ≤ req) && decide (req ≤ 1073741824) then .error s!"alloc({req}) failed"
    else .ok { g with tab := g.tab ++ [deadGH] }
  | .release h, a =>
    (match g.tab[h]? with
     | some x =>
       if x.live then
         (match a with
          | .ok => .ok ((g.kill h).afterRelease x.blk st)
          | _ => .error "release of a live span was refused")
       else (match a with | .dead => .ok g | _ => .error "protocol: release of a dead handle")
     | none => (match a with | .dead => .ok g | _ => .error "protocol: release of an unknown handle"))
  | .shrink h newSize, a =>
    (match g.tab[h]? with
     | some x =>
       if !x.live then (match a with | .dead => .ok g | _ => .error "protocol: shrink of a dead handle")
       else g.judgeShrink h x false newSize a st
     | none => (match a with | .dead => .ok g | _ => .error "protocol: unknown handle"))
  | .wtrunc h byte newSize, a =>
    (match g.tab[h]? with
     | some x =>
       if !x.live then (match a with | .dead => .ok g | _ => .error "protocol: write to a dead handle")
       else
         let x' : GH := { x with tag := some (byte % 256) }
         ({ g with tab := setTab g.tab h fun _ => x' } : Ghost).judgeShrink h x' true newSize a st
     | none => (match a with | .dead => .ok g | _ => .error "protocol: unknown handle"))
  | .query h byteOff, a =>
    (match g.tab[h]? with
     | some x =>
       (match a with
        | .span sp =>
          (match g.spanAt x.blk (x.off + byteOff) with
           | some (o, s) =>
             if sp.blk = x.blk && sp.off = o && sp.size = s && rwOff = o then .ok g
             else .error s!"query answers [{sp.off},+{sp.size}) of b{sp.blk}, the span there is [{o},+{s}) of b{x.blk}"
           | none => .error s!"query accepted an address that is in no live span (b{x.blk}+{x.off + byteOff})")
        | .err _ =>
          (match g.spanAt x.blk (x.off + byteOff) with
           | some (o, s) => .error s!"query rejected an address inside the live span [{o},+{s}) of b{x.blk}"
           | none => .ok g)
        | .gone => .ok g | .oob => .ok g | .dead => .ok g
        | _ => .error "protocol: query answer")
     | none => (match a with | .dead => .ok g | _ => .error "protocol: unknown handle"))
  | .sstale _ _, a =>
    (match a with
     | .ok => .error "shrink through a stale span (released allocation) was accepted"
     | .size _ => .error "shrink through a stale span (released allocation) was accepted"
     | _ => .ok g)
  | .write h byte, a =>
    (match g.tab[h]? with
     | some x =>
       if x.live then
         (match a with
          | .ok => .ok { g with tab := setTab g.tab h fun x => { x with tag := some (byte % 256) } }
          | _ => .error "write to a live span was refused")
       else (match a with | .dead => .ok g | _ => .error "protocol: write to a dead handle")
     | none => (match a with | .dead => .ok g | _ => .error "protocol: unknown handle"))
  | .read h, a =>
    (match g.tab[h]?, a with
     | some x, .colours cs =>
       if !x.live then .error "protocol: read of a dead handle" else
       (match g.block? x.blk with
        | none => .error "live span in an unknown block"
        | some b =>
          let gp := g.cfg.poolGran b.pool
          if (unrle cs).length = x.size / gp && g.coloursOk b (x.off / gp) (unrle cs) then .ok g
          else .error s!"contents of live span h{h} changed (or free memory without fill pattern)")
     | _, .dead => .ok g
     | _, _ => .error "protocol: read answer")
  | .mem, .memAll bs =>
    if bs.map (·.1) ≠ g.blocks.map (·.id) then .error "mem: block list differs from the known blocks"
    else if (g.blocks.zip (bs.map (·.2))).all (fun (b, cs) =>
        (unrle cs).length == b.size / g.cfg.poolGran b.pool && g.coloursOk b 0 (unrle cs)) then .ok g
    else .error "memory: a live span lost its contents or reusable memory does not carry the fill pattern"
  | .sweep, .sweepAll bs =>
    if bs.map (·.1) ≠ g.blocks.map (·.id) then .error "sweep: block list differs from the known blocks"
    else if (g.blocks.zip (bs.map (·.2))).all (fun (b, sp) => g.sweepOk b sp) then .ok g
    else .error "query sweep does not report exactly the live spans"
  | .blocks, .blockList bs =>
    if bs = g.blocks.map (fun b => (b.id, b.pool, b.size, g.pad)) then .ok g else .error "block list differs from the known blocks"
  | .dump, _ => .ok g
  | .reset hard, .blockList bs =>
    if !(bs.all fun (id, p, sz, _) => g.blocks.any fun b => b.id == id && b.pool == p && b.size == sz) then
      .error "reset: unknown block survives"
    else if (List.range g.cfg.poolCount).any (fun p =>
        decide ((bs.filter fun x => x.2.1 == p).length > (if hard || g.cfg.immediate then 0 else 1))) then
      .error "reset: a pool keeps more blocks than the policy allows"
    else .ok { g with tab := g.tab.map fun _ => deadGH, blocks := bs.map fun (id, p, sz, _) => { id, pool := p, size := sz } }
  | .isinit, .flag b => if b then .ok g else .error "is_initialized() is false for a working allocator"
  | .rforeign _, a => (match a with | .err _ => .ok g | _ => .error "foreign pointer accepted")
  | .qforeign _, a => (match a with | .err _ => .ok g | _ => .error "foreign pointer accepted")
  | .sforeign, a => (match a with | .err _ => .ok g | _ => .error "foreign pointer accepted")
  | _, _ => .error "protocol: unexpected answer"

/-- one step of the monitor: the operation, the allocator's answer (span answers come with rw offset and mapping kind), statistics -/
def mstep (g : Ghost) (op : Op) (ans : Ans) (rwOff : Nat) (dual : Bool) (st : Stats) : Except String Ghost :=
  match judge g op ans rwOff dual st with
  | .ok g' => (match g'.checkStats st with | .ok _ => .ok g' | .error e => .error e)
  | .error e => .error e

/-- the monitor over a whole trace of a single-mapping or dual-mapping allocator whose rw view has the rx offsets;
`none` = the property holds on the trace -/
def monitor (g : Ghost) : List (Op × Ans × Stats) → Option String
  | [] => none
  | (op, ans, st) :: rest =>
    let rw := match ans with | .span sp => sp.off | _ => 0
    match mstep g op ans rw g.cfg.dual st with
    | .ok g' => monitor g' rest
    | .error e => some e

end AsmjitVerif.JitAlloc.Spec
