/-
What "the textual name of every instruction maps back to an instruction id that carries this name" means, independent of
how the lookup is implemented (core-only: the driver runs `roundTripOk` as the monitor).

* The *printed names* (`names : List (List Nat)`, index = instruction id) are the observable of `inst_id_to_string`.
* An id `r` *carries* the byte string `s` when `names[r] = s`.
* Round trip for id `id`: looking up `names[id]` yields an id that carries `names[id]`, and yields `id` itself whenever no
  other id has the same printed name (AArch64 prints one mnemonic for a general-purpose and a SIMD id).
* Aliases: the ISA database (db/isa_x86.json, section "aliases") says which alternative spellings name which
  instruction; looking up an alias must yield an id that prints as that instruction.
* Well-formedness of the generated index (decidable, evaluated by `decide +kernel` over the regenerated tables): the ids
  of one first letter lie inside the letter's span and the span is strictly increasing in byte order.
-/
import AsmjitVerif.Model.InstName
namespace AsmjitVerif.InstName

/-- textbook strict lexicographic order on byte strings (shorter prefix first) -/
def lexLt : List Nat → List Nat → Bool
  | [], [] => false
  | [], _ :: _ => true
  | _ :: _, [] => false
  | x :: xs, y :: ys => x < y || (x == y && lexLt xs ys)

/-- how many ids print the name `s` -/
def occurrences (names : List (List Nat)) (s : List Nat) : Nat := (names.filter (· == s)).length

/-- The property at one id: `r` is what the implementation returned for the printed name of `id`. -/
def roundTripOk (names : List (List Nat)) (id r : Nat) : Bool :=
  let s := names.getD id []
  r != 0 && r < names.length && names.getD r [] == s && (occurrences names s != 1 || r == id)

/-- The property at one alias: the database says `alias` is another spelling of instruction `inst`. -/
def aliasOk (names : List (List Nat)) (inst : List Nat) (r : Nat) : Bool :=
  r != 0 && r < names.length && names.getD r [] == inst

/-- `s` is not the spelling of anything: the lookup must answer kIdNone. -/
def unknownOk (r : Nat) : Bool := r == 0

/-! ### well-formedness of the generated tables -/

def sortedFrom (p : List Nat) : List (List Nat) → Bool
  | [] => true
  | x :: r => lexLt p x && sortedFrom x r

def sortedList : List (List Nat) → Bool
  | [] => true
  | x :: r => sortedFrom x r

/-- names[lo .. hi) strictly increasing -/
def rangeSorted (names : List (List Nat)) (lo hi : Nat) : Bool :=
  hi ≤ names.length && sortedList ((names.drop lo).take (hi - lo))

/-- printed name at each search position of `find_instruction` (positions are ids unless there is a sorted id table) -/
def posNames (T : NameTables) (names : List (List Nat)) : List (List Nat) :=
  if T.sortedIds = [] then names else T.sortedIds.map fun id => names.getD id []

/-- every entry of the sorted id table is an instruction id -/
def sortedIdsOk (T : NameTables) : Bool := T.sortedIds.all (· < T.count)

/-- the span of letter `p` is usable by the binary search (`pn` = the names by search position, `posNames T names`) -/
def spanOk (T : NameTables) (pn : List (List Nat)) (p : Nat) : Bool :=
  let sp := T.spans.getD p (0, 0)
  sp.1 != 0 && sp.1 ≤ sp.2 && rangeSorted pn sp.1 sp.2

/-- search position `id` of the name list `names` (= `posNames`) lies in the span of its first letter -/
def idInSpan (T : NameTables) (names : List (List Nat)) (id : Nat) : Bool :=
  match names.getD id [] with
  | [] => false
  | c :: r =>
    let sp := T.spans.getD (c - 97) (0, 0)
    97 ≤ c && c ≤ 122 && sp.1 != 0 && sp.1 ≤ id && id < sp.2 && r.length + 1 ≤ T.maxLen

/-- letter of the printed name of `id` (26 if it has none) -/
def letterOf (names : List (List Nat)) (id : Nat) : Nat :=
  match names.getD id [] with
  | [] => 26
  | c :: _ => if 97 ≤ c ∧ c ≤ 122 then c - 97 else 26

/-- the model's decoder reproduces the printed name of every id -/
def decodeOk (T : NameTables) (names : List (List Nat)) : Bool :=
  names.length == T.count && T.nametab.length == T.count &&
  (List.zip T.nametab names).all fun (v, n) => decodeToBuffer v false T.strtab == n

/-- `idInSpan` with the printed name already at hand (one linear walk over `names` instead of `getD` per id) -/
def nameInSpan (T : NameTables) (n : List Nat) (id : Nat) : Bool :=
  match n with
  | [] => false
  | c :: r =>
    let sp := T.spans.getD (c - 97) (0, 0)
    97 ≤ c && c ≤ 122 && sp.1 != 0 && sp.1 ≤ id && id < sp.2 && r.length + 1 ≤ T.maxLen

def allIdsInSpan (T : NameTables) (names : List (List Nat)) : Bool :=
  names.zipIdx.all fun (n, id) => id == 0 || nameInSpan T n id

/-- with a sorted id table: the printed name of every id occurs at a search position (`posOfId[id]`, supplied by the
    translator) inside the span of its letter -/
def allNamesIndexed (T : NameTables) (pn names : List (List Nat)) (posOfId : List Nat) : Bool :=
  posOfId.length == names.length &&
  (names.zip posOfId).zipIdx.all fun ((n, p), id) => id == 0 || (nameInSpan T n p && pn.getD p [] == n)

def allSpansOk (T : NameTables) (pn : List (List Nat)) : Bool :=
  (List.range 26).all fun p => (T.spans.getD p (0, 0)).1 == 0 || spanOk T pn p

end AsmjitVerif.InstName
