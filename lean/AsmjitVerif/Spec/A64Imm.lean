/-
What the AArch64 architecture does with the immediate fields (written from the Arm ARM pseudo-code, independent of
AsmJit): `DecodeBitMasks` (logical immediates), `VFPExpandImm` (8-bit floating-point immediates), `AdvSIMDExpandImm`
for the 64-bit byte mask (op=1, cmode=1110), the add/sub immediate `imm12 LSL (0|12)`, and the move-wide instructions
MOVZ / MOVN / MOVK executed on a 64-bit register.
-/
import AsmjitVerif.Model.A64Imm
namespace AsmjitVerif.A64Imm

/-- `Replicate(ROR(Ones(S+1) zero-extended to esize, R), 64/esize)` for `esize = 2^len`, S,R < esize -/
def expandElem (esize : Nat) (S R : BitVec 64) : BitVec 64 :=
  let emask : BitVec 64 := BitVec.ofNat 64 (2 ^ esize - 1)
  let welem : BitVec 64 := ((1#64 <<< (S + 1#64)) - 1#64) &&& emask      -- Ones(S+1)
  let rot : BitVec 64 := ((welem >>> R) ||| (welem <<< (BitVec.ofNat 64 esize - R))) &&& emask
  -- replicate by doubling
  let r2 := if esize ≤ 2 then rot ||| (rot <<< 2) else rot
  let r4 := if esize ≤ 4 then r2 ||| (r2 <<< 4) else r2
  let r8 := if esize ≤ 8 then r4 ||| (r4 <<< 8) else r4
  let r16 := if esize ≤ 16 then r8 ||| (r8 <<< 16) else r8
  if esize ≤ 32 then r16 ||| (r16 <<< 32) else r16

/-- `DecodeBitMasks(N, imms, immr, immediate = TRUE)`, M = 64, split into "is defined" and "value" so that both are
plain Bool / BitVec functions.  `len = HighestSetBit(N : NOT(imms))` is the if-chain; `levels = 2^len - 1`;
reserved when `len < 1` or `imms & levels == levels`. -/
def decodeBitMasksValid (n : Bool) (imms : BitVec 6) : Bool :=
  if n then imms != 63#6
  else if !imms.getLsbD 5 then imms &&& 31#6 != 31#6
  else if !imms.getLsbD 4 then imms &&& 15#6 != 15#6
  else if !imms.getLsbD 3 then imms &&& 7#6 != 7#6
  else if !imms.getLsbD 2 then imms &&& 3#6 != 3#6
  else if !imms.getLsbD 1 then imms &&& 1#6 != 1#6
  else false

def decodeBitMasksValue (n : Bool) (imms immr : BitVec 6) : BitVec 64 :=
  if n then expandElem 64 (imms.zeroExtend 64) (immr.zeroExtend 64)
  else if !imms.getLsbD 5 then expandElem 32 ((imms &&& 31#6).zeroExtend 64) ((immr &&& 31#6).zeroExtend 64)
  else if !imms.getLsbD 4 then expandElem 16 ((imms &&& 15#6).zeroExtend 64) ((immr &&& 15#6).zeroExtend 64)
  else if !imms.getLsbD 3 then expandElem 8 ((imms &&& 7#6).zeroExtend 64) ((immr &&& 7#6).zeroExtend 64)
  else if !imms.getLsbD 2 then expandElem 4 ((imms &&& 3#6).zeroExtend 64) ((immr &&& 3#6).zeroExtend 64)
  else expandElem 2 ((imms &&& 1#6).zeroExtend 64) ((immr &&& 1#6).zeroExtend 64)

def decodeBitMasks (n : Bool) (imms immr : BitVec 6) : Option (BitVec 64) :=
  if decodeBitMasksValid n imms then some (decodeBitMasksValue n imms immr) else none

/-- 32-bit operations: N must be 0 and the mask is the low 32 bits -/
def decodeBitMasks32 (n : Bool) (imms immr : BitVec 6) : Option (BitVec 64) :=
  if n then none else (decodeBitMasks n imms immr).map (· &&& 0xFFFFFFFF#64)

/-- `VFPExpandImm(imm8)` for N = 16, 32, 64 (E = 5, 8, 11): sign : NOT(b6) : Replicate(b6, E-3) : imm8<5:4> : imm8<3:0> : Zeros(F-4) -/
def vfpExpandImm (nbits : Nat) (imm8 : BitVec 8) : BitVec 64 :=
  let e := if nbits = 16 then 5 else if nbits = 32 then 8 else 11
  let f := nbits - e - 1
  let sign : BitVec 64 := (imm8.zeroExtend 64 >>> 7) &&& 1#64
  let b6 : Bool := imm8.getLsbD 6
  let expo : BitVec 64 :=   -- NOT(b6) : Replicate(b6, E-3) : imm8<5:4>
    ((if b6 then 0#64 else 1#64) <<< (e - 1)) |||
    ((if b6 then BitVec.ofNat 64 (2 ^ (e - 3) - 1) else 0#64) <<< 2) |||
    ((imm8.zeroExtend 64 >>> 4) &&& 3#64)
  let frac : BitVec 64 := (imm8.zeroExtend 64 &&& 0xF#64) <<< (f - 4)
  (sign <<< (nbits - 1)) ||| (expo <<< f) ||| frac

/-- `AdvSIMDExpandImm(op=1, cmode=1110, imm8)`: each bit of imm8 becomes a byte of ones or zeros -/
def byteMaskExpand (imm8 : BitVec 8) : BitVec 64 :=
  (List.range 8).foldl (fun acc i => if imm8.getLsbD i then acc ||| (0xFF#64 <<< (8 * i)) else acc) 0#64

/-- ADD/SUB (immediate): value = imm12 LSL (sh ? 12 : 0) -/
def addSubImmValue (sh : Bool) (imm12 : BitVec 12) : BitVec 64 :=
  if sh then imm12.zeroExtend 64 <<< 12 else imm12.zeroExtend 64

/-- Is `w` an allocated move-wide instruction (MOVN/MOVZ/MOVK) writing register `rd`?
bits 28..23 = 100101, opc ≠ 01, and `sf = 0 → hw < 2`. -/
def movWideOk (rd : BitVec 32) (w : BitVec 32) : Bool :=
  ((w >>> 23) &&& 0x3F#32 == 0x25#32) && (w &&& 0x1F#32 == rd) &&
  ((w >>> 29) &&& 3#32 != 1#32) && (w.getLsbD 31 || !w.getLsbD 22)

/-- The value the destination X register holds after executing move-wide word `w` on register content `reg`. -/
def movWideVal (reg : BitVec 64) (w : BitVec 32) : BitVec 64 :=
  let opc := (w >>> 29) &&& 3#32
  let pos : BitVec 64 := (((w >>> 21) &&& 3#32).zeroExtend 64) <<< 4          -- hw * 16
  let shifted : BitVec 64 := (((w >>> 5) &&& 0xFFFF#32).zeroExtend 64) <<< pos
  let r : BitVec 64 :=
    if opc == 0#32 then ~~~shifted                                            -- MOVN
    else if opc == 2#32 then shifted                                         -- MOVZ
    else (reg &&& ~~~(0xFFFF#64 <<< pos)) ||| shifted                        -- MOVK
  if w.getLsbD 31 then r else r &&& 0xFFFFFFFF#64                            -- a W write zero-extends

/-- run a sequence: (all words were valid move-wides to `rd`, final register value) -/
def execMovSeq (rd : BitVec 32) (reg : BitVec 64) : List (BitVec 32) → Bool × BitVec 64
  | [] => (true, reg)
  | w :: ws =>
    let r := execMovSeq rd (movWideVal reg w) ws
    (movWideOk rd w && r.1, r.2)

/-! ### bit-field move: BFM / SBFM / UBFM executed (Arm ARM C6.2, shared pseudo-code) and what the aliases mean -/

inductive BfOp where | bfm | sbfm | ubfm
  deriving DecidableEq, Repr

/-- `ROR(x, r)` on `datasize` bits (r < datasize, x < 2^datasize) -/
def rorDs (sf : Bool) (x r : BitVec 64) : BitVec 64 :=
  if sf then (x >>> r) ||| (x <<< (64#64 - r))
  else ((x >>> r) ||| (x <<< (32#64 - r))) &&& 0xFFFFFFFF#64

/-- `Ones(n)` for n = 1..64 (n = 64: the shift leaves 0, minus one = all ones) -/
def onesN (n : BitVec 64) : BitVec 64 := (1#64 <<< n) - 1#64

/-- BFM/SBFM/UBFM Xd, Xn, #immr, #imms:
`(wmask, tmask) = DecodeBitMasks(N, imms, immr, FALSE)`: `wmask = ROR(Ones(S+1), R)`, `tmask = Ones(((S - R) MOD datasize) + 1)`;
`bot = (dst AND NOT(wmask)) OR (ROR(src, R) AND wmask)`; `top = extend ? Replicate(src<S>) : dst`;
`X[d] = (top AND NOT(tmask)) OR (bot AND tmask)`; `dst` is X[d] for BFM and zero for SBFM/UBFM.  A W destination is
zero-extended.  Requires immr, imms < datasize. -/
def bfmExec (op : BfOp) (sf : Bool) (immr imms dst0 src0 : BitVec 64) : BitVec 64 :=
  let dmask : BitVec 64 := if sf then BitVec.allOnes 64 else 0xFFFFFFFF#64
  let dsm1 : BitVec 64 := if sf then 63#64 else 31#64
  let src := src0 &&& dmask
  let dst := if op == .bfm then dst0 &&& dmask else 0#64
  let wmask := rorDs sf (onesN (imms + 1#64)) immr
  let tmask := onesN (((imms - immr) &&& dsm1) + 1#64)
  let bot := (dst &&& ~~~wmask) ||| (rorDs sf src immr &&& wmask)
  let top := if op == .sbfm then (if ((src >>> imms) &&& 1#64) == 1#64 then dmask else 0#64) else dst
  ((top &&& ~~~tmask) ||| (bot &&& tmask)) &&& dmask

inductive BfAlias where | bfc | bfi | sbfiz | ubfiz | bfxil | sbfx | ubfx
  deriving DecidableEq, Repr

def BfAlias.op : BfAlias → BfOp
  | .bfc | .bfi | .bfxil => .bfm
  | .sbfiz | .sbfx => .sbfm
  | .ubfiz | .ubfx => .ubfm

/-- insert-type aliases (operands written `#lsb, #width`, encoded as `immr = -lsb MOD size, imms = width-1`) -/
def BfAlias.isInsert : BfAlias → Bool
  | .bfc | .bfi | .sbfiz | .ubfiz => true
  | _ => false

/-- What the alias is documented to do (Arm ARM C6.2 "BFI", "BFC", "BFXIL", "SBFIZ", "SBFX", "UBFIZ", "UBFX"), for
`lsb < datasize`, `1 ≤ width ≤ datasize - lsb`; `src` is ignored by BFC (Rn = ZR). -/
def aliasMeaning (a : BfAlias) (sf : Bool) (lsb width dst0 src0 : BitVec 64) : BitVec 64 :=
  let dmask : BitVec 64 := if sf then BitVec.allOnes 64 else 0xFFFFFFFF#64
  let dst := dst0 &&& dmask
  let src := if a == .bfc then 0#64 else src0 &&& dmask
  let wm := onesN width
  let fieldLow := src &&& wm                     -- the low `width` bits of src
  let fieldAt := (src >>> lsb) &&& wm            -- `width` bits of src starting at `lsb`
  let signLow := ((src >>> (width - 1#64)) &&& 1#64) == 1#64
  let signAt := ((src >>> (lsb + width - 1#64)) &&& 1#64) == 1#64
  (match a with
   | .bfc | .bfi => (dst &&& ~~~(wm <<< lsb)) ||| (fieldLow <<< lsb)
   | .ubfiz => fieldLow <<< lsb
   | .sbfiz => (fieldLow <<< lsb) ||| (if signLow then ~~~(onesN (lsb + width)) else 0#64)
   | .bfxil => (dst &&& ~~~wm) ||| fieldAt
   | .ubfx => fieldAt
   | .sbfx => fieldAt ||| (if signAt then ~~~wm else 0#64)) &&& dmask

/-- the operands a disassembler shows for the alias (Arm ARM alias operand rules):
insert-type `lsb = (size - immr) MOD size, width = imms + 1`; extract-type `lsb = immr, width = imms - immr + 1` -/
def aliasOperands (a : BfAlias) (sf : Bool) (immr imms : BitVec 64) : BitVec 64 × BitVec 64 :=
  let dsm1 : BitVec 64 := if sf then 63#64 else 31#64
  if a.isInsert then ((0#64 - immr) &&& dsm1, imms + 1#64) else (immr, imms - immr + 1#64)

/-- the architecture has an encoding for `#lsb, #width`: "<lsb> in the range 0 to size-1, <width> in the range 1 to
size-<lsb>" (Arm ARM, every one of the seven aliases) -/
def aliasEncodable (sf : Bool) (lsb width : BitVec 64) : Bool :=
  let size : BitVec 64 := if sf then 64#64 else 32#64
  lsb.ult size && (1#64).ule width && width.ule (size - lsb)

/-- by-element index of the vector instructions: H:L:M for half-word elements (size field 1, Rm is 4 bits),
H:L for word elements (size field 2, M is the top bit of Rm) -/
def lmhIndex (sizeField l m h : BitVec 32) : BitVec 32 :=
  if sizeField == 1#32 then (h <<< 2) ||| (l <<< 1) ||| m else (h <<< 1) ||| l

end AsmjitVerif.A64Imm
