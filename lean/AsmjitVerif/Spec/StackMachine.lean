/-
C07 specification side, part 1: a small stack machine.

This file says what the dozen instructions that `emit_prolog` / `emit_epilog` produce *mean*
(Intel SDM / Arm ARM, restricted to what matters for a frame: general registers, vector / mask / mm
registers as plain numbers, a byte-addressed little-endian memory, the stack pointer, `ret`).
It knows nothing about how AsmJit computes a frame.  Core-only imports (the driver links it).

Conventions
 * register groups are numbered like `RegGroup`: 0 = GP, 1 = Vec, 2 = Mask (x86 k), 3 = Extra (x86 mm);
 * GP register `sp` is an ordinary GP register (id 4 on x86, 31 on AArch64);
 * a fault (`none`) is: arithmetic leaving the address space (below 0), an *aligned* vector move
   (`movaps`/`vmovaps`) to an address that is not 16-byte aligned, an AArch64 memory access through
   `sp` while `sp` is not 16-byte aligned (the hardware check), any instruction after `ret`.
-/
namespace AsmjitVerif.Frame

inductive Arch where
  | x86 | x64 | a64
  deriving DecidableEq, Repr, Inhabited

/-- native GP register width in bytes -/
def Arch.W : Arch → Nat
  | .x86 => 4 | .x64 => 8 | .a64 => 8
def Arch.spId : Arch → Nat
  | .a64 => 31 | _ => 4
def Arch.fpId : Arch → Nat
  | .a64 => 29 | _ => 5
/-- link register (AArch64 only) -/
def Arch.lrId : Arch → Option Nat
  | .a64 => some 30 | _ => none
/-- bytes the call instruction pushes -/
def Arch.retSize (a : Arch) : Nat := match a.lrId with | some _ => 0 | none => a.W
def Arch.isA64 : Arch → Bool
  | .a64 => true | _ => false

inductive MemMode where
  | fixed | pre | post
  deriving DecidableEq, Repr, Inhabited

/-- x86 moves used for non-GP saves: (mnemonic, group, bytes moved, requires 16-byte alignment) -/
inductive XMn where
  | movaps | movups | vmovaps | vmovups | kmovq | movq
  deriving DecidableEq, Repr, Inhabited

def XMn.group : XMn → Nat
  | .kmovq => 2 | .movq => 3 | _ => 1
def XMn.size : XMn → Nat
  | .kmovq => 8 | .movq => 8 | _ => 16
/-- size the register *operand* reports (AsmJit's `KReg` operands carry size 0) -/
def XMn.opSize : XMn → Nat
  | .kmovq => 0 | .movq => 8 | _ => 16
def XMn.aligned : XMn → Bool
  | .movaps => true | .vmovaps => true | _ => false
def XMn.name : XMn → String
  | .movaps => "movaps" | .movups => "movups" | .vmovaps => "vmovaps" | .vmovups => "vmovups"
  | .kmovq => "kmovq" | .movq => "movq"

/-- The instructions a prolog / epilog consists of. Immediates and offsets are signed. -/
inductive Instr where
  | push (r : Nat)
  | pop (r : Nat)
  | mov (d s : Nat)                                   -- GP to GP
  | andImm (r : Nat) (imm : Int)                      -- r := r AND imm (two's complement)
  | sub (r : Nat) (imm : Int)
  | add (r : Nat) (imm : Int)
  | lea (d b : Nat) (off : Int)                       -- d := b + off
  | stGp (b : Nat) (off : Int) (s : Nat)              -- [b + off] := s   (W bytes)
  | ldGp (d b : Nat) (off : Int)
  | stX (mn : XMn) (b : Nat) (off : Int) (id : Nat)   -- x86 vector / mask / mm store
  | ldX (mn : XMn) (id : Nat) (b : Nat) (off : Int)
  -- AArch64 `stp/str` (`r2 = none` is `str`) of `sz`-byte views of registers of group `g`
  | stp (g sz r1 : Nat) (r2 : Option Nat) (b : Nat) (off : Int) (mode : MemMode)
  | ldp (g sz r1 : Nat) (r2 : Option Nat) (b : Nat) (off : Int) (mode : MemMode)
  | nop (name : String)                               -- endbr32/64, bti, emms, vzeroupper
  | ret (n : Nat)                                     -- x86 `ret` / `ret n`
  | retReg (r : Nat)                                  -- AArch64 `ret x30`
  | and3 (d r : Nat) (imm : Int)                      -- AArch64 `and d, r, #imm` (d may be sp)
  deriving DecidableEq, Repr, Inhabited

/-! ### memory -/

abbrev Mem := Nat → Nat

/-- little-endian store of the low `w` bytes of `v` at `a` -/
def storeBytes (m : Mem) (a w v : Nat) : Mem :=
  fun x => if a ≤ x ∧ x < a + w then (v / 256 ^ (x - a)) % 256 else m x

/-- little-endian load of `w` bytes at `a` -/
def loadBytes (m : Mem) (a : Nat) : Nat → Nat
  | 0 => 0
  | w + 1 => m a % 256 + 256 * loadBytes m (a + 1) w

/-! ### machine state -/

structure St where
  gp : Nat → Nat
  /-- non-GP register files: group (1..3) → id → value -/
  x : Nat → Nat → Nat
  mem : Mem
  /-- set by `ret`: the address control returns to -/
  ret : Option Nat := none

def St.setGp (s : St) (r v : Nat) : St := { s with gp := fun i => if i = r then v else s.gp i }
def St.setX (s : St) (g r v : Nat) : St :=
  { s with x := fun g' i => if g' = g ∧ i = r then v else s.x g' i }
def St.reg (s : St) (g r : Nat) : Nat := if g = 0 then s.gp r else s.x g r
def St.setReg (s : St) (g r v : Nat) : St := if g = 0 then s.setGp r v else s.setX g r v

/-- address `base + off`, `none` below zero -/
def addrOf (base : Nat) (off : Int) : Option Nat :=
  let a : Int := (base : Int) + off
  if 0 ≤ a then some a.toNat else none

/-- two's complement of a signed immediate at `8*W` bits -/
def immBits (W : Nat) (imm : Int) : Nat := (imm % ((2 : Int) ^ (8 * W))).toNat

/-- AArch64: an access whose base is `sp` faults unless `sp` is 16-byte aligned -/
def spAccessOk (a : Arch) (s : St) (b : Nat) : Bool :=
  !(a.isA64 && b == a.spId) || s.gp b % 16 == 0

def step (a : Arch) (i : Instr) (s : St) : Option St :=
  let W := a.W
  if s.ret.isSome then none else
  match i with
  | .push r =>
    if s.gp a.spId < W then none else
    let p := s.gp a.spId - W
    some ({ s with mem := storeBytes s.mem p W (s.gp r) }.setGp a.spId p)
  | .pop r =>
    let v := loadBytes s.mem (s.gp a.spId) W
    some ((s.setGp a.spId (s.gp a.spId + W)).setGp r v)
  | .mov d r => some (s.setGp d (s.gp r))
  | .andImm r imm => some (s.setGp r (s.gp r &&& immBits W imm))
  | .sub r imm => (addrOf (s.gp r) (-imm)).map (s.setGp r)
  | .add r imm => (addrOf (s.gp r) imm).map (s.setGp r)
  | .lea d b off => (addrOf (s.gp b) off).map (s.setGp d)
  | .stGp b off r =>
    if !spAccessOk a s b then none else
    (addrOf (s.gp b) off).map fun p => { s with mem := storeBytes s.mem p W (s.gp r) }
  | .ldGp d b off =>
    if !spAccessOk a s b then none else
    (addrOf (s.gp b) off).map fun p => s.setGp d (loadBytes s.mem p W)
  | .stX mn b off id =>
    (addrOf (s.gp b) off).bind fun p =>
      if mn.aligned && p % 16 != 0 then none
      else some { s with mem := storeBytes s.mem p mn.size (s.x mn.group id) }
  | .ldX mn id b off =>
    (addrOf (s.gp b) off).bind fun p =>
      if mn.aligned && p % 16 != 0 then none
      else some (s.setX mn.group id (loadBytes s.mem p mn.size))
  | .stp g sz r1 r2 b off mode =>
    if !spAccessOk a s b then none else
    let base := s.gp b
    (addrOf base off).bind fun q =>
      let p := if mode = .post then base else q
      let m1 := storeBytes s.mem p sz (s.reg g r1)
      let m2 := match r2 with
        | some r2 => storeBytes m1 (p + sz) sz (s.reg g r2)
        | none => m1
      let s' := { s with mem := m2 }
      some (if mode = .fixed then s' else s'.setGp b q)
  | .ldp g sz r1 r2 b off mode =>
    if !spAccessOk a s b then none else
    let base := s.gp b
    (addrOf base off).bind fun q =>
      let p := if mode = .post then base else q
      -- write-back first: the loaded registers are never the base in a prolog / epilog
      let s0 := if mode = .fixed then s else s.setGp b q
      let s1 := s0.setReg g r1 (loadBytes s.mem p sz)
      some (match r2 with
        | some r2 => s1.setReg g r2 (loadBytes s.mem (p + sz) sz)
        | none => s1)
  | .nop _ => some s
  | .ret n =>
    let ra := loadBytes s.mem (s.gp a.spId) W
    some { (s.setGp a.spId (s.gp a.spId + W + n)) with ret := some ra }
  | .retReg r => some { s with ret := some (s.gp r) }
  | .and3 d r imm => some (s.setGp d (s.gp r &&& immBits W imm))

def run (a : Arch) : List Instr → St → Option St
  | [], s => some s
  | i :: is, s => (step a i s).bind (run a is)

/-! ### printing (the canonical text both the harness and the model produce) -/

def grpLetter : Nat → String
  | 0 => "r" | 1 => "v" | 2 => "k" | _ => "m"

def regText (g id sz : Nat) : String := grpLetter g ++ toString id ++ ":" ++ toString sz

def offText (off : Int) : String := if off < 0 then "-" ++ toString (-off).toNat else "+" ++ toString off.toNat

def memText (b : Nat) (off : Int) (mode : MemMode) : String :=
  match mode with
  | .fixed => "[r" ++ toString b ++ offText off ++ "]"
  | .pre => "[r" ++ toString b ++ offText off ++ "]!"
  | .post => "[r" ++ toString b ++ "]" ++ offText off

def immText (i : Int) : String := if i < 0 then "#-" ++ toString (-i).toNat else "#" ++ toString i.toNat

def Instr.text (a : Arch) : Instr → String
  | .push r => "push " ++ regText 0 r a.W
  | .pop r => "pop " ++ regText 0 r a.W
  | .mov d s => "mov " ++ regText 0 d a.W ++ "," ++ regText 0 s a.W
  | .andImm r imm => "and " ++ regText 0 r a.W ++ "," ++ immText imm
  | .sub r imm =>
    if a.isA64 then "sub " ++ regText 0 r a.W ++ "," ++ regText 0 r a.W ++ "," ++ immText imm
    else "sub " ++ regText 0 r a.W ++ "," ++ immText imm
  | .add r imm =>
    if a.isA64 then "add " ++ regText 0 r a.W ++ "," ++ regText 0 r a.W ++ "," ++ immText imm
    else "add " ++ regText 0 r a.W ++ "," ++ immText imm
  | .lea d b off => "lea " ++ regText 0 d a.W ++ "," ++ memText b off .fixed
  | .stGp b off s => "mov " ++ memText b off .fixed ++ "," ++ regText 0 s a.W
  | .ldGp d b off => "mov " ++ regText 0 d a.W ++ "," ++ memText b off .fixed
  | .stX mn b off id => mn.name ++ " " ++ memText b off .fixed ++ "," ++ regText mn.group id mn.opSize
  | .ldX mn id b off => mn.name ++ " " ++ regText mn.group id mn.opSize ++ "," ++ memText b off .fixed
  | .stp g sz r1 r2 b off mode =>
    match r2 with
    | some r2 => "stp " ++ regText g r1 sz ++ "," ++ regText g r2 sz ++ "," ++ memText b off mode
    | none => "str " ++ regText g r1 sz ++ "," ++ memText b off mode
  | .ldp g sz r1 r2 b off mode =>
    match r2 with
    | some r2 => "ldp " ++ regText g r1 sz ++ "," ++ regText g r2 sz ++ "," ++ memText b off mode
    | none => "ldr " ++ regText g r1 sz ++ "," ++ memText b off mode
  | .nop name => name
  | .ret n => if n = 0 then "ret" else "ret " ++ immText n
  | .retReg r => "ret " ++ regText 0 r a.W
  | .and3 d r imm => "and " ++ regText 0 d a.W ++ "," ++ regText 0 r a.W ++ "," ++ immText imm

def progText (a : Arch) (p : List Instr) : String :=
  if p.isEmpty then "-" else "; ".intercalate (p.map (Instr.text a))

end AsmjitVerif.Frame
