/-
Operation languages and textbook semantics for the C18 containers `ArenaHash`, `ArenaList`, `ArenaPool`.
Nothing here mentions buckets, reciprocals, links or the arena: the specifications are plain association lists,
plain lists and a plain stack.  The Model files are imported for data types only (`Arena.State`, `Arena.Loc`).
Core-only imports.
-/
import AsmjitVerif.Model.Hash
import AsmjitVerif.Model.ListPool
namespace AsmjitVerif.Spec.C18HashList

/-! ### Hash table = finite (multi)map, an association list of `(uid, key)` pairs -/

/-- operations of a hash-table client; `arenaNoise s` = any other arena activity (the arena is now in state `s`) -/
inductive HOp where
  | insert (uid key : Nat)
  | removeKey (key : Nat)
  | arenaNoise (s : AsmjitVerif.Arena.State)

abbrev Assoc := List (Nat × Nat)

/-- textbook lookup: first pair with the key -/
def lookup (s : Assoc) (k : Nat) : Option (Nat × Nat) := s.find? (fun p => p.2 == k)

/-- textbook step: insert conses, removeKey erases the first pair with the key -/
def hStep (s : Assoc) : HOp → Assoc
  | .insert u k => (u, k) :: s
  | .removeKey k => s.eraseP (fun p => p.2 == k)
  | .arenaNoise _ => s

def runSpec (s : Assoc) (ops : List HOp) : Assoc := ops.foldl hStep s

/-- client protocol of a map (documented in arenahash.h: `get()` first, `insert()` only when absent): the uid (node
address) is fresh and the key is not present -/
def hOk (s : Assoc) : HOp → Prop
  | .insert u k => u ∉ s.map Prod.fst ∧ k ∉ s.map Prod.snd
  | _ => True

def HValid (s : Assoc) : List HOp → Prop
  | [] => True
  | op :: ops => hOk s op ∧ HValid (hStep s op) ops

/-! ### ArenaList = plain list -/

/-- textbook insertion of `n` right after / before the member `ref` (node identifiers) -/
def insAfter (ref n : Nat) : List Nat → List Nat
  | [] => []
  | x :: xs => if x = ref then x :: n :: xs else x :: insAfter ref n xs

def insBefore (ref n : Nat) : List Nat → List Nat
  | [] => []
  | x :: xs => if x = ref then n :: x :: xs else x :: insBefore ref n xs

/-- operations of a list client (the harness protocol): every insertion creates a fresh node carrying value `v`;
`insertAfter ref v` / `insertBefore ref v` / `unlink v` address a member by its VALUE -/
inductive LOp where
  | append (v : Nat)
  | prepend (v : Nat)
  | insertAfter (ref v : Nat)
  | insertBefore (ref v : Nat)
  | unlink (v : Nat)
  | popFirst
  | pop

/-- textbook step on the list of VALUES; an operation whose precondition fails (unknown `ref`, unknown value, pop on
an empty list) is a no-op (`insAfter`/`insBefore`/`erase`/`tail`/`dropLast` already behave like that) -/
def lStep (vs : List Nat) : LOp → List Nat
  | .append v => vs ++ [v]
  | .prepend v => v :: vs
  | .insertAfter ref v => insAfter ref v vs
  | .insertBefore ref v => insBefore ref v vs
  | .unlink v => vs.erase v
  | .popFirst => vs.tail
  | .pop => vs.dropLast

def runList (vs : List Nat) (ops : List LOp) : List Nat := ops.foldl lStep vs

/-- client protocol: inserted values are fresh (values identify nodes) -/
def lOk (vs : List Nat) : LOp → Prop
  | .append v => v ∉ vs
  | .prepend v => v ∉ vs
  | .insertAfter _ v => v ∉ vs
  | .insertBefore _ v => v ∉ vs
  | _ => True

def LValid (vs : List Nat) : List LOp → Prop
  | [] => True
  | op :: ops => lOk vs op ∧ LValid (lStep vs op) ops

/-! ### ArenaPool = stack of released locations -/

inductive POp where
  | alloc (size : Nat)
  | release (x : AsmjitVerif.Arena.Loc)

def pStep (st : List AsmjitVerif.Arena.Loc) : POp → List AsmjitVerif.Arena.Loc
  | .alloc _ => st.tail
  | .release x => x :: st

def runStack (st : List AsmjitVerif.Arena.Loc) (ops : List POp) : List AsmjitVerif.Arena.Loc := ops.foldl pStep st

end AsmjitVerif.Spec.C18HashList
