/-
C11 (also usable by C09): the property predicate on a *real-time trace* of allocations made by concurrent threads.
A span record carries the interval of the global clock during which the caller owned the memory:
`t0` = a clock tick taken after `alloc` returned, `t1` = a tick taken before `release` was called.
If two records' lifetimes intersect in real time and their address ranges intersect, two threads owned the same
bytes at the same time - a violation whatever the linearisation order was.  Core-only.
-/
namespace AsmjitVerif.JitTrace

structure SpanRec where
  tid : Nat
  addr : Nat
  size : Nat
  requested : Nat
  t0 : Nat
  t1 : Nat
  contentOk : Bool
  deriving Repr

def lifetimesIntersect (a b : SpanRec) : Bool := a.t0 ≤ b.t1 && b.t0 ≤ a.t1
def rangesIntersect (a b : SpanRec) : Bool := a.addr < b.addr + b.size && b.addr < a.addr + a.size

def spanOk (gran : Nat) (s : SpanRec) : Bool :=
  s.addr % gran == 0 && s.size ≥ s.requested && s.size % gran == 0 && s.contentOk && s.t0 ≤ s.t1

/-- first pair that violates disjointness, if any (quadratic; traces are a few thousand records) -/
def firstConflict : List SpanRec → Option (SpanRec × SpanRec)
  | [] => none
  | a :: rest =>
    match rest.find? (fun b => lifetimesIntersect a b && rangesIntersect a b) with
    | some b => some (a, b)
    | none => firstConflict rest

def traceOk (gran : Nat) (spans : List SpanRec) : Bool :=
  spans.all (spanOk gran) && (firstConflict spans).isNone

end AsmjitVerif.JitTrace
