/-
C11 (also usable by C09): the property predicate on a *real-time trace* of allocations made by concurrent threads.
A span record carries the interval of the global clock during which the caller owned the memory:
`t0` = a clock tick taken after `alloc` returned, `t1` = a tick taken before `release` was called.
If two records' lifetimes intersect in real time and their address ranges intersect, two threads owned the same
bytes at the same time - a violation whatever the linearisation order was.  Core-only.
-/
namespace AsmjitVerif.JitTrace

structure SpanRec where
  tid : Nat
  addr : Nat
  size : Nat
  requested : Nat
  t0 : Nat
  t1 : Nat
  contentOk : Bool
  deriving Repr

def lifetimesIntersect (a b : SpanRec) : Bool := a.t0 ≤ b.t1 && b.t0 ≤ a.t1
def rangesIntersect (a b : SpanRec) : Bool := a.addr < b.addr + b.size && b.addr < a.addr + a.size

def spanOk (gran : Nat) (s : SpanRec) : Bool :=
  s.addr % gran == 0 && s.size ≥ s.requested && s.size % gran == 0 && s.contentOk && s.t0 ≤ s.t1

/-- first pair that violates disjointness, if any (quadratic; traces are a few thousand records) -/
def firstConflict : List SpanRec → Option (SpanRec × SpanRec)
  | [] => none
  | a :: rest =>
    match rest.find? (fun b => lifetimesIntersect a b && rangesIntersect a b) with
    | some b => some (a, b)
    | none => firstConflict rest

def traceOk (gran : Nat) (spans : List SpanRec) : Bool :=
  spans.all (spanOk gran) && (firstConflict spans).isNone

/-! ### program order inside a linearisation (hook H2)

`lin` = the critical sections in lock order, each tagged with the thread that ran it, that thread's operation counter and a
signature of the operation and its result as recorded INSIDE the critical section; `po` = what each thread itself logged, in its
own order, with the result the CALLER saw.  The linearisation respects program order when, for every thread, the events of that
thread appear in `lin` exactly in the order (and with the results) the thread logged them. -/

structure LinEv where
  tid : Nat
  seq : Nat
  sig : String
  deriving Repr, DecidableEq

def ofThread (t : Nat) (l : List LinEv) : List LinEv := l.filter (·.tid == t)

/-- operation counters of one thread are 0, 1, 2, … -/
def seqFrom : Nat → List LinEv → Bool
  | _, [] => true
  | k, e :: r => e.seq == k && seqFrom (k + 1) r

/-- first thread whose projection of the linearisation differs from its own log -/
def firstDisorder (threads : Nat) (lin po : List LinEv) : Option Nat :=
  (List.range threads).find? fun t => !(ofThread t lin == ofThread t po && seqFrom 0 (ofThread t po))

def programOrderOk (threads : Nat) (lin po : List LinEv) : Bool :=
  (firstDisorder threads lin po).isNone && lin.all (·.tid < threads) && po.all (·.tid < threads)

end AsmjitVerif.JitTrace
