/-
C05 - BitVec semantics of the register / home-slot writes and of the ALU instructions the validator's idiom rules talk about
(Intel SDM vol. 1 3.4.1.1 "General-Purpose Registers in 64-Bit Mode": 8/16-bit results leave the rest of the register, a
32-bit result is zero-extended to 64 bits; Arm ARM: a W-register write zero-extends to the X register).  Written from the manuals,
independent of AsmJit and of the rules.  A general-purpose register and its 8-byte home slot are `BitVec 64` (little endian);
a vector register is `BitVec 512`.
-/
namespace AsmjitVerif.X86Regs

/-- the low `bytes` bytes of a 64-bit register -/
def lowMask : Nat → BitVec 64
  | 1 => 0xFF#64
  | 2 => 0xFFFF#64
  | 4 => 0xFFFFFFFF#64
  | _ => 0xFFFFFFFFFFFFFFFF#64

/-- what a virtual register of `vs` bytes can observe of a 64-bit location -/
def trunc (vs : Nat) (x : BitVec 64) : BitVec 64 := x &&& lowMask vs

/-- a `w`-byte result written to a general-purpose register: 1/2 bytes merge, 4 bytes zero-extend, 8 bytes replace -/
def gpWrite (w : Nat) (old res : BitVec 64) : BitVec 64 :=
  match w with
  | 1 => (old &&& 0xFFFFFFFFFFFFFF00#64) ||| (res &&& 0xFF#64)
  | 2 => (old &&& 0xFFFFFFFFFFFF0000#64) ||| (res &&& 0xFFFF#64)
  | 4 => res &&& 0xFFFFFFFF#64
  | _ => res

/-- a `w`-byte result stored into the 8-byte home slot: the other bytes of the slot stay (memory never zero-extends) -/
def memWrite (w : Nat) (old res : BitVec 64) : BitVec 64 :=
  match w with
  | 1 => (old &&& 0xFFFFFFFFFFFFFF00#64) ||| (res &&& 0xFF#64)
  | 2 => (old &&& 0xFFFFFFFFFFFF0000#64) ||| (res &&& 0xFFFF#64)
  | 4 => (old &&& 0xFFFFFFFF00000000#64) ||| (res &&& 0xFFFFFFFF#64)
  | _ => res

/-- byte masks InstAPI::query_rw_info reports for a `w`-byte general-purpose register write: written bytes, zero-extended bytes -/
def gpWMask (w : Nat) : Nat := 2 ^ w - 1
def gpEMask (w : Nat) : Nat := if w = 4 then 0xF0 else 0

inductive AluOp where
  | add | sub | and | or | xor | shl | shr | sar | rol | ror
  deriving DecidableEq, Repr

/-- shift / rotate count as the CPU masks it (5 bits, 6 bits for 64-bit operands) -/
def countMask (w : Nat) : BitVec 64 := if w = 8 then 0x3F#64 else 0x1F#64

/-- `w`-byte ALU result (only the low `w` bytes are meaningful, `gpWrite` / `memWrite` place them).  Shifts and rotates with a
    masked count of 0 leave the operand unchanged (SDM: "If the masked count is 0, the destination is not changed"). -/
def alu (op : AluOp) (w : Nat) (a b : BitVec 64) : BitVec 64 :=
  let c := b &&& countMask w
  let x := a &&& lowMask w
  let bits : BitVec 64 := BitVec.ofNat 64 (8 * w)
  match op with
  | .add => a + b
  | .sub => a - b
  | .and => a &&& b
  | .or => a ||| b
  | .xor => a ^^^ b
  | .shl => if c = 0#64 then a else x <<< c
  | .shr => if c = 0#64 then a else x >>> c
  | .sar => if c = 0#64 then a else (if x &&& (1#64 <<< (bits - 1#64)) = 0#64 then x >>> c else (x >>> c) ||| ~~~(lowMask w >>> c))
  | .rol => if c = 0#64 then a else (x <<< (c % bits)) ||| (x >>> (bits - c % bits))
  | .ror => if c = 0#64 then a else (x >>> (c % bits)) ||| (x <<< (bits - c % bits))

/-- mnemonic -> operation (x86 two-operand integer ALU, AArch64 `eor`) -/
def gpOpOfName : String → Option AluOp
  | "add" => some .add | "sub" => some .sub | "and" => some .and | "or" => some .or | "xor" => some .xor | "eor" => some .xor
  | "shl" => some .shl | "shr" => some .shr | "sar" => some .sar | "rol" => some .rol | "ror" => some .ror
  | _ => none

/-! ### vector registers (512 bits; a 128/256-bit operation is `bytes` = 16 / 32) -/

/-- the low `bytes` bytes of a vector register -/
def vecMask (bytes : Nat) : BitVec 512 := BitVec.ofNat 512 (2 ^ (8 * bytes) - 1)

def vtrunc (vs : Nat) (x : BitVec 512) : BitVec 512 := x &&& vecMask vs

/-- a move that writes `bytes` bytes and zeroes the rest of the destination (mov r32 / movzx / movd / movq / movss, movsd loads /
    kmov* / VEX and EVEX vector moves / AArch64 ldr, mov w/x, vector mov) -/
def zxWrite (bytes : Nat) (_old src : BitVec 512) : BitVec 512 := src &&& vecMask bytes

/-- a move that writes `bytes` bytes and leaves the rest of the destination (mov r8/r16, stores into a home slot, legacy SSE register moves) -/
def mergeWrite (bytes : Nat) (old src : BitVec 512) : BitVec 512 := (old &&& ~~~vecMask bytes) ||| (src &&& vecMask bytes)

/-- lane-wise operation on a 128-bit value, lanes of 32 bits (the other lane widths are analogous; xor/or/and do not depend on lanes) -/
def lanes32 (f : BitVec 32 → BitVec 32 → BitVec 32) (a b : BitVec 128) : BitVec 128 :=
  (f (a.extractLsb' 96 32) (b.extractLsb' 96 32)) ++ (f (a.extractLsb' 64 32) (b.extractLsb' 64 32)) ++
  (f (a.extractLsb' 32 32) (b.extractLsb' 32 32)) ++ (f (a.extractLsb' 0 32) (b.extractLsb' 0 32))

def psubd (a b : BitVec 128) : BitVec 128 := lanes32 (· - ·) a b
def pcmpeqd (a b : BitVec 128) : BitVec 128 := lanes32 (fun x y => if x = y then 0xFFFFFFFF#32 else 0#32) a b

end AsmjitVerif.X86Regs
