/-
  C06 – what a callee sees when it is called (written independently of the lowering model; only the instruction type is shared).

  A small x86 machine over the instructions a Compiler function contains between its prologue and a `call`:
    * GP registers hold a 64-bit number of which the low `bits` are defined, or a pointer `sp + off`;
    * vector / mm registers hold an opaque token (`tok k` = the vector loaded from the k-th magic address) ;
    * memory is addressed relative to the stack pointer at the call: dword cells and vector cells; a store removes whatever it
      overlaps, so a temporary written over a local, another temporary or a stack argument shows up as a missing value.
  `calleeSees` then compares, argument by argument, the locations the ABI rules / `FuncDetail` name with the values the caller meant
  to pass, and checks the frame numbers: the call area covers the stack arguments and the temporaries, locals lie above it.
-/
import AsmjitVerif.Model.InvokeLower
namespace AsmjitVerif.InvokeSpec
open AsmjitVerif.CallConv AsmjitVerif.Invoke

inductive GVal
  | num (v : BitVec 64) (bits : Nat)      -- low `bits` bits defined
  | ptr (off : Int)                       -- sp + off
  deriving DecidableEq, Repr

inductive Cell
  | dword (v : BitVec 32) (bits : Nat)    -- low `bits` bits defined
  | vec (tok : Nat) (bytes : Nat)         -- `bytes` bytes of vector token `tok`, starting at its byte 0
  | ptr (off : Int)                       -- a stored pointer (register-size cell)
  | small (v : BitVec 64) (bytes : Nat)   -- a 1- or 2-byte spill slot
  deriving DecidableEq, Repr

structure M where
  is64 : Bool
  gp : List (Nat × GVal) := []
  vr : List ((Nat × Nat) × Nat) := []     -- (group, id) -> token
  mem : List (Int × Cell) := []
  deriving Repr

def cellSize (is64 : Bool) : Cell → Nat
  | .dword _ _ => 4
  | .vec _ n => n
  | .ptr _ => if is64 then 8 else 4
  | .small _ n => n

def M.getGp (m : M) (id : Nat) : Option GVal := (m.gp.find? (·.1 == id)).map (·.2)
def M.setGp (m : M) (id : Nat) (v : GVal) : M := { m with gp := (id, v) :: m.gp.filter (·.1 != id) }
def M.getV (m : M) (g id : Nat) : Option Nat := (m.vr.find? (·.1 == (g, id))).map (·.2)
def M.setV (m : M) (g id tok : Nat) : M := { m with vr := ((g, id), tok) :: m.vr.filter (·.1 != (g, id)) }
def M.cell (m : M) (off : Int) : Option Cell := (m.mem.find? (·.1 == off)).map (·.2)
/-- write a cell, dropping every cell it overlaps -/
def M.store (m : M) (off : Int) (c : Cell) : M :=
  let n : Int := cellSize m.is64 c
  { m with mem := (off, c) :: m.mem.filter fun (o, c') => o + (cellSize m.is64 c' : Int) ≤ off || off + n ≤ o }

def magicBase (is64 : Bool) : Nat := if is64 then 0x7E0000000000 else 0x7E000000
def gpGroup (rt : Nat) : Bool := 2 ≤ rt && rt ≤ 6
def rtBits (rt : Nat) : Nat := if rt = 2 || rt = 3 then 8 else if rt = 4 then 16 else if rt = 5 then 32 else 64
def vecBytes (rt : Nat) : Nat := if rt = 11 then 16 else if rt = 12 then 32 else if rt = 13 then 64 else if rt = 28 then 8 else 0
def vGroup (rt : Nat) : Nat := if rt = 28 then 3 else 1

/-- write `bits` low bits of a GP register (32-bit writes clear the upper half, 8/16-bit writes keep it) -/
def writeGp (m : M) (id : Nat) (rt : Nat) (v : BitVec 64) : M :=
  let b := rtBits rt
  if b ≥ 32 then m.setGp id (.num (if b = 32 then zext32 v else v) 64)
  else
    let mask : BitVec 64 := BitVec.ofNat 64 (2 ^ b - 1)
    match m.getGp id with
    | some (.num old ob) => m.setGp id (.num ((old &&& ~~~mask) ||| (v &&& mask)) (if ob ≥ b then ob else b))
    | _ => m.setGp id (.num (v &&& mask) b)

/-- read the low bits of a GP register as seen through a register type -/
def readGp (m : M) (id rt : Nat) : Option (BitVec 64) :=
  match m.getGp id with
  | some (.num v bits) => if bits ≥ rtBits rt then some (v &&& BitVec.ofNat 64 (2 ^ rtBits rt - 1)) else none
  | _ => none

/-- address of a memory operand relative to sp -/
def addrOf (m : M) (base : Nat) (off : Int) : Option Int :=
  if base = 4 then some off
  else match m.getGp base with
    | some (.ptr p) => some (p + off)
    | _ => none

/-- the low bits of a GP register as seen through a register type, with the number of defined bits -/
def readGpPartial (m : M) (id rt : Nat) : Option (BitVec 64 × Nat) :=
  match m.getGp id with
  | some (.num v bits) => some (v &&& BitVec.ofNat 64 (2 ^ rtBits rt - 1), min bits (rtBits rt))
  | _ => none

def storeNum (m : M) (a : Int) (size : Nat) (v : BitVec 64) (bits : Nat := 64) : Option M :=
  if size = 1 || size = 2 then (if bits ≥ 8 * size then some (m.store a (.small (v &&& BitVec.ofNat 64 (2 ^ (8 * size) - 1)) size)) else none)
  else if size = 4 then some (m.store a (.dword (v.truncate 32) (min bits 32)))
  else if size = 8 then
    some ((m.store a (.dword (v.truncate 32) (min bits 32))).store (a + 4) (.dword ((v >>> 32).truncate 32) (min (bits - 32) 32)))
  else none

/-- value and number of defined low bits -/
def loadNum (m : M) (a : Int) (size : Nat) : Option (BitVec 64 × Nat) :=
  match m.cell a with
  | some (.dword lo lb) =>
    if size = 4 then some (lo.zeroExtend 64, lb)
    else if size = 8 then
      match m.cell (a + 4) with
      | some (.dword hi hb) => some ((hi.zeroExtend 64 <<< 32) ||| lo.zeroExtend 64, if lb = 32 then 32 + hb else lb)
      | _ => none
    else none
  | some (.small v n) => if size = n && n ≤ 2 then some (v, 8 * n) else none      -- small cells are 1- or 2-byte spill slots
  | _ => none

/-- one instruction; `none` = something this machine does not know -/
def step (m : M) (i : XI) : Option M :=
  match i.name, i.ops with
  | .mov, [.reg rt id, .imm v] => if gpGroup rt then some (writeGp m id rt v) else none
  | .mov, [.reg rt id, .reg rs s] =>
    if gpGroup rt && gpGroup rs then
      match m.getGp s with
      | some (.ptr p) => if rtBits rt = (if m.is64 then 64 else 32) then some (m.setGp id (.ptr p)) else none
      | some (.num _ _) =>
        (readGpPartial m s rs).map fun (v, b) =>
          if b ≥ rtBits rs then writeGp m id rt v
          else
            -- a copy of a partly defined register: the defined low bits travel, the rest stays undefined
            (match (writeGp m id rt v).getGp id with
             | some (.num w _) => m.setGp id (.num w b)
             | _ => m)
      | none => none
    else none
  | .mov, [.mem b o sz, .imm v] =>
    -- `mov qword [m], imm32` sign-extends its 32-bit immediate
    (addrOf m b o).bind fun a => storeNum m a sz (if sz = 8 then sext32 v else v)
  | .mov, [.mem b o sz, .reg rs s] =>
    (addrOf m b o).bind fun a =>
      match m.getGp s with
      | some (.ptr p) => if rtBits rs = (if m.is64 then 64 else 32) then some (m.store a (.ptr p)) else none
      | _ => (readGpPartial m s rs).bind fun (v, b) => storeNum m a (if sz = 0 then rtBits rs / 8 else sz) v b
  | .mov, [.reg rt id, .mem b o sz] =>
    (addrOf m b o).bind fun a =>
      match m.cell a with
      | some (.ptr p) => some (m.setGp id (.ptr p))
      | _ => (loadNum m a (if sz = 0 then rtBits rt / 8 else sz)).bind fun (v, b) =>
          if b ≥ rtBits rt then some (writeGp m id rt v) else none
  | .movsx, [.reg rt id, .reg rs s] | .movsxd, [.reg rt id, .reg rs s] =>
    (readGp m s rs).map fun v =>
      let b := rtBits rs
      let sv : BitVec 64 := if b = 8 then sext8 v else if b = 16 then sext16 v else sext32 v
      writeGp m id rt sv
  | .movzx, [.reg rt id, .reg rs s] => (readGp m s rs).map fun v => writeGp m id rt v
  | .movzx, [.reg rt id, .mem b o sz] =>
    (addrOf m b o).bind fun a => (loadNum m a sz).bind fun (v, bits) => if bits ≥ 8 * sz then some (writeGp m id rt v) else none
  | .movsx, [.reg rt id, .mem b o sz] | .movsxd, [.reg rt id, .mem b o sz] =>
    (addrOf m b o).bind fun a => (loadNum m a sz).bind fun (v, bits) =>
      if bits ≥ 8 * sz then some (writeGp m id rt (if sz = 1 then sext8 v else if sz = 2 then sext16 v else sext32 v)) else none
  | .lea, [.reg _ id, .mem b o _] => (addrOf m b o).map fun a => m.setGp id (.ptr a)
  | .and_, [.mem b o 4, .imm v] =>
    (addrOf m b o).bind fun a => if v = 0 then some (m.store a (.dword 0 32)) else none
  | .movups, [.reg rt id, .mem b o _] | .movaps, [.reg rt id, .mem b o _] =>
    -- a load from a magic address creates the token; a load from the stack reads a vector cell
    match m.getGp b with
    | some (.num a 64) =>
      let n := a.toNat + o.toNat
      if n ≥ magicBase m.is64 && (n - magicBase m.is64) % 64 = 0 && n < magicBase m.is64 + 64 * 64 then
        some (m.setV (vGroup rt) id ((n - magicBase m.is64) / 64)) else none
    | _ => (addrOf m b o).bind fun a =>
        match m.cell a with
        | some (.vec t n) => if n ≥ vecBytes rt then some (m.setV (vGroup rt) id t) else none
        | _ => none
  | .movups, [.mem b o _, .reg rt id] | .movaps, [.mem b o _, .reg rt id] =>
    (addrOf m b o).bind fun a => (m.getV (vGroup rt) id).map fun t => m.store a (.vec t (vecBytes rt))
  | .movaps, [.reg rt id, .reg rs s] | .movups, [.reg rt id, .reg rs s] =>
    (m.getV (vGroup rs) s).map fun t => m.setV (vGroup rt) id t
  | .movss, [.mem b o _, .reg rt id] | .movd, [.mem b o _, .reg rt id] =>
    (addrOf m b o).bind fun a => (m.getV (vGroup rt) id).map fun t => m.store a (.vec t 4)
  | .movlps, [.mem b o _, .reg rt id] | .movq, [.mem b o _, .reg rt id] =>
    (addrOf m b o).bind fun a => (m.getV (vGroup rt) id).map fun t => m.store a (.vec t 8)
  | _, _ => none

def run (m : M) : List XI → Option M
  | [] => some m
  | i :: is => (step m i).bind fun m' => run m' is

/-! ### what the caller meant to pass -/
inductive Want
  | none
  | int (v : BitVec 64)            -- an integer value; the callee reads the low `size_of(type)` bytes
  | vtok (k : Nat)                 -- vector / float token `k`
  deriving DecidableEq, Repr

/-- the value the callee is entitled to for an integer parameter of type `dt` fed from a register of type `st` holding `v`:
    sign-extended when both are signed integers and the parameter is wider, zero-extended when it is wider otherwise -/
def widen (dt st : Nat) (v : BitVec 64) : BitVec 64 :=
  let sb := tySize st
  let low : BitVec 64 := if sb = 1 then zext8 v else if sb = 2 then zext16 v else if sb = 4 then zext32 v else v
  if tySize dt > sb && isInt dt && isInt st && dt % 2 = 0 && st % 2 = 0 then
    (if sb = 1 then sext8 v else if sb = 2 then sext16 v else if sb = 4 then sext32 v else v)
  else low

def lowBytes (n : Nat) (v : BitVec 64) : BitVec 64 := if n ≥ 8 then v else v &&& BitVec.ofNat 64 (2 ^ (8 * n) - 1)

/-- one value of an argument pack against the machine at the call -/
def valueOk (m : M) (fdArgStack css : Nat) (arg : FuncValue) (w : Want) : Bool :=
  let n := tySize arg.typeId
  match w with
  | .none => true
  | .int v =>
    if arg.isIndirect then
      -- the caller passed the pointer itself in a GP register: the location holds that register-size value
      let nb := if m.is64 then 8 else 4
      if arg.isReg then
        (match readGp m arg.regId (if m.is64 then 6 else 5) with
         | some r => r == lowBytes nb v
         | none => false)
      else
        (match loadNum m arg.stackOffset nb with
         | some (r, b) => b ≥ 8 * nb && lowBytes nb r == lowBytes nb v
         | none => false)
    else if arg.isReg then
      (match readGp m arg.regId (if n ≤ 1 then 2 else if n = 2 then 4 else if n ≤ 4 then 5 else 6) with
       | some r => r == lowBytes n v
       | none => false)
    else
      (match loadNum m arg.stackOffset (if n ≤ 4 then 4 else 8) with
       | some (r, b) => b ≥ 8 * n && lowBytes n r == lowBytes n v
       | none => false)
  | .vtok k =>
    if arg.isIndirect then
      -- the pointer (register or stack slot) addresses a temporary inside the call area, above the stack arguments, aligned, holding the vector
      let p : Option Int :=
        if arg.isReg then (match m.getGp arg.regId with | some (.ptr p) => some p | _ => none)
        else (match m.cell arg.stackOffset with | some (.ptr p) => some p | _ => none)
      match p with
      | some p =>
        (match m.cell p with
         | some (.vec t b) => t == k && b ≥ n && p ≥ fdArgStack && p + b ≤ css && p % (b : Int) == 0
         | _ => false)
      | none => false
    else if arg.isReg then m.getV (vGroup arg.regType) arg.regId == some k
    else
      (match m.cell arg.stackOffset with
       | some (.vec t b) => t == k && b ≥ n
       | _ => false)

def packOk (m : M) (fdArgStack css : Nat) : List FuncValue → List Want → Bool
  | a :: as, w :: ws => valueOk m fdArgStack css a w && packOk m fdArgStack css as ws
  | _, _ => true

def argsOk (m : M) (fdArgStack css : Nat) : List (List FuncValue) → List (List Want) → Bool
  | p :: ps, w :: ws => packOk m fdArgStack css p w && argsOk m fdArgStack css ps ws
  | _, _ => true

/-- the local of the harness (4 marker dwords at `lso ..`) is intact -/
def localOk (m : M) (lso : Nat) : Bool :=
  (List.range 4).all fun k => m.cell (lso + 4 * k : Nat) == some (.dword (BitVec.ofNat 32 (0x5A5A5A50 + k)) 32)

/-- the frame numbers: the call area covers the invoke's stack arguments and temporaries, its alignment covers the temporaries,
    the locals start above it -/
def frameOk (ass css csa lso : Nat) (maxTemp : Nat) : Bool := css ≥ ass && lso ≥ css && csa ≥ maxTemp

end AsmjitVerif.InvokeSpec
