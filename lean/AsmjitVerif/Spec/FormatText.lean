/-
  C20 — what the text of a logged / formatted instruction *means* (independent of the formatter's code).

  * architectural register names written from the manuals (Intel SDM vol.1 ch.3 + APX r16..r31, AVX-512, AMX;
    Arm ARM C1.2 / C6.1: Wn/Xn/WSP/SP/WZR/XZR, Bn/Hn/Sn/Dn/Qn/Vn.T[i]);
  * a reader (parser) of the Intel-syntax operand / instruction grammar AsmJit's logger uses and of its AArch64
    counterpart, producing a *denotation* (`POp`, `PInst`);
  * the denotation of the operands that were *given* (`denoteOp`, `denoteInst`);
  * the decidable monitors of the property: `monOperand`, `monInstruction`, `monLogLine` — "the text reads back to
    exactly what was given, and the machine-code column reads back to exactly the bytes appended".

  Nothing here looks at Model/Format.lean's formatting functions or at the generated `reg_format_info`; the only
  shared things are the operand/environment *data types* (what an operand is) and the numeric helpers `toU64/effOff`
  (what `Mem::offset()` means).  Core-only imports (the driver links this file).
-/
import AsmjitVerif.Model.Format

namespace AsmjitVerif.FormatText
open AsmjitVerif.Format

/-! ## numbers -/

def decVal? (c : Char) : Option Nat := if '0' ≤ c ∧ c ≤ '9' then some (c.toNat - 48) else none
def hexVal? (c : Char) : Option Nat :=
  if '0' ≤ c ∧ c ≤ '9' then some (c.toNat - 48)
  else if 'A' ≤ c ∧ c ≤ 'F' then some (c.toNat - 55)
  else if 'a' ≤ c ∧ c ≤ 'f' then some (c.toNat - 87)
  else none

/-- positional value of a non-empty digit string -/
def parseBase (base : Nat) (dig : Char → Option Nat) : Str → Option Nat
  | [] => none
  | cs => cs.foldl (fun acc c => match acc, dig c with
      | some a, some d => if d < base then some (a * base + d) else none
      | _, _ => none) (some 0)

def parseDec (s : Str) : Option Nat := parseBase 10 decVal? s
def parseHex (s : Str) : Option Nat := parseBase 16 hexVal? s

/-- `123` | `0x7B`: an unsigned magnitude -/
def parseMagnitude : Str → Option Nat
  | '0' :: 'x' :: rest => parseHex rest
  | s => parseDec s

/-- a signed number as a 64-bit two's complement pattern: `-5`, `5`, `0xFFFFFFFFFFFFFFFB` all have a meaning -/
def parseNumber64 : Str → Option Nat
  | '-' :: rest => (parseMagnitude rest).bind fun m => if m ≤ two63 ∧ m ≠ 0 then some (two64 - m) else none
  | s => (parseMagnitude s).bind fun m => if m < two64 then some m else none

/-! ## architectural register names -/

def nm (p : String) (n : Nat) (suffix : String := "") : Str := p.toList ++ uintStr n ++ suffix.toList

/-- x86 / x86-64 register names by (RegType, id) -/
def x86ArchRegName (type id : Nat) : Option Str :=
  let legacy (tbl : List String) : Option Str := (tbl[id]?).map String.toList
  match type with
  | 2 => if id < 8 then legacy ["al", "cl", "dl", "bl", "spl", "bpl", "sil", "dil"] else if id < 32 then some (nm "r" id "b") else none
  | 3 => if id < 4 then legacy ["ah", "ch", "dh", "bh"] else none
  | 4 => if id < 8 then legacy ["ax", "cx", "dx", "bx", "sp", "bp", "si", "di"] else if id < 32 then some (nm "r" id "w") else none
  | 5 => if id < 8 then legacy ["eax", "ecx", "edx", "ebx", "esp", "ebp", "esi", "edi"] else if id < 32 then some (nm "r" id "d") else none
  | 6 => if id < 8 then legacy ["rax", "rcx", "rdx", "rbx", "rsp", "rbp", "rsi", "rdi"] else if id < 32 then some (nm "r" id) else none
  | 11 => if id < 32 then some (nm "xmm" id) else none
  | 12 => if id < 32 then some (nm "ymm" id) else none
  | 13 => if id < 32 then some (nm "zmm" id) else none
  | 16 => if id < 8 then some (nm "k" id) else none
  | 17 => if id < 8 then some (nm "tmm" id) else none
  | 25 => if 1 ≤ id ∧ id < 7 then legacy ["", "es", "cs", "ss", "ds", "fs", "gs"] else none
  | 26 => if id < 16 then some (nm "cr" id) else none
  | 27 => if id < 16 then some (nm "dr" id) else none
  | 28 => if id < 8 then some (nm "mm" id) else none
  | 29 => if id < 8 then some (nm "st" id) else none
  | 30 => if id < 4 then some (nm "bnd" id) else none
  | 31 => if id = 0 then some "rip".toList else none
  | _ => none

/-- AArch64 scalar register names by (RegType, id); id 31 = SP, id 63 = ZR in AsmJit's numbering -/
def a64ArchRegName (type id : Nat) : Option Str :=
  match type with
  | 5 => if id < 31 then some (nm "w" id) else if id = 31 then some "wsp".toList else if id = 63 then some "wzr".toList else none
  | 6 => if id < 31 then some (nm "x" id) else if id = 31 then some "sp".toList else if id = 63 then some "xzr".toList else none
  | 7 => if id < 32 then some (nm "b" id) else none
  | 8 => if id < 32 then some (nm "h" id) else none
  | 9 => if id < 32 then some (nm "s" id) else none
  | 10 => if id < 32 then some (nm "d" id) else none
  | 11 => if id < 32 then some (nm "q" id) else none
  | _ => none

/-- every (type, id) that has an architectural name -/
def regDomain : List (Nat × Nat) := (List.range 32).flatMap fun t => (List.range 64).map fun i => (t, i)
def x86Regs : List (Nat × Nat × Str) := regDomain.filterMap fun (t, i) => (x86ArchRegName t i).map fun n => (t, i, n)
def a64Regs : List (Nat × Nat × Str) := regDomain.filterMap fun (t, i) => (a64ArchRegName t i).map fun n => (t, i, n)

def lookupName (tbl : List (Nat × Nat × Str)) (s : Str) : Option (Nat × Nat) :=
  (tbl.find? fun (_, _, n) => n == s).map fun (t, i, _) => (t, i)

/-- AsmJit's names of register *types* (used as `@type` suffix of virtual registers) -/
def x86TypeName (type : Nat) : Option Str :=
  (match type with
   | 2 => some "gpb" | 3 => some "gpb.hi" | 4 => some "gpw" | 5 => some "gpd" | 6 => some "gpq" | 11 => some "xmm" | 12 => some "ymm"
   | 13 => some "zmm" | 16 => some "k" | 17 => some "tmm" | 25 => some "seg" | 26 => some "cr" | 27 => some "dr" | 28 => some "mm"
   | 29 => some "st" | 30 => some "bnd" | 31 => some "rip" | _ => none).map String.toList

/-! ## denotations -/

/-- a register as the reader sees it -/
inductive PReg
  | phys (type id : Nat)
  | virt (index : Nat) (shownType : Option Nat)     -- `name`, `%7`, `name@gpd`
  deriving DecidableEq, Repr

structure PMem where
  size : Nat := 0
  seg : Nat := 0
  addrType : Nat := 0
  label : Option Nat := none
  home : Bool := false
  terms : List (PReg × Nat) := []       -- register · scale, in the order written
  disp : Nat := 0                       -- 64-bit two's complement
  -- AArch64 only
  shiftOp : Nat := 0
  shift : Nat := 0
  mode : Nat := 0
  -- reader state only (not part of the meaning): the displacement has been read, nothing may follow
  done : Bool := false
  deriving DecidableEq, Repr

inductive POp
  | reg (r : PReg) (elem : Option (Nat × Char)) (eidx : Option Nat)    -- `.4s` = (4, 's'); `.b` = (0,'b')
  | mem (m : PMem)
  | imm (v : Nat) (shiftOp : Nat)
  | label (id : Nat)
  | regList (rs : List PReg)
  deriving DecidableEq, Repr

structure POperand where
  op : POp
  kmask : Option PReg := none
  zeroing : Bool := false
  bcast : Nat := 0          -- N of {1toN}, 0 = none
  deriving DecidableEq, Repr

structure PInst where
  prefixes : List String := []          -- in printing order
  repReg : Option PReg := none
  mnemonic : Str := []
  aliases : List Str := []
  cond : Option Str := none
  ops : List POperand := []
  rounding : Option String := none      -- "sae", "rn-sae", ...
  deriving DecidableEq, Repr

/-! ## small text helpers -/

def splitAt? (c : Char) : Str → Option (Str × Str)
  | [] => none
  | x :: xs => if x = c then some ([], xs) else (splitAt? c xs).map fun (a, b) => (x :: a, b)

def stripPrefix? (p : Str) (s : Str) : Option Str := if p.isPrefixOf s then some (s.drop p.length) else none
def stripSuffix? (p : Str) (s : Str) : Option Str := if p.isSuffixOf s then some (s.take (s.length - p.length)) else none

/-- split on `sep` where bracket/brace depth is zero -/
def splitTop (sep : Char) (s : Str) : List Str :=
  let rec go : Str → Nat → Str → List Str → List Str
    | [], _, cur, acc => (cur.reverse :: acc).reverse
    | c :: rest, depth, cur, acc =>
      if c = sep ∧ depth = 0 then go rest depth [] (cur.reverse :: acc)
      else
        let depth := if c = '[' ∨ c = '{' then depth + 1 else if (c = ']' ∨ c = '}') then depth - 1 else depth
        go rest depth (c :: cur) acc
  go s 0 [] []

def trimL : Str → Str
  | ' ' :: s => trimL s
  | s => s

/-! ## labels: `L7`, `name`, `parent.name`, `L3.name`, `L7@name` -/

def labelIdByName (ls : List LabelEntry) (parent : Option Nat) (name : Str) : Option Nat :=
  (List.range ls.length).find? fun i =>
    match ls[i]? with
    | some le => le.name == name && le.parent == parent && le.type ≠ 0 && !name.isEmpty
    | none => false

def parseAnonLabel : Str → Option Nat
  | 'L' :: ds => if ds.all Char.isDigit then parseDec ds else none
  | _ => none

/-- `parent.own` → (some parent text, own); no dot → (none, text) -/
def splitParent (s : Str) : Option Str × Str :=
  match splitAt? '.' s with
  | some (p, rest) => (some p, rest)
  | none => (none, s)

/-- the parent a `parent.` prefix names: an anonymous label `L7` or a named global label -/
def resolveParent (ls : List LabelEntry) : Option Str → Option (Option Nat)
  | none => some none
  | some p =>
    match parseAnonLabel p with
    | some pid => if (ls[pid]?).any (fun pe => pe.name.isEmpty) then some (some pid) else none
    | none => (labelIdByName ls none p).map some

/-- the label's own part: `L7@name` (anonymous label that carries a name), `L7` (only without parent), or a name -/
def resolveOwn (ls : List LabelEntry) (hasParentTxt : Bool) (parent : Option Nat) (own : Str) : Option Nat :=
  match splitAt? '@' own with
  | some (lid, name) =>
    (parseAnonLabel lid).bind fun id =>
      if (ls[id]?).any (fun le => le.type = 0 ∧ le.name == name ∧ le.parent == parent ∧ !name.isEmpty) then some id else none
  | none =>
    match parseAnonLabel own with
    | some id => if !hasParentTxt ∧ (ls[id]?).any (fun le => le.name.isEmpty) then some id else none
    | none => labelIdByName ls parent own

def parseLabel (env : Env) (s : Str) : Option Nat :=
  match env.labels with
  | none => parseAnonLabel s
  | some ls =>
    (resolveParent ls (splitParent s).1).bind fun parent => resolveOwn ls (splitParent s).1.isSome parent (splitParent s).2

/-! ## registers -/

def archRegs (env : Env) : List (Nat × Nat × Str) := match env.arch with | .a64 => a64Regs | _ => x86Regs

def x86TypeOfName (s : Str) : Option Nat := (List.range 32).find? fun t => x86TypeName t == some s

def virtIndexByName (env : Env) (s : Str) : Option Nat :=
  match s with
  | '%' :: ds => if ds.all Char.isDigit ∧ !ds.isEmpty then (parseDec ds).bind fun i => if (env.vregs.getD []).length > i ∧ ((env.vregs.getD [])[i]?).any (·.name.isEmpty) then some i else none else none
  | _ => (List.range (env.vregs.getD []).length).find? fun i => ((env.vregs.getD [])[i]?).any fun v => v.name == s ∧ !s.isEmpty

/-- a register name: architectural, or a virtual register of the attached Compiler (optionally `@type`) -/
def parseReg (env : Env) (s : Str) : Option PReg :=
  match lookupName (archRegs env) s with
  | some (t, i) => some (.phys t i)
  | none =>
    match splitAt? '@' s with
    | some (n, ty) => (virtIndexByName env n).bind fun i => (x86TypeOfName ty).map fun t => .virt i (some t)
    | none => (virtIndexByName env s).map fun i => .virt i none

/-! ## x86 operands -/

def x86SizeWords : List (String × Nat) :=
  [("byte", 1), ("word", 2), ("dword", 4), ("fword", 6), ("qword", 8), ("tbyte", 10), ("xmmword", 16), ("ymmword", 32), ("zmmword", 64)]

def sizeOfWord (w : Str) : Option Nat := (x86SizeWords.find? fun (n, _) => n.toList == w).map (·.2)

def startsWithDigit : Str → Bool
  | c :: _ => c.isDigit
  | [] => false

def isLowerAlpha (c : Char) : Bool := 'a' ≤ c && c ≤ 'z'

def notSpace (c : Char) : Bool := c != ' '

/-- a text is cut into *pieces*: an optional leading delimiter character and the delimiter-free token after it -/
abbrev Piece := Option Char × Str

def lexPieces (isD : Char → Bool) : Nat → Str → List Piece
  | 0, _ => []
  | _, [] => []
  | fuel + 1, c :: r =>
    if isD c then (some c, r.takeWhile (fun x => !isD x)) :: lexPieces isD fuel (r.dropWhile (fun x => !isD x))
    else (none, (c :: r).takeWhile (fun x => !isD x)) :: lexPieces isD fuel ((c :: r).dropWhile (fun x => !isD x))

/-- `x` with its last character removed if that character is `c` -/
def dropLast? (c : Char) (s : Str) : Option Str := if s.getLast? = some c then some s.dropLast else none

/-- delimiters inside an x86 address expression -/
def isX86MemDelim (c : Char) : Bool := c == '+' || c == '-' || c == '*'

def parseScale (k : Str) : Option Nat := (parseDec k).bind fun n => if n = 2 ∨ n = 4 ∨ n = 8 then some n else none

/-- signed magnitude → 64-bit two's complement -/
def signedDisp (sg : Option Char) (mag : Nat) : Option Nat :=
  if sg = some '-' then (if mag ≤ two63 ∧ mag ≠ 0 then some (two64 - mag) else none) else (if mag < two64 then some mag else none)

/-- `&name`: the home slot of a (virtual) register -/
def splitAmp : Str → Bool × Str
  | '&' :: n => (true, n)
  | n => (false, n)

/-- one register or label term added to the address read so far -/
def addX86Term (env : Env) (m : PMem) (tok : Str) : Option PMem :=
  let home := (splitAmp tok).1
  let name := (splitAmp tok).2
  match parseReg env name with
  | some r =>
    if m.terms.length ≥ 2 ∨ (home ∧ (m.terms ≠ [] ∨ m.label.isSome)) then none
    else some { m with terms := m.terms ++ [(r, 1)], home := m.home || home }
  | none =>
    match parseLabel env name with
    | some id => if m.terms ≠ [] ∨ m.label.isSome ∨ home then none else some { m with label := some id }
    | none => none

/-- reading one piece of an address expression: `*scale` applies to the register just read, a number is the
    displacement and ends the expression, anything else is a register or label term joined by `+` -/
def x86MemStep (env : Env) (m : PMem) (p : Piece) : Option PMem :=
  if m.done then none
  else if p.1 = some '*' then
    match m.terms.getLast?, parseScale p.2 with
    | some (r, 1), some k => some { m with terms := m.terms.dropLast ++ [(r, k)] }
    | _, _ => none
  else if startsWithDigit p.2 then
    (parseMagnitude p.2).bind fun mag => (signedDisp p.1 mag).map fun v => { m with disp := v, done := true }
  else if p.1 = some '-' then none
  else addX86Term env m p.2

def interpX86Mem (env : Env) (ps : List Piece) (m : PMem) : Option PMem := ps.foldlM (x86MemStep env) m

/-- `dword ptr ` -/
def readX86Size (s : Str) : Option Nat × Str :=
  match stripPrefix? " ptr ".toList (s.dropWhile isLowerAlpha) with
  | some r => (sizeOfWord (s.takeWhile isLowerAlpha), r)
  | none => (some 0, s)

/-- `fs:` -/
def readX86Seg (s : Str) : Option Nat × Str :=
  match s.dropWhile isLowerAlpha with
  | ':' :: r => ((match lookupName x86Regs (s.takeWhile isLowerAlpha) with | some (25, i) => some i | _ => none), r)
  | _ => (some 0, s)

/-- `abs ` / `rel ` -/
def readX86AddrType (s : Str) : Nat × Str :=
  match stripPrefix? "abs ".toList s, stripPrefix? "rel ".toList s with
  | some r, _ => (1, r)
  | _, some r => (2, r)
  | _, _ => (0, s)

/-- `[size ptr ][seg:]'[' [abs |rel ] terms ']'` -/
def parseX86Mem (env : Env) (s : Str) : Option PMem :=
  (readX86Size s).1.bind fun size =>
  (readX86Seg (readX86Size s).2).1.bind fun seg =>
  match (readX86Seg (readX86Size s).2).2 with
  | '[' :: s3 =>
    (dropLast? ']' s3).bind fun inner =>
    let at_ := readX86AddrType inner
    interpX86Mem env (lexPieces isX86MemDelim at_.2.length at_.2) { size := size, seg := seg, addrType := at_.1 }
  | _ => none

def parseX86Op (env : Env) (s : Str) : Option POp :=
  if s.contains '[' then (parseX86Mem env s).map .mem
  else if startsWithDigit s ∨ (s.head? = some '-' ∧ startsWithDigit s.tail) then (parseNumber64 s).map fun v => .imm v 0
  else match parseReg env s with
    | some r => some (.reg r none none)
    | none => (parseLabel env s).map .label

/-! ## AArch64 operands -/

def shiftOpNames : List String := ["lsl", "lsr", "asr", "ror", "rrx", "msl", "uxtb", "uxth", "uxtw", "uxtx", "sxtb", "sxth", "sxtw", "sxtx"]
def shiftOpOfName (s : Str) : Option Nat := (List.range shiftOpNames.length).find? fun i => (shiftOpNames[i]?).any (·.toList == s)

def splitSpace (s : Str) : List Str := (splitTop ' ' s).filter (!·.isEmpty)

/-- `v3.4s`, `v3.16b[5]`, `q1`, `w2`, `x7`, `%3.4s` -/
def notOpenBracket (c : Char) : Bool := c != '['
def notDot (c : Char) : Bool := c != '.'

/-- `[3]` after a vector register -/
def readElemIndex : Str → Option (Option Nat)
  | [] => some none
  | '[' :: r => (dropLast? ']' r).bind fun ds => (parseDec ds).map some
  | _ => none

/-- the register number of `v<digits>` (< 32) -/
def vRegId : Str → Option Nat
  | 'v' :: ds => if ds.all Char.isDigit ∧ !ds.isEmpty then (parseDec ds).bind fun id => if id < 32 then some id else none else none
  | _ => none

/-- `.4s` / `.b`: (lane count or 0, element letter) -/
def readArrangement (el : Str) : Option (Nat × Char) :=
  match el.getLast? with
  | none => none
  | some letter =>
    if !(letter = 'b' ∨ letter = 'h' ∨ letter = 's' ∨ letter = 'd') then none
    else (if el.length = 1 then some 0 else parseDec el.dropLast).map fun cnt => (cnt, letter)

/-- `v3.4s`, `v3.16b[5]`, `q1`, `w2`, `x7`, `%3.4s`: name, optional `.arrangement`, optional `[index]` -/
def parseA64Reg (env : Env) (s : Str) : Option POp :=
  (readElemIndex (s.dropWhile notOpenBracket)).bind fun eidx =>
  let main := s.takeWhile notOpenBracket
  match main.dropWhile notDot with
  | [] => (parseReg env main).map fun r => .reg r none eidx
  | '.' :: el =>
    (readArrangement el).bind fun arr =>
    match vRegId (main.takeWhile notDot) with
    | some id => some (.reg (.phys 0 id) (some arr) eidx)
    | none => (virtIndexByName env (main.takeWhile notDot)).map fun i => .reg (.virt i none) (some arr) eidx
  | _ => none

def isA64MemDelim (c : Char) : Bool := c == '[' || c == ']' || c == ',' || c == ' ' || c == '!'

def isNumberTok (t : Str) : Bool := startsWithDigit t || (t.head? == some '-' && startsWithDigit t.tail)

/-- closing of an AArch64 address: `]` (offset form), `]!` (pre-index) or nothing more after an already closed `[base]` (post-index) -/
def interpA64Close (m : PMem) (closed : Bool) : List Piece → Option PMem
  | [] => if closed then some m else none
  | [(some ']', [])] => if closed then none else some { m with mode := 0 }
  | [(some ']', []), (some '!', [])] => if closed then none else some { m with mode := 1 }
  | _ => none

/-- optional ` uxtw[ 2]` after a register index -/
def interpA64Shift (m : PMem) (closed : Bool) : List Piece → Option PMem
  | (some ' ', sop) :: (some ' ', n) :: rest =>
    (shiftOpOfName sop).bind fun k => (parseDec n).bind fun n => interpA64Close { m with shiftOp := k, shift := n } closed rest
  | (some ' ', sop) :: rest => (shiftOpOfName sop).bind fun k => interpA64Close { m with shiftOp := k } closed rest
  | rest => interpA64Close m closed rest

/-- after the base: `, index[ ext[ n]]` or `, offset` -/
def interpA64Tail (env : Env) (m : PMem) (closed : Bool) : List Piece → Option PMem
  | (some ',', []) :: (some ' ', t) :: rest =>
    if isNumberTok t then (parseNumber64 t).bind fun v => interpA64Close { m with disp := v } closed rest
    else (parseReg env t).bind fun r => interpA64Shift { m with terms := m.terms ++ [(r, 1)] } closed rest
  | rest => interpA64Close m closed rest

def interpA64Base (env : Env) (tok : Str) : Option PMem :=
  let home := (splitAmp tok).1
  let name := (splitAmp tok).2
  match parseReg env name with
  | some r => some { terms := [(r, 1)], home := home }
  | none => if home then none else (parseLabel env name).map fun id => { label := some id }

/-- the pieces of `[base]`, `[base, off]`, `[base, off]!`, `[base], off`, `[base, index ext n]`, `[base], index` -/
def interpA64Pieces (env : Env) : List Piece → Option PMem
  | (some '[', b) :: rest =>
    (interpA64Base env b).bind fun m =>
    match rest with
    | (some ']', []) :: (some ',', []) :: r2 => interpA64Tail env { m with mode := 2 } true ((some ',', []) :: r2)
    | _ => interpA64Tail env m false rest
  | _ => none

def parseA64Mem (env : Env) (s : Str) : Option PMem := interpA64Pieces env (lexPieces isA64MemDelim s.length s)

def parseA64RegList (env : Env) (s : Str) : Option (List PReg) := do
  let s ← stripPrefix? ['{'] s
  let s ← stripSuffix? ['}'] s
  if s.isEmpty then return []
  let mut out : List PReg := []
  for part in (splitTop ',' s).map trimL do
    match splitAt? '-' part with
    | some (a, b) =>
      match parseReg env a, parseReg env b with
      | some (.phys t i), some (.phys t' j) =>
        if t ≠ t' ∨ j ≤ i then none
        out := out ++ (List.range (j - i + 1)).map fun k => PReg.phys t (i + k)
      | _, _ => none
    | none => let r ← parseReg env part; out := out ++ [r]
  return out

/-- a single word: number, register (with arrangement / index) or label -/
def parseA64Word (env : Env) (w : Str) : Option POp :=
  if isNumberTok w then (parseNumber64 w).map fun v => .imm v 0
  else match parseA64Reg env w with
    | some r => some r
    | none => (parseLabel env w).map .label

def parseA64Op (env : Env) (s : Str) : Option POp :=
  if s.head? = some '[' then (parseA64Mem env s).map .mem
  else if s.head? = some '{' then (parseA64RegList env s).map .regList
  else
    match s.dropWhile notSpace with
    | [] => parseA64Word env s
    | ' ' :: w =>
      -- `lsr 3`: shift operation and amount
      if isNumberTok w then
        (shiftOpOfName (s.takeWhile notSpace)).bind fun k => if k = 0 then none else (parseNumber64 w).map fun v => .imm v k
      else none
    | _ => none

/-! ## instruction lines -/

def x86PrefixWords : List String :=
  ["{vex}", "{vex3}", "{evex}", "{modrm}", "{modmr}", "short", "long", "xacquire", "xrelease", "lock", "rep", "repnz", "rex"]

/-- `cmov.b|nae|c` → (cmovb, [cmovnae, cmovc]); `jz|je` → (jz, [je]); `add` → (add, []) -/
def parseMnemonic (s : Str) : Str × List Str :=
  match splitTop '|' s with
  | [] => ([], [])
  | first :: alts =>
    if alts.isEmpty then (first, []) else
    match splitAt? '.' first with
    | some (stem, suf) => (stem ++ suf, alts.map (stem ++ ·))
    | none => (first, alts)

def x86PrefixWordsL : List Str := x86PrefixWords.map String.toList

/-- a word that may stand before the mnemonic: an option word, or a braced group (`{vex}`, `{rcx}` after rep) -/
def isHeadWord (w : Str) : Bool := x86PrefixWordsL.contains w || w.head? == some '{'

/-- the blank-terminated head words at the front of a line, and the rest (which starts at the mnemonic) -/
def readHeadWords : Nat → Str → List Str × Str
  | 0, s => ([], s)
  | f + 1, s =>
    match s.dropWhile notSpace with
    | ' ' :: r =>
      if isHeadWord (s.takeWhile notSpace) then (s.takeWhile notSpace :: (readHeadWords f r).1, (readHeadWords f r).2)
      else ([], s)
    | _ => ([], s)

def notCloseBrace (c : Char) : Bool := c != '}'
def notOpenBrace (c : Char) : Bool := c != '{'

def isSuffixDelim (c : Char) : Bool := c == '{' || c == ' '

/-- one `{…}` group after an operand: `{z}`, `{1toN}`, or the mask register `{k1}`; a single blank may separate groups -/
def suffixStep (env : Env) (o : POperand) (p : Piece) : Option POperand :=
  if p = (some ' ', []) then some o
  else if p.1 ≠ some '{' then none
  else if p.2.dropWhile notCloseBrace != ['}'] then none
  else
    let body := p.2.takeWhile notCloseBrace
    if body == ['z'] then (if o.zeroing ∨ o.bcast ≠ 0 then none else some { o with zeroing := true })
    else match stripPrefix? "1to".toList body with
      | some n => (parseDec n).bind fun k =>
          if o.bcast ≠ 0 ∨ !(k = 2 ∨ k = 4 ∨ k = 8 ∨ k = 16 ∨ k = 32 ∨ k = 64) then none else some { o with bcast := k }
      | none => (parseReg env body).bind fun r =>
          if o.kmask.isSome ∨ o.zeroing ∨ o.bcast ≠ 0 then none else some { o with kmask := some r }

/-- one operand chunk: the operand text, then ` {k}`[`{z}`] / ` {z}` and ` {1toN}` groups -/
def readChunk (env : Env) (chunk : Str) : Option POperand :=
  match chunk.dropWhile notOpenBrace with
  | [] => (parseX86Op env chunk).map fun op => { op := op }
  | rest =>
    (dropLast? ' ' (chunk.takeWhile notOpenBrace)).bind fun main =>
    (parseX86Op env main).bind fun op =>
    (lexPieces isSuffixDelim rest.length rest).foldlM (suffixStep env) { op := op }

def roundingWords : List String := ["sae", "rn-sae", "rd-sae", "ru-sae", "rz-sae"]

/-- `{sae}` / `{rd-sae}` -/
def readRounding (chunk : Str) : Option String :=
  match chunk with
  | '{' :: body => (dropLast? '}' body).bind fun r => roundingWords.find? (fun w => w.toList == r)
  | _ => none

/-- the comma separated chunks: operands, and possibly a rounding group as the last one -/
def readChunks (env : Env) : List Str → Option (List POperand × Option String)
  | [] => some ([], none)
  | [c] =>
    if c.head? = some '{' then (readRounding c).map fun r => ([], some r)
    else (readChunk env c).map fun o => ([o], none)
  | c :: d :: rest =>
    if c.head? = some '{' then none
    else (readChunk env c).bind fun o => (readChunks env (d :: rest)).map fun (os, r) => (o :: os, r)

/-- a comma piece of the operand list: the first has no comma, the others are `, chunk` -/
def chunkOfPiece : Piece → Option Str
  | (none, c) => some c
  | (some ',', ' ' :: c) => some c
  | _ => none

def readBracedReg (env : Env) (w : Str) : Option PReg :=
  match w with
  | '{' :: body => (dropLast? '}' body).bind (parseReg env)
  | _ => none

def parseX86Inst (env : Env) (s : Str) : Option PInst :=
  let hw := readHeadWords (s.length + 1) s
  let fixedWords := hw.1.filter (fun w => x86PrefixWordsL.contains w)
  let others := hw.1.filter (fun w => !x86PrefixWordsL.contains w)
  -- at most one braced group that is no option word: the rep register
  (match others with
   | [] => some none
   | [w] => (readBracedReg env w).map some
   | _ => none : Option (Option PReg)).bind fun repReg =>
  let mn := hw.2.takeWhile notSpace
  if mn.isEmpty then none else
  let pi : PInst := { prefixes := fixedWords.map String.ofList, repReg := repReg,
                      mnemonic := (parseMnemonic mn).1, aliases := (parseMnemonic mn).2 }
  match hw.2.dropWhile notSpace with
  | [] => some pi
  | ' ' :: body =>
    ((lexPieces (fun c => c == ',') body.length body).mapM chunkOfPiece).bind fun chunks =>
    (readChunks env chunks).map fun (os, r) => { pi with ops := os, rounding := r }
  | _ => none

def condNames : List String := ["al", "na", "eq", "ne", "hs", "lo", "mi", "pl", "vs", "vc", "hi", "ls", "ge", "lt", "gt", "le"]

/-- architectural syntax: the comma chunks of one memory operand belong together — an opened bracket `[b` continues in the next
    chunk (`off]`, `x ext n]`), and a closed `[b]` followed by another item is the post-index form `[b], off`; only `[b]!` stands alone -/
def groupChunks : List Str → List Str
  | a :: b :: rest =>
    if a.head? = some '[' ∧ a.getLast? ≠ some '!' then (a ++ ',' :: ' ' :: b) :: groupChunks rest
    else a :: groupChunks (b :: rest)
  | l => l

/-- `name` or `name.cc` -/
def readA64Mnemonic (mn : Str) : Option (Str × Option Str) :=
  match mn.dropWhile notDot with
  | [] => some (mn, none)
  | '.' :: c => if condNames.any (·.toList == c) then some (mn.takeWhile notDot, some c) else none
  | _ => none

def parseA64Inst (env : Env) (s : Str) : Option PInst :=
  (readA64Mnemonic (s.takeWhile notSpace)).bind fun mc =>
  let pi : PInst := { mnemonic := mc.1, cond := mc.2 }
  match s.dropWhile notSpace with
  | [] => some pi
  | ' ' :: body =>
    ((lexPieces (fun c => c == ',') body.length body).mapM chunkOfPiece).bind fun chunks =>
    ((groupChunks chunks).mapM (parseA64Op env)).map fun ops => { pi with ops := ops.map fun op => { op := op } }
  | _ => none

/-! ## denotation of what was given -/

def denoteReg (env : Env) (type id : Nat) : PReg :=
  match virtLookup env id with
  | some (_, index) => .virt index (some type)
  | none => .phys type id

/-- two readings of a register agree: a virtual register's type may be left unprinted -/
def regAgrees (given read : PReg) : Bool :=
  match given, read with
  | .phys t i, .phys t' i' => t == t' && i == i'
  | .virt i (some t), .virt i' (some t') => i == i' && t == t'
  | .virt i _, .virt i' none => i == i'
  | _, _ => false

def denoteX86Mem (env : Env) (m : X86Mem) : PMem :=
  let hasBase := m.base ≠ MemBase.none
  let baseT : List (PReg × Nat) := match m.base with | .reg t i => [(denoteReg env t i, 1)] | _ => []
  let idxT : List (PReg × Nat) := match m.index with | some (t, i) => [(denoteReg env t i, 1 <<< m.shift)] | none => []
  { size := m.size, seg := if m.seg < 7 then m.seg else 0, addrType := if m.addrType ≤ 2 then m.addrType else 0,
    label := match m.base with | .label id => some id | _ => none,
    home := m.home && (match m.base with | .reg _ _ => true | _ => false),
    terms := baseT ++ idxT, disp := effOff hasBase m.off }

def denoteA64Mem (env : Env) (m : A64Mem) : PMem :=
  let hasBase := m.base ≠ MemBase.none
  let baseT : List (PReg × Nat) := match m.base with | .reg t i => [(denoteReg env t i, 1)] | _ => []
  let idxT : List (PReg × Nat) := match m.index with | some (t, i) => [(denoteReg env t i, 1)] | none => []
  { label := match m.base with | .label id => some id | _ => none,
    home := m.home && (match m.base with | .reg _ _ => true | _ => false),
    terms := baseT ++ idxT, disp := effOff hasBase m.off, shiftOp := m.shiftOp, shift := m.shift, mode := m.mode }

def memAgrees (g r : PMem) : Bool :=
  g.size == r.size && g.seg == r.seg && g.addrType == r.addrType && g.label == r.label && g.home == r.home &&
  g.disp == r.disp && g.shiftOp == r.shiftOp && g.shift == r.shift && g.mode == r.mode &&
  g.terms.length == r.terms.length && (g.terms.zip r.terms).all fun ((a, k), (b, k')) => regAgrees a b && k == k'

/-- element arrangement of an AArch64 vector operand: (lane count, letter) -/
def a64Arrangement (type etype : Nat) : Option (Nat × Char) :=
  let half := type = 10
  match etype with
  | 1 => some (if half then 8 else 16, 'b') | 2 => some (if half then 4 else 8, 'h') | 3 => some (if half then 2 else 4, 's')
  | 4 => some (if half then 1 else 2, 'd') | 5 => some (4, 'b') | 6 => some (2, 'h') | _ => none

def opAgrees (env : Env) (given : Operand) (read : POp) : Bool :=
  match given, read with
  | .reg t id 0 eidx, .reg r none eidx' => regAgrees (denoteReg env t id) r && eidx == eidx'
  | .reg t id etype eidx, .reg r (some arr) eidx' =>
    -- `vN.<arr>`: the reader only learns the vector register number and the arrangement
    (match denoteReg env t id, r with
     | .phys _ i, .phys 0 i' => i == i'
     | .virt i _, .virt i' _ => i == i'
     | _, _ => false) && a64Arrangement t etype == some arr && eidx == eidx' && (t == 10 || t == 11)
  | .x86mem m, .mem pm => memAgrees (denoteX86Mem env m) pm
  | .a64mem m, .mem pm => memAgrees (denoteA64Mem env m) pm
  | .imm u pred, .imm v k => u % two64 == v && pred == k
  | .label id, .label id' => id == id'
  | .regList t mask, .regList rs =>
    rs == ((List.range 32).filter fun i => (mask >>> i) % 2 = 1).map fun i => PReg.phys t i
  | _, _ => false

open AsmjitVerif.Gen.FormatTabs in
/-- the instruction a given id stands for: the name its enumerator documents in x86globals.h / a64globals.h -/
def headerName (arch : Arch) (id : Nat) : Option Str :=
  match arch with
  | .a64 => if id ≠ 0 then (a64HeaderNames[id]?).map String.toList else none
  | _ => if id ≠ 0 then (x86HeaderNames[id]?).map String.toList else none

open AsmjitVerif.Gen.FormatTabs in
def headerAliases (arch : Arch) (id : Nat) : List Str :=
  match arch with
  | .a64 => []
  | _ => ((x86HeaderAliases.find? fun (k, _) => k == id).map fun (_, l) => l.map String.toList).getD []

def expectedPrefixes (options : Nat) : List String :=
  let o (bit : Nat) (s : String) : List String := if hasBit options bit then [s] else []
  o ioVex "{vex}" ++ o ioVex3 "{vex3}" ++ o ioEvex "{evex}" ++
  (if hasBit options ioModRM then ["{modrm}"] else o ioModMR "{modmr}") ++
  o ioShortForm "short" ++ o ioLongForm "long" ++ o ioXAcquire "xacquire" ++ o ioXRelease "xrelease" ++ o ioLock "lock" ++
  (if hasBit options ioRep then ["rep"] else o ioRepne "repnz") ++ o ioRex "rex"

def expectedRounding (options : Nat) : Option String :=
  if hasBit options ioER then some (["rn-sae", "rd-sae", "ru-sae", "rz-sae"].getD ((options &&& ioERMask) >>> 21) "?")
  else if hasBit options ioSAE then some "sae" else none

def operandsGiven (ops : List Operand) : List Operand := ops.takeWhile (· ≠ Operand.none)

/-- the AArch64 assembler emits (and logs) the unscaled-offset form when the offset does not fit the scaled one:
    `ldr*` → `ldur*`, `str*` → `stur*` -/
def unscaledName : Str → Option Str
  | 'l' :: 'd' :: 'r' :: rest => some ('l' :: 'd' :: 'u' :: 'r' :: rest)
  | 's' :: 't' :: 'r' :: rest => some ('s' :: 't' :: 'u' :: 'r' :: rest)
  | _ => none

def nameAgrees (emitted : Bool) (given : Option Str) (printed : Str) : Bool :=
  given == some printed || (emitted && (given.bind unscaledName) == some printed)

/-- `addedPrefixes`: option words the assembler itself may add to what was requested (it records the form it chose) -/
def instAgrees (env : Env) (flags instId options : Nat) (extra : ExtraReg) (ops : List Operand) (addedPrefixes : List String) (pi : PInst) : Bool :=
  let ops := operandsGiven ops
  match env.arch with
  | .a64 =>
    let realId := instId % 65536
    let cc := (instId / 134217728) % 16
    nameAgrees (!addedPrefixes.isEmpty) (headerName .a64 realId) pi.mnemonic && pi.aliases.isEmpty && pi.prefixes.isEmpty && pi.rounding.isNone &&
    pi.cond == (if cc = 0 then none else (condNames[cc]?).map String.toList) &&
    pi.ops.length == ops.length && (ops.zip pi.ops).all fun (g, r) => opAgrees env g r.op && r.kmask.isNone && !r.zeroing && r.bcast == 0
  | arch =>
    let want := expectedPrefixes options
    headerName arch instId == some pi.mnemonic &&
    -- every alternate spelling shown must be an alias the header declares for this very instruction
    (if hasBit flags ffShowAliases then pi.aliases.all (headerAliases arch instId).contains else pi.aliases.isEmpty) &&
    (pi.prefixes == want || (pi.prefixes.filter (!addedPrefixes.contains ·)) == want.filter (!addedPrefixes.contains ·)) &&
    pi.cond.isNone &&
    (match pi.repReg with
     | some r => (hasBit options ioRep || hasBit options ioRepne) && extra.isReg && regAgrees (denoteReg env extra.type extra.id) r
     | none => !((hasBit options ioRep || hasBit options ioRepne) && extra.isReg)) &&
    pi.rounding == expectedRounding options &&
    pi.ops.length == ops.length &&
    ((List.range ops.length).all fun i =>
      match ops[i]?, pi.ops[i]? with
      | some g, some r =>
        opAgrees env g r.op &&
        (if i = 0 then
           (match r.kmask with
            | some k => extra.group = rgMask && regAgrees (denoteReg env extra.type extra.id) k
            | none => extra.group ≠ rgMask) && r.zeroing == hasBit options ioZMask
         else r.kmask.isNone && !r.zeroing) &&
        r.bcast == (match g with | .x86mem m => if m.bcast ≠ 0 then 1 <<< m.bcast else 0 | _ => 0)
      | _, _ => false) &&
    -- {k}/{z} can only be shown on a first operand
    (ops.isEmpty → extra.group ≠ rgMask ∧ !hasBit options ioZMask)

/-! ## monitors -/

def parseOp (env : Env) (s : Str) : Option POp := match env.arch with | .a64 => parseA64Op env s | _ => parseX86Op env s
def parseInst (env : Env) (s : Str) : Option PInst := match env.arch with | .a64 => parseA64Inst env s | _ => parseX86Inst env s

/-- the text of a register reads back to the register given -/
def monRegister (env : Env) (type id : Nat) (text : Str) : Bool :=
  match parseReg env text with
  | some r => regAgrees (denoteReg env type id) r
  | none => false

/-- the text of an operand reads back to the operand given -/
def monOperand (env : Env) (op : Operand) (text : Str) : Bool :=
  match parseOp env text with
  | some r => opAgrees env op r
  | none => false

/-- the explanatory `{a|b|c}` annotation glued to an immediate is commentary, not denotation: the reader skips it -/
def dropImmAnnotationsF : Nat → Str → Str
  | 0, s => s
  | _, [] => []
  | fuel + 1, c :: '{' :: rest =>
    if c.isDigit ∨ ('A' ≤ c ∧ c ≤ 'F') then
      c :: dropImmAnnotationsF fuel ((rest.dropWhile (· ≠ '}')).drop 1)
    else c :: '{' :: dropImmAnnotationsF fuel rest
  | fuel + 1, c :: rest => c :: dropImmAnnotationsF fuel rest
def dropImmAnnotations (s : Str) : Str := dropImmAnnotationsF s.length s

def monInstruction (env : Env) (flags instId options : Nat) (extra : ExtraReg) (ops : List Operand) (added : List String) (text : Str) : Bool :=
  let text := if hasBit flags ffExplainImms then dropImmAnnotations text else text
  match parseInst env text with
  | some pi => instAgrees env flags instId options extra ops added pi
  | none => false

/-- read a machine-code column: two hex digits per byte, `..` for a byte of the not yet resolved displacement -/
def parseColumn : Str → Option (List (Option Nat))
  | [] => some []
  | '.' :: '.' :: rest => (parseColumn rest).map (none :: ·)
  | a :: b :: rest =>
    match hexVal? a, hexVal? b, parseColumn rest with
    | some x, some y, some r => some (some (x * 16 + y) :: r)
    | _, _, _ => none
  | [_] => none

/-- the column equals the bytes appended; a `..` byte stands for a zero placeholder, the dots form one run of 1 or 4 bytes
    and may only appear when the instruction refers to a label -/
def columnAgrees (col : List (Option Nat)) (bytes : List Nat) (mayHaveRel : Bool) : Bool :=
  col.length == bytes.length &&
  ((col.zip bytes).all fun (c, b) => match c with | some v => v == b | none => b == 0) &&
  (let dots := col.filter Option.isNone
   let run := (col.dropWhile Option.isSome).takeWhile Option.isNone
   dots.length == run.length && (dots.length == 0 || (mayHaveRel && (dots.length == 1 || dots.length == 4))))

def refersToLabel (ops : List Operand) : Bool :=
  ops.any fun o => match o with
    | .label _ => true
    | .x86mem m => (match m.base with | .label _ => true | _ => false)
    | .a64mem m => (match m.base with | .label _ => true | _ => false)
    | _ => false

def trimR (s : Str) : Str := (trimL s.reverse).reverse

/-- one line of the logger for one emitted instruction: `<indent><instruction>  ; <column>  | <comment>\n` -/
def monLogLine (env : Env) (flags instId options : Nat) (extra : ExtraReg) (ops : List Operand)
    (bytes : List Nat) (comment : Option Str) (line : Str) : Bool :=
  match stripSuffix? ['\n'] line with
  | none => false
  | some body =>
    if body.contains '\n' then false else
    let wantCol := hasBit flags ffMachineCode
    let comment := comment.getD []
    -- split off the comment, then the column (the instruction text itself never contains ';')
    let (body, okComment) :=
      if comment.isEmpty then (body, true)
      else
        let sep : Str := if wantCol ∧ !bytes.isEmpty then "| ".toList else "; ".toList
        match stripSuffix? (sep ++ comment) body with
        | some b => (b, true)
        | none => (body, false)
    let (instText, okCol) :=
      if wantCol ∧ !bytes.isEmpty then
        match splitAt? ';' body with
        | some (it, ' ' :: col) =>
          (it, match parseColumn (trimR col) with
               | some c => columnAgrees c bytes (refersToLabel ops)
               | none => false)
        | _ => (body, false)
      else (body, !body.contains ';')
    okComment && okCol && monInstruction env flags instId options extra ops ["short", "long", "rex"] (trimR (trimL instText))

/-! ## Builder nodes: what the text of a node denotes -/

def isDigitC (c : Char) : Bool := c.isDigit

/-- a decimal number at the front, and the rest -/
def readNat (s : Str) : Option (Nat × Str) := (parseDec (s.takeWhile isDigitC)).map fun n => (n, s.dropWhile isDigitC)

/-- data directive names by architecture and item size (x86: db dw dd dq; AArch64: byte hword word xword) -/
def dataWord (arch : Arch) (size : Nat) : Option Str :=
  (match arch, size with
   | .a64, 1 => some "byte" | .a64, 2 => some "hword" | .a64, 4 => some "word" | .a64, 8 => some "xword"
   | .a64, _ => none
   | _, 1 => some "db" | _, 2 => some "dw" | _, 4 => some "dd" | _, 8 => some "dq" | _, _ => none).map String.toList

/-- `.align 16 (code)` -/
def readAlign (s : Str) : Option (Nat × Nat) :=
  (stripPrefix? ".align ".toList s).bind fun r =>
  (readNat r).bind fun (n, rest) =>
  if rest == " (code)".toList then some (0, n) else if rest == " (data)".toList then some (1, n) else none

/-- `.dd {Count=3 Repeat=2 TotalSize=12}` -/
def readEmbed (arch : Arch) (size : Nat) (s : Str) : Option (Nat × Nat × Nat) :=
  (dataWord arch size).bind fun w =>
  (stripPrefix? (['.'] ++ w ++ " {Count=".toList) s).bind fun r =>
  (readNat r).bind fun (count, r) =>
  (stripPrefix? " Repeat=".toList r).bind fun r =>
  (readNat r).bind fun (rep, r) =>
  (stripPrefix? " TotalSize=".toList r).bind fun r =>
  (readNat r).bind fun (total, r) => if r == ['}'] then some (count, rep, total) else none

/-- `label:` -/
def monLabelText (env : Env) (id : Nat) (body : Str) : Bool :=
  match dropLast? ':' body with | some l => parseLabel env l == some id | none => false

def monAlignText (mode nn : Nat) (body : Str) : Bool := readAlign body == some ((if mode = 0 then 0 else 1), nn)

def monEmbedText (arch : Arch) (size count rep : Nat) (body : Str) : Bool := readEmbed arch size body == some (count, rep, size * count)

/-- `.label name` -/
def monEmbedLabelText (env : Env) (id : Nat) (body : Str) : Bool :=
  match stripPrefix? ".label ".toList body with | some l => parseLabel env l == some id | none => false

/-- `.label (a - b)` -/
def monLabelDeltaText (env : Env) (id base : Nat) (body : Str) : Bool :=
  match (stripPrefix? ".label (".toList body).bind (dropLast? ')') with
  | some inner =>
    (match stripPrefix? " - ".toList (inner.dropWhile notSpace) with
     | some b => parseLabel env (inner.takeWhile notSpace) == some id && parseLabel env b == some base
     | none => false)
  | none => false

/-- `<00012> ` in front of the node text: the node's position, when kPositions asks for it -/
def stripPosition (flags pos : Nat) (text : Str) : Option Str :=
  if hasBit flags ffPositions ∧ pos ≠ 0 then
    match text with
    | '<' :: r =>
      if (r.takeWhile isDigitC).length ≥ 5 ∧ parseDec (r.takeWhile isDigitC) = some pos then stripPrefix? ['>', ' '] (r.dropWhile isDigitC)
      else none
    | _ => none
  else some text

/-- the text of a node denotes the node: an instruction node reads back as the instruction (inline comment after `; `),
    a label node as `label:`, align / embed-data / embed-label / comment / section nodes as their content -/
def monNode (env : Env) (flags : Nat) (n : Node) (inl : Option Str) (text : Str) (pos : Nat := 0) : Bool :=
  match stripPosition flags pos text with
  | none => false
  | some text =>
  match n with
  | .comment t => text == "; ".toList ++ t
  | _ =>
    -- split off the inline comment
    match (match inl with
           | some c => (stripSuffix? ("; ".toList ++ c) text).map trimR
           | none => some text : Option Str) with
    | none => false
    | some body =>
      match n with
      | .inst id opts extra ops => monInstruction env flags id opts extra ops [] body
      | .label id => monLabelText env id body
      | .align mode nn => monAlignText mode nn body
      | .embedData size count rep => monEmbedText env.arch size count rep body
      | .section name => body == ".section ".toList ++ name
      | .embedLabel id => monEmbedLabelText env id body
      | .embedLabelDelta id base => monLabelDeltaText env id base body
      | .comment _ => false

end AsmjitVerif.FormatText
