/-
C12 — what "the read/write description covers what the CPU does" means, relative to the ISA database.

Independent of AsmJit's tables and of `query_rw_info`: the inputs are (a) what the ISA database `db/isa_x86.json` (read through
`db/index.js`) says about one instruction form instantiated with concrete operands — per operand the access letters
`R/W/X/w/x`, the accessed bit range `[hi:lo]`, register runs `k+1`, the `io` status-flag effects and the `ext` CPU features — and
(b) what `InstAPI::query_rw_info` / `query_features` answered for exactly those operands.  `rowOk` is the decidable monitor: it is
run by the driver on every answer of the real code and it is the predicate the `decide +kernel` lemmas of `Gen/C12*.lean` and the
theorems of `Props/C12.lean` are about.

Architectural facts used besides the database (Intel SDM vol. 1, 3.4.1.1): in 64-bit mode a write to a 32-bit general-purpose
register zero-extends into bits 63:32, a write to an 8- or 16-bit general-purpose register leaves the other bits unchanged.
Core-only (the driver links this file).
-/
namespace Spec.RWCover

/-- `OpRWFlags` bits of `asmjit/core/inst.h` that the property talks about. -/
def fRead : Nat := 0x1
def fWrite : Nat := 0x2
def fRegMem : Nat := 0x4
def fConsecutive : Nat := 0x8
def fZExt : Nat := 0x10

def hasBits (x m : Nat) : Bool := Nat.land x m == m

/-- one operand as the database form describes it, after instantiation with a concrete operand -/
structure DbOp where
  /-- 0 = immediate / none, 1 = register, 2 = memory -/
  kind : Nat
  /-- the register is a general-purpose register (byte-level claims of the property are about these) -/
  gp : Bool
  /-- size in bytes of the instantiated operand (register size, memory operand size; 0 = unsized) -/
  size : Nat
  read : Bool
  write : Bool
  /-- written bit range `[lo, lo+width)` of the operand; width 0 = the database gives none -/
  lo : Nat
  width : Nat
  /-- read bit range `[lo, lo+rwidth)`; differs from the written one for `imul ax, r/m8` (AL), `punpckl*` (low half) … -/
  rwidth : Nat
  /-- k > 0: this register is the k-th follower of a run (`k+1`, `zmm+3`, AArch64 list member) -/
  follower : Nat
  /-- n ≥ 2: this register leads a run of n consecutive registers -/
  runLen : Nat
  /-- the instantiation is register-only, so the register-or-memory claim about this operand is judged (quantifier of C12) -/
  rmChecked : Bool
  /-- memory operand sizes (bytes) by which the database lets this *register* operand be replaced, all other operands and
      the operand's access unchanged -/
  memAlt : List Nat
deriving Repr, DecidableEq, Inhabited

/-- one operand of the answer of `InstAPI::query_rw_info` (`OpRWInfo`) -/
structure ImplOp where
  flags : Nat
  physId : Nat
  rmSize : Nat
  clc : Nat
  rmask : Nat
  wmask : Nat
  emask : Nat
deriving Repr, DecidableEq, Inhabited

/-- a database form instantiated with operands + the implementation's answer for these operands -/
structure Row where
  /-- 64-bit mode -/
  mode64 : Bool
  dbOps : List DbOp
  /-- `CpuRWFlags` bits of the status flags the database says are read / written (W, 0, 1, U, X) -/
  dbFlagsR : Nat
  dbFlagsW : Nat
  /-- feature check applies (the encoding the assembler emitted has the prefix class of this database form) -/
  featChecked : Bool
  /-- `CpuFeatures::X86` ids of the form's `ext` list -/
  dbExt : List Nat
  /-- architectural feature hierarchy `(a, b)`: a CPU that has `a` has `b` (AVX512_F ⇒ AVX2 ⇒ AVX; Intel SDM vol. 1, 15.1) -/
  featImplies : List (Nat × Nat)
  implOps : List ImplOp
  implFlagsR : Nat
  implFlagsW : Nat
  implFeat : List Nat
  /-- immediate-dependent access of operand 0: 0 = as the database says; n+1 = VPTERNLOGD/Q with truth table n and no
      merge-masking: the destination is an input iff the table depends on its first argument (`ternlogDependsOnDest n`) -/
  destRule : Nat
deriving Repr, DecidableEq, Inhabited

/-- bytes touched by the bit range `[lo, lo+width)`, as a byte mask capped at 64 bytes (the width of `OpRWInfo` masks) -/
def byteMask (lo width : Nat) : Nat :=
  if width = 0 then 0 else
  let first := lo / 8
  let last := (lo + width - 1) / 8
  let last := if last > 63 then 63 else last
  if first > last then 0 else ((1 <<< (last - first + 1)) - 1) <<< first

/-- read/write access and byte coverage of one operand -/
def accessOk (d : DbOp) (i : ImplOp) : Bool :=
  (!d.read || hasBits i.flags fRead) &&
  (!d.write || hasBits i.flags fWrite) &&
  -- byte level: general-purpose registers (property text) — reported masks contain the database's bit range
  (!(d.kind == 1 && d.gp && d.read) || hasBits i.rmask (byteMask d.lo d.rwidth)) &&
  (!(d.kind == 1 && d.gp && d.write) || hasBits i.wmask (byteMask d.lo d.width))

/-- byte masks of vector, mask, MMX, x87 and bound registers against the database's operand bit range (beyond the letter of the
    property, which restricts byte-level claims to general-purpose registers; judged at the coordinator's request): the read mask
    contains the range; written ∪ zero-extended bytes contain the range (mask-register destinations are reported as an empty write
    mask plus a full "zero-extended" mask, which covers what the CPU changes) -/
def wideMaskOk (d : DbOp) (i : ImplOp) : Bool :=
  (!(d.kind == 1 && !d.gp && d.read) || hasBits i.rmask (byteMask d.lo d.rwidth)) &&
  (!(d.kind == 1 && !d.gp && d.write) || hasBits (Nat.lor i.wmask i.emask) (byteMask d.lo d.width))

/-- zero extension of general-purpose destinations.  64-bit mode: a 32-bit write changes the whole 64-bit register, so written ∪
    zero-extended bytes must be all eight; an 8/16-bit write must not claim any zero extension.  32-bit mode: nothing may be
    claimed beyond the four bytes of the register, and an 8/16-bit write claims no zero extension either. -/
def zextOk (mode64 : Bool) (d : DbOp) (i : ImplOp) : Bool :=
  if d.kind == 1 && d.gp && d.write then
    if mode64 then
      if d.size == 4 then hasBits (Nat.lor i.wmask i.emask) 0xFF
      else if d.size < 4 then !hasBits i.flags fZExt && i.emask == 0
      else i.emask == 0
    else
      if d.size < 4 then !hasBits i.flags fZExt && i.emask == 0
      else Nat.land (Nat.lor i.wmask i.emask) 0xFFFFFFFFFFFFFFF0 == 0
  else true

/-- consecutive-register runs are reported: lead count on the leader, `kConsecutive` on the followers -/
def runOk (d : DbOp) (i : ImplOp) : Bool :=
  (d.runLen < 2 || i.clc == d.runLen) && (d.follower == 0 || hasBits i.flags fConsecutive)

/-- an operand reported as replaceable by memory of `rmSize` bytes is replaceable in the database.
    `lenient` (not used by `rowOk`; kept from the time finding C12-F1 was open) would accept the claim although the database has
    *no* memory form at that position. -/
def regMemOk (lenient : Bool) (d : DbOp) (i : ImplOp) : Bool :=
  if d.kind == 1 && d.rmChecked && hasBits i.flags fRegMem then
    if d.memAlt.isEmpty then lenient
    -- rm_size 0 = no size given (x87, bnd): then some memory form must exist at least
    else i.rmSize == 0 || d.memAlt.contains i.rmSize
  else true

def opOk (lenient mode64 : Bool) (d : DbOp) (i : ImplOp) : Bool :=
  if d.kind == 0 then true else accessOk d i && zextOk mode64 d i && runOk d i && regMemOk lenient d i && wideMaskOk d i

def opsOk (lenient mode64 : Bool) : List DbOp → List ImplOp → Bool
  | [], [] => true
  | d :: ds, i :: is => opOk lenient mode64 d i && opsOk lenient mode64 ds is
  | _, _ => false

def flagsOk (r : Row) : Bool := hasBits r.implFlagsR r.dbFlagsR && hasBits r.implFlagsW r.dbFlagsW

/-- a CPU with the reported features has feature `e` -/
def provides (r : Row) (e : Nat) : Bool := r.implFeat.contains e || r.featImplies.any (fun p => p.2 == e && r.implFeat.contains p.1)
def featOk (r : Row) : Bool := !r.featChecked || r.dbExt.all (provides r)

/-- VPTERNLOGD/Q (Intel SDM): every result bit is `imm8[(a <<< 2) ||| (b <<< 1) ||| c]` with `a` the destination's bit, `b`, `c` the
    bits of the second and third operand -/
def ternlog (imm : Nat) (a b c : Bool) : Bool := imm.testBit (4 * a.toNat + 2 * b.toNat + c.toNat)

/-- the truth table depends on its first argument, i.e. the old destination value is an input of the instruction -/
def ternlogDependsOnDest (imm : Nat) : Bool :=
  [false, true].any fun b => [false, true].any fun c => ternlog imm true b c != ternlog imm false b c

/-- the database operands with the immediate-dependent rule applied to operand 0 -/
def effDbOps (r : Row) : List DbOp :=
  match r.destRule, r.dbOps with
  | n + 1, d :: ds => { d with read := ternlogDependsOnDest n } :: ds
  | _, ds => ds

def rowOkWith (lenient : Bool) (r : Row) : Bool := opsOk lenient r.mode64 (effDbOps r) r.implOps && flagsOk r && featOk r

/-- the monitor of C12 on one instantiated form (full strength) -/
def rowOk (r : Row) : Bool := rowOkWith false r

/-- which clause fails first (for diagnostics printed by the driver; also the stable class key of a violation) -/
def rowWhy (r : Row) : String :=
  if !flagsOk r then "status-flags" else
  if !featOk r then "features" else
  if r.dbOps.length != r.implOps.length then "operand-count" else
  let bad := ((effDbOps r).zip r.implOps).zipIdx.filterMap fun ((d, i), n) =>
    if opOk false r.mode64 d i then none else
    some (if !accessOk d i then s!"access op{n}" else if !zextOk r.mode64 d i then s!"zext op{n}"
          else if !runOk d i then s!"consecutive op{n}" else if !wideMaskOk d i then s!"widemask op{n}"
          else if d.memAlt.isEmpty then s!"regmem-no-memory-form op{n}" else s!"regmem-wrong-size op{n}")
  -- a failure outside the finding's class is reported first
  match bad.filter (fun w => !w.startsWith "regmem-no-memory-form") ++ bad with
  | [] => "ok"
  | w :: _ => w

example : ternlogDependsOnDest 0xFF = false := by decide
example : ternlogDependsOnDest 0x55 = false := by decide   -- NOT c
example : ternlogDependsOnDest 0x08 = true := by decide    -- (NOT a) AND b AND c
example : ternlogDependsOnDest 0xF0 = true := by decide    -- a

/-! sanity examples: `add eax, ebx`-like destination (32-bit X operand), reported as asmjit reports it -/
example : byteMask 0 32 = 0xF := by decide
example : byteMask 8 8 = 0x2 := by decide
example : byteMask 0 4096 = 0xFFFFFFFFFFFFFFFF := by decide
example : opOk false true ⟨1, true, 4, true, true, 0, 32, 32, 0, 0, true, [4]⟩ ⟨0x17, 255, 4, 0, 0xF, 0xF, 0xF0⟩ = true := by decide
-- dropping the read flag, the zero extension, or claiming memory of a size the database has not, is rejected
example : opOk false true ⟨1, true, 4, true, true, 0, 32, 32, 0, 0, true, [4]⟩ ⟨0x16, 255, 4, 0, 0xF, 0xF, 0xF0⟩ = false := by decide
example : opOk false true ⟨1, true, 4, true, true, 0, 32, 32, 0, 0, true, [4]⟩ ⟨0x07, 255, 4, 0, 0xF, 0xF, 0⟩ = false := by decide
example : opOk false true ⟨1, true, 4, true, true, 0, 32, 32, 0, 0, true, [4]⟩ ⟨0x07, 255, 4, 0, 0xF, 0xFF, 0⟩ = true := by decide
example : opOk false true ⟨1, true, 4, true, true, 0, 32, 32, 0, 0, true, [4]⟩ ⟨0x17, 255, 8, 0, 0xF, 0xF, 0xF0⟩ = false := by decide
-- a 16-bit destination must not claim zero extension
example : opOk false true ⟨1, true, 2, false, true, 0, 16, 16, 0, 0, true, []⟩ ⟨0x12, 255, 0, 0, 0, 0x3, 0xFC⟩ = false := by decide
-- mask pair `k, k+1`: lead count 2 on the leader, kConsecutive on the follower
example : opOk false true ⟨1, false, 0, false, true, 0, 0, 0, 0, 2, true, []⟩ ⟨0x2, 255, 0, 2, 0, 0xFF, 0⟩ = true := by decide
example : opOk false true ⟨1, false, 0, false, true, 0, 0, 0, 0, 2, true, []⟩ ⟨0x2, 255, 0, 0, 0, 0xFF, 0⟩ = false := by decide

end Spec.RWCover
