/-
Specification of property C10, independent of the loops in `Model/Sections.lean`:

 * what a correct layout is (`OrderSorted`, `NoOverlap`, `Aligned`, `imageEnd`), in unbounded arithmetic
   (`roundUp`, `idealEnd`, `idealOffsets`: the least aligned offsets, no modulo anywhere),
 * what the flattened image is, byte by byte (`imageByte`), and when a destination must be refused (`fitsB`),
 * the decidable monitors (`Bool`) that the driver evaluates on the answers of the real code:
   `sortedB`, `layoutChk`, `flattenGood`, `codeSizeSpec`, `imageGood`, `sectionImageGood`, `relocGood`.

The monitors only read the *observable* fields of sections (`id order align offset vsize data`); they never call
`flatten`, `codeSize`, `copyFlattened`.
-/
import AsmjitVerif.Model.Sections
namespace AsmjitVerif.Sections

/-! ### layout -/

/-- (order, id) lexicographic, strict -/
def OrdLt (a b : Section) : Prop := a.order < b.order ∨ (a.order = b.order ∧ a.id < b.id)

/-- the by-order table is strictly sorted by (order, id) -/
def OrderSorted (secs : List Section) : Prop := secs.Pairwise OrdLt

/-- no two sections overlap, and offsets follow the order: every earlier section ends before every later NON-EMPTY one
    starts (an empty section occupies no byte: it only has to keep the order, see `OffsetsMonotone`) -/
def NoOverlap (secs : List Section) : Prop := secs.Pairwise (fun a b => b.realSize ≠ 0 → a.offset + a.realSize ≤ b.offset)

/-- offsets never decrease along the order (also for empty sections) -/
def OffsetsMonotone (secs : List Section) : Prop := secs.Pairwise (fun a b => a.offset ≤ b.offset)

/-- alignment 0 means "no requirement" (the built-in `.text` section) -/
def AlignedSec (s : Section) : Prop := s.align = 0 ∨ s.align ∣ s.offset

/-- every non-empty section starts at a multiple of its alignment -/
def Aligned (secs : List Section) : Prop := ∀ s ∈ secs, s.realSize ≠ 0 → AlignedSec s

/-- end of the image: the largest end of any section -/
def imageEnd (secs : List Section) : Nat := secs.foldl (fun m s => max m (s.offset + s.realSize)) 0

/-- least multiple of `a` that is `≥ x`, unbounded; `a = 0`: no requirement -/
def roundUp (x a : Nat) : Nat := if a = 0 then x else (x + (a - 1)) / a * a

/-- the size of the ideal layout (sections packed in order, each non-empty one at the least aligned offset) -/
def idealEnd : Nat → List Section → Nat
  | off, [] => off
  | off, s :: rest => if s.realSize ≠ 0 then idealEnd (roundUp off s.align + s.realSize) rest else idealEnd off rest

/-- offsets of the ideal layout (an empty section sits at the running end) -/
def idealOffsets : Nat → List Section → List Nat
  | _, [] => []
  | off, s :: rest =>
    if s.realSize ≠ 0 then roundUp off s.align :: idealOffsets (roundUp off s.align + s.realSize) rest
    else off :: idealOffsets off rest

/-- what `code_size()` must report: the ideal size, saturated at SIZE_MAX -/
def codeSizeSpec (secs : List Section) : Nat := if idealEnd 0 secs < U64 then idealEnd 0 secs else sizeMax

def ordLtB (a b : Section) : Bool := decide (a.order < b.order) || (decide (a.order = b.order) && decide (a.id < b.id))

/-- monitor: consecutive elements strictly increasing in (order, id) -/
def sortedB : List Section → Bool
  | [] => true
  | [_] => true
  | a :: b :: rest => ordLtB a b && sortedB (b :: rest)

def alignedB (s : Section) : Bool := s.align == 0 || s.offset % s.align == 0

/-- monitor of a layout: walking the table in order with the previous offset `po` and the running end `lo` of the
    non-empty sections seen so far: offsets never decrease; a non-empty section starts at or after `lo`, is aligned, and
    moves the running end to its own end -/
def layoutChk : Nat → Nat → List Section → Bool
  | _, _, [] => true
  | po, lo, s :: rest =>
    decide (po ≤ s.offset) &&
    (if s.realSize = 0 then layoutChk s.offset lo rest
     else decide (lo ≤ s.offset) && alignedB s && layoutChk s.offset (s.offset + s.realSize) rest)

/-- end of the last section (by order) whose real size is not zero; `d` if there is none -/
def endOfLastNonEmpty : Nat → List Section → Nat
  | d, [] => d
  | d, s :: rest => if s.realSize ≠ 0 then endOfLastNonEmpty (s.offset + s.realSize) rest else endOfLastNonEmpty d rest

def lastEnd (secs : List Section) : Nat :=
  match secs.getLast? with
  | some s => s.offset + s.realSize
  | none => 0

/-- monitor of one `flatten` step: `pre` = table before, `post` = table after (both by order), `cs` = `code_size()` after.
    * same sections in the same sequence, data untouched, empty sections still empty, nothing shrinks,
    * offsets are exactly the ideal ones computed from the sizes BEFORE the call (least aligned offset after the
      previous section's end), and the ideal layout fits 64 bits,
    * `layoutChk` (order, no overlap, alignment) on the sizes AFTER the call,
    * the reported size is the end of the last section, the largest end, and what `code_size()` said before. -/
def flattenGood (pre post : List Section) (csPre csPost : Nat) : Bool :=
  pre.length == post.length
  && (pre.zip post).all (fun (a, b) =>
        a.id == b.id && a.order == b.order && a.align == b.align && a.data == b.data
        && decide (a.realSize ≤ b.realSize) && (a.realSize != 0 || b.realSize == 0))
  && post.map (·.offset) == idealOffsets 0 pre
  && decide (idealEnd 0 pre < U64)
  && layoutChk 0 0 post
  && csPost == lastEnd post && csPost == imageEnd post && csPost == csPre

/-! ### the image -/

/-- the byte section `s` defines at absolute position `k` of a destination of `n` bytes, if any -/
def secByte (n : Nat) (flags : CopyFlags) (s : Section) (k : Nat) : Option Byte :=
  if s.offset ≤ k then
    match s.data[k - s.offset]? with
    | some b => some b
    | none => if flags.padSection && decide (k < s.offset + s.vsize) && decide (k < n) then some 0 else none
  else none

/-- end of what section `s` defines in a destination of `n` bytes -/
def secExtent (n : Nat) (flags : CopyFlags) (s : Section) : Nat :=
  if flags.padSection && decide (s.bufSize < s.vsize) then s.offset + min (n - s.offset) s.vsize else s.offset + s.bufSize

def dataEnd (n : Nat) (flags : CopyFlags) (secs : List Section) : Nat :=
  secs.foldl (fun m s => max m (secExtent n flags s)) 0

/-- the flattened image, byte `k`: the section byte if some section defines it; otherwise zero if the caller asked to
    clear the tail and `k` is behind everything the sections define; otherwise the old content -/
def imageByte (secs : List Section) (n : Nat) (flags : CopyFlags) (init : Nat → Byte) (k : Nat) : Byte :=
  match secs.findSome? (fun s => secByte n flags s k) with
  | some b => b
  | none => if flags.padTarget && decide (dataEnd n flags secs ≤ k) then 0 else init k

/-- monitor form of `NoOverlap` -/
def noOverlapB : List Section → Bool
  | [] => true
  | a :: rest => rest.all (fun b => b.realSize == 0 || decide (a.offset + a.realSize ≤ b.offset)) && noOverlapB rest

/-- the destination is large enough: every section's buffer lies inside it -/
def fitsB (n : Nat) (secs : List Section) : Bool := secs.all (fun s => decide (s.offset + s.bufSize ≤ n))

/-- monitor of `copy_flattened_data`: `out = none` means refused -/
def imageGood (secs : List Section) (n : Nat) (flags : CopyFlags) (init : Nat → Byte) (out : Option (List Byte)) : Bool :=
  match out with
  | none => !fitsB n secs
  | some o => fitsB n secs && o.length == n && (o.zipIdx.all fun (b, k) => b == imageByte secs n flags init k)

/-- monitor of `copy_section_data` -/
def sectionImageGood (s : Section) (n : Nat) (flags : CopyFlags) (init : Nat → Byte) (out : Option (List Byte)) : Bool :=
  match out with
  | none => decide (n < s.bufSize)
  | some o => decide (s.bufSize ≤ n) && o.length == n &&
      (o.zipIdx.all fun (b, k) => b == (match s.data[k]? with
                                        | some d => d
                                        | none => if flags.padSection then 0 else init k))

/-- monitor of the relocation step for the size clause: estimate ≥ final, and (unless the estimate is the saturated
    SIZE_MAX) the reported reduction does not overshoot: what `JitRuntime::_add` keeps (`estimate - reduction`) still
    holds the final image -/
def relocGood (csPre csPost red : Nat) : Bool :=
  decide (csPost ≤ csPre) && (csPre == sizeMax || (decide (red ≤ csPre) && decide (csPost ≤ csPre - red)))

end AsmjitVerif.Sections
