import AsmjitVerif.Lemmas.X86Parse
set_option linter.constructorNameAsVariable false
namespace AsmjitVerif.Props.C01
open Spec.X86 AsmjitVerif.Lemmas.X86Parse

theorem regConds_plain (what : String) (k : RegKind) (id n : Nat) (p : Parsed)
    (hk : k ≠ .gpbhi ∧ k ≠ .gpb ∧ k ≠ .sreg) : allOk (regConds what k id n p) = (n == id) := by
  obtain ⟨h1, h2, h3⟩ := hk
  cases k <;> simp_all [regConds, allOk]

theorem allOk_append (a b : List Chk) : allOk (a ++ b) = (allOk a && allOk b) := by simp [allOk]
theorem allOk_cons (a : Chk) (b : List Chk) : allOk (a :: b) = (a.ok && allOk b) := by simp [allOk]
theorem allOk_nil : allOk [] = true := rfl

/-- the hypotheses every VEX/EVEX/XOP register-form lemma shares: what the parser returned -/
structure VexParsed (rule : Rule) (p : Parsed) (mb : BitVec 8) : Prop where
  hvk : p.vexKind = 2 ∨ p.vexKind = 3 ∨ p.vexKind = 4 ∨ p.vexKind = 5
  hpfx : p.prefixes = []
  hrex : p.rex = none
  hmodrm : p.modrm = some mb
  hmod : bits mb 6 2 = 3
  hop : p.opcode.toNat = rule.opcode
  hmap : p.map = rule.map
  hpp : p.pp = ppWant rule
  hw : wWant rule = 2 ∨ p.W = (wWant rule == 1)
  hl : rule.l = 3 ∨ p.L = rule.l
  hl1 : p.vexKind ≠ 4 → p.L ≤ 1
  hev : p.vexKind = 4 → (p.aaa = 0 ∧ p.z = false ∧ p.b = false ∧ p.map < 8)

/-- rule side: a VEX-family form with `/r`, no fixed ModRM digits, not available only in 32-bit mode -/
structure VexRule (rule : Rule) (nimm : Nat) : Prop where
  hmodes : rule.modes &&& 2 ≠ 0
  hs : rule.space = 1 ∨ rule.space = 2 ∨ rule.space = 3
  hpp8 : rule.pp &&& 8 = 0
  hri : rule.ri = false
  hmk : rule.modKind = 1 ∨ rule.modKind = 2
  hmr : rule.modr = 8
  hmrm : rule.modrm = 8
  himm : rule.immBytes = nimm
  hrel : rule.relBytes = 0
  hmoff : rule.moff = false
  ha67 : rule.a67 = false

/-- shape [reg, vvvv, rm] -/
theorem vex_rvm_conds_ok (ctx : Spec.X86.Ctx) (rule : Rule) (p : Parsed) (mb : BitVec 8) (bytes : List (BitVec 8))
    (k0 k1 k2 : RegKind) (f0 f1 f2 : FormOp) (i0 i1 i2 : Nat)
    (hm64 : ctx.mode64 = true)
    (hk0 : k0 ≠ .gpbhi ∧ k0 ≠ .gpb ∧ k0 ≠ .sreg) (hk1 : k1 ≠ .gpbhi ∧ k1 ≠ .gpb ∧ k1 ≠ .sreg) (hk2 : k2 ≠ .gpbhi ∧ k2 ≠ .gpb ∧ k2 ≠ .sreg)
    (R : VexRule rule 0) (hf0 : f0.role = .reg) (hf1 : f1.role = .vvvv) (hf2 : f2.role = .rm)
    (hal : alignOps rule.oszEff rule.ops [.reg k0 i0, .reg k1 i1, .reg k2 i2] =
           some [(f0, some (.reg k0 i0)), (f1, some (.reg k1 i1)), (f2, some (.reg k2 i2))])
    (hparse : parse true rule bytes = .ok p) (P : VexParsed rule p mb)
    (hreg : regNum p.R' p.R (bits mb 3 3) = i0)
    (hvv : regNum p.V' false p.vvvv = i1)
    (hrm : regNum (p.vexKind == 4 && p.X) p.B (bits mb 0 3) = i2) :
    formOk ctx rule [.reg k0 i0, .reg k1 i1, .reg k2 i2] {} bytes = true := by
  obtain ⟨hvk, hpfx, hrex, hmodrm, hmod, hop, hmap, hpp, hw, hl, hl1, hev⟩ := P
  obtain ⟨hmodes, hs, hpp8, hri, hmk, hmr, hmrm, himm, hrel, hmoff, ha67⟩ := R
  have hleg : isLegacySpace rule = false := by rcases hs with h | h | h <;> simp [isLegacySpace, h]
  have hs4 : (rule.space == 4) = false := by rcases hs with h | h | h <;> simp [h]
  have hvk0 : (p.vexKind == 0) = false := by rcases hvk with h | h | h | h <;> simp [h]
  simp only [formOk, conds, hm64, hal, hparse]
  simp only [allOk_cons, allOk_append, decorConds, headConds, prefixConds, modrmConds, operandConds, opConds, tailConds, hf0, hf1, hf2,
    regConds_plain _ _ _ _ _ hk0, regConds_plain _ _ _ _ _ hk1, regConds_plain _ _ _ _ _ hk2, allOk_nil, memOperandOf, implMemOf, usesVvvv,
    hasBcst, hleg, hri, hmodrm, hpfx, hrex]
  simp [hmodes, hop, hmap, hpp, hreg, hvv, hrm, hmod, hmr, hmrm, hs4, hvk0, hpp8, ha67]
  have hvk0' : ¬ p.vexKind = 0 := by rcases hvk with h | h | h | h <;> omega
  refine ⟨⟨⟨⟨Or.inl (by rcases hs with h | h | h <;> omega), hw, ?_, ?_⟩, by rcases hmk with h | h <;> omega⟩, hvk0'⟩,
    ⟨Or.inl (Or.inr (Or.inr (Or.inl hf1))), Or.inl (Or.inr (Or.inr (Or.inl hf1)))⟩, ?_⟩
  · rcases hl with h | h
    · exact Or.inl (Or.inl h)
    · exact Or.inr h
  · by_cases h4 : p.vexKind = 4
    · left; omega
    · right; exact hl1 h4
  · by_cases h4 : p.vexKind = 4
    · obtain ⟨a, z, b, m⟩ := hev h4
      rw [hmap] at m
      simp [h4, allOk, a, z, b, m]
    · simp [h4, allOk]

end AsmjitVerif.Props.C01
