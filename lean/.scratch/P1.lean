import AsmjitVerif.Spec.X86Decode
import AsmjitVerif.Props.C01
import Std.Tactic.BVDecide
namespace AsmjitVerif.Lemmas.X86Parse
open Spec.X86

theorem parse_evex_reg (r : Rule) (p0 p1 p2 o mb : Byte) (imm : List Byte)
    (hs : r.space = 2) (hfw : r.pp &&& 8 = 0) (hmk : r.modKind ≠ 0)
    (h3 : bit p0 3 = false) (h2 : bit p1 2 = true) (hmod : bits mb 6 2 = 3)
    (hlen : imm.length = r.immBytes + r.relBytes) (hmoff : r.moff = false) :
    parse true r (0x62#8 :: p0 :: p1 :: p2 :: o :: mb :: imm) =
      .ok { prefixes := [], vexKind := 4, R := !bit p0 7, X := !bit p0 6, B := !bit p0 5, R' := !bit p0 4, map := bits p0 0 3,
            W := bit p1 7, vvvv := 15 - bits p1 3 4, pp := bits p1 0 2, z := bit p2 7, L := bits p2 5 2, b := bit p2 4,
            V' := !bit p2 3, aaa := bits p2 0 3, opcode := o, modrm := some mb, addr16 := false, imm := imm,
            length := 6 + imm.length } := by
  simp [parse, takePrefixes, isLegacyPrefix, hs, hfw, hmk, h3, h2, parseModRM, hmod, hlen, hmoff, bind, Except.bind, pure, Except.pure]
  omega

/-- Nat-level register number = the 5-bit number the bytes spell -/
theorem regNum_eq (hi4 hi3 : Bool) (lo : BitVec 3) (r : BitVec 32)
    (h : lo.zeroExtend 32 + (if hi3 then 8#32 else 0#32) + (if hi4 then 16#32 else 0#32) = r) : regNum hi4 hi3 lo.toNat = r.toNat := by
  subst h
  have := lo.isLt
  cases hi4 <;> cases hi3 <;> simp [regNum, BitVec.toNat_add] <;> omega

end AsmjitVerif.Lemmas.X86Parse
