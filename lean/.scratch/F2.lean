import AsmjitVerif.Lemmas.X86Parse
import AsmjitVerif.Props.C01
set_option linter.constructorNameAsVariable false
namespace AsmjitVerif.Props.C01
open Spec.X86 Model.X86 AsmjitVerif.Lemmas.X86Parse

theorem toNat_eq_of_zext {n : Nat} (a : BitVec n) (b : BitVec 32) (hn : n ≤ 32) (h : a.zeroExtend 32 = b) : a.toNat = b.toNat := by
  subst h; simp [BitVec.toNat_setWidth]; exact (Nat.mod_eq_of_lt (Nat.lt_of_lt_of_le a.isLt (Nat.pow_le_pow_right (by omega) hn))).symm

theorem regNum_eq4 (hi4 : Bool) (lo : BitVec 4) (r : BitVec 32)
    (h : (~~~lo).zeroExtend 32 + (if hi4 then 16#32 else 0#32) = r) : regNum hi4 false (15 - lo.toNat) = r.toNat := by
  subst h
  have := lo.isLt
  have e : (~~~lo).toNat = 15 - lo.toNat := by simp [BitVec.toNat_not]
  cases hi4 <;> simp [regNum, BitVec.toNat_add, e] <;> try omega

theorem regConds_plain (what : String) (k : RegKind) (id n : Nat) (p : Parsed)
    (hk : k ≠ .gpbhi ∧ k ≠ .gpb ∧ k ≠ .sreg) : allOk (regConds what k id n p) = (n == id) := by
  obtain ⟨h1, h2, h3⟩ := hk
  cases k <;> simp_all [regConds, allOk]

theorem allOk_append (a b : List Chk) : allOk (a ++ b) = (allOk a && allOk b) := by simp [allOk]
theorem allOk_cons (a : Chk) (b : List Chk) : allOk (a :: b) = (a.ok && allOk b) := by simp [allOk]
theorem allOk_nil : allOk [] = true := rfl

/-- Spec side: an EVEX byte string `62 P0 P1 P2 op ModRM` whose fields spell (reg, vvvv, rm) and the rule's map/pp/W/L/opcode
satisfies every condition of the monitor for a three-register form [reg, vvvv, rm]. -/
theorem evex_reg3_formOk (ctx : Spec.X86.Ctx) (rule : Rule) (p0 p1 p2 o mb : BitVec 8) (k0 k1 k2 : RegKind) (f0 f1 f2 : FormOp) (i0 i1 i2 : Nat)
    (hm64 : ctx.mode64 = true)
    (hk0 : k0 ≠ .gpbhi ∧ k0 ≠ .gpb ∧ k0 ≠ .sreg) (hk1 : k1 ≠ .gpbhi ∧ k1 ≠ .gpb ∧ k1 ≠ .sreg) (hk2 : k2 ≠ .gpbhi ∧ k2 ≠ .gpb ∧ k2 ≠ .sreg)
    (hmodes : rule.modes &&& 2 ≠ 0) (hs : rule.space = 2) (hpp8 : rule.pp &&& 8 = 0)
    (hri : rule.ri = false) (hmk : rule.modKind = 1 ∨ rule.modKind = 2) (hmr : rule.modr = 8) (hmrm : rule.modrm = 8)
    (himm : rule.immBytes = 0) (hrel : rule.relBytes = 0) (hmoff : rule.moff = false)
    (hf0 : f0.role = .reg) (hf1 : f1.role = .vvvv) (hf2 : f2.role = .rm)
    (hal : alignOps rule.oszEff rule.ops [.reg k0 i0, .reg k1 i1, .reg k2 i2] =
           some [(f0, some (.reg k0 i0)), (f1, some (.reg k1 i1)), (f2, some (.reg k2 i2))])
    -- fields of the bytes
    (h3 : bit p0 3 = false) (h2 : bit p1 2 = true) (hmod : bits mb 6 2 = 3)
    (hop : o.toNat = rule.opcode) (hmap : bits p0 0 3 = rule.map) (hppf : bits p1 0 2 = ppWant rule)
    (hw : wWant rule = 2 ∨ bit p1 7 = (wWant rule == 1))
    (hl : rule.l = 3 ∨ bits p2 5 2 = rule.l)
    (hreg : regNum (!bit p0 4) (!bit p0 7) (bits mb 3 3) = i0)
    (hvv : regNum (!bit p2 3) false (15 - bits p1 3 4) = i1)
    (hrm : regNum (!bit p0 6) (!bit p0 5) (bits mb 0 3) = i2)
    (haaa : bits p2 0 3 = 0) (hz : bit p2 7 = false) (hb : bit p2 4 = false) (hmaplt : rule.map < 8) :
    formOk ctx rule [.reg k0 i0, .reg k1 i1, .reg k2 i2] {} [0x62#8, p0, p1, p2, o, mb] = true := by
  simp only [formOk, conds, hm64, hal]
  rw [parse_evex_reg rule _ _ _ _ _ [] hs hpp8 (by rcases hmk with h | h <;> simp [h]) h3 h2 hmod (by simp [himm, hrel]) hmoff]
  simp only [allOk_cons, allOk_append, decorConds, headConds, prefixConds, modrmConds, operandConds, opConds, tailConds, hf0, hf1, hf2,
    regConds_plain _ _ _ _ _ hk0, regConds_plain _ _ _ _ _ hk1, regConds_plain _ _ _ _ _ hk2, allOk_nil, memOperandOf, implMemOf, usesVvvv,
    hasBcst, isLegacySpace, hs, hri]
  simp [hmodes, hop, hmap, hppf, hreg, hvv, hrm, haaa, hz, hb, hmod, hmr, hmrm, hmaplt]
  refine ⟨⟨⟨⟨hw, hl⟩, hpp8⟩, by rcases hmk with h | h <;> simp [h]⟩, ⟨Or.inl (Or.inr (Or.inl hf1)), Or.inl (Or.inr (Or.inl hf1))⟩, by simp [allOk]⟩


/-- VexRvm-shaped EVEX register form, model side + spec side: the bytes `EmitVexEvexR` produces in its EVEX branch for
(reg, vvvvv, rm) and an opcode word satisfy the monitor for every rule that agrees with the opcode word. -/
theorem evex_rvm_reg_formOk (ctx : Spec.X86.Ctx) (rule : Rule) (opcode reg vvvvv rm : BitVec 32) (k0 k1 k2 : RegKind) (f0 f1 f2 : FormOp)
    (hm64 : ctx.mode64 = true)
    (hr : reg < 32#32) (hv : vvvvv < 32#32) (hm : rm < 32#32)
    (hxop : opcode &&& 0x800#32 = 0#32)
    (hk0 : k0 ≠ .gpbhi ∧ k0 ≠ .gpb ∧ k0 ≠ .sreg) (hk1 : k1 ≠ .gpbhi ∧ k1 ≠ .gpb ∧ k1 ≠ .sreg) (hk2 : k2 ≠ .gpbhi ∧ k2 ≠ .gpb ∧ k2 ≠ .sreg)
    (hmodes : rule.modes &&& 2 ≠ 0) (hs : rule.space = 2) (hpp8 : rule.pp &&& 8 = 0)
    (hpp : ppWant rule = ((opcode >>> 21) &&& 3#32).toNat)
    (hmap : rule.map = ((opcode >>> 8) &&& 7#32).toNat)
    (hop : rule.opcode = (opcode &&& 0xFF#32).toNat) (hri : rule.ri = false)
    (hw : rule.w = 2 ∨ rule.w = (((opcode >>> 27) ||| (opcode >>> 28)) &&& 1#32).toNat)
    (hl : rule.l = 3 ∨ rule.l = ((opcode >>> 29) &&& 3#32).toNat)
    (hmk : rule.modKind = 1 ∨ rule.modKind = 2) (hmr : rule.modr = 8) (hmrm : rule.modrm = 8)
    (himm : rule.immBytes = 0) (hrel : rule.relBytes = 0) (hmoff : rule.moff = false)
    (hf0 : f0.role = .reg) (hf1 : f1.role = .vvvv) (hf2 : f2.role = .rm)
    (hal : alignOps rule.oszEff rule.ops [.reg k0 reg.toNat, .reg k1 vvvvv.toNat, .reg k2 rm.toNat] =
           some [(f0, some (.reg k0 reg.toNat)), (f1, some (.reg k1 vvvvv.toNat)), (f2, some (.reg k2 rm.toNat))]) :
    formOk ctx rule [.reg k0 reg.toNat, .reg k1 vvvvv.toNat, .reg k2 rm.toNat] {}
      (le32 (evexWord (xR opcode 0#32 reg vvvvv rm 0#32) opcode) ++ [opcode.truncate 8] ++
        [(encodeMod 3#32 ((reg + (vvvvv <<< 7)) &&& 7#32) (rm &&& 7#32)).truncate 8]) = true := by
  have hb0 : (evexWord (xR opcode 0#32 reg vvvvv rm 0#32) opcode).truncate 8 = 0x62#8 := by
    simp only [evexWord, xR, extractLLMMMMM, kLL_Mask, kMM_Mask, oEvex]; bv_decide
  obtain ⟨-, e15, e14, e13, e12, e11, e8, e23, e19, e18, e16, e31, e29, e28, e27, e24⟩ :=
    vex_evex_r_roundtrip opcode 0#32 reg vvvvv rm 0#32 hr hv hm (by decide) hxop (by decide)
  generalize evexWord (xR opcode 0#32 reg vvvvv rm 0#32) opcode = w at *
  simp only [le32, List.cons_append, List.nil_append, hb0]
  have hwW : wWant rule = rule.w := by simp [wWant, isLegacySpace, hs]
  apply evex_reg3_formOk ctx rule _ _ _ _ _ k0 k1 k2 f0 f1 f2 _ _ _ hm64 hk0 hk1 hk2 hmodes hs hpp8 hri hmk hmr hmrm himm hrel hmoff hf0 hf1 hf2 hal
  · simp only [bit]; bv_decide
  · simp only [bit]; bv_decide
  · show (BitVec.extractLsb' 6 2 _).toNat = 3
    exact congrArg BitVec.toNat (show BitVec.extractLsb' 6 2 _ = 3#2 by simp only [encodeMod]; bv_decide)
  · rw [hop]; exact toNat_eq_of_zext _ _ (by omega) (by bv_decide)
  · rw [hmap]; exact toNat_eq_of_zext _ _ (by omega) (by bv_decide)
  · rw [hpp]; exact toNat_eq_of_zext _ _ (by omega) (by bv_decide)
  · rw [hwW]
    rcases hw with h | h
    · exact Or.inl h
    · right
      have hc : ((opcode >>> 27) ||| (opcode >>> 28)) &&& 1#32 = 0#32 ∨ ((opcode >>> 27) ||| (opcode >>> 28)) &&& 1#32 = 1#32 := by bv_decide
      rcases hc with hc | hc
      · rw [h, hc]; simp only [bit]; simp; bv_decide
      · rw [h, hc]; simp only [bit]; simp; bv_decide
  · rcases hl with h | h
    · exact Or.inl h
    · right; rw [h]; exact toNat_eq_of_zext _ _ (by omega) (by bv_decide)
  · exact regNum_eq _ _ _ reg (by simp only [bit, encodeMod]; bv_decide)
  · exact regNum_eq4 _ _ vvvvv (by simp only [bit]; bv_decide)
  · exact regNum_eq _ _ _ rm (by simp only [bit, encodeMod]; bv_decide)
  · exact congrArg BitVec.toNat (show BitVec.extractLsb' 0 3 _ = 0#3 by bv_decide)
  · simp only [bit]; bv_decide
  · simp only [bit]; bv_decide
  · rw [hmap]; have : ((opcode >>> 8) &&& 7#32) < 8#32 := by bv_decide
    exact this

end AsmjitVerif.Props.C01
