import AsmjitVerif.Lemmas.X86Parse
set_option linter.constructorNameAsVariable false
namespace AsmjitVerif.Props.C01
open Spec.X86 AsmjitVerif.Lemmas.X86Parse

theorem regConds_plain (what : String) (k : RegKind) (id n : Nat) (p : Parsed)
    (hk : k ≠ .gpbhi ∧ k ≠ .gpb ∧ k ≠ .sreg) : allOk (regConds what k id n p) = (n == id) := by
  obtain ⟨h1, h2, h3⟩ := hk
  cases k <;> simp_all [regConds, allOk]

theorem allOk_append (a b : List Chk) : allOk (a ++ b) = (allOk a && allOk b) := by simp [allOk]
theorem allOk_cons (a : Chk) (b : List Chk) : allOk (a :: b) = (a.ok && allOk b) := by simp [allOk]
theorem allOk_nil : allOk [] = true := rfl

/-- Spec side: an EVEX byte string `62 P0 P1 P2 op ModRM` whose fields spell (reg, vvvv, rm) and the rule's map/pp/W/L/opcode
satisfies every condition of the monitor for a three-register form [reg, vvvv, rm]. -/
theorem evex_reg3_formOk (ctx : Spec.X86.Ctx) (rule : Rule) (p0 p1 p2 o mb : Byte) (k0 k1 k2 : RegKind) (f0 f1 f2 : FormOp) (i0 i1 i2 : Nat)
    (hm64 : ctx.mode64 = true)
    (hk0 : k0 ≠ .gpbhi ∧ k0 ≠ .gpb ∧ k0 ≠ .sreg) (hk1 : k1 ≠ .gpbhi ∧ k1 ≠ .gpb ∧ k1 ≠ .sreg) (hk2 : k2 ≠ .gpbhi ∧ k2 ≠ .gpb ∧ k2 ≠ .sreg)
    (hmodes : rule.modes &&& 2 ≠ 0) (hs : rule.space = 2) (hpp8 : rule.pp &&& 8 = 0)
    (hri : rule.ri = false) (hmk : rule.modKind = 1 ∨ rule.modKind = 2) (hmr : rule.modr = 8) (hmrm : rule.modrm = 8)
    (himm : rule.immBytes = 0) (hrel : rule.relBytes = 0) (hmoff : rule.moff = false)
    (hf0 : f0.role = .reg) (hf1 : f1.role = .vvvv) (hf2 : f2.role = .rm)
    (hal : alignOps rule.oszEff rule.ops [.reg k0 i0, .reg k1 i1, .reg k2 i2] =
           some [(f0, some (.reg k0 i0)), (f1, some (.reg k1 i1)), (f2, some (.reg k2 i2))])
    -- fields of the bytes
    (h3 : bit p0 3 = false) (h2 : bit p1 2 = true) (hmod : bits mb 6 2 = 3)
    (hop : o.toNat = rule.opcode) (hmap : bits p0 0 3 = rule.map) (hppf : bits p1 0 2 = ppWant rule)
    (hw : wWant rule = 2 ∨ bit p1 7 = (wWant rule == 1))
    (hl : rule.l = 3 ∨ bits p2 5 2 = rule.l)
    (hreg : regNum (!bit p0 4) (!bit p0 7) (bits mb 3 3) = i0)
    (hvv : regNum (!bit p2 3) false (15 - bits p1 3 4) = i1)
    (hrm : regNum (!bit p0 6) (!bit p0 5) (bits mb 0 3) = i2)
    (haaa : bits p2 0 3 = 0) (hz : bit p2 7 = false) (hb : bit p2 4 = false) (hmaplt : rule.map < 8) :
    formOk ctx rule [.reg k0 i0, .reg k1 i1, .reg k2 i2] {} [0x62#8, p0, p1, p2, o, mb] = true := by
  simp only [formOk, conds, hm64, hal]
  rw [parse_evex_reg rule _ _ _ _ _ [] hs hpp8 (by rcases hmk with h | h <;> simp [h]) h3 h2 hmod (by simp [himm, hrel]) hmoff]
  simp only [allOk_cons, allOk_append, decorConds, headConds, prefixConds, modrmConds, operandConds, opConds, tailConds, hf0, hf1, hf2,
    regConds_plain _ _ _ _ _ hk0, regConds_plain _ _ _ _ _ hk1, regConds_plain _ _ _ _ _ hk2, allOk_nil, memOperandOf, implMemOf, usesVvvv,
    hasBcst, isLegacySpace, hs, hri]
  simp [hmodes, hop, hmap, hppf, hreg, hvv, hrm, haaa, hz, hb, hmod, hmr, hmrm, hmaplt]
  refine ⟨⟨⟨⟨hw, hl⟩, hpp8⟩, by rcases hmk with h | h <;> simp [h]⟩, ⟨Or.inl (Or.inr (Or.inl hf1)), Or.inl (Or.inr (Or.inl hf1))⟩, by simp [allOk]⟩

end AsmjitVerif.Props.C01
