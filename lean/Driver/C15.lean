/-
Driver for C15 (allocation failure).
  `o reset` / `o <maskhex> <op> ...`   model mode: the fault model answers with the same text as harness/c15.cpp
  `m <op line> => <implementation answer>`   monitor mode for operations: the implementation's answers are judged by the
        SPEC (`specStep`): an out-of-memory answer must leave the observable state as it was (for `addr` the address
        table section may already exist), any other answer must be exactly the failure-free effect and answer
  `run ...`   monitor for one fault-injected workload run (`runGood`)
-/
import AsmjitVerif.Spec.Fault
import AsmjitVerif.Model.FaultPool
import AsmjitVerif.Model.FaultBuilder
import AsmjitVerif.Model.FaultCompiler
import AsmjitVerif.Model.FaultJit
import Driver.Common
namespace Driver.C15
open AsmjitVerif AsmjitVerif.Fault Driver

def hexOfBytes (bs : List Nat) : String :=
  if bs.isEmpty then "-" else String.ofList (bs.flatMap fun b => [hexChar (b / 16 % 16), hexChar (b % 16)])

def bytesOfHex (s : String) : Option (List Nat) := (hexToBytes? s).map fun l => l.map (·.toNat)

/-- 64-bit FNV-1a over bytes (same as `vh::Fnv` in harness/vh.h) -/
def fnvBytes (bs : List Nat) : String :=
  toHex (bs.foldl (fun (h : UInt64) b => (h ^^^ b.toUInt64) * 1099511628211) fnvInit).toNat

def joinC (xs : List String) : String := String.join (xs.map (· ++ ","))

def renderView (v : View) : String :=
  "S=" ++ joinC (v.sections.map fun s => s!"{hexOfBytes s.name}:{s.align}:{s.order}:{s.size}:{s.vsize}:{fnvBytes s.data}") ++
  " O=" ++ joinC (v.byOrder.map toString) ++
  " L=" ++ joinC (v.labels.map fun l => s!"{hexOfBytes l.name}:{l.type}:{l.parent}") ++
  s!" N={v.named.length}" ++
  " R=" ++ joinC (v.relocs.map fun r => s!"{r.1}:{if r.2 then 1 else 0}") ++
  " AT=" ++ (match v.addrTab with | some i => toString i | none => "-") ++
  " A=" ++ joinC ((v.addrs.toArray.qsort (· < ·)).toList.map toHex) ++
  s!" F={v.fixups}" ++
  " V=" ++ joinC (v.vec.map toString) ++
  " T=" ++ hexOfBytes v.str

def renderCaps (c : Caps) : String :=
  s!"C={c.secCap},{c.ordCap},{c.labCap},{c.relCap},{c.hashGrow},{c.hashPrime},{c.pool},{c.vecCap},{c.strCap}" ++
  " B=" ++ joinC (c.bufCap.map toString)

def errName : Err → String
  | .ok => "ok" | .oom => "OutOfMemory" | .invalidArgument => "InvalidArgument"
  | .invalidSectionName => "InvalidSectionName" | .invalidLabelName => "InvalidLabelName"
  | .labelNameTooLong => "LabelNameTooLong" | .invalidParentLabel => "InvalidParentLabel"
  | .labelAlreadyDefined => "LabelAlreadyDefined" | .invalidSection => "InvalidSection" | .invalidState => "InvalidState"

def parseOp (w : List String) : Option Op :=
  match w with
  | ["sec", nm, al, ord] => do
    let n ← bytesOfHex nm; let a ← al.toNat?; let o ← ord.toInt?
    some (.newSection n a o)
  | ["label"] => some .newLabel
  | ["named", nm, t, p] => do
    let n ← bytesOfHex nm; let t ← t.toNat?; let p ← p.toNat?
    some (.newNamed n t p)
  | ["reloc", t] => t.toNat?.map .newReloc
  | ["expr"] => some .exprReloc
  | ["fixup"] => some .newFixup
  | ["unfix"] => some .freeFixup
  | ["addr", a] => (parseHex? a).map .addAddr
  | ["emit", s, n] => do let s ← s.toNat?; let n ← n.toNat?; some (.emit s n)
  | ["inst", s, k] => do let s ← s.toNat?; let k ← k.toNat?; some (.inst s k)
  | ["jmpf", s] => s.toNat?.map .jmpf
  | ["vapp", x] => x.toNat?.map .vappend
  | ["vres", n] => n.toNat?.map .vreserve
  | ["sapp", n, c] => do let n ← n.toNat?; let c ← c.toNat?; some (.sappend n c)
  | _ => none

def oracleOfMask (m : Nat) : Oracle := (List.range 64).map fun i => (m >>> i) % 2 == 1

structure DS where
  st : St := St.init
  pool : FaultPool.FPool := {}
  /-- monitor of `padd`: the last pool dump of the implementation and the constants added so far with their offsets -/
  jit : JitAlloc.Alloc := JitAlloc.Alloc.init (JitAlloc.mkConfig 0 64 65536 0)
  jres : FaultMore.Res := {}
  jspans : List (Option (Nat × Nat)) := []
  jlast : String := ""
  cst : FaultCompiler.CSt := {}
  csv : FaultCompiler.CView := {}
  bst : FaultBuilder.BSt := {}
  /-- monitor of the Builder lines: the spec's view -/
  bsv : FaultBuilder.BView := {}
  lastPool : String := "P=0:0:0:- G="
  consts : List (List Nat × Nat) := []
  /-- monitor: the spec's view, equal to the implementation's last dump -/
  sv : View := {}

def answer (e : Err) (n : Nat) (s : St) : String := s!"{errName e} n={n} | {renderView s.v} | {renderCaps s.c}"

/-- `mklabels`: the two labels `expr`/`fixup` use, created without faults -/
def mkLabels (s : St) : St :=
  let (_, s1, _) := newLabel [] s
  let (_, s2, _) := newLabel [] s1
  s2

def renderPool (s : FaultPool.FPool) : String :=
  let img := ConstPool.fill s.p
  "P=" ++ s!"{s.p.size}:{s.p.alignment}:{s.gapPool}:{hexOfBytes (img.map (·.toNat))}" ++ " G=" ++
  joinC ((List.range 7).flatMap fun i => (ConstPool.getAt s.p.gaps i).map fun g => s!"{i}:{g.offset}:{g.size}")

def poolStep (d : DS) (mask : String) (hex : String) : DS × String :=
  match parseHex? mask, hexToBytes? hex with
  | some m, some bytes =>
    let o := oracleOfMask m
    let (o', s', r) := FaultPool.addF o d.pool bytes
    let (e, off) := match r with
      | .ok off => ("ok", toString off)
      | .invalidArgument => ("InvalidArgument", "-")
      | .oom => ("OutOfMemory", "-")
    ({ d with pool := s' }, s!"{e} n={o.length - o'.length} off={off} | {renderPool s'}")
  | _, _ => (d, "bad-op")

def modelStep (d : DS) (w : List String) : DS × String :=
  match w with
  | ["reset"] => ({ d with st := St.init, pool := {} }, answer .ok 0 St.init)
  | [mask, "padd", hex] => poolStep d mask hex
  | _ :: "mklabels" :: _ => let s := mkLabels d.st; ({ d with st := s }, answer .ok 0 s)
  | mask :: rest =>
    match parseHex? mask, parseOp rest with
    | some m, some op =>
      let o := oracleOfMask m
      let (o', s', e) := step op o d.st
      let s'' := if s'.corrupt then s' else s'
      ({ d with st := s'' }, answer e (o.length - o'.length) s' ++ (if s'.corrupt then " CORRUPT" else ""))
    | _, _ => (d, "bad-op")
  | _ => (d, "bad-op")

/-- view part of an implementation answer `<err> n=<k> | <view> | <caps>` -/
def splitAnswer (a : String) : Option (String × String) :=
  match a.splitOn " | " with
  | [h, v, _] => some ((words h).headD "", v)
  | _ => none

def withAddrTab (v : View) : View :=
  { specNewSection v [46, 97, 100, 100, 114, 116, 97, 98] 8 2147483647 with addrTab := some v.sections.length }

/-- monitor of one `padd`: out of memory => the pool dump (size, alignment, gap free list, image, gaps) is unchanged;
ok => the offset is aligned, inside the pool, the image carries the constant there, and every earlier constant is still found
at the offset it was given -/
def monPool (d : DS) (hex : String) (impl : String) : DS × String :=
  match impl.splitOn " | ", bytesOfHex hex with
  | [h, pd], some data =>
    let hw := words h
    let err := hw.headD ""
    let off := ((hw.getD 2 "").drop 4).toString.toNat?
    let img := (bytesOfHex ((((pd.splitOn " ").headD "").splitOn ":").getD 3 "-")).getD []
    let found (c : List Nat × Nat) : Bool := (img.drop c.2).take c.1.length == c.1
    if err == "OutOfMemory" then
      if pd == d.lastPool then (d, "good") else (d, "BAD out-of-memory answer but the pool changed")
    else if err == "ok" then
      match off with
      | none => (d, "BAD no offset")
      | some o =>
        let cs := (data, o) :: d.consts
        if data.length == 0 || o % data.length != 0 then ({ d with lastPool := pd, consts := cs }, "BAD misaligned offset")
        else if !cs.all found then ({ d with lastPool := pd, consts := cs }, "BAD a constant is not found at its offset in the image")
        else ({ d with lastPool := pd, consts := cs }, "good")
    else if pd == d.lastPool then (d, "good") else (d, "BAD refused add changed the pool")
  | _, _ => (d, "BAD unparsable answer")

def monStep (d : DS) (opw : List String) (impl : String) : DS × String :=
  match opw with
  | [_, "padd", hex] => monPool d hex impl
  | _ =>
  match splitAnswer impl with
  | none => (d, "BAD unparsable answer")
  | some (err, view) =>
    match opw with
    | ["reset"] => if view == renderView {} then ({ d with sv := {}, lastPool := "P=0:0:0:- G=", consts := [] }, "good") else (d, "BAD reset state")
    | _ :: "mklabels" :: _ =>
      let v := (specStep .newLabel (specStep .newLabel d.sv).1).1
      if view == renderView v then ({ d with sv := v }, "good") else (d, "BAD mklabels")
    | _ :: rest =>
      match parseOp rest with
      | none => (d, "BAD bad-op")
      | some op =>
        if err == "OutOfMemory" then
          if view == renderView d.sv then (d, "good")
          else match op with
            | .addAddr _ =>
              if d.sv.addrTab.isNone && view == renderView (withAddrTab d.sv) then ({ d with sv := withAddrTab d.sv }, "good")
              else (d, "BAD out-of-memory answer but the observable state changed")
            | _ => (d, "BAD out-of-memory answer but the observable state changed")
        else
          let (v', e') := specStep op d.sv
          if errName e' != err then (d, s!"BAD answer {err}, the failure-free answer is {errName e'}")
          else if view != renderView v' then ({ d with sv := v' }, "BAD state after the call differs from the failure-free effect")
          else ({ d with sv := v' }, "good")
    | _ => (d, "BAD bad-op")

def field (kv : List (String × String)) (k : String) : String := (kv.lookup k).getD ""

def monRun (w : List String) : String :=
  let kv := w.filterMap fun x => match x.splitOn "=" with | [a, b] => some (a, b) | _ => none
  let r : RunRec := {
    fired := (field kv "fired").toNat?.getD 0, errOk := field kv "err" == "ok",
    out := field kv "out", exec := field kv "exec", reuse := field kv "reuse", rexec := field kv "rexec",
    fresh := field kv "fresh", fexec := field kv "fexec", leak := (field kv "leak").toNat?.getD 1,
    clean := field kv "clean", cexec := field kv "cexec",
    strictRetry := w.headD "" == "asmretry" && (w.getD 1 "") != "multi" }
  if kv.lookup "clean" == none then "BAD unparsable record" else
  if runGood r then "good" else "BAD " ++
    (if !(r.errOk == false || sameCode r.out r.exec r.clean r.cexec) then "no error reported but the produced code differs;" else "") ++
    (if !(r.fired > 0 || r.errOk) then "error without an injected failure;" else "") ++
    (if r.leak != 0 then "leak;" else "") ++
    (if !(sameCode r.reuse r.rexec r.clean r.cexec && r.reuse.contains ':') then "the same objects do not reproduce the failure-free output;" else "") ++
    (if !(r.fresh == r.clean && r.fexec == r.cexec) then "fresh objects do not reproduce the failure-free output;" else "") ++
    (if r.strictRetry && !(r.errOk && r.out == r.clean) then "repeating the failed call did not produce the failure-free code;" else "")

/-! ### BaseBuilder lines -/

def renderNode : FaultBuilder.Node → String
  | .section i => s!"S{i}"
  | .inst k x o c => s!"I{k}" ++ (if x != 0 then s!"x{x}" else "") ++ (if o != 0 then s!"o{o}" else "") ++ (if c then "c" else "")
  | .label i => s!"L{i}"
  | .align n => s!"A{n}"
  | .data n => s!"D{n}"
  | .elabel i => s!"E{i}"
  | .comment n => s!"C{n}"

def renderBView (v : FaultBuilder.BView) : String :=
  "N=" ++ joinC (v.nodes.map renderNode) ++ s!" LC={v.labelCount} P={v.pendExtra},{v.pendOpts},{if v.pendCmt then 1 else 0}"

def renderBCaps (c : FaultBuilder.BCaps) : String :=
  s!"C={c.labCap},{c.lnCap} LN=" ++ String.join (c.lnodes.map fun b => if b then "1" else "0")

def bErrName : Err → String
  | .ok => "ok" | .oom => "OutOfMemory" | .invalidArgument => "InvalidLabel" | .invalidState => "LabelAlreadyBound"
  | e => errName e

def parseBOp (w : List String) : Option FaultBuilder.BOp :=
  match w with
  | ["emit", k] => k.toNat?.map .emit
  | ["setextra", r] => r.toNat?.map .setExtra
  | ["setopts", b] => b.toNat?.map .setOpts
  | ["setcmt"] => some .setComment
  | ["newlabel"] => some .newLabel
  | ["clabel"] => some .codeLabel
  | ["bind", l] => l.toNat?.map .bind
  | ["align", n] => n.toNat?.map .align
  | ["embed", n] => n.toNat?.map .embed
  | ["elabel", l] => l.toNat?.map .embedLabel
  | ["comment", n] => n.toNat?.map .comment
  | _ => none

def bModelStep (d : DS) (w : List String) : DS × String :=
  match w with
  | ["reset"] => ({ d with bst := {} }, s!"ok n=0 | {renderBView ({} : FaultBuilder.BView)} | {renderBCaps {}}")
  | mask :: rest =>
    match parseHex? mask, parseBOp rest with
    | some m, some op =>
      let o := oracleOfMask m
      let (o', s', e) := FaultBuilder.bstep op o d.bst
      ({ d with bst := s' }, s!"{bErrName e} n={o.length - o'.length} | {renderBView s'.v} | {renderBCaps s'.c}" ++
        (if s'.corrupt then " CORRUPT" else ""))
    | _, _ => (d, "bad-op")
  | _ => (d, "bad-op")

/-- monitor of a Builder call: out of memory => the node list is unchanged and at most one label id was used up (only by
`newlabel`); otherwise the failure-free effect, except that a comment that could not be duplicated may be dropped -/
def bMonStep (d : DS) (w : List String) (impl : String) : DS × String :=
  -- `ser` (serialization of the node list) is judged by comparing bytes with the failure-free run (tools/props/c15.py)
  if w.getD 1 "" == "ser" then (d, "good") else
  match impl.splitOn " | " with
  | [h, view, _] =>
    let err := (words h).headD ""
    match w with
    | ["reset"] => if view == renderBView {} then ({ d with bsv := {} }, "good") else (d, "BAD reset state")
    | _ :: rest =>
      match parseBOp rest with
      | none => (d, "BAD bad-op")
      | some op =>
        if err == "OutOfMemory" then
          let isEmit := match op with | .emit _ => true | _ => false
          let cleared := FaultBuilder.clearOneShot d.bsv
          if isEmit then
            -- a failed `_emit` must leave NO pending extra register / options / comment behind
            if view == renderBView cleared then ({ d with bsv := cleared }, "good")
            else (d, "BAD out-of-memory answer of _emit: the node list changed or one-shot state (extra register / options / comment) is still pending")
          else if view == renderBView d.bsv then (d, "good")
          else
            let leaked := { d.bsv with labelCount := d.bsv.labelCount + 1 }
            if op == .newLabel && view == renderBView leaked then ({ d with bsv := leaked }, "good")
            else (d, "BAD out-of-memory answer but the node list changed")
        else
          let (v', e') := FaultBuilder.bspec op d.bsv
          let alt : FaultBuilder.BView := match op with
            | .emit k => { FaultBuilder.clearOneShot d.bsv with nodes := d.bsv.nodes ++ [.inst k d.bsv.pendExtra d.bsv.pendOpts false] }
            | _ => v'
          if bErrName e' != err then (d, s!"BAD answer {err}, the failure-free answer is {bErrName e'}")
          else if view == renderBView v' then ({ d with bsv := v' }, "good")
          else if view == renderBView alt then ({ d with bsv := alt }, "good")
          else ({ d with bsv := v' }, "BAD state after the call differs from the failure-free effect")
    | _ => (d, "BAD bad-op")
  | _ => (d, "BAD unparsable answer")

/-! ### BaseCompiler lines -/

def renderCNode : FaultCompiler.CNode → String
  | .section => "S" | .func l => s!"F{l}" | .label i => s!"L{i}" | .sentinel => "Z"
  | .inst k x o => s!"I{k}" ++ (if x != 0 then s!"x{x}" else "") ++ (if o != 0 then s!"o{o}" else "") | .invoke n => s!"V{n}"

def renderCView (v : FaultCompiler.CView) : String :=
  "N=" ++ joinC (v.nodes.map renderCNode) ++ s!" CUR={v.cursor} LC={v.labelCount} R=" ++
  String.join (v.regs.map fun b => if b then "1" else "0") ++ s!" P={v.pendExtra},{v.pendOpts}"

def renderCCaps (c : FaultCompiler.CCaps) : String := s!"C={c.labCap},{c.lnSize},{c.lnCap},{c.vregCap}"

def cErrName : Err → String
  | .ok => "ok" | .oom => "OutOfMemory" | e => errName e

def parseCOp (w : List String) : Option FaultCompiler.COp :=
  match w with
  | ["reg", l] => l.toNat?.map fun n => .newReg (n != 0)
  | ["func", n] => n.toNat?.map .addFunc
  | ["invoke", n] => n.toNat?.map .invoke
  | ["emit", k] => k.toNat?.map .emit
  | ["endfunc"] => some .endFunc
  | ["setextra", r] => r.toNat?.map .setExtra
  | ["setopts", b] => b.toNat?.map .setOpts
  | _ => none

def cModelStep (d : DS) (w : List String) : DS × String :=
  match w with
  | ["reset"] => ({ d with cst := {} }, s!"ok n=0 | {renderCView ({} : FaultCompiler.CView)} | {renderCCaps {}}")
  | mask :: rest =>
    match parseHex? mask, parseCOp rest with
    | some m, some op =>
      let o := oracleOfMask m
      let (o', s', e) := FaultCompiler.cstep op o d.cst
      ({ d with cst := s' }, s!"{cErrName e} n={o.length - o'.length} | {renderCView s'.v} | {renderCCaps s'.c}" ++
        (if s'.corrupt then " CORRUPT" else ""))
    | _, _ => (d, "bad-op")
  | _ => (d, "bad-op")

/-- monitor of a Compiler call: out of memory => nodes, cursor and registers unchanged, at most two label ids used up (only by
`func`); otherwise the failure-free effect, except that a long register name that cannot be copied is dropped -/
def cMonStep (d : DS) (w : List String) (impl : String) : DS × String :=
  match impl.splitOn " | " with
  | [h, view, _] =>
    let err := (words h).headD ""
    match w with
    | ["reset"] => if view == renderCView {} then ({ d with csv := {} }, "good") else (d, "BAD reset state")
    | _ :: rest =>
      match parseCOp rest with
      | none => (d, "BAD bad-op")
      | some op =>
        if err == "OutOfMemory" then
          -- a failed `_emit` / `add_func` / `invoke` must leave no pending extra register / options behind
          let base := match op with
            | .emit _ | .addFunc _ | .invoke _ => FaultCompiler.clearPending d.csv
            | _ => d.csv
          let l1 := { base with labelCount := base.labelCount + 1 }
          let l2 := { base with labelCount := base.labelCount + 2 }
          let isFunc := match op with | .addFunc _ => true | _ => false
          if view == renderCView base then ({ d with csv := base }, "good")
          else if isFunc && view == renderCView l1 then ({ d with csv := l1 }, "good")
          else if isFunc && view == renderCView l2 then ({ d with csv := l2 }, "good")
          else (d, "BAD out-of-memory answer but the node list / cursor / registers changed or one-shot state is still pending")
        else
          let (v', e') := FaultCompiler.cspec op d.csv
          let alt : FaultCompiler.CView := match op with
            | .newReg true => { d.csv with regs := d.csv.regs ++ [false] }
            | _ => v'
          if cErrName e' != err then (d, s!"BAD answer {err}, the failure-free answer is {cErrName e'}")
          else if view == renderCView v' then ({ d with csv := v' }, "good")
          else if view == renderCView alt then ({ d with csv := alt }, "good")
          else ({ d with csv := v' }, "BAD state after the call differs from the failure-free effect")
    | _ => (d, "BAD bad-op")
  | _ => (d, "BAD unparsable answer")

/-! ### JitAllocator lines -/

def renderJit (a : JitAlloc.Alloc) : String :=
  let st := a.stats
  s!"blocks={st.blocks} allocs={st.allocs} used={st.used} reserved={st.reserved}"

def jModelStep (d : DS) (w : List String) : DS × String :=
  match w with
  | ["reset", opts] =>
    let a := JitAlloc.Alloc.init (JitAlloc.mkConfig (opts.toNat?.getD 0) 64 65536 0)
    ({ d with jit := a, jres := {}, jspans := [] }, s!"ok n=0 | {renderJit a}")
  | [mask, "alloc", size] =>
    match parseHex? mask, size.toNat? with
    | some m, some sz =>
      let o := oracleOfMask m
      let (o', a', res', r) := FaultJit.allocF o d.jit d.jres sz
      let n := o.length - o'.length
      match r with
      | .ok sp => ({ d with jit := a', jres := res', jspans := d.jspans ++ [some (sp.blk, sp.off)] }, s!"ok n={n} | {renderJit a'}")
      | .error e =>
        let en := if m != 0 then "fail" else e.name
        ({ d with jit := a', jres := res' }, s!"{en} n={n} | {renderJit a'}")
    | _, _ => (d, "bad-op")
  | [_, "release", i] =>
    match i.toNat? with
    | some i =>
      match d.jspans.getD i none with
      | some (blk, off) =>
        let (a', r) := d.jit.release blk off
        let en := match r with | .ok _ => "ok" | .error e => e.name
        ({ d with jit := a', jspans := d.jspans.set i none }, s!"{en} n=0 | {renderJit a'}")
      | none => (d, "precond")
    | none => (d, "bad-op")
  | _ => (d, "bad-op")

/-- monitor of the JitAllocator lines: a failed `alloc` leaves the statistics as they were -/
def jMonStep (d : DS) (w : List String) (impl : String) : DS × String :=
  if impl == "precond" then (d, "good") else
  match impl.splitOn " | " with
  | [h, st] =>
    let err := (words h).headD ""
    if err.startsWith "fail" && st != d.jlast then (d, "BAD a failed alloc changed the allocator's statistics")
    else if err != "ok" && !(err.startsWith "fail") && w.getD 1 "" == "alloc" && st != d.jlast then (d, "BAD a refused alloc changed the statistics")
    else ({ d with jlast := st }, "good")
  | _ => (d, "BAD unparsable answer")

def stepLine (d : DS) (line : String) : DS × String :=
  match line.splitOn " => " with
  | [l, impl] =>
    match words l with
    | "m" :: rest => monStep d rest impl
    | "mb" :: rest => bMonStep d rest impl
    | "mc" :: rest => cMonStep d rest impl
    | "mj" :: rest => jMonStep d rest impl
    | _ => (d, "bad-op")
  | _ =>
    match words line with
    | "o" :: rest => modelStep d rest
    | "b" :: rest => bModelStep d rest
    | "c" :: rest => cModelStep d rest
    | "j" :: rest => jModelStep d rest
    | "run" :: rest => (d, monRun rest)
    | _ => (d, "bad-op")

def main : IO Unit := do
  let stdin ← IO.getStdin
  let stdout ← IO.getStdout
  lineLoop stdin stdout ({} : DS) stepLine

end Driver.C15
