import AsmjitVerif.Model.Emitter
import AsmjitVerif.Spec.Emitter
import Driver.Common
open AsmjitVerif.Emitter AsmjitVerif.Offset
namespace Driver.C14

/-! Line protocol of C14 (see tools/props/c14.py).

model mode  (state = one assembler session of Model/Emitter.lean)
  new <x86|x64|a64> <ret|rec|thr|none>
  label | nlabel <hexname|-> <type> <parent> | bind <id> | align <mode> <n> | embed <hex> | embedarr <type> <hexitem|-> <count> <repeat>
  cpool <id> <pool alignment> <pool bytes hex|-> | elabel <id> <size> | edelta <id> <base> <size> | newsec <hexname> <flags> <align> | section <idx|foreign>
  emit <refs a,b|-> <opts hex> <extra 0|1> <comment 0|1> rej <err>
  emit <refs a,b|-> <opts hex> <extra 0|1> <comment 0|1> acc <hexbytes|-> <nrel> <nf label:type:vsize:voff:bits:shift:discard:off:rel:reloc|-> <new sections>
  -> <code> rep=<0|1> O <opts> <sig> <id> <cmt> sec=<sizes> lab=<n> bnd=<n> rel=<n> fix=<n> cur=<n> off=<n> bh=<fnv of the section bytes>

monitor mode (stateless; one observation per line)
  mon <emit|bind|call|holder|finalize> <asm 0|1> <ret|rec|thr|none> <ret> <handled a,b|-> <thrown 0|1> <o1> <o2> <o3> <o4> <p1> <p2> <p3> <p4> ; <snap> ; <snap> ; <snap> ; <refs|-> ; <id:max,..|->
  snap = sec=.. lab=.. bnd=.. rel=.. fix=.. adr=.. nod=.. cur=.. off=.. h=.. bh=..
  -> good | BAD <clause>
-/

def natList? (s : String) : Option (List Nat) :=
  if s == "-" then some [] else (s.splitOn ",").mapM String.toNat?

def secHash (s : St) : String :=
  toHex (fnvStr fnvInit ("/".intercalate (s.secs.map fun sec => bytesToHex sec.data))).toNat

def showSt (r : Res) : String :=
  let s := r.st
  let b (x : Bool) : String := if x then "1" else "0"
  s!"{r.code} rep={b r.reported} O {toHex s.one.options} {toHex s.one.extraSig} {s.one.extraId} {b s.one.comment} " ++
  s!"sec={",".intercalate (s.secs.map fun sec => toString sec.data.length)} lab={s.labels.length} bnd={s.boundCount} rel={s.relocs} " ++
  s!"fix={s.unresolved} cur={s.cur} off={s.offset} bh={secHash s}"

def parseFixup (s : String) : Option FixupReq :=
  match s.splitOn ":" with
  | [l, t, vs, vo, bc, bs, dl, off, rel, rl] => do
    let t ← t.toNat? >>= OffsetType.ofCode
    some { label := ← l.toNat?, off := ← off.toNat?, rel := ← rel.toInt?,
           fmt := { type := t, valueSize := ← vs.toNat?, valueOffset := ← vo.toNat?, bitCount := ← bc.toNat?, bitShift := ← bs.toNat?,
                    discard := ← dl.toNat? },
           withReloc := rl != "-" }
  | _ => none

def parseOp (s : St) (ws : List String) : Option Op :=
  match ws with
  | ["label"] => some .newLabel
  | ["nlabel", n, t, p] => do some (.newNamedLabel (← hexToBytes? n) (← t.toNat?) (← p.toNat?))
  | ["bind", i] => do some (.bind (← i.toNat?))
  | ["align", m, a] => do some (.align (← m.toNat?) (← a.toNat?))
  | ["embed", h] => do some (.embed (← hexToBytes? h))
  | ["embedarr", t, item, c, r] => do
    let item ← hexToBytes? item
    let c ← c.toNat?
    -- data as the harness lays it out: min(count,64) blocks of 16 bytes, block i = the item pattern (or the byte i when empty)
    let blocks := (List.range (min c 64)).map fun i =>
      (List.range 16).map fun k => if item.isEmpty then BitVec.ofNat 8 i else item.getD (k % item.length) 0
    some (.embedArray (← t.toNat?) (blocks.flatten ++ List.replicate 64 0) c (← r.toNat?))
  | ["elabel", i, z] => do some (.embedLabel (← i.toNat?) (← z.toNat?))
  | ["edelta", i, b, z] => do some (.embedLabelDelta (← i.toNat?) (← b.toNat?) (← z.toNat?))
  | ["cpool", i, a, d] => do some (.embedConstPool (← i.toNat?) (← a.toNat?) (← hexToBytes? d))
  | ["newsec", n, _, a] => do some (.newSection (← hexToBytes? n).length (← a.toNat?))
  | ["section", i] =>
    if i == "foreign" then some (.section none) else do
      let i ← i.toNat?
      some (.section (if i < s.secs.length then some i else none))
  | "emit" :: refs :: opts :: ex :: cm :: rest => do
    let refs ← natList? refs
    let pre : OneShot := { options := ← parseHex? opts, extraSig := if ex == "1" then 1 else 0, extraId := 0, comment := cm == "1" }
    match rest with
    | ["rej", e] => some (.emit pre refs (.reject (← e.toNat?)))
    | ["acc", bytes, nrel, nf, nsec] =>
      let fx ← if nf == "-" then some none else (parseFixup nf).map some
      some (.emit pre refs (.accept (← hexToBytes? bytes) fx (← nrel.toNat?) (← nsec.toNat?)))
    | _ => none
  | _ => none

def stepModel (s : St) (ws : List String) : St × String :=
  match ws with
  | ["new", arch, h] =>
    let a : ArchKind := if arch == "x86" then .x86 else if arch == "a64" then .a64 else .x64
    let hk : HandlerKind := if h == "ret" then .returning else if h == "rec" then .recording else if h == "thr" then .throwing else .none
    ({ arch := a, handler := hk }, "ok")
  | pre :: rest =>
    if pre.startsWith "@" then
      -- one-shot state set right before a non-instruction call: "@<options hex>,<extra 0|1>,<comment 0|1>"; judged, then dropped
      match (pre.drop 1).toString.splitOn ",", parseOp s rest with
      | [o, x, c], some op =>
        match parseHex? o with
        | some o =>
          let s1 := { s with one := { options := o, extraSig := if x == "1" then 1 else 0, extraId := 0, comment := c == "1" } }
          let r := step s1 op
          ({ r.st with one := OneShot.empty }, showSt r)
        | none => (s, "badline")
      | _, _ => (s, "badline")
    else
      match parseOp s ws with
      | some op => let r := step s op; (r.st, showSt r)
      | none => (s, "badline")
  | [] => (s, "badline")

/-! monitor -/
open AsmjitVerif.EmitterSpec

def field (kvs : List (String × String)) (k : String) : Option String := (kvs.find? (·.1 == k)).map (·.2)

def parseSnap (ws : List String) : Option (Snap String) := do
  let kvs := ws.filterMap fun w => match w.splitOn "=" with | [k, v] => some (k, v) | _ => none
  let n (k : String) : Option Nat := field kvs k >>= (·.toNat?)
  let sizesStr ← field kvs "sec"
  -- a shadow that refused an accepted call is marked in the size list: it can never compare equal
  let sizes := ((sizesStr.splitOn ",").mapM String.toNat?).getD [0xFFFFFFFFFFFFFFFF]
  some { sizes := sizes, labels := ← n "lab", bound := ← n "bnd", relocs := ← n "rel", fixups := ← n "fix", nodes := ← n "nod",
         digest := s!"{(← field kvs "h")}/{(← field kvs "cur")}/{(← field kvs "off")}/{(← field kvs "adr")}/{sizesStr}" }

def splitOnWord (ws : List String) (sep : String) : List (List String) :=
  let rec go (acc : List String) (out : List (List String)) : List String → List (List String)
    | [] => (acc.reverse :: out).reverse
    | w :: rest => if w == sep then go [] (acc.reverse :: out) rest else go (w :: acc) out rest
  go [] [] ws

def parsePairs (s : String) : Option (List (Nat × Nat)) :=
  if s == "-" then some [] else
  (s.splitOn ",").mapM fun p => match p.splitOn ":" with
    | [a, b] => do some (← a.toNat?, ← b.toNat?)
    | _ => none

def monitor (ws : List String) : String :=
  match splitOnWord ws ";" with
  | [hd, b, a, sh, [refs], [phys]] =>
    match hd with
    | [kind, asm, h, ret, handled, thrown, o1, o2, o3, o4, p1, p2, p3, p4] =>
      let r : Option (Obs String) := do
        let kind : CallKind ← match kind with
          | "emit" => some .emit | "bind" => some .bind | "call" => some .emitterCall | "holder" => some .holderCall | "finalize" => some .finalize | _ => none
        let h : Handler := if h == "ret" then .returning else if h == "rec" then .recording else if h == "thr" then .throwing else .none
        some { kind := kind, isAssembler := asm == "1", handler := h, ret := ← ret.toNat?, handled := ← natList? handled,
               thrown := thrown == "1", oneShot := (← parseHex? o1, ← parseHex? o2, ← o3.toNat?, o4 == "1"),
               oneShotBefore := (← parseHex? p1, ← parseHex? p2, ← p3.toNat?, p4 == "1"),
               before := ← parseSnap b, after := ← parseSnap a, shadow := ← parseSnap sh,
               labelRefs := ← natList? refs, physIds := ← parsePairs phys }
      match r with
      | some o => match verdict o with
        | none => "good"
        | some c => "BAD " ++ c
      | none => "badline"
    | _ => "badline"
  | _ => "badline"

def main : IO Unit := do
  let stdin ← IO.getStdin
  let stdout ← IO.getStdout
  lineLoop stdin stdout ({} : St) fun s line =>
    let ws := words line
    match ws with
    | "mon" :: rest => (s, monitor rest)
    | _ => stepModel s ws

end Driver.C14
