import AsmjitVerif.Model.Sections
import AsmjitVerif.Spec.Sections
import Driver.Common
open AsmjitVerif.Sections
namespace Driver.C10

/-! Line protocol of harness/c10.cpp.  Model mode: op lines → answers of the model.
    Monitor mode: lines `mon <op> => <answer of the real code>`; the Spec monitors judge the trace. -/

def pattern (k : Nat) : Byte := BitVec.ofNat 8 (0xC1 + k % 13)
def freshDst (n : Nat) : List Byte := (List.range n).map pattern

def hex2 (b : Byte) : String := String.ofList [hexChar (b.toNat / 16), hexChar (b.toNat % 16)]

/-- run-length encoding used for destination buffers: `bb` or `bbxN`, joined by '.' -/
def rle (bs : List Byte) : String :=
  let rec go (cur : Byte) (cnt : Nat) (rest : List Byte) (acc : List String) : List String :=
    match rest with
    | [] => ((if cnt == 1 then hex2 cur else hex2 cur ++ "x" ++ toString cnt) :: acc).reverse
    | b :: rest' =>
      if b == cur then go cur (cnt + 1) rest' acc
      else go b 1 rest' ((if cnt == 1 then hex2 cur else hex2 cur ++ "x" ++ toString cnt) :: acc)
  match bs with
  | [] => "-"
  | b :: rest => ".".intercalate (go b 1 rest [])

def unrle (s : String) : Option (List Byte) :=
  if s == "-" then some [] else
  (s.splitOn ".").foldr (fun tok acc => do
      let acc ← acc
      match tok.splitOn "x" with
      | [b] => match hexToBytes? b with
        | some [x] => some (x :: acc)
        | _ => none
      | [b, n] => match hexToBytes? b, n.toNat? with
        | some [x], some k => some (List.replicate k x ++ acc)
        | _, _ => none
      | _ => none) (some [])

def secLine (s : Section) : String :=
  s!"{s.id}:{s.order}:{s.align}:{toHex s.offset}:{toHex s.vsize}:{if s.data.isEmpty then "-" else bytesToHex s.data}"

def stateLine (cs : Nat) (at? : Option Nat) (secs : List Section) : String :=
  let a := match at? with
    | some i => toString i
    | none => "-"
  "cs=" ++ toHex cs ++ " at=" ++ a ++ " n=" ++ toString secs.length ++ String.join (secs.map fun s => " | " ++ secLine s)

def exc (r : Except Err String) : String :=
  match r with
  | .ok s => if s.isEmpty then "ok" else "ok " ++ s
  | .error e => "err " ++ e.name

def copyOut : CopyResult → String
  | .ok d => "ok " ++ rle d
  | .error e => "err " ++ e.name
  | .fault => "FAULT"

def nameOf (w : String) : String := if w == "-" then "" else w

def namesLine (h : Holder) : String :=
  ",".intercalate ((List.range h.secs.length).map fun i =>
    match findSec h.secs i with
    | some s => toString i ++ "=" ++ (if s.name.isEmpty then "-" else bytesToHex (s.name.toUTF8.toList.map fun b => BitVec.ofNat 8 b.toNat))
    | none => toString i ++ "=?")

def findByName (h : Holder) (name : String) : String :=
  match (List.range h.secs.length).filterMap (fun i => (findSec h.secs i).bind fun s => if s.name == name then some i else none) with
  | i :: _ => toString i
  | [] => "none"

/-- model mode -/
def modelStep (h : Holder) (ws : List String) : Holder × String :=
  match ws with
  | ["init"] => (init, "ok")
  | ["reinit"] => (reinit h, "ok")
  | ["reset", _] => (reinit h, "ok")
  | ["sec", name, al, ord] =>
    match al.toNat?, ord.toInt? with
    | some a, some o =>
      let (h', r) := newSection h (nameOf name) (BitVec.ofNat 32 a) o
      (h', exc (r.map toString))
    | _, _ => (h, "bad-op")
  | ["data", id, hx] =>
    match id.toNat?, hexToBytes? hx with
    | some i, some b => let (h', r) := appendData h i b; (h', exc (r.map toString))
    | _, _ => (h, "bad-op")
  | ["vsize", id, hx] =>
    match id.toNat?, parseHex? hx with
    | some i, some v => let (h', r) := setVsize h i v; (h', exc (r.map fun _ => ""))
    | _, _ => (h, "bad-op")
  | ["addr", hx] =>
    match parseHex? hx with
    | some a => (addAddress h a, "ok")
    | none => (h, "bad-op")
  | ["call", id, hx] =>
    match id.toNat?, parseHex? hx with
    | some i, some a => let (h', r) := emitCall h i false a; (h', exc (r.map toString))
    | _, _ => (h, "bad-op")
  | ["jmp", id, hx] =>
    match id.toNat?, parseHex? hx with
    | some i, some a => let (h', r) := emitCall h i true a; (h', exc (r.map toString))
    | _, _ => (h, "bad-op")
  | ["copy", n, fl] =>
    match n.toNat?, fl.toNat? with
    | some n, some fl => (h, copyOut (copyFlattened h (freshDst n) (CopyFlags.ofNat fl)))
    | _, _ => (h, "bad-op")
  | ["flatten"] => let (h', r) := flatten h; (h', exc (r.map fun _ => ""))
  | ["state"] => (h, stateLine (codeSize h) h.addrTab h.secs)
  | ["reloc", hx] =>
    match parseHex? hx with
    | some b =>
      let (h', r, red) := relocate h b
      (h', exc (r.map fun _ => "red=" ++ toHex red))
    | none => (h, "bad-op")
  | ["copysec", id, n, fl] =>
    match id.toNat?, n.toNat?, fl.toNat? with
    | some i, some n, some fl => (h, copyOut (copySection h (freshDst n) i (CopyFlags.ofNat fl)))
    | _, _, _ => (h, "bad-op")
  | ["names"] => (h, namesLine h)
  | ["find", name] => (h, findByName h (nameOf name))
  | ["jitadd"] =>
    -- the base is the address of the allocated span, unknown to the model: the generator only issues `jitadd` when there
    -- are no relocations, so that the base does not matter. The harness reads `code_size()` bytes of the installed image.
    match jitAdd h 0 with
    | (h', some (.ok img)) => (h', "ok " ++ rle (img.take (codeSize h')))
    | (h', some (.error e)) => (h', "err " ++ e.name)
    | (h', none) => (h', "FAULT")
  | _ => (h, "bad-op")

/-! ### monitor mode -/

structure Obs where
  cs : Nat
  at? : Option Nat
  secs : List Section
deriving Repr

def parseSec (s : String) : Option Section :=
  match s.splitOn ":" with
  | [id, ord, al, off, vs, data] => do
    some { id := ← id.toNat?, order := ← ord.toInt?, align := ← al.toNat?, offset := ← parseHex? off, vsize := ← parseHex? vs,
           name := "", data := ← hexToBytes? data }
  | _ => none

def parseState (ws : List String) : Option Obs :=
  match ws with
  | cs :: at_ :: _n :: rest =>
    if !cs.startsWith "cs=" || !at_.startsWith "at=" then none else do
    let c ← parseHex? (cs.drop 3).toString
    let a := (at_.drop 3).toString.toNat?
    let secs ← (rest.filter (· ≠ "|")).mapM parseSec
    some { cs := c, at? := a, secs := secs }
  | _ => none

structure Mon where
  cur : Obs
  pending : Option (List String × List String)   -- mutating op and its answer, judged at the next `state`
  names : List (Nat × String)                    -- accepted `sec` ops: id, name
  flat : Bool                                    -- the table was flattened successfully and not changed since

def initObs : Obs := { cs := 0, at? := none, secs := [{ textSection with name := "" }] }
def Mon.init : Mon := { cur := initObs, pending := none, names := [(0, ".text")], flat := false }

def sameExcept (pre post : List Section) (id : Nat) : Bool :=
  pre.length == post.length && (pre.zip post).all fun (a, b) => a.id == b.id && (a.id == id || a == b)

/-- judge a mutating op once the state after it is known -/
def judge (m : Mon) (op ans : List String) (pre post : Obs) : Mon × String :=
  let csOk := post.cs == codeSizeSpec post.secs
  let sorted := sortedB post.secs
  let idsOk := (post.secs.map (·.id)).mergeSort == List.range post.secs.length
  let base (m : Mon) (verdict : String) : Mon × String :=
    if !sorted then (m, "BAD sec-order table not sorted by (order,id)")
    else if !idsOk then (m, "BAD sec-ids ids are not 0..n-1")
    else if !csOk then (m, s!"BAD codesize code_size()={toHex post.cs} expected {toHex (codeSizeSpec post.secs)}")
    else (m, verdict)
  match op, ans with
  | "reinit" :: _, ["ok"] =>
    if post.secs == initObs.secs && post.cs == 0 && post.at?.isNone then ({ Mon.init with cur := post }, "good")
    else (m, "BAD reuse-state after reinit the section table is not the table of a fresh CodeHolder")
  | "reset" :: _, ["ok"] =>
    if post.secs == initObs.secs && post.cs == 0 && post.at?.isNone then ({ Mon.init with cur := post }, "good")
    else (m, "BAD reuse-state after reset+init the section table is not the table of a fresh CodeHolder")
  | ["sec", name, al, ord], ["ok", id] =>
    match al.toNat?, ord.toInt?, id.toNat? with
    | some a, some o, some i =>
      let a32 := BitVec.ofNat 32 a
      let want : Section := { id := i, order := o, align := if a == 0 then 1 else a, offset := sizeMax, vsize := 0, name := "", data := [] }
      if !(a32 &&& (a32 - 1) == 0) then base m "BAD sec-accepted alignment is not a power of two"
      else if (nameOf name).length > maxSectionNameSize then base m "BAD sec-accepted name too long"
      else if i != pre.secs.length then base m "BAD sec-id new id is not the section count"
      else if post.secs.filter (·.id != i) != pre.secs then base m "BAD sec-table old sections changed"
      else if !post.secs.contains want then base m "BAD sec-table new section missing or wrong"
      else base { m with names := m.names ++ [(i, nameOf name)], flat := false } "good"
    | _, _, _ => (m, "bad-op")
  | ["sec", name, al, _], ["err", e] =>
    match al.toNat? with
    | some a =>
      let a32 := BitVec.ofNat 32 a
      let bad := !(a32 &&& (a32 - 1) == 0)
      let long := (nameOf name).length > maxSectionNameSize
      if post.secs != pre.secs then base m "BAD sec-refused table changed by a refused call"
      else if bad && e == "InvalidArgument" then base m "good"
      else if !bad && long && e == "InvalidSectionName" then base m "good"
      else base m ("BAD sec-refused valid section refused or wrong error " ++ e)
    | none => (m, "bad-op")
  | ["data", id, hx], "ok" :: _ =>
    match id.toNat?, hexToBytes? hx with
    | some i, some b =>
      let want := modifySec pre.secs i fun s => { s with data := s.data ++ b }
      if post.secs != want then base m "BAD data-append section data not appended exactly" else base { m with flat := false } "good"
    | _, _ => (m, "bad-op")
  | ["vsize", id, hx], ["ok"] =>
    match id.toNat?, parseHex? hx with
    | some i, some v =>
      let want := modifySec pre.secs i fun s => { s with vsize := v }
      if post.secs != want then base m "BAD vsize-set" else base { m with flat := false } "good"
    | _, _ => (m, "bad-op")
  | "flatten" :: _, ["ok"] =>
    if flattenGood pre.secs post.secs pre.cs post.cs then base { m with flat := true } "good"
    else
      let why :=
        if !(post.secs.map (·.offset) == idealOffsets 0 pre.secs) then "offsets are not the least aligned ones"
        else if !layoutChk 0 0 post.secs then "overlap or misalignment after extension"
        else if !(post.cs == pre.cs) then s!"code_size changed {toHex pre.cs} -> {toHex post.cs}"
        else if !(post.cs == lastEnd post.secs) then "code_size is not the end of the last section"
        else "sections changed (empty section became non-empty, data, size shrank)"
      base m ("BAD flatten-layout " ++ why)
  | "flatten" :: _, ["err", e] =>
    if post.secs != pre.secs then base m "BAD flatten-refused table changed by a refused flatten"
    else if e == "TooLarge" && decide (idealEnd 0 pre.secs ≥ U64) then base m "good"
    else base m ("BAD flatten-refused representable layout refused: " ++ e)
  | "reloc" :: _, ["ok", red] =>
    match parseHex? (red.drop 4).toString with
    | some r =>
      if !relocGood pre.cs post.cs r then base m s!"BAD reloc-size estimate {toHex pre.cs} final {toHex post.cs} reduction {toHex r}"
      -- a flattened table stays a layout: code_size() still covers every section (a destination of code_size() bytes is accepted)
      else if m.flat && !(decide (imageEnd post.secs ≤ post.cs) && fitsB post.cs post.secs) then
        base m s!"BAD reloc-layout after relocation code_size()={toHex post.cs} is smaller than a section end {toHex (imageEnd post.secs)}"
      else base { m with flat := false } "good"
    | none => (m, "bad-op")
  | "reloc" :: _, "err" :: _ =>
    if decide (post.cs ≤ pre.cs) then base { m with flat := false } "good" else base m "BAD reloc-size code size grew in a failed relocation"
  | "jitadd" :: _, ["err", "NoCodeGenerated"] =>
    if post.cs == 0 then base { m with flat := false } "good"
    else base m "BAD jit-refused JitRuntime::add says NoCodeGenerated although code_size() is not 0"
  | "jitadd" :: _, "ok" :: [img] =>
    match unrle img with
    | some o =>
      let want := (List.range post.cs).map (imageByte post.secs post.cs { padSection := true, padTarget := true } (fun _ => 0))
      if post.cs == 0 then base m "BAD jit-empty JitRuntime::add returned kOk for an empty image"
      else if o == want then base { m with flat := false } "good" else base m "BAD jit-image image placed by JitRuntime differs from the sections"
    | none => (m, "bad-op")
  | _, _ =>
    let m := match pre.at?, post.at? with
      | none, some i => { m with names := m.names ++ [(i, ".addrtab")] }
      | _, _ => m
    base { m with flat := false } "good"

def initFn (k : Nat) : Byte := pattern k

def monStep (m : Mon) (op ans : List String) : Mon × String :=
  match op with
  | ["init"] => (Mon.init, "good")
  | ["state"] =>
    match parseState ans with
    | none => (m, "bad-op unparsable state")
    | some o =>
      match m.pending with
      | some (pop, pans) => let (m', v) := judge { m with pending := none } pop pans m.cur o; ({ m' with cur := o }, v)
      | none =>
        if o.secs != m.cur.secs then ({ m with cur := o }, "BAD state-changed state changed without an operation")
        else ({ m with cur := o }, if o.cs == codeSizeSpec o.secs then "good" else s!"BAD codesize code_size()={toHex o.cs} expected {toHex (codeSizeSpec o.secs)}")
  | ["copy", n, fl] =>
    match n.toNat?, fl.toNat?, ans with
    | some n, some fl, ["GUARD-BROKEN"] => let _ := (n, fl); (m, "BAD copy-guard bytes outside the destination were written")
    | some n, some fl, ["ok", img] =>
      match unrle img with
      | some o =>
        if !fitsB n m.cur.secs then (m, "BAD copy-refusal a destination that is too small was accepted")
        else if o.length != n then (m, "BAD copy-image result length differs from the destination")
        -- byte exactness is a statement about tables WITHOUT overlap (sections changed after the last flatten may overlap:
        -- then later sections overwrite earlier ones and the property says nothing)
        else if !noOverlapB m.cur.secs then (m, "good")
        else if imageGood m.cur.secs n (CopyFlags.ofNat fl) initFn (some o) then (m, "good")
        else (m, "BAD copy-image flattened image is not exact")
      | none => (m, "bad-op")
    | some n, some fl, "err" :: _ =>
      if imageGood m.cur.secs n (CopyFlags.ofNat fl) initFn none then (m, "good") else (m, "BAD copy-refusal a sufficient destination was refused")
    | _, _, _ => (m, "bad-op")
  | ["copysec", id, n, fl] =>
    match id.toNat?, n.toNat?, fl.toNat? with
    | some i, some n, some fl =>
      match findSec m.cur.secs i, ans with
      | _, ["GUARD-BROKEN"] => (m, "BAD copy-guard bytes outside the destination were written")
      | none, ["err", "InvalidSection"] => (m, "good")
      | none, _ => (m, "BAD copysec-invalid invalid section id accepted")
      | some s, ["ok", img] =>
        match unrle img with
        | some o => (m, if sectionImageGood s n (CopyFlags.ofNat fl) initFn (some o) then "good" else "BAD copysec-image section copy is not exact")
        | none => (m, "bad-op")
      | some s, "err" :: _ =>
        (m, if sectionImageGood s n (CopyFlags.ofNat fl) initFn none then "good" else "BAD copysec-refusal a sufficient destination was refused")
      | _, _ => (m, "bad-op")
    | _, _, _ => (m, "bad-op")
  | ["names"] =>
    let want := ",".intercalate (m.names.map fun (i, nm) =>
      toString i ++ "=" ++ (if nm.isEmpty then "-" else bytesToHex (nm.toUTF8.toList.map fun b => BitVec.ofNat 8 b.toNat)))
    let got := " ".intercalate ans
    (m, if got == want then "good" else "BAD names section names differ from the names given")
  | ["find", name] =>
    let want := match m.names.find? (fun p => p.2 == nameOf name) with
      | some (i, _) => toString i
      | none => "none"
    (m, if ans == [want] then "good" else "BAD names section_by_name(" ++ name ++ ") = " ++ " ".intercalate ans ++ " expected " ++ want)
  | _ => ({ m with pending := some (op, ans) }, "good")

structure St where
  h : Holder
  m : Mon

def splitArrow (ws : List String) : List String × List String :=
  (ws.takeWhile (· ≠ "=>"), (ws.dropWhile (· ≠ "=>")).drop 1)

def step (st : St) (line : String) : St × String :=
  match words line with
  | "mon" :: rest =>
    let (op, ans) := splitArrow rest
    let (m', v) := monStep st.m op ans
    ({ st with m := m' }, v)
  | ws => let (h', o) := modelStep st.h ws; ({ st with h := h' }, o)

def main : IO Unit := do
  lineLoop (← IO.getStdin) (← IO.getStdout) { h := init, m := Mon.init } step

end Driver.C10
