import AsmjitVerif.Spec.JitTrace
import Driver.Common
open AsmjitVerif.JitTrace
namespace Driver.C11

structure St where
  gran : Nat := 64
  spans : List SpanRec := []
  lin : List LinEv := []        -- reversed
  po : List LinEv := []         -- reversed

def step (st : St) (line : String) : St × String :=
  match words line with
  | ["cfg", g] => ({ st with gran := g.toNat?.getD 64, spans := [] }, "")
  | ["span", tid, addr, size, req, t0, t1, ok] =>
    match tid.toNat?, parseHex? addr, size.toNat?, req.toNat?, t0.toNat?, t1.toNat? with
    | some tid, some addr, some size, some req, some t0, some t1 =>
      ({ st with spans := { tid, addr, size, requested := req, t0, t1, contentOk := ok == "1" } :: st.spans }, "")
    | _, _, _, _, _, _ => (st, "bad-op")
  | "code" :: _tid :: _runs :: a :: c :: _ =>
    (st, if a == "asm_diff=0" && c == "cc_diff=0" then "" else "BAD per-thread code differs from single-threaded code: " ++ line)
  | ["lin", tid, seq, sig] =>
    match tid.toNat?, seq.toNat? with
    | some tid, some seq => ({ st with lin := { tid, seq, sig } :: st.lin }, "")
    | _, _ => (st, "bad-op")
  | ["po", tid, seq, sig] =>
    match tid.toNat?, seq.toNat? with
    | some tid, some seq => ({ st with po := { tid, seq, sig } :: st.po }, "")
    | _, _ => (st, "bad-op")
  | "end" :: rest =>
    let n := st.spans.length
    let bad := st.spans.find? (fun s => !spanOk st.gran s)
    let lin := st.lin.reverse
    let po := st.po.reverse
    let threads := ((lin ++ po).map (·.tid + 1)).foldl max 0
    let order : Option String :=
      match firstDisorder threads lin po with
      | some t =>
        let a := ofThread t lin
        let b := ofThread t po
        let k := ((a.zip b).takeWhile fun (x, y) => x == y).length
        let show1 := fun (l : List LinEv) => match l[k]? with | some e => s!"#{e.seq} {e.sig}" | none => "<nothing>"
        some s!"BAD program order: thread {t}: position {k} of its critical sections in lock order is {show1 a}, the thread itself logged {show1 b} ({a.length} events, {b.length} logged)"
      | none => none
    let verdict :=
      match order with
      | some e => e
      | none =>
      match bad, firstConflict st.spans with
      | some s, _ => s!"BAD span misaligned/too small/corrupted: tid={s.tid} addr={toHex s.addr} size={s.size} req={s.requested} ok={s.contentOk}"
      | none, some (a, b) => s!"BAD overlapping live spans: tid={a.tid} addr={toHex a.addr} size={a.size} [{a.t0},{a.t1}] and tid={b.tid} addr={toHex b.addr} size={b.size} [{b.t0},{b.t1}]"
      | none, none =>
        if !rest.contains "errors=0" then "BAD valid operations failed or answered wrongly (shared or private allocator, runtime add/release): " ++ " ".intercalate rest
        else if rest.contains "final_allocations=0" then s!"good spans={n} lin={lin.length}" else "BAD allocations remain accounted after everything was released: " ++ " ".intercalate rest
    ({ st with spans := [], lin := [], po := [] }, verdict)
  | _ => (st, "bad-op")

def main : IO Unit := do
  lineLoop (← IO.getStdin) (← IO.getStdout) ({} : St) step

end Driver.C11
