/- Line-protocol driver for C08 (model mode + monitor mode).  See harness/c08.cpp for the protocol.

   model mode  : `begin <arch> <emitter> <enc>` / op lines / `finalize` / `end`
                 answers `R <res> cur= fwd= bwd=` per op (model), and for `finalize` the model's `C <call>` lines, `C end ok`,
                 followed by the specification's linearisation as `S <call>` lines and `S end`.
   monitor mode: `mbegin <arch>` / `mop <op line>` + `mR <implementation's R line>` (checked at once against the specification
                 state) / `mC <call>` / `mFB <err>` `mFA <err>` / `mDB <dump line>` `mDA <dump line>` / `mjudge` → `good` | `BAD <why>` -/
import Driver.Common
import AsmjitVerif.Model.Builder
import AsmjitVerif.Spec.Builder

namespace Driver.C08
open AsmjitVerif.Builder

def parseLabel? (s : String) : Option Nat :=
  if s.startsWith "L" then (s.drop 1).toNat? else none

def parseSec? (s : String) : Option Nat :=
  if s.startsWith "S" then (s.drop 1).toNat? else none

def parseOp? (w : List String) : Option Op :=
  match w with
  | ["newlabel"] => some .newlabel
  | ["newsection"] => some .newsection
  | ["opts", v] => (parseHex? v).map .opts
  | ["extra", s] => some (.extra s)
  | ["icomment", s] => some (.icomment s)
  | ["inst", id, a, b, c, d, e, f] => id.toNat?.map fun i => .inst i [a, b, c, d, e, f]
  | ["bind", l] => (parseLabel? l).map .bind
  | ["align", m, n] => do some (.align (← m.toNat?) (← n.toNat?))
  | ["embed", b] => some (.embed b)
  | ["data", t, i, r, b] => do some (.data (← t.toNat?) (← i.toNat?) (← r.toNat?) b)
  | ["elabel", l, s] => do some (.elabel (← parseLabel? l) (← s.toNat?))
  | ["edelta", l, b, s] => do some (.edelta (← parseLabel? l) (← parseLabel? b) (← s.toNat?))
  | ["comment", t] => some (.comment t)
  | ["section", s] => (parseSec? s).map .section
  | ["cpool", l, z, b] => do some (.cpool (← parseLabel? l) (← z.toNat?) b)
  | ["gconst", z, b] => do some (.gconst (← z.toNat?) b)
  | ["cursor", "-"] => some (.cursor none)
  | ["cursor", n] => n.toNat?.map fun k => .cursor (some k)
  | ["remove", n] => n.toNat?.map .remove
  | ["removerange", a, b] => do some (.removerange (← a.toNat?) (← b.toNat?))
  | ["addnode", n] => n.toNat?.map .addnode
  | ["addafter", n, r] => do some (.addafter (← n.toNat?) (← r.toNat?))
  | ["addbefore", n, r] => do some (.addbefore (← n.toNat?) (← r.toNat?))
  | _ => none

def renderCall : Call → String
  | .inst id opts extra cmt ops => s!"inst {id} {toHex opts} {extra} {cmt} " ++ " ".intercalate ops
  | .bind l => s!"bind L{l}"
  | .align m n => s!"align {m} {n}"
  | .data t i r b => s!"data {t} {i} {r} {b}"
  | .elabel l s => s!"elabel L{l} {s}"
  | .edelta l b s => s!"edelta L{l} L{b} {s}"
  | .comment t => s!"comment {t}"
  | .section s => s!"section S{s}"
  | .cpoolnode l a b => s!"cpoolnode L{l} {a} {b}"

def parseCall? (w : List String) : Option Call :=
  match w with
  | ["inst", id, o, x, c, a, b, c2, d, e, f] => do some (.inst (← id.toNat?) (← parseHex? o) x c [a, b, c2, d, e, f])
  | ["bind", l] => (parseLabel? l).map .bind
  | ["align", m, n] => do some (.align (← m.toNat?) (← n.toNat?))
  | ["data", t, i, r, b] => do some (.data (← t.toNat?) (← i.toNat?) (← r.toNat?) b)
  | ["elabel", l, s] => do some (.elabel (← parseLabel? l) (← s.toNat?))
  | ["edelta", l, b, s] => do some (.edelta (← parseLabel? l) (← parseLabel? b) (← s.toNat?))
  | ["comment", t] => some (.comment t)
  | ["section", s] => (parseSec? s).map .section
  | ["cpoolnode", l, a, b] => do some (.cpoolnode (← parseLabel? l) (← a.toNat?) b)
  | _ => none

def renderRes : Res → String
  | .ok => "ok"
  | .err n => "err " ++ n
  | .pre => "pre"

def renderList (l : List Nat) : String := if l.isEmpty then "-" else ",".intercalate (l.map toString)
def renderCur : Option Nat → String
  | none => "-"
  | some c => toString c

def renderState (m : MList) : String :=
  s!" cur={renderCur m.cursor} fwd={renderList m.list} bwd={renderList m.list.reverse}"

def parseList? (s : String) : Option (List Nat) :=
  if s == "-" then some [] else (s.splitOn ",").mapM (·.toNat?)

/-- `cur=3` `fwd=0,1` `bwd=1,0` -/
def parseDump? (w : List String) : Option (Option Nat × List Nat × List Nat) :=
  match w with
  | [c, f, b] =>
    if c.startsWith "cur=" && f.startsWith "fwd=" && b.startsWith "bwd=" then do
      let cs := (c.drop 4).toString
      let cur ← if cs == "-" then some none else cs.toNat?.map some
      let fl ← parseList? (f.drop 4).toString
      let bl ← parseList? (b.drop 4).toString
      some (cur, fl, bl)
    else none
  | _ => none

structure DS where
  m : St := {}
  s : Spec.St := {}
  live : Bool := false
  -- monitor
  bad : Option String := none
  lastRes : Res := .ok
  calls : List Call := []
  finB : String := ""
  finA : String := ""
  dumpB : List String := []
  dumpA : List String := []

def regSizeOf (arch : String) : Nat := if arch == "x86" then 4 else 8

def flag (d : DS) (why : String) : DS := if d.bad.isSome then d else { d with bad := some why }

def stepLine (d : DS) (line : String) : DS × String :=
  let w := words line
  match w with
  | "begin" :: arch :: em :: _ =>
    let m := St.init (regSizeOf arch) (em == "compiler")
    ({ m := m, s := Spec.St.init (regSizeOf arch) (em == "compiler"), live := true }, "R ok" ++ renderState m.l)
  | ["end"] => ({}, "R end")
  | ["finalize"] =>
    -- passes first (GlobalConstPoolPass), then what serialize_to issues
    let m := runPasses d.m
    let s := Spec.runPasses d.s
    let cl := (serialize m).map fun c => "C " ++ renderCall c
    let sl := (Spec.linearize s).map fun c => "S " ++ renderCall c
    ({ d with m := m, s := s }, "\n".intercalate (["R ok" ++ renderState m.l] ++ cl ++ ["C end ok"] ++ sl ++ ["S end"]))
  -- monitor mode ------------------------------------------------------------------------------------------------
  | "mbegin" :: arch :: em :: _ => ({ s := Spec.St.init (regSizeOf arch) (em == "compiler"), live := true }, "")
  | ["mpasses"] => ({ d with s := Spec.runPasses d.s, lastRes := .ok }, "")
  | "mop" :: rest =>
    (match parseOp? rest with
     | some op => let (s', r) := Spec.step d.s op; ({ d with s := s', lastRes := r }, "")
     | none => (flag d ("unparsable op " ++ line), ""))
  | "mR" :: rest =>
    -- rest = <res words…> cur= fwd= bwd=
    let n := rest.length
    let resWords := rest.take (n - 3)
    (match parseDump? (rest.drop (n - 3)) with
     | some (cur, fl, bl) =>
       let d := if " ".intercalate resWords == renderRes d.lastRes then d
                else flag d s!"answer {" ".intercalate resWords} but the specification says {renderRes d.lastRes}"
       let d := if Spec.monitorDump fl bl cur then d else flag d ("node list not a well-formed doubly linked list: " ++ line)
       let d := if Spec.monitorState d.s fl bl cur then d
                else flag d s!"node list/cursor differ from the edited document: impl {line} spec cur={renderCur d.s.d.cursorItem} items={renderList d.s.d.items}"
       (d, "")
     | none => (flag d ("unparsable dump " ++ line), ""))
  | "mC" :: rest =>
    (match parseCall? rest with
     | some c => ({ d with calls := d.calls ++ [c] }, "")
     | none => (flag d ("unparsable call " ++ line), ""))
  | "mFB" :: rest => ({ d with finB := " ".intercalate rest }, "")
  | "mFA" :: rest => ({ d with finA := " ".intercalate rest }, "")
  | "mDB" :: rest => ({ d with dumpB := d.dumpB ++ [" ".intercalate rest] }, "")
  | "mDA" :: rest => ({ d with dumpA := d.dumpA ++ [" ".intercalate rest] }, "")
  | ["mjudgecode"] =>
    -- Compiler with function nodes: only the produced code is judged (error + CodeHolder dump equal the Assembler's)
    let d := if d.finB == d.finA then d else flag d s!"finalize error differs: compiler '{d.finB}' assembler '{d.finA}'"
    let d := if d.dumpB == d.dumpA then d
             else
               let firstDiff := (d.dumpB.zip d.dumpA).find? fun p => p.1 != p.2
               flag d ("code differs: " ++ (match firstDiff with
                 | some p => s!"compiler '{p.1}' assembler '{p.2}'"
                 | none => s!"{d.dumpB.length} vs {d.dumpA.length} dump lines"))
    (match d.bad with
     | some why => ({}, "BAD " ++ why)
     | none => ({}, "good"))
  | ["mjudge"] =>
    let d := if d.calls == Spec.linearize d.s then d
             else flag d s!"serialize_to issued {d.calls.length} calls that are not the edited sequence ({(Spec.linearize d.s).length} calls)"
    let d := if d.finB == d.finA then d else flag d s!"finalize error differs: builder '{d.finB}' assembler '{d.finA}'"
    let d := if d.dumpB == d.dumpA then d
             else
               let firstDiff := (d.dumpB.zip d.dumpA).find? fun p => p.1 != p.2
               flag d ("code differs: " ++ (match firstDiff with
                 | some p => s!"builder '{p.1}' assembler '{p.2}'"
                 | none => s!"{d.dumpB.length} vs {d.dumpA.length} dump lines"))
    let ok := Spec.monitorFinal d.s d.calls d.finB d.finA d.dumpB d.dumpA
    (match d.bad with
     | some why => ({}, "BAD " ++ why)
     | none => ({}, if ok then "good" else "BAD monitorFinal"))
  | _ =>
    if !d.live then (d, "R pre") else
    match parseOp? w with
    | some op =>
      let (m', r) := step d.m op
      let (s', _) := Spec.step d.s op
      ({ d with m := m', s := s' }, "R " ++ renderRes r ++ renderState m'.l)
    | none => (d, "R pre" ++ renderState d.m.l)

def main : IO Unit := do
  let stdin ← IO.getStdin
  let stdout ← IO.getStdout
  lineLoop stdin stdout ({} : DS) stepLine

end Driver.C08
