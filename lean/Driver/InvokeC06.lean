/- C06 driver, invoke lowering ops:
     ivm <env> <ccid> <flags> <n> <tid>=<op>*n                model of on_before_invoke: sizes + emitted instructions
     moniv <env> <ccid> <flags> <n> <tid>=<op>*n # <answer>   abstract machine on the real (post-RA) instruction list -/
import AsmjitVerif.Model.InvokeLower
import AsmjitVerif.Spec.InvokeMachine
import AsmjitVerif.Spec.InvokeMachineA64
import Driver.Common
open AsmjitVerif.CallConv AsmjitVerif.Invoke AsmjitVerif.InvokeSpec
namespace Driver.C06I

def parseEnv : String → Option Env
  | "x86l" => some ⟨.x86, false, false⟩
  | "x86w" => some ⟨.x86, true, false⟩
  | "x64l" => some ⟨.x64, false, false⟩
  | "x64w" => some ⟨.x64, true, false⟩
  | "a64l" => some ⟨.a64, false, false⟩
  | "a64d" => some ⟨.a64, false, true⟩
  | _ => none

structure IvLine where
  env : Env
  ccid : Nat
  flags : Nat
  tids : List Nat
  ops : List String

def parseIv (ws : List String) : Option (IvLine × List String) :=
  match ws with
  | e :: c :: f :: n :: rest =>
    match parseEnv e, c.toNat?, parseHex? f, n.toNat? with
    | some e, some c, some f, some n =>
      if rest.length < n then none else
      let args := rest.take n
      let r := args.mapM fun a =>
        match a.splitOn "=" with
        | [t, o] => t.toNat?.map fun t => (t, o)
        | _ => none
      r.map fun r => ({ env := e, ccid := c, flags := f, tids := r.map (·.1), ops := r.map (·.2) }, rest.drop n)
    | _, _, _, _ => none
  | _ => none

def is64 (e : Env) : Bool := e.arch != .x86

/-- the operands of one argument pack (x86-32: a 64-bit immediate is passed as two halves, like a user would) -/
def packOps (e : Env) (k : Nat) (tid : Nat) (o : String) (packLen : Nat) : Option (List ArgOp) :=
  let body := (o.drop 1).toString
  if o.startsWith "i" then
    (parseHex? body).map fun v =>
      let v : BitVec 64 := BitVec.ofNat 64 v
      if packLen = 2 then [.imm (zext32 v), .imm (hi32 v)] else [.imm v]
  else if o.startsWith "r" then body.toNat?.map fun st => [.gp k st]
  else if o.startsWith "v" then body.toNat?.map fun st => [.vec k st]
  else
    let _ := tid
    let _ := e
    none

def allOps (l : IvLine) (d : Detail) : Option (List (List ArgOp)) :=
  (List.range l.tids.length).mapM fun k =>
    packOps l.env k (l.tids.getD k 0) (l.ops.getD k "") ((d.args.getD k []).length)

def callerAlign (e : Env) : Nat :=
  match initCallConv e 0 with
  | some cc => cc.naturalAlign
  | none => 0

def ivmStep (ws : List String) : String :=
  match parseIv ws with
  | some (l, []) =>
    match initFuncDetail l.env { ccid := l.ccid, args := l.tids } with
    | .error m => "invoke-err " ++ m
    | .ok (cc, d) =>
      if l.env.arch == .a64 then
        match allOps l d with
        | none => "bad-op"
        | some ops =>
          match a64OnBeforeInvoke d (ops.map fun p => p.headD .none) 0 with
          | .error m => "fin-err " ++ m
          | .ok (pre, css) =>
            s!"ok ass={d.argStackSize} css={css} csa=16 | " ++
              ";".intercalate ((pre ++ [({ name := .call, ops := [.reg 6 0] } : XI)]).map XI.text)
      else
      match allOps l d with
      | none => "bad-op"
      | some ops =>
        match onBeforeInvoke (is64 l.env) (l.flags &&& 6 != 0) (cc.hasFlag fCalleePops) d ops 0 (callerAlign l.env) with
        | .error m => "fin-err " ++ m
        | .ok r =>
          s!"ok ass={r.argStack} css={r.callStackSize} csa={r.callStackAlign} | " ++
            ";".intercalate ((r.pre ++ [({ name := .call, ops := [.imm 0x10000] } : XI)] ++ r.post).map XI.text)
  | _ => "bad-op"

/-! ### the monitor -/
def parseXOp (s : String) : XOp :=
  let body := (s.drop 1).toString
  if s.startsWith "r" then
    match body.splitOn "." with
    | [a, b] => (match a.toNat?, b.toNat? with | some a, some b => .reg a b | _, _ => .unk)
    | _ => .unk
  else if s.startsWith "m" then
    match body.splitOn "." with
    | [a, b, c] => (match a.toNat?, b.toInt?, c.toNat? with | some a, some b, some c => .mem a b c | _, _, _ => .unk)
    | _ => .unk
  else if s.startsWith "i" then
    match parseHex? body with
    | some v => .imm (BitVec.ofNat 64 v)
    | none => .unk
  else .unk

def mnmOf (s : String) : Mnm × Bool :=
  let base (s : String) : Option Mnm :=
    match s with
    | "mov" => some .mov | "movsx" => some .movsx | "movzx" => some .movzx | "movsxd" => some .movsxd | "lea" => some .lea
    | "movaps" => some .movaps | "movups" => some .movups | "movd" => some .movd | "movq" => some .movq | "movss" => some .movss
    | "movlps" => some .movlps | "and" => some .and_ | "sub" => some .sub | "call" => some .call
    | "str" => some .str | "ldr" => some .ldr | "blr" => some .call | "strb" => some .strb | "strh" => some .strh
    | "sxtb" => some .sxtb | "sxth" => some .sxth | "sxtw" => some .sxtw | "uxtb" => some .uxtb | "uxth" => some .uxth
    | _ => none
  match base s with
  | some m => (m, false)
  | none =>
    if s.startsWith "v" then (match base (s.drop 1).toString with | some m => (m, true) | none => (.other, false))
    else (.other, false)

def parseXI (s : String) : XI :=
  let tagged := s.startsWith "#"
  let s := if tagged then (s.drop 1).toString else s
  match s.splitOn " " with
  | n :: ops => let (m, v) := mnmOf n; ⟨m, v, ops.map parseXOp, tagged⟩
  | [] => ⟨.other, false, [], tagged⟩

def field (ws : List String) (k : String) : Option Nat :=
  (ws.find? (·.startsWith (k ++ "="))).bind fun w => ((w.drop (k.length + 1)).toString).toNat?

/-- what the caller meant: per argument pack -/
def wantOf (e : Env) (k : Nat) (tid : Nat) (o : String) (pack : List FuncValue) : List Want :=
  let body := (o.drop 1).toString
  if o.startsWith "i" then
    match parseHex? body with
    | some v =>
      let v : BitVec 64 := BitVec.ofNat 64 v
      if pack.length = 2 then [.int (zext32 v), .int (hi32 v)] else [.int v]
    | none => [.none]
  else if o.startsWith "r" then
    match body.toNat? with
    | some st =>
      let kv0 : BitVec 64 := BitVec.ofNat 64 (0x8877665544332211 * (k + 1))
      -- AArch64: a register of a type up to 32 bits is a w register, initialised with the low 32 bits
      let kv : BitVec 64 := if e.arch == .a64 && tySize st ≤ 4 then zext32 kv0 else kv0
      -- an explicit pointer for a by-reference parameter is passed as it is
      if pack.any (·.isIndirect) then [.int kv] else [.int (widen (deabstract 8 tid) st kv)]
    | none => [.none]
  else if o.startsWith "v" then [.vtok k]
  else [.none]

def splitInsts (s : String) : List XI :=
  (s.splitOn ";").filterMap fun t => let t := t.trimAscii.toString; if t.isEmpty then none else some (parseXI t)

def monStep (ws : List String) : String :=
  match parseIv ws with
  | some (l, "#" :: ans) =>
    match ans with
    | "ok" :: rest =>
      let (hd, tl) := rest.span (· != "|")
      let insts := splitInsts (" ".intercalate (tl.drop 1))
      match field hd "ass", field hd "css", field hd "csa", field hd "lso" with
      | some ass, some css, some csa, some lso =>
        match initFuncDetail l.env { ccid := l.ccid, args := l.tids } with
        | .error m => "BAD real code lowered an invoke the rules refuse: " ++ m
        | .ok (_, d) =>
          let pre := insts.takeWhile (·.name != .call)
          if l.env.arch == .a64 then
            let rec goA (m : AsmjitVerif.InvokeSpecA64.MA) : List XI → Except String AsmjitVerif.InvokeSpecA64.MA
              | [] => .ok m
              | i :: is => match AsmjitVerif.InvokeSpecA64.step m i with
                | some m' => goA m' is
                | none => .error i.text
            match goA {} pre with
            | .error t => "UNK " ++ t
            | .ok m =>
              let wants := (List.range l.tids.length).map fun k =>
                wantOf l.env k (l.tids.getD k 0) (l.ops.getD k "") (d.args.getD k [])
              let bad := (List.range l.tids.length).filter fun k =>
                !(AsmjitVerif.InvokeSpecA64.valueOk m ((d.args.getD k []).headD (.ofType 0)) ((wants.getD k []).headD .none))
              if !(css ≥ ass && lso ≥ css) then s!"BAD frame call area css={css} does not cover ass={ass} / locals lso={lso}"
              else if l.flags &&& 1 != 0 && !AsmjitVerif.InvokeSpecA64.localOk m lso then "BAD local overwritten before the call"
              else if !bad.isEmpty then s!"BAD arg {bad.head!} not at its ABI location with its value"
              else "OK"
          else
          -- run, reporting the first instruction the machine does not know
          let rec go (m : M) : List XI → Except String M
            | [] => .ok m
            | i :: is => match step m i with
              | some m' => go m' is
              | none => .error i.text
          match go { is64 := is64 l.env } pre with
          | .error t => "UNK " ++ t
          | .ok m =>
            let wants := (List.range l.tids.length).map fun k =>
              wantOf l.env k (l.tids.getD k 0) (l.ops.getD k "") (d.args.getD k [])
            let bad := (List.range l.tids.length).filter fun k =>
              !packOk m d.argStackSize css (d.args.getD k []) (wants.getD k [])
            let temps := m.mem.filterMap fun (_, c) => match c with | .vec _ b => if b ≥ 16 then some b else none | _ => none
            let maxTemp := temps.foldl max 0
            let anyInd := d.args.any fun p => p.any (·.isIndirect)
            if !(css ≥ ass && lso ≥ css) then s!"BAD frame call area css={css} does not cover ass={ass} / locals lso={lso}"
            else if !bad.isEmpty then s!"BAD arg {bad.head!} not at its ABI location with its value"
            else if anyInd && csa < maxTemp then s!"BAD frame call stack alignment {csa} < temporary {maxTemp}"
            else if l.flags &&& 1 != 0 && !localOk m lso then "BAD local overwritten before the call"
            else "OK"
      | _, _, _, _ => "bad-op frame"
    | _ => "SKIP " ++ " ".intercalate ans       -- refused by the real code: nothing to judge
  | _ => "bad-op"

/-! ### host execution: `monivx <ccid> <flags> <n> <tid>=<op>*n # ok <captured>*n` -/
def vecPattern (k : Nat) (n : Nat) : String :=
  String.ofList ((List.range n).flatMap fun j => let b := (17 * k + j + 1) % 256; [hexChar (b / 16), hexChar (b % 16)])

def monIvx (ws : List String) : String :=
  match ws with
  | _ :: _ :: n :: rest =>
    match n.toNat? with
    | some n =>
      let args := rest.take n
      match rest.drop n with
      | "#" :: "ok" :: caps =>
        if caps.length != n then "bad-op caps" else
        let bad := (List.range n).filter fun k =>
          match (args.getD k "").splitOn "=" with
          | [t, o] =>
            (match t.toNat? with
             | some tid =>
               let sz := tySize tid
               let cap := caps.getD k ""
               let body := (o.drop 1).toString
               -- a vector in a register is captured through its xmm part (16 bytes)
               if o.startsWith "v" then
                 let nb := (cap.length - 1) / 2
                 !(cap.startsWith "b" && nb ≥ min sz 16 && cap == "b" ++ vecPattern k nb)
               else
                 let want : Option (BitVec 64) :=
                   if o.startsWith "i" then (parseHex? body).map (BitVec.ofNat 64)
                   else body.toNat?.map fun st => widen tid st (BitVec.ofNat 64 (0x8877665544332211 * (k + 1)))
                 (match want, (if cap.startsWith "g" then parseHex? (cap.drop 1).toString else none) with
                  | some w, some c => lowBytes sz (BitVec.ofNat 64 c) != lowBytes sz w
                  | _, _ => true)
             | none => true)
          | _ => true
        if bad.isEmpty then "OK" else s!"BAD arg {bad.head!} received {caps.getD bad.head! "?"}"
      | "#" :: other => "SKIP " ++ " ".intercalate other
      | _ => "bad-op"
    | none => "bad-op"
  | _ => "bad-op"

end Driver.C06I
