/-
Driver for C05.  One input line = the dump `harness/c05.cpp` printed for one function (node list before and after
run_passes() with per-operand RW info).  The driver
  1. translates both node lists into the IR of `Model/RAIR.lean` (TRUSTED translation, described in notes/C05.md),
  2. computes a certificate (UNTRUSTED: forward data-flow over pairs of program points, decreasing fix-point),
  3. runs the PROVED checker `AsmjitVerif.RAIR.validate` and prints
       `valid pre=<n> post=<n> pairs=<n> ins=<n> del=<n>`  |  `reject <where> <why>`  |  `unsupported <why>`.
-/
import AsmjitVerif.Model.RAIR
import AsmjitVerif.Model.RAIdioms
import AsmjitVerif.Gen.VexEvex
import Driver.Common

namespace Driver.C05
open AsmjitVerif.RAIR
open AsmjitVerif.RAIdioms (byteMask isMoveName isMemMoveName moveCap moveBytes sameRegZero sameRegKeep immZeroKeep classify Rule covers extendsLive regToMemLost)

inductive Opd where
  | reg (name : String) (rtype size flags rmask wmask emask : Nat) (fixed : String) (esig : String)
  | mem (size sig : Nat) (base index : String) (disp : Int) (flags : Nat)
  | imm (v : String)
  | label (id : Nat)
  | none
  deriving Inhabited, Repr

structure Node where
  kind : Char := 'I'        -- 'B' bind, 'I' instruction, 'C' invoke, 'R' FuncRet, 'E' end
  tag : Nat := 0
  name : String := ""
  cf : Nat := 0
  opts : String := ""
  rfl : Nat := 0
  wfl : Nat := 0
  rwok : Bool := true
  extra : String := "-"
  ann : String := "-"
  ops : List Opd := []
  locs : List String := []     -- C: ABI location of each argument, then of the return value; R: of each return value
  nargs : Nat := 0
  clob : String := ""
  label : Nat := 0
  deriving Inhabited

def splitOn1 (s : String) (c : Char) : List String := s.splitOn (String.singleton c)

def parseOpd (t : String) : Except String Opd :=
  let f := splitOn1 t ':'
  let hx (s : String) : Nat := (Driver.parseHex? s).getD 0
  match f with
  | "R" :: name :: rt :: sz :: fl :: rm :: wm :: em :: fixed :: rest =>
      -- mask registers report size 0 in their signature: they are 8 bytes
      .ok (.reg name rt.toNat! (if rt.toNat! == 16 && sz.toNat! == 0 then 8 else sz.toNat!) (hx fl) (hx rm) (hx wm) (hx em) fixed (String.intercalate ":" rest))
  | ["M", sz, sig, base, index, disp, fl] => .ok (.mem sz.toNat! (hx sig) base index (disp.toInt?.getD 0) (hx fl))
  | ["I", v] => .ok (.imm v)
  | ["L", id] => .ok (.label id.toNat!)
  | ["N"] => .ok .none
  | _ => .error s!"operand {t}"

def takeOps : Nat → List String → Except String (List Opd × List String)
  | 0, ts => .ok ([], ts)
  | n + 1, t :: ts => do
      let o ← parseOpd t
      let (os, r) ← takeOps n ts
      return (o :: os, r)
  | _, [] => .error "operands missing"

/-- (operand, location) pairs of C / R nodes -/
def takeOpLocs : Nat → List String → Except String (List Opd × List String × List String)
  | 0, ts => .ok ([], [], ts)
  | n + 1, t :: l :: ts => do
      let o ← parseOpd t
      let (os, ls, r) ← takeOpLocs n ts
      return (o :: os, l :: ls, r)
  | _, _ => .error "operand/location missing"

partial def parseNodes (ts : List String) (acc : Array Node) : Except String (Array Node × List String) :=
  match ts with
  | "B" :: id :: r => parseNodes r (acc.push { kind := 'B', label := id.toNat! })
  | "E" :: r => .ok (acc, r)
  | "I" :: tag :: name :: cf :: opts :: rf :: wf :: extra :: ann :: n :: r => do
      let (ops, r') ← takeOps n.toNat! r
      parseNodes r' (acc.push { kind := 'I', tag := tag.toNat!, name, cf := cf.toNat!, opts, rfl := (Driver.parseHex? rf).getD 0,
                                wfl := (Driver.parseHex? wf).getD 0, rwok := rf != "x", extra, ann, ops })
  | "R" :: tag :: n :: r => do
      let (ops, locs, r') ← takeOpLocs n.toNat! r
      parseNodes r' (acc.push { kind := 'R', tag := tag.toNat!, ops, locs })
  | "C" :: tag :: name :: target :: n :: r => do
      let tg ← parseOpd target
      let (aops, alocs, r1) ← takeOpLocs n.toNat! r
      match r1 with
      | m :: r2 => do
          let (rops, rlocs, r3) ← takeOpLocs m.toNat! r2
          match r3 with
          | clob :: _stk :: r4 =>
              parseNodes r4 (acc.push { kind := 'C', tag := tag.toNat!, name, ops := tg :: (aops ++ rops), locs := alocs ++ rlocs,
                                        nargs := n.toNat!, clob })
          | _ => .error "call tail"
      | _ => .error "call rets"
  | t :: _ => .error s!"node token {t}"
  | [] => .error "unterminated node list"

/-! ### locations -/

def flagBase : Nat := 300
def preBase : Nat := 2000000
def slotBase : Nat := 1000000

/-- physical location of a register name `p<group>.<id>` -/
def physLoc (name : String) : Option Nat :=
  if name.startsWith "p" then
    match splitOn1 (name.drop 1).toString '.' with
    | [g, i] => match g.toNat?, i.toNat? with
      | some g, some i => some (g * 64 + i)
      | _, _ => none
    | _ => none
  else none

def virtLoc (name : String) : Option Nat :=
  if name.startsWith "v" then (name.drop 1).toString.toNat?.map (· + preBase) else none

structure Ctx where
  x86 : Bool
  spId : Nat
  fpId : Nat
  vsize : Array Nat              -- virtual register index -> size
  vstack : Array Bool            -- virtual register is a user stack area
  word : Nat := 8                -- size of a call argument word
  deriving Inhabited

/-- pseudo virtual registers that hold immediates passed as call arguments: `constBase + 2*k (+1 when the value needs 64 bits)` -/
def constBase : Nat := preBase + 1000000

def Ctx.vsz (c : Ctx) (loc : Nat) : Nat :=
  if loc ≥ constBase then (if (loc - constBase) % 2 == 0 then min 4 c.word else c.word)
  else if loc ≥ preBase then c.vsize.getD (loc - preBase) 0 else 0

/-- canonical value of an immediate written into `size` bytes -/
def immValue (v : String) (size : Nat) : Nat := ((v.toInt?.getD 0) % (2 ^ (8 * size) : Int)).toNat

def constKey (val : Nat) : String := s!"const {val}"

/-- stack slot `[sp|fp + disp]` -/
def slotLoc (c : Ctx) (base : String) (disp : Int) : Option Nat :=
  match physLoc base with
  | some l =>
    if disp < -40000 || disp > 40000 then none
    else if l == c.spId then some (slotBase + (disp + 40000).toNat)
    else if l == c.fpId then some (slotBase + 100000 + (disp + 40000).toNat)
    else none
  | none => none

def abiLoc (c : Ctx) (s : String) : Option Nat :=
  if s.endsWith "i" then none          -- indirect arguments are not supported
  else if s.startsWith "p" then physLoc s
  else if s.startsWith "s" then (s.drop 1).toString.toInt?.bind (fun d => slotLoc c s!"p0.{c.spId}" d)
  else none

def flagLocs (mask : Nat) : List Nat := (List.range 24).filterMap (fun k => if mask.testBit k then some (flagBase + k) else none)

/-! ### translation of one instruction

  `twin` = the operand list of the instruction with the same tag in the program before RA (for the program before RA:
  its own operands). The size of a register operand's *virtual* register decides whether a write is a full
  definition (no read) or a partial one (read-modify-write).  A stack slot that replaces a register operand
  (register-to-memory substitution) is a location, and is described in the key exactly like the register it replaces. -/

structure TI where
  reads : List Nat := []
  writes : List Nat := []
  key : List String := []
  mem : Bool := false
  bad : Option String := none

/-- instruction names the rewriter may substitute (x86rapass.cpp rewrite(): reg->mem patched forms, VEX->EVEX) -/
def nameEquiv (pre post : String) : Bool :=
  pre == post ||
  -- register-to-memory patched forms of X86RAPass::rewrite(): a GP load of the home slot instead of a cross-file move
  [("movd", "mov"), ("vmovd", "mov"), ("kmovd", "mov"), ("movq", "mov"), ("vmovq", "mov"), ("kmovq", "mov"), ("kmovb", "movzx"), ("kmovw", "movzx"),
   ("vmovw", "movzx")].contains (pre, post) ||
  -- VEX -> EVEX renaming: only a pair the ISA database lists as the same operation (Gen/VexEvex.lean, regenerated on every run)
  AsmjitVerif.Gen.vexEvexPairs.contains (pre, post)

def regLoc (post : Bool) (name : String) : Option Nat := if post then physLoc name else virtLoc name

/-- size of the virtual register behind a twin operand (0 = unknown) -/
def twinVSize (c : Ctx) : Option Opd → Nat
  | some (.reg name ..) => match virtLoc name with | some l => c.vsz l | none => 0
  | _ => 0

def addReg (c : Ctx) (post : Bool) (t : TI) (name : String) (rtype size flags rmask wmask emask : Nat) (fixed esig : String) (tw : Option Opd) : TI :=
  match regLoc post name with
  | none => { t with bad := some s!"register {name} in the {if post then "allocated" else "virtual"} program" }
  | some loc =>
    let vs := let s := twinVSize c tw; if s == 0 then size else s
    let isR := flags.testBit 0
    let isW := flags.testBit 1
    let partialW := isW && (byteMask vs &&& ((wmask ||| emask) ^^^ (2 ^ 64 - 1))) != 0
    let t := if isR || partialW then { t with reads := t.reads ++ [loc] } else t
    let t := if isW then { t with writes := t.writes ++ [loc] } else t
    let t := if vs != 0 && isR && (rmask &&& (byteMask vs ^^^ (2 ^ 64 - 1))) != 0 && size > vs then
      { t with bad := some s!"reads {size} bytes of a {vs}-byte virtual register" } else t
    { t with key := t.key ++ [s!"r{rtype}/{size}/{flags &&& 0x18b}/{if isW then wmask ||| emask else 0}/{fixed}/{esig}"] }

/-- one operand; `own` = the operand, `tw` = twin operand of the virtual program (same index) -/
def addOpd (c : Ctx) (post : Bool) (t : TI) (own : Opd) (tw : Option Opd) (isTarget : Bool) : TI :=
  match own with
  | .none => { t with key := t.key ++ ["-"] }
  | .imm v => { t with key := t.key ++ [s!"i{v}"] }
  | .label id => if isTarget then { t with key := t.key ++ ["target"] } else { t with key := t.key ++ [s!"l{id}"] }
  | .reg name rtype size flags rmask wmask emask fixed esig => addReg c post t name rtype size flags rmask wmask emask fixed esig tw
  | .mem size sig base index disp flags =>
    let memR := flags.testBit 0
    let memW := flags.testBit 1
    match post, tw, slotLoc c base disp with
    | true, some (.reg _ rtype rsize rflags _ rwmask remask rfixed resig), some sl =>
      -- register-to-memory substitution: the slot is the location, described like the register it replaces
      if index != "-" then { t with bad := some "indexed stack slot" }
      else if size != 0 && (size > rsize || (memW && size != rsize)) then { t with bad := some s!"slot operand of {size} bytes replaces a {rsize}-byte register" }
      else
        let vs := let s := twinVSize c tw; if s == 0 then rsize else s
        let partialW := memW && rsize < vs
        let t := if memR || partialW then { t with reads := t.reads ++ [sl] } else t
        let t := if memW then { t with writes := t.writes ++ [sl] } else t
        -- a memory operand cannot zero-extend: if the register form extends into live bytes of the virtual register the
        -- two forms are different functions (the key differs, so the pair is refused)
        let lost := regToMemLost memW vs rwmask remask
        { t with key := t.key ++ [s!"r{rtype}/{rsize}/{rflags &&& 0x18b}/{if memW then rwmask ||| remask else 0}/{rfixed}/{resig}{if lost then "/memform-does-not-zero-extend" else ""}"] }
    | true, none, some sl =>
      -- inserted instruction addressing a stack slot: a location
      let t := if memR then { t with reads := t.reads ++ [sl] } else t
      let t := if memW then { t with writes := t.writes ++ [sl] } else t
      { t with key := t.key ++ ["slot"] }
    | _, _, _ =>
      let isHome := base.startsWith "h"
      let t :=
        if isHome then
          let vid := (base.drop 1).toString.toNat!
          if c.vstack.getD vid false then { t with key := t.key ++ [s!"stk{vid}"] } else { t with bad := some "home slot of a register used as operand" }
        else if base.startsWith "l" then { t with key := t.key ++ [s!"b{base}"] }
        else if base == "-" then { t with key := t.key ++ ["b-"] }
        else match regLoc post base with
          | some l =>
            if post && (l == c.spId || l == c.fpId) then
              -- user stack area after RA: `[sp + k]`; the twin names the area, the pairing of offsets is checked by `stackDelta`
              match tw with
              | some (.mem _ _ tb _ _ _) => if tb.startsWith "h" then { t with key := t.key ++ [s!"stk{(tb.drop 1).toString}"] } else { t with bad := some "sp-relative operand" }
              | _ => { t with bad := some "sp-relative operand without twin" }
            else
              let t := if flags &&& 0x3000 != 0 then { t with reads := t.reads ++ [l], key := t.key ++ ["b"] } else { t with key := t.key ++ ["b?"] }
              if flags.testBit 13 then { t with writes := t.writes ++ [l] } else t
          | none => { t with bad := some s!"base {base}" }
      let t :=
        if index == "-" then t else
        match regLoc post index with
        | some l => { t with reads := t.reads ++ [l], key := t.key ++ ["x"] }
        | none => { t with bad := some s!"index {index}" }
      let dispKey := if (post && isHome == false && (slotLoc c base disp).isSome) || isHome then "d*" else s!"d{disp}"
      { t with mem := t.mem || memR || memW, key := t.key ++ [s!"m{size}/{sig}/{flags &&& 0x3ffff}/{dispKey}"] }

def addOpds (c : Ctx) (post : Bool) (t : TI) : List Opd → List Opd → Bool → TI
  | [], _, _ => t
  | o :: os, tws, lastIsTarget =>
    let tw := tws.head?
    let isT := lastIsTarget && os.isEmpty
    addOpds c post (addOpd c post t o tw isT) os tws.tail lastIsTarget

/-- offsets of user stack operands: (area, offset before RA, offset after RA) -/
def stackPairs : List Opd → List Opd → List (String × Int × Int)
  | (.mem _ _ _ _ d1 _) :: os, (.mem _ _ tb _ d0 _) :: ts =>
      let rest := stackPairs os ts
      if tb.startsWith "h" then (tb, d0, d1) :: rest else rest
  | _ :: os, _ :: ts => stackPairs os ts
  | _, _ => []

/-- how to compute the value an instruction key writes into its (single) register from the values it reads:
    operand list in order, `some k` = k-th value read, `none`+imm = immediate. Only used by the differential mode. -/
structure Recipe where
  name : String
  size : Nat
  srcs : List (Option Nat × Int)
  deriving Inhabited, Repr

/-- a GP load / store with a base register and a displacement: which value read is the base / the stored value -/
structure MemRecipe where
  isLoad : Bool
  size : Nat
  baseIdx : Nat
  disp : Int
  valIdx : Option Nat := none
  valImm : Int := 0
  deriving Inhabited, Repr

structure Prog2 where
  insts : Array Inst := #[]
  tags : Array Nat := #[]
  recipes : List (String × Recipe) := []
  memRecipes : List (String × MemRecipe) := []
  flagRecipes : List (String × Recipe × Nat) := []     -- AArch64 flag setters: recipe of the operation + index of the NZCV write
  deriving Inhabited

/-- AArch64: query_rw_info reports no PSTATE access ("TODO" in a64instapi.cpp); the validator's own table of NZCV writers / readers
    (one location for the four flags) -/
def a64FlagWriters : List String := ["cmp", "cmn", "tst", "adds", "subs", "ands", "bics", "negs", "adcs", "sbcs", "ccmp", "ccmn", "fcmp", "fcmpe"]
def a64FlagReaders : List String := ["csel", "csinc", "csinv", "csneg", "cset", "csetm", "cinc", "cinv", "cneg", "ccmp", "ccmn", "adc", "adcs", "sbc",
  "sbcs", "ngc", "ngcs", "fcsel", "fccmp", "fccmpe"]
def a64Flags (name : String) : Nat × Nat :=
  let base := (name.splitOn ".").headD name
  ((if a64FlagReaders.contains base || (base == "b" && name != "b") then 1 else 0), (if a64FlagWriters.contains base then 1 else 0))

def mkMemRecipe (x86 : Bool) (name : String) (ops : List Opd) (nReads : Nat) : Option MemRecipe :=
  let okBase (b : String) : Bool := b.startsWith "v"
  match ops with
  | [.reg _ _ sz fl _ wm em _ _, .mem msz _ b ix d mfl] =>
    if ix != "-" || !okBase b || (sz != 4 && sz != 8) || mfl &&& 0x2000 != 0 then none
    else if ((x86 && name == "mov" && msz == sz) || (!x86 && name == "ldr")) && fl &&& 3 == 2 && mfl &&& 3 == 1 && nReads == 1
         && (byteMask 8 &&& ((wm ||| em) ^^^ (2 ^ 64 - 1))) == 0 then
      some { isLoad := true, size := sz, baseIdx := 0, disp := d }
    else if !x86 && name == "str" && fl &&& 3 == 1 && mfl &&& 3 == 2 && nReads == 2 then
      some { isLoad := false, size := sz, baseIdx := 1, disp := d, valIdx := some 0 }
    else none
  | [.mem msz _ b ix d mfl, .reg _ _ sz fl ..] =>
    if x86 && name == "mov" && ix == "-" && okBase b && (sz == 4 || sz == 8) && msz == sz && fl &&& 3 == 1 && mfl &&& 3 == 2 && nReads == 2 then
      some { isLoad := false, size := sz, baseIdx := 0, disp := d, valIdx := some 1 }
    else none
  | [.mem msz _ b ix d mfl, .imm v] =>
    if x86 && name == "mov" && ix == "-" && okBase b && (msz == 4 || msz == 8) && mfl &&& 3 == 2 && nReads == 1 then
      some { isLoad := false, size := msz, baseIdx := 0, disp := d, valImm := v.toInt?.getD 0 }
    else none
  | _ => none

def concreteNames : List String :=
  ["mov", "add", "sub", "and", "or", "xor", "imul", "shl", "shr", "orr", "eor", "mul", "lsl", "lsr", "madd", "neg", "not", "mvn", "inc", "dec",
   "sar", "asr", "rol", "ror", "udiv", "bic", "orn", "eon", "andn", "msub", "mneg"]

/-- recipe of a register/immediate-only instruction whose operand 0 is the only register written (and fully written) -/
def mkRecipe (name : String) (ops : List Opd) (nReads : Nat) : Option Recipe :=
  if !concreteNames.contains name then none else
  match ops with
  | (.reg _ _ sz fl0 _ wm em _ _) :: _ =>
    if !(fl0.testBit 1) || (sz != 4 && sz != 8) || (byteMask 8 &&& ((wm ||| em) ^^^ (2 ^ 64 - 1))) != 0 && sz == 8 then none else
    let go := ops.foldl (fun (acc : Option (List (Option Nat × Int) × Nat × Nat)) o =>
      match acc with
      | none => none
      | some (l, k, j) =>
        match o with
        | .reg _ _ osz fl _ _ _ _ _ =>
          if osz != sz then none
          else if j != 0 && fl.testBit 1 then none
          else if fl.testBit 0 then some (l ++ [(some k, 0)], k + 1, j + 1) else some (l ++ [(none, 0)], k, j + 1)
        | .imm v => some (l ++ [(none, v.toInt?.getD 0)], k, j + 1)
        | _ => none) (some ([], 0, 0))
    match go with
    | some (l, k, _) => if k == nReads then some { name, size := sz, srcs := l } else none
    | none => none
  | _ => none

def callClobbers (clob : String) : List Nat :=
  let gs := splitOn1 clob '.'
  let lim := [32, 32, 8, 8]
  ((List.range gs.length).flatMap fun g =>
    let m := (Driver.parseHex? (gs.getD g "0")).getD 0
    (List.range (lim.getD g 0)).filterMap fun i => if m.testBit i then some (g * 64 + i) else none)
  ++ (List.range 24).map (· + flagBase)

def keyStr (name : String) (n : Node) (ks : List String) : String :=
  name ++ " " ++ n.opts ++ " " ++ (if n.extra == "-" then "-" else "k") ++ " " ++ String.intercalate " " ks

/-- translate a node list. `twinOps tag` = operands of the twin in the virtual program (none for the virtual program itself). -/
def translate (c : Ctx) (post : Bool) (nodes : Array Node) (twinOf : Nat → Option Node) (retLocs : List Nat) :
    Except String (Prog2 × List (String × Int × Int)) := do
  -- label -> pc
  let mut pc := 0
  let mut labels : List (Nat × Nat) := []
  let nImm (n : Node) : Nat := if !post && n.kind == 'C' then (((n.ops.drop 1).take n.nargs).filter fun o => match o with | .imm _ => true | _ => false).length else 0
  for n in nodes do
    if n.kind == 'B' then labels := (n.label, pc) :: labels else pc := pc + 1 + nImm n
  let target (id : Nat) : Except String Nat :=
    match labels.lookup id with
    | some p => .ok p
    | none => .error s!"unsupported label {id} is not bound inside the function"
  let mut out : Prog2 := {}
  let mut spairs : List (String × Int × Int) := []
  -- allocated program only: registers known to hold the address of a stack slot (`lea reg, [sp + X]` inserted by the allocator)
  let mut addrOf : List (Nat × Nat) := []
  for n in nodes do
    if n.kind == 'B' then
      addrOf := []
      continue
    let tw : Option Node := if post && n.tag != 0 then twinOf n.tag else none
    let twOps : List Opd := match tw with | some t => t.ops | none => (if post then [] else n.ops)
    let mut inst : Inst := default
    if n.kind == 'R' then
      let rs ← n.ops.mapM fun o => match o with
        | .reg name .. => (match virtLoc name with | some l => .ok l | none => .error "unsupported ret operand")
        | _ => .error "unsupported ret operand"
      inst := .ret rs
    else if n.kind == 'C' then
      let pn := match tw with | some t => t | none => n
      -- arguments: register operands of the node before RA are read (virtual: the register; allocated: its ABI location)
      let tgt := n.ops.headD .none
      let t0 := addOpd c post {} tgt (pn.ops.head?) false
      if let some b := t0.bad then throw s!"unsupported call target: {b}"
      let mut reads := t0.reads
      let mut ks := t0.key
      let argOps := (pn.ops.drop 1).take pn.nargs
      let retOps := (pn.ops.drop (1 + pn.nargs))
      let mut i := 0
      for a in argOps do
        match a with
        | .reg name .. =>
          if post then
            let ls := pn.locs.getD i "?"
            if ls.endsWith "i" then
              -- by reference: the register holds `lea reg, [sp + X]` (tracked in `addrOf`); the callee reads slot X
              match physLoc (ls.dropEnd 1).toString with
              | some r => match addrOf.lookup r with
                | some sl => reads := reads ++ [sl]
                | none => throw s!"unsupported by-reference argument: {ls} does not hold a known stack address"
              | none => throw s!"unsupported by-reference argument location {ls}"
            else
            match abiLoc c ls with
            | some l => reads := reads ++ [l]
            | none => throw s!"unsupported argument location {ls}"
          else
            match virtLoc name with
            | some l => reads := reads ++ [l]
            | none => throw "unsupported physical register as call argument"
          ks := ks ++ ["r"]
        | .imm v =>
          -- an immediate argument: the virtual program gets `K := const v` in front of the call and the call reads K;
          -- the allocated program reads the ABI location, which the allocator's own `mov loc, imm` (a const instruction) fills
          let val := immValue v c.word
          if post then
            match abiLoc c (pn.locs.getD i "?") with
            | some l => reads := reads ++ [l]
            | none => throw s!"unsupported argument location {pn.locs.getD i "?"}"
          else
            let k := constBase + 2 * (n.tag * 16 + i) + (if val < 2 ^ 32 then 0 else 1)
            out := { out with insts := out.insts.push (.op (constKey val) [] [k] [] false false), tags := out.tags.push (10000000 + n.tag * 16 + i) }
            reads := reads ++ [k]
          ks := ks ++ ["r"]
        | _ => ks := ks ++ ["-"]
        i := i + 1
      let mut writes : List Nat := []
      for r in retOps do
        match r with
        | .reg name .. =>
          if post then
            match abiLoc c (pn.locs.getD i "?") with
            | some l => writes := writes ++ [l]
            | none => throw "unsupported return location"
          else
            match virtLoc name with
            | some l => writes := writes ++ [l]
            | none => throw "unsupported physical register as call result"
        | _ => pure ()
        i := i + 1
      inst := .op (keyStr "call" n ks) reads writes (if post then callClobbers pn.clob else []) true true
    else
      -- instruction
      if !n.rwok then throw s!"unsupported: no RW information for {n.name}"
      let name := match tw with | some t => (if nameEquiv t.name n.name then t.name else n.name) | none => n.name
      let isBranch := n.cf == 1 || n.cf == 2
      let t := addOpds c post {} n.ops twOps isBranch
      -- same-register / identity idioms, judged by the validator's own width-aware rules (NOT taken from the allocator):
      --   xor r,r / sub r,r / pxor x,x : the written bytes do not depend on the register (it is still read when the
      --                                   write does not cover the whole virtual register);
      --   or r,r / and r,r, op r,0      : the register keeps its value unless the write zero-extends into live bytes;
      --   or r,-1                       : write-only when the write covers the whole virtual register.
      let sameRegs : Bool := match n.ops with
        | [.reg an art asz .., .reg bn brt bsz ..] => an == bn && art == brt && asz == bsz
        | [.reg an art asz .., .reg bn brt bsz .., .reg cn crt csz ..] => an == bn && art == brt && asz == bsz && bn == cn && brt == crt && bsz == csz
        | _ => false
      let op0 : Option (Nat × Nat × Nat × Nat) := match n.ops.head?, twOps.head? with      -- (loc, vs, wmask, emask) of a written operand 0
        | some (.reg an _ asz afl _ awm aem _ _), _ =>
          if afl.testBit 1 then (regLoc post an).map fun l => (l, (let s := twinVSize c twOps.head?; if s == 0 then asz else s), awm, aem) else none
        | some (.mem _ _ mb mi md mfl), some (.reg _ _ rsz _ _ rwm rem _ _) =>     -- home slot substituted for the register
          if post && mfl.testBit 1 && mi == "-" then (slotLoc c mb md).map fun l => (l, (let s := twinVSize c twOps.head?; if s == 0 then rsz else s), rwm, rem) else none
        | _, _ => none
      let t := match op0 with
        | none => t
        | some (l0, vs, wm, em) =>
          let imm1 : Option String := match n.ops with | [_, .imm v] => some v | _ => none
          let srcSame : Bool := match n.ops with
            | [_, .reg bn brt bsz .., .reg cn crt csz ..] => bn == cn && brt == crt && bsz == csz
            | _ => sameRegs
          -- the rule itself is `RAIdioms.classify` (Model/RAIdioms.lean), proved against a BitVec semantics in Props/C05Idioms.lean
          match classify n.name n.ops.length sameRegs srcSame imm1 (covers vs wm em) (extendsLive vs em) with
          | .zero readsRest => { t with reads := if readsRest then [l0] else [], key := t.key ++ ["zero"] }
          | .keep => { t with writes := t.writes.filter (· != l0), key := t.key ++ ["keep"] }
          | .ones => { t with reads := t.reads.filter (· != l0), key := t.key ++ ["ones"] }
          | .none => t
      let t := if n.extra == "-" then t else
        match regLoc post n.extra with
        | some l => { t with reads := t.reads ++ [l] }
        | none => { t with bad := some "extra register" }
      if let some b := t.bad then throw s!"unsupported {n.name}: {b}"
      if post then spairs := spairs ++ stackPairs n.ops twOps
      -- register lists that must be consecutive (RW info: lead count on the first register, kConsecutive on the others; tbl/tbx
      -- lists by the validator's own rule): the register numbers relative to the lead are part of the key, the virtual program
      -- carries the numbers the ISA requires (+1, +2, ..), so a list the allocator did not make consecutive is refused.
      let regId (nm : String) : Nat := match splitOn1 nm '.' with | [_, i] => i.toNat?.getD 0 | _ => 0
      let isTbl := !c.x86 && (n.name == "tbl" || n.name == "tbx")
      let listOps : List (String × Bool × Bool) := n.ops.filterMap fun o => match o with
        | .reg nm _ _ fl _ _ _ _ es => some (nm, ((splitOn1 es ':').any (·.startsWith "c")), fl &&& 8 != 0)
        | _ => none
      let consKey : List String := Id.run do
        let mut lead : Option Nat := none
        let mut k := 0
        let mut ks : List String := []
        let mut idx := 0
        for (nm, isLead, isCons) in listOps do
          let tblLead := isTbl && idx == 1
          let tblNext := isTbl && idx ≥ 2 && idx + 1 < listOps.length
          if isLead || tblLead then
            lead := some (regId nm); k := 0
          else if isCons || tblNext then
            k := k + 1
            ks := ks ++ [if post then s!"+{((regId nm) + 32 - (lead.getD 0)) % 32}" else s!"+{k}"]
          idx := idx + 1
        return ks
      -- a lead that announces more registers than the instruction lists (x86 mask pairs): the rest is clobbered
      let implicitCl : List Nat := if !post then [] else n.ops.flatMap fun o => match o with
        | .reg nm _ _ _ _ _ _ _ es =>
          let cnt := ((splitOn1 es ':').filterMap fun f => if f.startsWith "c" then (f.drop 1).toString.toNat? else none).headD 0
          let followers := (listOps.filter (·.2.2)).length
          if cnt > followers + 1 then
            match physLoc nm with
            | some l => (List.range (cnt - 1 - followers)).map fun j => l + followers + 1 + j
            | none => []
          else []
        | _ => []
      let (rflA, wflA) := if !c.x86 && n.rfl == 0 && n.wfl == 0 then a64Flags n.name else (n.rfl, n.wfl)
      let reads := t.reads ++ flagLocs rflA
      let writes := t.writes ++ flagLocs wflA
      let key := keyStr name n (t.key ++ consKey)
      if !post && n.cf == 0 && n.extra == "-" && !t.mem && t.writes.length == 1 && !(t.key.any fun k => k == "zero" || k == "keep" || k == "ones" || k == "same") then
        if let some r := mkRecipe n.name n.ops t.reads.length then
          if (out.recipes.lookup key).isNone then out := { out with recipes := (key, r) :: out.recipes }
      if !post && n.cf == 0 && n.extra == "-" && t.mem && !(t.key.any fun k => k.startsWith "stk") then
        if let some r := mkMemRecipe c.x86 n.name n.ops t.reads.length then
          if (out.memRecipes.lookup key).isNone then out := { out with memRecipes := (key, r) :: out.memRecipes }
      if !post && !c.x86 && n.cf == 0 && wflA != 0 && !t.mem then
        -- AArch64 flag setter: cmp/cmn/tst (no register written) or adds/subs/ands (one register written)
        let base := match n.name with | "cmp" | "subs" => "sub" | "cmn" | "adds" => "add" | "tst" | "ands" => "and" | _ => ""
        let ops' : List Opd := if ["cmp", "cmn", "tst"].contains n.name then n.ops else n.ops
        if base != "" then
          let fr : Option Recipe :=
            if t.writes.length == 1 then (mkRecipe base ops' t.reads.length)
            else match ops' with
              | [.reg _ _ sz fl .., b] =>
                if (sz == 4 || sz == 8) && fl &&& 3 == 1 then
                  match b with
                  | .reg _ _ sz2 fl2 .. => if sz2 == sz && fl2 &&& 3 == 1 && t.reads.length == 2 then some { name := base, size := sz, srcs := [(some 0, 0), (some 1, 0)] } else none
                  | .imm v => if t.reads.length == 1 then some { name := base, size := sz, srcs := [(some 0, 0), (none, v.toInt?.getD 0)] } else none
                  | _ => none
                else none
              | _ => none
          if let some r := fr then
            if (out.flagRecipes.lookup key).isNone then out := { out with flagRecipes := (key, r, t.writes.length) :: out.flagRecipes }
      let lastLabel : Option Nat := match n.ops.getLast? with | some (.label id) => some id | _ => none
      if n.cf == 4 then
        if post then inst := .ret retLocs else throw "unsupported: ret instruction in the virtual program"
      else if n.cf == 3 then throw "unsupported: raw call instruction"
      else if n.cf == 1 then
        if n.ann != "-" then
          let ids := (splitOn1 n.ann '.').map String.toNat!
          let ts ← ids.mapM target
          inst := .jtab (key ++ s!" jt{ts.length}") reads ts
        else match lastLabel with
          | some id => inst := .jmp (← target id)
          | none => throw "unsupported: indirect jump without annotation"
      else if n.cf == 2 then
        if !t.writes.isEmpty then throw "unsupported: branch that writes registers"
        match lastLabel with
        | some id => inst := .jcc key reads (← target id)
        | none => throw "unsupported: conditional branch without label"
      else
        -- move?
        let regular := !(post && n.tag == 0)
        let shapeMove : Option (Nat × Nat × Nat) :=
          -- (dst, src, bytes) when the instruction is an exact copy between two locations
          match n.ops with
          | [.reg an _ asz afl _ awm aem _ _, .reg bn brt bsz bfl .., .reg cn crt csz ..] =>
            -- `vpord d, s, s` / `and xd, xs, xs` / `orr ..`: with both sources the same register the instruction is a copy d := s
            if n.extra == "-" && n.rfl == 0 && n.wfl == 0 && sameRegKeep n.name && bn == cn && brt == crt && bsz == csz && asz == bsz
               && afl &&& 3 == 2 && bfl &&& 3 == 1 && (byteMask asz &&& ((awm ||| aem) ^^^ (2 ^ 64 - 1))) == 0 then
              match regLoc post an, regLoc post bn with
              | some d, some s => some (d, s, asz)
              | _, _ => none
            else none
          | [a, b] =>
            if n.extra != "-" || n.rfl != 0 || n.wfl != 0 then none else
            let cap := moveCap n.name
            match a, b with
            | .reg an _ asz afl _ awm aem _ _, .reg bn _ bsz bfl _ _ _ _ _ =>
              if isMoveName c.x86 n.name && afl &&& 3 == 2 && bfl &&& 3 == 1 && (byteMask asz &&& ((awm ||| aem) ^^^ (2 ^ 64 - 1))) == 0 then
                match regLoc post an, regLoc post bn with
                | some d, some s => some (d, s, moveBytes n.name (min asz bsz) none)
                | _, _ => none
              else none
            | .reg an _ asz afl _ _ _ _ _, .mem msz _ mb mi md mfl =>
              if (isMoveName c.x86 n.name || isMemMoveName c.x86 n.name) && afl &&& 3 == 2 && mfl &&& 3 == 1 && mi == "-" && post then
                match regLoc post an, slotLoc c mb md with
                | some d, some s => some (d, s, moveBytes n.name asz (some msz))
                | _, _ => none
              else if !c.x86 && isMemMoveName c.x86 n.name && afl &&& 3 == 1 && mfl &&& 3 == 2 && mfl &&& 0x2000 == 0 && mi == "-" && post then
                -- AArch64 store `str reg, [sp, #off]`: register first, memory second
                match slotLoc c mb md, regLoc post an with
                | some d, some s => some (d, s, moveBytes n.name asz (some msz))
                | _, _ => none
              else none
            | .mem msz _ mb mi md mfl, .reg bn _ bsz bfl _ _ _ _ _ =>
              if (isMoveName c.x86 n.name || (isMemMoveName c.x86 n.name && n.name != "movzx")) && bfl &&& 3 == 1 && mfl &&& 3 == 2 && mi == "-" && post then
                match slotLoc c mb md, regLoc post bn with
                | some d, some s => some (d, s, moveBytes n.name bsz (some msz))
                | _, _ => none
              else none
            | _, _ => none
          | _ => none
        let selfMove : Option Nat :=
          match n.ops with
          | [.reg an art asz afl _ _ aem _ _, .reg bn brt bsz ..] =>
            if isMoveName c.x86 n.name && an == bn && art == brt && asz == bsz && afl &&& 3 == 2 && n.extra == "-" && n.rfl == 0 && n.wfl == 0
               && (aem &&& byteMask (let s := twinVSize c twOps.head?; if s == 0 then asz else s)) == 0 then regLoc post an else none
          | _ => none
        if regular && selfMove.isSome then
          inst := .move (selfMove.getD 0) (selfMove.getD 0) 0
        else if regular then
          -- a user instruction is a `move` iff the instruction of the VIRTUAL program is a full-width register copy
          let preNode := match tw with | some t => t | none => n
          let preFull : Bool :=
            match preNode.ops with
            | [.reg an art asz afl _ awm aem _ _, .reg bn brt bsz bfl _ _ _ _ _] =>
              isMoveName c.x86 preNode.name && moveCap preNode.name ≥ asz && preNode.extra == "-" && preNode.rfl == 0 && preNode.wfl == 0 && art == brt && asz == bsz
              && afl &&& 3 == 2 && bfl &&& 3 == 1
              && (match virtLoc an, virtLoc bn with | some d, some s => c.vsz d == asz && c.vsz s == bsz | _, _ => false)
              && (byteMask asz &&& ((awm ||| aem) ^^^ (2 ^ 64 - 1))) == 0
            | [.reg an art asz afl _ awm aem _ _, .reg bn brt bsz bfl .., .reg cn crt csz ..] =>
              -- three-operand copy idiom: only when BOTH twins have the register/register/register shape with equal sources
              let shape3 (nd : Node) : Bool := match nd.ops with
                | [.reg .., .reg b2 bt2 bs2 .., .reg c2 ct2 cs2 ..] => b2 == c2 && bt2 == ct2 && bs2 == cs2
                | _ => false
              let other : Option Node := if post then some n else twinOf n.tag
              sameRegKeep preNode.name && preNode.extra == "-" && preNode.rfl == 0 && preNode.wfl == 0 && bn == cn && brt == crt && bsz == csz
              && art == brt && asz == bsz && afl &&& 3 == 2 && bfl &&& 3 == 1
              && (match virtLoc an, virtLoc bn with | some d, some s => c.vsz d == asz && c.vsz s == bsz | _, _ => false)
              && (byteMask asz &&& ((awm ||| aem) ^^^ (2 ^ 64 - 1))) == 0
              && (match other with | some o => shape3 o | none => false)
            | _ => false
          if preFull then
            match shapeMove with
            | some (d, s, sz) => inst := .move d s sz
            | none => inst := .op key reads writes implicitCl t.mem false
          else inst := .op key reads writes implicitCl t.mem false
        else
          -- inserted by the allocator
          if n.name == "xchg" then
            match n.ops with
            | [.reg an _ asz .., .reg bn _ bsz ..] =>
              match physLoc an, physLoc bn with
              | some a, some b => inst := .swap a b (min asz bsz)
              | _, _ => throw "unsupported xchg"
            | _ => throw "unsupported inserted xchg with memory"
          else match shapeMove with
            | some (d, s, sz) => inst := .move d s sz
            | none =>
              -- `mov loc, imm` (immediate call argument materialised by the allocator)
              let constInst : Option Inst := match n.ops with
                | [.reg an _ asz afl _ awm aem _ _, .imm v] =>
                  if n.name == "mov" && afl &&& 3 == 2 && n.wfl == 0 && (byteMask asz &&& ((awm ||| aem) ^^^ (2 ^ 64 - 1))) == 0 then
                    (physLoc an).map fun l => .op (constKey (immValue v asz)) [] [l] [] false false
                  else none
                | [.mem msz _ mb mi md mfl, .imm v] =>
                  if n.name == "mov.pair" && mi == "-" then
                    -- two dword stores of the halves of a 64-bit immediate, merged by `mergeImmPairs`
                    (slotLoc c mb md).map fun l => .op (constKey (immValue v 8)) [] [l] [] false false
                  else if n.name == "mov" && mi == "-" && mfl &&& 3 == 2 && msz != 0 then
                    -- `mov qword [m], imm` only has a sign-extended 32-bit immediate: a value outside int32 is not what gets stored
                    let iv := v.toInt?.getD 0
                    let enc := msz != 8 || (iv ≥ -2147483648 && iv ≤ 2147483647)
                    (slotLoc c mb md).map fun l => .op (if enc then constKey (immValue v msz) else s!"const {immValue v msz} NOT-ENCODABLE-as-imm32") [] [l] [] false false
                  else none
                | _ => none
              -- `lea reg, [sp + X]`: reg holds the address of slot X;  `mov [reg], src` with such a reg: a store into slot X
              let leaSlot : Option (Nat × Nat) := match n.ops with
                | [.reg an .., .mem _ _ mb mi md _] => if (n.name == "lea" || n.name == "add") && mi == "-" then
                    match physLoc an, slotLoc c mb md with | some r, some sl => some (r, sl) | _, _ => none else none
                | _ => none
              let viaAddr : Option Inst := match n.ops with
                | [.mem msz _ mb mi md mfl, .reg bn _ bsz bfl ..] =>
                  if (isMoveName c.x86 n.name || isMemMoveName c.x86 n.name) && mi == "-" && md == 0 && mfl &&& 3 == 2 && bfl &&& 3 == 1 then
                    match physLoc mb, physLoc bn with
                    | some r, some src => (addrOf.lookup r).map fun sl => .move sl src (min (moveCap n.name) (if msz == 0 then bsz else msz))
                    | _, _ => none
                  else none
                | _ => none
              if let some ci := constInst then
                inst := ci
                out := { out with insts := out.insts.push inst, tags := out.tags.push n.tag }
                addrOf := addrOf.filter fun x => !(match ci with | .op _ _ ws _ _ _ => ws.contains x.1 | _ => false)
                continue
              if let some vi := viaAddr then
                inst := vi
                out := { out with insts := out.insts.push inst, tags := out.tags.push n.tag }
                continue
              if let some (r, sl) := leaSlot then
                addrOf := (r, sl) :: addrOf.filter (·.1 != r)
                inst := .op key [] writes [] false false
                out := { out with insts := out.insts.push inst, tags := out.tags.push n.tag }
                continue
              -- frame / constant instruction: only what it writes matters; it must not touch user memory
              let slotWrites := n.ops.filterMap fun o => match o with
                | .mem _ _ mb mi md mfl => if mfl.testBit 1 && mi == "-" then slotLoc c mb md else none
                | _ => none
              let userMem := n.ops.any fun o => match o with
                | .mem _ _ mb _ md mfl => (mfl &&& 3 != 0) && (slotLoc c mb md).isNone
                | _ => false
              if userMem then throw s!"unsupported inserted instruction {n.name} touches memory"
              inst := .op key [] (writes ++ slotWrites) [] false false
    if post then
      -- which locations hold the address of a stack temporary: copied by moves / swaps, forgotten when overwritten
      match inst with
      | .move d sr _ =>
        let v := addrOf.lookup sr
        addrOf := addrOf.filter (·.1 != d)
        if let some sl := v then addrOf := (d, sl) :: addrOf
      | .swap a b _ =>
        addrOf := addrOf.map fun x => (if x.1 == a then b else if x.1 == b then a else x.1, x.2)
      | .op _ _ ws cs _ _ => addrOf := addrOf.filter fun x => !((ws ++ cs).contains x.1)
      | _ => pure ()
    out := { out with insts := out.insts.push inst, tags := out.tags.push n.tag }
  return (out, spairs)

/-! ### certificate (untrusted) -/

def interE (a b : Rel) : Rel := a.filter (fun x => b.contains x)

structure WEntry where
  p : Nat
  E : Rel
  deriving Inhabited

/-- successors of a pair of program points with the relation after the step; `none` = cannot be paired -/
def succs (c : Ctx) (pre post : Prog2) (p q : Nat) (E : Rel) : Except String (List (Nat × Nat × Rel) × Bool) :=
  match pre.insts[p]?, post.insts[q]? with
  | some iP, some iQ =>
    let tP := pre.tags.getD p 0
    let tQ := post.tags.getD q 0
    let isRetPair := match iP, iQ with | .ret _, .ret _ => true | _, _ => false
    let preDeleted := tP != 0 && tP < 10000000 && tP != tQ && !(post.tags.contains tP)
    if preDeleted && (match iP with | .move .. => true | _ => false) then
      match iP with
      | .move dP sP _ => .ok ([(p + 1, q, preMoveE E dP sP)], true)
      | _ => .error "deleted"
    else if (tQ != 0 && tP == tQ) || isRetPair then
      match iP, iQ with
      | .op _ _ wP cP _ _, .op _ _ wQ cQ _ _ => .ok ([(p + 1, q + 1, twinE E wQ cQ wP cP)], false)
      | .move dP sP _, .move dQ _ _ => .ok ([(p + 1, q + 1, twinMoveE E dQ dP sP)], false)
      | .jmp tp, .jmp tq => .ok ([(tp, tq, E)], false)
      | .jcc _ _ tp, .jcc _ _ tq => .ok ([(tp, tq, E), (p + 1, q + 1, E)], false)
      | .jtab _ _ tsP, .jtab _ _ tsQ => .ok ((tsP.zip tsQ).map (fun x => (x.1, x.2, E)), false)
      | .ret _, .ret _ => .ok ([], false)
      | _, _ => .error s!"twin instructions of different kinds at {p}/{q}"
    else if tQ == 0 && (match iP, iQ with
        | .op kP [] _ [] false false, .op kQ [] _ [] false false => kP == kQ && kP.startsWith "const "
        | _, _ => false) then
      match iP, iQ with
      | .op _ _ wP cP _ _, .op _ _ wQ cQ _ _ => .ok ([(p + 1, q + 1, twinE E wQ cQ wP cP)], false)
      | _, _ => .error "const"
    else if tQ == 0 then
      match iQ with
      | .move d s sz => .ok ([(p, q + 1, moveE c.vsz E d s sz)], true)
      | .swap a b sz => .ok ([(p, q + 1, swapE c.vsz E a b sz)], true)
      | .jmp t => .ok ([(p, t, E)], true)
      | .op _ _ ws cs false false => .ok ([(p, q + 1, kill E (ws ++ cs) [])], true)
      | _ => .error s!"inserted instruction of unexpected kind at {q}"
    else
      match iP with
      | .move dP sP _ => .ok ([(p + 1, q, preMoveE E dP sP)], true)
      | _ => if tP ≥ 10000000 then .error s!"unsupported: immediate call argument {tP - 10000000} is not materialised by a single instruction"
             else .error s!"allocated program is at tag {tQ} but the virtual program at tag {tP} ({p}/{q})"
  | _, _ => .error s!"fell off the program at {p}/{q}"

partial def fixpoint (c : Ctx) (pre post : Prog2) (work : List (Nat × Nat × Rel)) (tab : Array (List WEntry)) (fuel : Nat) :
    Except String (Array (List WEntry)) :=
  match work with
  | [] => .ok tab
  | (p, q, E) :: rest =>
    if fuel == 0 then .error "fix-point did not converge" else
    if q ≥ tab.size then .error s!"program point {q} outside the allocated program" else
    let es := tab[q]!
    match es.find? (fun e => e.p == p) with
    | some old =>
      let E' := interE old.E E
      if E'.length == old.E.length then fixpoint c pre post rest tab (fuel - 1)
      else
        let tab := tab.set! q (es.map fun e => if e.p == p then { e with E := E' } else e)
        match succs c pre post p q E' with
        | .ok (ss, _) => fixpoint c pre post (ss ++ rest) tab (fuel - 1)
        | .error m => .error m
    | none =>
      let tab := tab.set! q ({ p := p, E := E } :: es)
      match succs c pre post p q E with
      | .ok (ss, _) => fixpoint c pre post (ss ++ rest) tab (fuel - 1)
      | .error m => .error m

/-- stutter measure: number of one-sided steps before the next common step -/
partial def measure (c : Ctx) (pre post : Prog2) (tab : Array (List WEntry)) (p q : Nat) (fuel : Nat) : Nat :=
  if fuel == 0 then 0 else
  match (tab.getD q []).find? (fun e => e.p == p) with
  | none => 0
  | some e =>
    match succs c pre post p q e.E with
    | .ok ([(p', q', _)], true) => 1 + measure c pre post tab p' q' (fuel - 1)
    | _ => 0

def dedup (l : List Nat) : List Nat := l.foldl (fun acc x => if acc.contains x then acc else acc ++ [x]) []

/-! ### stack slots must not overlap (checked from the dumped operands and frame data, not assumed) -/

/-- `mov dword [sp+d], lo ; mov dword [sp+d+4], hi` (64-bit targets only: a 64-bit immediate argument that does not fit a sign-extended imm32) is one
    8-byte constant store: the first node becomes `mov.pair qword [sp+d], (hi:lo)`, the second is dropped -/
def mergeImmPairs (is64 : Bool) (postN : Array Node) : Array Node := if !is64 then postN else Id.run do
  let mut out : Array Node := #[]
  let mut skip := false
  for i in [0:postN.size] do
    if skip then
      skip := false
      continue
    let n := postN[i]!
    let nx := postN.getD (i + 1) { kind := 'E' }
    match n.kind, n.tag, n.name, n.ops, nx.kind, nx.tag, nx.name, nx.ops with
    | 'I', 0, "mov", [.mem 4 sg b "-" d fl, .imm lo], 'I', 0, "mov", [.mem 4 _ b2 "-" d2 _, .imm hi] =>
      if b == b2 && d2 == d + 4 && (b.startsWith "p0.") then
        let v := (lo.toInt?.getD 0) % (2 ^ 32 : Int) + ((hi.toInt?.getD 0) % (2 ^ 32 : Int)) * (2 ^ 32 : Int)
        out := out.push { n with name := "mov.pair", ops := [.mem 8 sg b "-" d fl, .imm (toString v)] }
        skip := true
      else out := out.push n
    | _, _, _, _, _, _, _, _ => out := out.push n
  return out

/-- (slot location, bytes, user stack area?) of every sp/fp-relative operand of the allocated program; for a user area
    access the location is the *start of the area* and the size the size of the area -/
def slotAccesses (c : Ctx) (postN : Array Node) (twinOf : Nat → Option Node) : List (Nat × Nat × Bool) :=
  (List.range postN.size).flatMap fun idx =>
    let n := postN[idx]!
    if n.kind == 'I' && n.tag == 0 && n.name == "lea" then
      -- temporary of a by-reference argument: `lea reg, [sp+X]`, filled through `reg` by one of the next instructions
      match n.ops with
      | [.reg an .., .mem _ _ mb "-" md _] =>
        match slotLoc c mb md with
        | some sl =>
          let sz := ((List.range 4).findSome? fun k => match (postN.getD (idx + 1 + k) { kind := 'E' }).ops with
            | [.mem _ _ b2 "-" 0 _, .reg _ _ rsz ..] => if b2 == an then some rsz else none
            | _ => none).getD 16
          [(sl, sz, false)]
        | none => []
      | _ => []
    else
    if n.kind == 'C' then
      n.locs.filterMap fun l => if l.startsWith "s" && !l.endsWith "i" then (abiLoc c l).map fun sl => (sl, c.word, false) else none
    else if n.kind != 'I' then [] else
    let regSize : Nat := (n.ops.findSome? fun o => match o with | .reg _ _ sz .. => some sz | _ => none).getD c.word
    let twOps : List Opd := if n.tag != 0 then (match twinOf n.tag with | some t => t.ops | none => []) else []
    (List.range n.ops.length).filterMap fun j =>
      match n.ops.getD j .none with
      | .mem msz _ mb mi md _ =>
        if mi != "-" then none else
        match slotLoc c mb md with
        | none => none
        | some sl =>
          match twOps.getD j .none with
          | .mem _ _ tb _ d0 _ =>
            if tb.startsWith "h" then
              let vid := (tb.drop 1).toString.toNat?.getD 0
              some ((Int.toNat (Int.ofNat sl - d0)), c.vsize.getD vid 0, true)
            else some (sl, (if msz != 0 then msz else min (moveCap n.name) regSize), false)
          | _ => some (sl, (if msz != 0 then msz else min (moveCap n.name) regSize), false)
      | _ => none

def overlapping (acc : List (Nat × Nat × Bool)) : Option String :=
  let locs := dedup' (acc.filter (!·.2.2)) []
  let areas := dedup' (acc.filter (·.2.2)) []
  let ov (a sa b sb : Nat) : Bool := a < b + sb && b < a + sa
  match (locs.findSome? fun (a, sa, _) => locs.findSome? fun (b, sb, _) => if a != b && ov a sa b sb then some (a, sa, b, sb) else none) with
  | some (a, sa, b, sb) => some s!"stack slots {a}+{sa} and {b}+{sb} overlap"
  | none =>
    match (locs.findSome? fun (a, sa, _) => areas.findSome? fun (b, sb, _) => if ov a sa b sb then some (a, sa, b, sb) else none) with
    | some (a, sa, b, sb) => some s!"stack slot {a}+{sa} overlaps the user stack area {b}+{sb}"
    | none => none
where
  dedup' : List (Nat × Nat × Bool) → List (Nat × Nat × Bool) → List (Nat × Nat × Bool)
    | [], acc => acc
    | x :: xs, acc => if acc.contains x then dedup' xs acc else dedup' xs (x :: acc)

/-! ### differential mode: both programs on the Lean abstract machine under a concrete interpretation -/

def M64 : Nat := 2 ^ 64
def hashMix (h x : Nat) : Nat := (((h ^^^ ((x + 0x9E3779B97F4A7C15 + (h <<< 6) % M64 + (h >>> 2)) % M64)) % M64) * 0xD6E8FEB86659FD93) % M64
def hashList (seed : Nat) (xs : List Nat) : Nat := xs.foldl hashMix seed
def strHash (s : String) : Nat := s.foldl (fun h ch => hashMix h ch.toNat) 1469598103934665603

def keyName (key : String) : String := (key.splitOn " ").headD ""

def evalRecipe (r : Recipe) (ins : List Nat) : Nat :=
  let m := 2 ^ (8 * r.size)
  let v (x : Option Nat × Int) : Nat := match x.1 with | some k => (ins.getD k 0) % m | none => (x.2 % (m : Int)).toNat
  let a := v (r.srcs.getD 0 (none, 0))
  let b := v (r.srcs.getD 1 (none, 0))
  let c3 := v (r.srcs.getD 2 (none, 0))
  let d4 := v (r.srcs.getD 3 (none, 0))
  let n := r.srcs.length
  let bin (f : Nat → Nat → Nat) : Nat := if n == 2 then f a b else f b c3     -- x86: d := d op s ; a64: d := s op t
  let sh := 8 * r.size
  (match r.name with
   | "mov" => b
   | "add" => bin (· + ·)
   | "sub" => bin (fun x y => x + m - y)
   | "and" => bin (· &&& ·)
   | "or" | "orr" => bin (· ||| ·)
   | "xor" | "eor" => bin (· ^^^ ·)
   | "imul" | "mul" => bin (· * ·)
   | "shl" | "lsl" => bin (fun x y => x <<< (y % sh))
   | "shr" | "lsr" => bin (fun x y => x >>> (y % sh))
   | "madd" => b * c3 + d4
   | "msub" => d4 + m * m - (b * c3) % m
   | "mneg" => m * m - (b * c3) % m
   | "sar" | "asr" => bin (fun x y => let k := y % sh; if x >>> (sh - 1) == 1 then ((x >>> k) ||| ((m - 1) ^^^ ((m - 1) >>> k))) else x >>> k)
   | "rol" => bin (fun x y => let k := y % sh; ((x <<< k) ||| (x >>> (sh - k))) % m)
   | "ror" => bin (fun x y => let k := y % sh; ((x >>> k) ||| (x <<< (sh - k))) % m)
   | "udiv" => bin (fun x y => if y == 0 then 0 else x / y)
   | "bic" => bin (fun x y => x &&& ((m - 1) ^^^ y))
   | "orn" => bin (fun x y => x ||| ((m - 1) ^^^ y))
   | "eon" => bin (fun x y => x ^^^ ((m - 1) ^^^ y))
   | "andn" => ((m - 1) ^^^ b) &&& c3
   | "neg" => if n == 1 then m - a else m - b
   | "not" => m - 1 - a
   | "mvn" => m - 1 - b
   | "inc" => a + 1
   | "dec" => a + m - 1
   | _ => 0) % m

/-- values of the differential: numbers, and a byte-addressed memory (explicit cells over a pseudo-random background) -/
inductive DV where
  | n (v : Nat)
  | m (cells : List (Nat × Nat)) (seed : Nat)
  deriving Inhabited, BEq

def DV.toN : DV → Nat
  | .n v => v
  | .m cells seed => cells.foldl (fun h c => hashMix (hashMix h c.1) c.2) (hashMix seed 31337)

def memByte (cells : List (Nat × Nat)) (seed addr : Nat) : Nat :=
  match cells.lookup addr with | some b => b | none => (hashMix seed addr) % 256

def memLoad (mem : DV) (addr size : Nat) : Nat :=
  match mem with
  | .m cells seed => (List.range size).foldl (fun acc k => acc + (memByte cells seed (addr + k)) <<< (8 * k)) 0
  | .n v => hashMix v addr % 2 ^ (8 * size)

def memStore (mem : DV) (addr size val : Nat) : DV :=
  match mem with
  | .m cells seed => .m ((List.range size).foldl (fun cs k => (addr + k, (val >>> (8 * k)) % 256) :: cs.filter (·.1 != addr + k)) cells) seed
  | .n v => .n (hashMix (hashMix v addr) val)

/-- NZCV (packed N Z C V) of an AArch64 flag-setting add / sub / and -/
def nzcv (r : Recipe) (ins : List Nat) : Nat :=
  let m := 2 ^ (8 * r.size)
  let v (x : Option Nat × Int) : Nat := match x.1 with | some k => (ins.getD k 0) % m | none => (x.2 % (m : Int)).toNat
  let n := r.srcs.length
  let a := if n == 2 then v (r.srcs.getD 0 (none, 0)) else v (r.srcs.getD 1 (none, 0))
  let b := if n == 2 then v (r.srcs.getD 1 (none, 0)) else v (r.srcs.getD 2 (none, 0))
  let msb (x : Nat) : Nat := (x >>> (8 * r.size - 1)) % 2
  let (res, cF, vF) :=
    match r.name with
    | "sub" => let res := (a + m - b) % m; (res, (if a ≥ b then 1 else 0), msb ((a ^^^ b) &&& (a ^^^ res)))
    | "add" => let res := (a + b) % m; (res, (if a + b ≥ m then 1 else 0), msb (((a ^^^ b) ^^^ (m - 1)) &&& (a ^^^ res)))
    | _ => (a &&& b, 0, 0)
  msb res * 8 + (if res == 0 then 4 else 0) + cF * 2 + vF

def condA64 (cc : String) (f : Nat) : Option Bool :=
  let nF := f / 8 % 2 == 1
  let zF := f / 4 % 2 == 1
  let cF := f / 2 % 2 == 1
  let vF := f % 2 == 1
  match cc with
  | "eq" => some zF | "ne" => some (!zF) | "hs" => some cF | "lo" => some (!cF) | "mi" => some nF | "pl" => some (!nF)
  | "vs" => some vF | "vc" => some (!vF) | "hi" => some (cF && !zF) | "ls" => some (!cF || zF) | "ge" => some (nF == vF)
  | "lt" => some (nF != vF) | "gt" => some (!zF && nF == vF) | "le" => some (zF || nF != vF) | _ => none

def mkInterp (pg : Prog2) : Interp DV where
  eval key insD i :=
    let ins := insD.map DV.toN
    if key.startsWith "const " then .n ((key.drop 6).toString.toNat?.getD 0)
    else match pg.memRecipes.lookup key with
      | some mr =>
        if mr.isLoad && i == 0 then
          let addr := ((Int.ofNat (ins.getD mr.baseIdx 0) + mr.disp) % (2 ^ 64 : Int)).toNat
          .n (memLoad (insD.getLast?.getD (.n 0)) addr mr.size)
        else .n (hashList (hashMix (strHash key) i) ins)
      | none =>
        match pg.flagRecipes.lookup key with
        | some (r, fi) => if i == fi then .n (nzcv r ins) else if i == 0 then .n (evalRecipe r ins) else .n (hashList (hashMix (strHash key) i) ins)
        | none =>
          match (if i == 0 then pg.recipes.lookup key else none) with
          | some r => .n (evalRecipe r ins)
          | none => .n (hashList (hashMix (strHash key) i) ins)
  evalMem key insD :=
    let ins := insD.map DV.toN
    let mem := insD.getLast?.getD (.n 0)
    match pg.memRecipes.lookup key with
    | some mr =>
      if mr.isLoad then mem
      else
        let addr := ((Int.ofNat (ins.getD mr.baseIdx 0) + mr.disp) % (2 ^ 64 : Int)).toNat
        let val := match mr.valIdx with | some k => ins.getD k 0 | none => (mr.valImm % (2 ^ 64 : Int)).toNat
        memStore mem addr mr.size val
    | none => .m [] (hashList (hashMix (strHash key) 7777) ins)      -- anything else: a fresh memory determined by everything read
  junk key insD i := .n (hashList (hashMix (strHash key) (100000 + i)) (insD.map DV.toN))
  cond key valsD :=
    let vals := valsD.map DV.toN
    let nm := keyName key
    let w32 := (key.splitOn " r5/4/").length > 1
    let v0 := if w32 then (vals.headD 0) % 2 ^ 32 else vals.headD 0
    if nm == "cbz" then v0 == 0 else if nm == "cbnz" then v0 != 0
    else match (if nm.startsWith "b." then condA64 (nm.drop 2).toString (vals.headD 0) else none) with
      | some b => b
      | none => (hashList (strHash key) vals >>> 17) % 2 == 1
  sel key valsD :=
    let n := ((key.splitOn " jt").getLast?.bind String.toNat?).getD 1
    (hashList (strHash key) (valsD.map DV.toN) >>> 11) % (max n 1)

structure RunOut where
  events : List (String × List Nat) := []
  outcome : String := "running"
  hashed : List String := []
  steps : Nat := 0

partial def runProg (I : Interp DV) (pg : Prog2) (prog : Prog) (s : State DV) (fuel : Nat) (acc : RunOut) : RunOut :=
  if fuel == 0 then acc else
  let acc := match prog[s.pc]? with
    | some (.op key _ ws _ mem ev) =>
      let conc := key.startsWith "const " || (pg.recipes.lookup key).isSome || (pg.memRecipes.lookup key).isSome || (pg.flagRecipes.lookup key).isSome
      let nm := keyName key ++ (if mem then "(mem)" else "")
      if !conc && !ev && (mem || !ws.isEmpty) && !acc.hashed.contains nm && acc.hashed.length < 12 then { acc with hashed := acc.hashed ++ [nm] } else acc
    | some (.jcc key ..) =>
      let nm := keyName key
      if nm != "cbz" && nm != "cbnz" && !nm.startsWith "b." && !acc.hashed.contains nm && acc.hashed.length < 12 then { acc with hashed := acc.hashed ++ [nm] } else acc
    | _ => acc
  match step I prog s with
  | .next s' ev =>
    let acc := match ev with | some e => { acc with events := acc.events ++ [(e.key, e.args.map DV.toN)] } | none => acc
    runProg I pg prog s' (fuel - 1) { acc with steps := acc.steps + 1 }
  | .done vals m => { acc with outcome := s!"ret {vals.map (fun v => Driver.toHex v.toN)} mem={Driver.toHex m.toN}" }
  | .stuck => { acc with outcome := "stuck" }

structure Prep where
  c : Ctx
  pre : Prog2
  post : Prog2
  aP : List Nat
  aQ : List Nat
  r2m : Nat := 0

def prepare (ts : List String) : Except String Prep :=
  match ts with
  | "ok" :: "ARCH" :: arch :: "VREGS" :: vregs :: "ARGS" :: args :: "PRE" :: rest => do
      let (preN, rest) ← parseNodes rest #[]
      let rest := rest.dropWhile (· != "POST")
      let (postN0, _) ← parseNodes (rest.drop 1) #[]
      let postN := mergeImmPairs (arch != "x86") postN0
      let x86 := arch != "a64"
      let vinfo := if vregs == "-" then [] else (splitOn1 vregs ',').map (fun s => (splitOn1 s ':').map String.toNat!)
      let nv := vinfo.foldl (fun m v => max m (v.getD 0 0 + 1)) 0
      let vsize := vinfo.foldl (fun (a : Array Nat) v => a.set! (v.getD 0 0) (v.getD 2 0)) (Array.replicate nv 0)
      let vstack := vinfo.foldl (fun (a : Array Bool) v => a.set! (v.getD 0 0) (v.getD 4 0 == 1)) (Array.replicate nv false)
      let hasFp := ts.contains "fp=1"
      let fval (k : String) : Int := match ts.find? (·.startsWith k) with | some t => ((t.drop k.length).toString.toInt?).getD 0 | none => 0
      let saSp := fval "sa_sp="
      let saSa := fval "sa_sa="
      let saReg := (fval "sa_reg=").toNat
      let c : Ctx := { x86, spId := if x86 then 4 else 31, fpId := if hasFp then (if x86 then 5 else 29) else 9999, vsize, vstack,
                       word := if arch == "x86" then 4 else 8 }
      if let some i := ts.findIdx? (· == "SER") then
        let st := ts.getD (i + 1) "?"
        if st != "ok" then throw s!"sererr the allocated function cannot be serialized: {st}"
      -- return locations: all FuncRet nodes must agree
      let retLists := preN.toList.filterMap fun n => if n.kind == 'R' then some n.locs else none
      let retLocS := retLists.headD []
      if retLists.any (· != retLocS) then throw "unsupported: FuncRet nodes with different shapes"
      let retLocs ← retLocS.mapM fun s => match abiLoc c s with | some l => .ok l | none => .error s!"unsupported return location {s}"
      let twinOf (tag : Nat) : Option Node := preN.find? (fun n => n.tag == tag && n.kind != 'B')
      let postOf (tag : Nat) : Option Node := postN.find? (fun n => n.tag == tag && n.kind != 'B')
      let (pre, _) ← translate c false preN postOf []
      let (post, spairs) ← translate c true postN twinOf retLocs
      -- user stack areas: one constant offset per area
      for (a, d0, d1) in spairs do
        for (a', d0', d1') in spairs do
          if a == a' && d1 - d0 != d1' - d0' then throw s!"reject stack area {a} is addressed with two different offsets"
      if let some m := overlapping (slotAccesses c postN twinOf) then throw s!"reject {m}"
      -- arguments
      let argPairs ← (if args == "-" then [] else splitOn1 args ',').filterMapM fun s =>
        match splitOn1 s ':' with
        | [v, l] =>
          if v == "-" then .ok none else
          -- an incoming stack argument `s<off>` lives at [sa register + (sa offset) + off] (FuncFrame)
          let inLoc : Option Nat :=
            if l.startsWith "s" && !l.endsWith "i" then
              (l.drop 1).toString.toInt?.bind fun d =>
                if saReg == c.spId then slotLoc c s!"p0.{c.spId}" (d + saSp)
                else if saReg == c.fpId then slotLoc c s!"p0.{c.fpId}" (d + saSa) else none
            else abiLoc c l
          match virtLoc v, inLoc with
          | some pv, some pl => .ok (some (pv, pl))
          | _, _ => .error s!"unsupported argument {s}"
        | _ => .error "args"
      -- register operands of user instructions that the allocator replaced by the home slot
      let r2m := postN.foldl (fun n nd =>
        if nd.kind != 'I' || nd.tag == 0 then n else
        match twinOf nd.tag with
        | none => n
        | some t => n + ((nd.ops.zip t.ops).filter fun (o, tw) => match o, tw with
            | .mem _ _ mb mi md _, .reg .. => mi == "-" && (slotLoc c mb md).isSome
            | _, _ => false).length) 0
      return { c, pre, post, aP := argPairs.map (·.1), aQ := argPairs.map (·.2), r2m }
  | _ => .error "unsupported malformed dump"

def oneLine (s : String) : String := String.ofList (s.toList.map fun ch => if ch == '\n' then ' ' else ch)

/-- differential run of the two IR programs: `differ ...` with the first input on which the observations differ -/
def differential (pr : Prep) (seed runs : Nat) : String :=
  let I := mkInterp pr.pre
  let go := (List.range runs).findSome? fun r =>
    let h0 := hashMix (seed + 1) r
    let vals := (List.range pr.aP.length).map fun i =>
      let h := hashMix h0 i
      match h % 7 with | 0 => 0 | 1 => 1 | 2 => M64 - 1 | 3 => h % 65536 | 4 => 2 ^ 63 | _ => h
    let mem := hashMix h0 99
    let sP : State DV := { pc := 0, regs := assign (fun _ => DV.n 0xD0D0D0D0) pr.aP (fun i => DV.n (vals.getD i 0)), mem := DV.m [] mem }
    let sQ : State DV := { pc := 0, regs := assign (fun l => DV.n (hashMix 0xBADC0FFE l)) pr.aQ (fun i => DV.n (vals.getD i 0)), mem := DV.m [] mem }
    let oP := runProg I pr.pre pr.pre.insts sP 300000 {}
    let oQ := runProg I pr.pre pr.post.insts sQ 600000 {}
    if oP.outcome == "running" || oQ.outcome == "running" then none
    else if oP.outcome == oQ.outcome && oP.events == oQ.events then none
    else
      let nEv := (oP.events.zip oQ.events).takeWhile (fun x => x.1 == x.2) |>.length
      some s!"differ input={vals.map Driver.toHex} mem={Driver.toHex mem} virtual: {oP.outcome} calls={oP.events.length} allocated: {oQ.outcome} calls={oQ.events.length} common_calls={nEv} steps={oP.steps}/{oQ.steps} uninterpreted={oP.hashed}"
  match go with
  | some m => oneLine m
  | none =>
    -- what stayed uninterpreted on the first run (information only)
    let vals := (List.range pr.aP.length).map fun i => hashMix (hashMix (seed + 1) 0) i
    let sP : State DV := { pc := 0, regs := assign (fun _ => DV.n 0xD0D0D0D0) pr.aP (fun i => DV.n (vals.getD i 0)), mem := DV.m [] 1 }
    let oP := runProg I pr.pre pr.pre.insts sP 300000 {}
    s!"same runs={runs} uninterpreted={oP.hashed} outcome={oP.outcome.take 60}"

def process (line : String) : String :=
  let ts0 := Driver.words line
  let (mode, ts) := match ts0 with | "diff" :: r => ("diff", r) | r => ("validate", r)
  match ts with
  | "raerr" :: r => "raerr " ++ String.intercalate " " r
  | _ =>
    let r : Except String String := do
      let pr ← prepare ts
      if mode == "diff" then return differential pr 1 24
      let c := pr.c
      let pre := pr.pre
      let post := pr.post
      let aP := pr.aP
      let aQ := pr.aQ
      let E0 : Rel := aQ.zip aP
      let tab ← fixpoint c pre post [(0, 0, E0)] (Array.replicate post.insts.size []) 2000000
      let cert : Cert := (List.range tab.size).toArray.map fun q =>
        (tab[q]!).map fun e => { p := e.p, d := measure c pre post tab e.p q 100000, E := e.E }
      let pairs := cert.foldl (fun n es => n + es.length) 0
      let ins := post.tags.foldl (fun n t => if t == 0 then n + 1 else n) 0
      let del := (pre.tags.toList.filter fun t => t < 10000000 && !post.tags.contains t).length
      if validate c.vsz pre.insts post.insts aP aQ cert then
        -- what the allocator did (for the evidence): inserted saves / reloads / register moves / swaps / jumps, register-to-memory substitutions
        let cnt (f : Inst → Bool) : Nat := (List.range post.insts.size).foldl (fun n i => if post.tags.getD i 0 == 0 && f (post.insts.getD i default) then n + 1 else n) 0
        let spills := cnt fun i => match i with | .move d s _ => d ≥ slotBase && s < slotBase | _ => false
        let reloads := cnt fun i => match i with | .move d s _ => s ≥ slotBase && d < slotBase | _ => false
        let moves := cnt fun i => match i with | .move d s _ => s < slotBase && d < slotBase | _ => false
        let swaps := cnt fun i => match i with | .swap .. => true | _ => false
        let jumps := cnt fun i => match i with | .jmp _ => true | _ => false
        return s!"valid pre={pre.insts.size} post={post.insts.size} pairs={pairs} ins={ins} del={del} spill={spills} reload={reloads} move={moves} swap={swaps} jump={jumps} r2m={pr.r2m}"
      else
        -- locate the first entry that fails
        let bad := (List.range cert.size).findSome? fun q =>
          (cert[q]!).findSome? fun e => if checkEntry c.vsz pre.insts post.insts cert q e then none else some (q, e.p)
        match bad with
        | some (q, p) =>
          let eE := ((cert[q]!).find? (fun e => e.p == p)).map (·.E) |>.getD []
          throw s!"reject pair {p}/{q} tag {post.tags.getD q 0}: {repr (post.insts.getD q default)} VS {repr (pre.insts.getD p default)} E={eE.take 80}"
        | none => throw "reject entry or argument relation"
    match r with
    | .ok s => s
    | .error m => oneLine (if m.startsWith "unsupported" || m.startsWith "reject" || m.startsWith "sererr" then m else "reject " ++ m)

def main : IO Unit := do
  let stdin ← IO.getStdin
  let stdout ← IO.getStdout
  Driver.lineLoop stdin stdout () (fun s l => (s, process l))

end Driver.C05
