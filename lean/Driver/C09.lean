import AsmjitVerif.Model.JitAlloc
import AsmjitVerif.Spec.JitAlloc
import Driver.Common
open AsmjitVerif.JitAlloc
namespace Driver.C09

/-! Line protocol of harness/c09.cpp.
    model mode  : `<op>`                      -> the model's answer ` ; <statistics>`
    monitor mode: `mon <op> => <answer ; st>` -> `good` / `BAD <why>` (the Spec monitor on the implementation's answer) -/

def parseOp : List String → Option Op
  | ["alloc", n] => n.toNat?.map .alloc
  | ["release", h] => h.toNat?.map .release
  | ["shrink", h, n] => do some (.shrink (← h.toNat?) (← n.toNat?))
  | ["query", h, n] => do some (.query (← h.toNat?) (← n.toNat?))
  | ["sstale", h, n] => do some (.sstale (← h.toNat?) (← n.toNat?))
  | ["write", h, b] => do some (.write (← h.toNat?) (← parseHex? b))
  | ["wtrunc", h, b, n] => do some (.wtrunc (← h.toNat?) (← parseHex? b) (← n.toNat?))
  | ["read", h] => h.toNat?.map .read
  | ["mem"] => some .mem
  | ["sweep"] => some .sweep
  | ["blocks"] => some .blocks
  | ["dump"] => some .dump
  | ["reset", "hard"] => some (.reset true)
  | ["reset", "soft"] => some (.reset false)
  | ["isinit"] => some .isinit
  | ["rforeign", k] => k.toNat?.map .rforeign
  | ["qforeign", k] => k.toNat?.map .qforeign
  | ["sforeign"] => some .sforeign
  | _ => none

def colourStr (c : Nat) : String :=
  if c = 256 then "P" else if c > 256 then "X" else "U" ++ toHexWidth c 2

def rleStr (cs : List (Nat × Nat)) : String :=
  ",".intercalate (cs.map fun (c, k) => colourStr c ++ "*" ++ toString k)

def runsOf (l : List Bool) : String :=
  let rec go : List Bool → Nat → Option Nat → List String → List String
    | [], i, some s, acc => (s!"{s}-{i}" :: acc).reverse
    | [], _, none, acc => acc.reverse
    | true :: r, i, none, acc => go r (i + 1) (some i) acc
    | true :: r, i, some s, acc => go r (i + 1) (some s) acc
    | false :: r, i, some s, acc => go r (i + 1) none (s!"{s}-{i}" :: acc)
    | false :: r, i, none, acc => go r (i + 1) none acc
  let items := go l 0 none []
  if items.isEmpty then "-" else ",".intercalate items

def spanStr (cfg : Config) (s : SpanOut) : String :=
  s!"b{s.blk} p{s.pool} bs{s.blockSize} {s.off} {s.size} rw{s.off} d{if cfg.dual then 1 else 0}"

def blockListStr (bs : List (Nat × Nat × Nat × Bool)) : String :=
  "blocks" ++ String.join (bs.map fun (id, p, sz, pad) => s!" b{id}:p{p}:{sz}:{if pad then 1 else 0}")

def dumpStr (a : Alloc) : String :=
  "dump" ++ String.join ((List.range a.cfg.poolCount).map fun p =>
    let q := a.pool p
    let cur := match q.cursor with | some c => s!"b{c}" | none => "-"
    s!" p{p}:cur={cur}:ec={q.emptyCount}:bc={q.blockCount}" ++ String.join ((a.poolBlocks p).map fun b =>
      let fl := (if b.pad then "P" else "") ++ (if b.empty then "E" else "") ++ (if b.dirty then "D" else "") ++ (if b.incremental then "I" else "")
      s!" b{b.id}:sz={b.blockSize}:area={b.areaSize}:fl={fl}:used={b.areaUsed}:lu={b.largest}:ss={b.searchStart}:se={b.searchEnd}:u={runsOf b.used}:s={runsOf b.stop}"))

def ansStr (cfg : Config) : Ans → String
  | .span s => "ok " ++ spanStr cfg s
  | .size n => s!"ok {n}"
  | .ok => "ok"
  | .err e => "err " ++ e.name
  | .dead => "dead" | .gone => "gone" | .oob => "oob" | .busy => "busy"
  | .flag b => if b then "1" else "0"
  | .colours cs => "ok " ++ rleStr cs
  | .memAll bs => "mem" ++ String.join (bs.map fun (id, cs) => s!" b{id}=" ++ rleStr cs)
  | .sweepAll bs => "sweep" ++ String.join (bs.map fun (id, sp) =>
      s!" b{id}=" ++ (if sp.isEmpty then "-" else ",".intercalate (sp.map fun (s, n) => s!"{s}+{n}")))
  | .blockList bs => blockListStr bs
  | .dumpAll a => dumpStr a

def statsStr (s : Stats) : String := s!" ; {s.blocks} {s.allocs} {s.used} {s.reserved} {s.overhead}"

/-! ### parsing the implementation's answers (monitor mode) -/

def dropPrefix? (s pre : String) : Option String :=
  if s.startsWith pre then some (s.drop pre.length).toString else none

def natAfter (pre s : String) : Option Nat := (dropPrefix? s pre) >>= String.toNat?

def parseColour (s : String) : Option Nat :=
  if s == "P" then some 256 else if s == "X" then some 257
  else (dropPrefix? s "U") >>= parseHex?

def parseRle (s : String) : Option (List (Nat × Nat)) :=
  (s.splitOn ",").mapM fun it =>
    match it.splitOn "*" with
    | [c, k] => do some (← parseColour c, ← k.toNat?)
    | _ => none

def parseSweepItems (s : String) : Option (List (Nat × Nat)) :=
  if s == "-" then some [] else
  (s.splitOn ",").mapM fun it =>
    match it.splitOn "+" with
    | [a, b] => do some (← a.toNat?, ← b.toNat?)
    | _ => none

def parsePerBlock {α} (f : String → Option α) (ws : List String) : Option (List (Nat × α)) :=
  ws.mapM fun w =>
    match w.splitOn "=" with
    | [b, v] => do some (← natAfter "b" b, ← f v)
    | _ => none

def parseBlockList (ws : List String) : Option (List (Nat × Nat × Nat × Bool)) :=
  ws.mapM fun w =>
    match w.splitOn ":" with
    | [b, p, sz, pad] => do some (← natAfter "b" b, ← natAfter "p" p, ← sz.toNat?, pad == "1")
    | _ => none

def parseErr : String → Option Err
  | "OutOfMemory" => some .OutOfMemory | "InvalidArgument" => some .InvalidArgument | "InvalidState" => some .InvalidState
  | "NotInitialized" => some .NotInitialized | "TooLarge" => some .TooLarge | _ => none

/-- answer words -> (answer, rw offset, dual flag) -/
def parseAns (op : Op) : List String → Option (Ans × Nat × Bool)
  | ["ok", b, p, bs, off, size, rw, d] => do
    let sp : SpanOut := { blk := ← natAfter "b" b, pool := ← natAfter "p" p, blockSize := ← natAfter "bs" bs, off := ← off.toNat?, size := ← size.toNat? }
    some (.span sp, ← natAfter "rw" rw, d == "d1")
  | ["ok"] => some (.ok, 0, false)
  | ["ok", x] =>
    match op with
    | .read _ => do some (.colours (← parseRle x), 0, false)
    | _ => do some (.size (← x.toNat?), 0, false)
  | ["err", e] => do some (.err (← parseErr e), 0, false)
  | ["dead"] => some (.dead, 0, false) | ["gone"] => some (.gone, 0, false)
  | ["oob"] => some (.oob, 0, false) | ["busy"] => some (.busy, 0, false)
  | ["1"] => some (.flag true, 0, false) | ["0"] => some (.flag false, 0, false)
  | "mem" :: ws => do some (.memAll (← parsePerBlock parseRle ws), 0, false)
  | "sweep" :: ws => do some (.sweepAll (← parsePerBlock parseSweepItems ws), 0, false)
  | "blocks" :: ws => do some (.blockList (← parseBlockList ws), 0, false)
  | "dump" :: _ => some (.ok, 0, false)
  | _ => none

def parseStats : List String → Option Stats
  | [b, a, u, r, o] => do some { blocks := ← b.toNat?, allocs := ← a.toNat?, used := ← u.toNat?, reserved := ← r.toNat?, overhead := ← o.toNat? }
  | _ => none

structure DState where
  st : Option St := none
  ghost : Option Spec.Ghost := none

def parseCfg : List String → Option Config
  | [o, g, b, p] => do some (mkConfig (← parseHex? o) (← g.toNat?) (← b.toNat?) (← parseHex? p))
  | _ => none

def cfgStr (c : Config) : String :=
  s!"ok init=1 opts={toHex c.opts} gran={c.gran} block={c.blockSize} fill={toHex c.fill} pools={c.poolCount}"

def splitAt (ws : List String) (sep : String) : List String × List String :=
  (ws.takeWhile (· ≠ sep), (ws.dropWhile (· ≠ sep)).drop 1)

def stepLine (d : DState) (line : String) : DState × String :=
  match words line with
  | "mon" :: rest =>
    let (opw, answ) := splitAt rest "=>"
    let (aw, sw) := splitAt answ ";"
    match opw with
    | "cfg" :: cw =>
      match parseCfg cw with
      | some c =>
        let good := aw == (cfgStr c).splitOn " "
        ({ d with ghost := some (Spec.Ghost.init c) },
          if good then "good" else if aw.contains "init=0" then "BAD is_initialized() is false for a working allocator"
          else "BAD configuration answer differs: " ++ " ".intercalate aw)
      | none => (d, "bad-op")
    | _ =>
      match d.ghost, parseOp opw with
      | some g, some op =>
        match parseAns op aw, parseStats sw with
        | some (ans, rw, dual), some st =>
          match Spec.mstep g op ans rw dual st with
          | .ok g' => ({ d with ghost := some g' }, "good")
          | .error e => (d, "BAD " ++ e)
        | _, _ => (d, "BAD unparsable answer: " ++ " ".intercalate answ)
      | _, _ => (d, "bad-op")
  | "cfg" :: cw =>
    match parseCfg cw with
    | some c => ({ d with st := some (St.init c) }, cfgStr c ++ statsStr (Alloc.init c).stats)
    | none => (d, "bad-op")
  | ws =>
    match d.st, parseOp ws with
    | some s, some op =>
      let (s', ans) := step s op
      ({ d with st := some s' }, ansStr s.a.cfg ans ++ statsStr s'.a.stats)
    | none, _ => (d, "no-allocator")
    | _, none => (d, "bad-op")

def main : IO Unit := do
  lineLoop (← IO.getStdin) (← IO.getStdout) ({} : DState) stepLine

end Driver.C09
