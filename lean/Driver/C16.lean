import AsmjitVerif.Spec.Reuse
import Driver.Common
open AsmjitVerif.Reuse
namespace Driver.C16

/-
Line protocol (the same lines harness/c16.cpp executes on the real objects):
  model mode   : every operation line -> the model's answer; `dump` -> `code|…|aux|…`
  monitor mode : `cmp <dump of recycled run> <dump of fresh run>` -> `good` | `BAD <component>` (Spec.noResidue)
-/

def nameBytes (s : String) : List Nat := s.toUTF8.toList.map (·.toNat)

def hexNat? (s : String) : Option (List Nat) := (hexToBytes? s).map fun bs => bs.map (·.toNat)

def onOff (s : String) : Bool := s == "on"

def parseOp (ws : List String) : Option Op :=
  match ws with
  | "world" :: rest =>
    -- `world dynamic|static [size] [a64]`: static arena memory of `size` bytes (default 4096)
    let st := if rest.head? == some "static" then ((rest.filterMap String.toNat?).head?).getD 4096 else 0
    some (.world (rest.contains "a64") st)
  | ["init"] => some (.init .x64)
  | ["init", a] => some (.init (if a == "x86" then .x86 else if a == "a64" then .a64 else .x64))
  | ["init", a, b] => (parseHex? b).map (.initb (if a == "x86" then .x86 else if a == "a64" then .a64 else .x64))
  | ["link", b] => (parseHex? b).map .relocate
  | ["reset"] => some (.reset false)
  | ["reset", p] => some (.reset (p == "hard"))
  | ["reinit"] => some .reinit
  | ["dump"] => some .dump
  | ["hlogger", b] => some (.hlogger (onOff b))
  | ["attach", i] => i.toNat?.map .attach
  | ["detach", i] => i.toNat?.map .detach
  | ["elogger", i, b] => i.toNat?.map (.elogger · (onOff b))
  | ["diag", i, b] => i.toNat?.map (.diag · (onOff b))
  | ["label", i] => i.toNat?.map .label
  | ["nlabel", i, n] => i.toNat?.map (.nlabel · (nameBytes n))
  | ["bind", i, l] => do some (.bind (← i.toNat?) (← l.toNat?))
  | ["raw", i, hx] => do some (.raw (← i.toNat?) (← hexNat? hx))
  | ["opt", i, o] => i.toNat?.map (.opt · (if o == "s" then optShort else optLong))
  | ["cmt", i] => i.toNat?.map .cmt
  | ["jmp", i, l] => do some (.jmp (← i.toNat?) (← l.toNat?))
  | ["elabel", i, l, sz] => do some (.elabel (← i.toNat?) (← l.toNat?) (← sz.toNat?))
  | ["section", i, n] => i.toNat?.map (.section · (nameBytes n))
  | ["switch", i, s] => do some (.switch (← i.toNat?) (← s.toNat?))
  | ["vreg", i] => i.toNat?.map .vreg
  | ["jann", i] => i.toNat?.map .jann
  | ["finalize", i] => i.toNat?.map .finalize
  -- failing operations used in histories: `err i 0` = bind of an invalid label, `err i 2` = jmp to an invalid label
  | ["err", i, k] => do
    let i ← i.toNat?
    let k ← k.toNat?
    if k % 3 == 0 then some (.bind i 65535) else if k % 3 == 2 then some (.jmp i 65535) else none
  | _ => none

def step (w : World) (line : String) : World × String :=
  match words line with
  | ["cmp", a, b] =>
    (w, match noDeadRefs a, noDeadRefs b, noResidue a b with
        | some c, _, _ => "BAD dead reference: component '" ++ c ++ "' after the recycled run"
        | _, some c, _ => "BAD dead reference: component '" ++ c ++ "' after the fresh run"
        | none, none, none => "good"
        | none, none, some c => "BAD residue: component '" ++ c ++ "' of the output differs between recycled and fresh objects")
  | ["cmpfn", a, b] =>
    (w, match laterFunctionIndependent a b with
        | none => "good"
        | some c => "BAD later function depends on earlier functions of the same Compiler: " ++ c)
  | "heap" :: _ => (w, "ok")
  | ws =>
    match parseOp ws with
    | none => (w, "unmodelled")
    | some .dump => (w, dumpCode w ++ "|" ++ dumpAux w)
    | some op => w.step op

def main : IO Unit := do
  lineLoop (← IO.getStdin) (← IO.getStdout) World.fresh step

end Driver.C16
