/- Shared helpers for the line-protocol drivers (core-only). -/
namespace Driver

def hexDigit? (c : Char) : Option Nat :=
  if '0' ≤ c ∧ c ≤ '9' then some (c.toNat - '0'.toNat)
  else if 'a' ≤ c ∧ c ≤ 'f' then some (c.toNat - 'a'.toNat + 10)
  else if 'A' ≤ c ∧ c ≤ 'F' then some (c.toNat - 'A'.toNat + 10)
  else none

/-- parse an unsigned hexadecimal number without prefix -/
def parseHex? (s : String) : Option Nat :=
  if s.isEmpty then none else
  s.foldl (fun acc c => match acc, hexDigit? c with
    | some a, some d => some (a * 16 + d)
    | _, _ => none) (some 0)

/-- decimal with optional leading '-' -/
def parseInt? (s : String) : Option Int := s.toInt?

def hexChar (n : Nat) : Char := if n < 10 then Char.ofNat (48 + n) else Char.ofNat (87 + n)

def toHexWidth (n : Nat) (digits : Nat) : String :=
  String.ofList ((List.range digits).reverse.map fun i => hexChar ((n >>> (4 * i)) % 16))

def toHex (n : Nat) : String :=
  if n = 0 then "0" else
  let rec go (fuel n : Nat) (acc : List Char) : List Char :=
    match fuel with
    | 0 => acc
    | fuel + 1 => if n = 0 then acc else go fuel (n / 16) (hexChar (n % 16) :: acc)
  String.ofList (go 64 n [])

def bytesToHex (bs : List (BitVec 8)) : String :=
  String.ofList (bs.flatMap fun b => [hexChar (b.toNat / 16), hexChar (b.toNat % 16)])

def hexToBytes? (s : String) : Option (List (BitVec 8)) :=
  let rec go : List Char → Option (List (BitVec 8))
    | [] => some []
    | [_] => none
    | a :: b :: rest =>
      match hexDigit? a, hexDigit? b, go rest with
      | some x, some y, some r => some (BitVec.ofNat 8 (x * 16 + y) :: r)
      | _, _, _ => none
  if s == "-" then some [] else go s.toList

def words (line : String) : List String :=
  (line.trimAscii.toString.splitOn " ").filter (· ≠ "")

/-- 64-bit FNV-1a over a string, folded into a running hash -/
def fnvStr (h : UInt64) (s : String) : UInt64 :=
  s.foldl (fun h c => (h ^^^ c.toNat.toUInt64) * 1099511628211) h
def fnvInit : UInt64 := 14695981039346656037

/-- generic line loop: state machine over stdin lines -/
partial def lineLoop {σ : Type} (h : IO.FS.Stream) (out : IO.FS.Stream) (s : σ)
    (step : σ → String → σ × String) : IO Unit := do
  let line ← h.getLine
  if line.isEmpty then
    out.flush
    return ()
  let l := line.trimAscii.toString
  if l.isEmpty || l.startsWith "#" then lineLoop h out s step
  else
    let (s', o) := step s l
    if !o.isEmpty then out.putStrLn o
    lineLoop h out s' step

end Driver
