import AsmjitVerif.Model.Offset
import AsmjitVerif.Spec.Offset
import AsmjitVerif.Spec.A64Imm
import Driver.Common
open AsmjitVerif.Offset
open AsmjitVerif.A64Imm
namespace Driver.C17

def parseFmt : List String → Option (OffsetFormat × List String)
  | t :: vs :: vo :: bc :: bs :: dl :: rest => do
    let t ← t.toNat? >>= OffsetType.ofCode
    some ({ type := t, valueSize := ← vs.toNat?, valueOffset := ← vo.toNat?, bitCount := ← bc.toNat?,
            bitShift := ← bs.toNat?, discard := ← dl.toNat? }, rest)
  | _ => none

def encOut (f : OffsetFormat) (off : BitVec 64) : String :=
  if f.valueSize = 8 then
    match encodeOffset64 f off with
    | some m => "ok " ++ toHex m.toNat
    | none => "fail"
  else
    match encodeOffset32 f off with
    | some m => "ok " ++ toHex m.toNat
    | none => "fail"

/-- all values `DecodeBitMasks` can produce (64-bit ops), resp. their low halves for N = 0 (32-bit ops) -/
def allLogical64 : List (BitVec 64) := Id.run do
  let mut out := []
  for n in [false, true] do
    for s in List.range 64 do
      if decodeBitMasksValid n (BitVec.ofNat 6 s) then
        for r in List.range 64 do
          out := decodeBitMasksValue n (BitVec.ofNat 6 s) (BitVec.ofNat 6 r) :: out
  return out
def allLogical32 : List (BitVec 64) := Id.run do
  let mut out := []
  for s in List.range 64 do
    if decodeBitMasksValid false (BitVec.ofNat 6 s) then
      for r in List.range 64 do
        out := (decodeBitMasksValue false (BitVec.ofNat 6 s) (BitVec.ofNat 6 r) &&& 0xFFFFFFFF#64) :: out
  return out

structure Tables where
  log64 : Array Nat
  log32 : Array Nat

def mkTables : Tables :=
  { log64 := (allLogical64.map (·.toNat)).toArray.qsort (· < ·),
    log32 := (allLogical32.map (·.toNat)).toArray.qsort (· < ·) }

def hexWords (ws : List (BitVec 32)) : String := " ".intercalate (ws.map fun w => toHex w.toNat)

def bv64? (s : String) : Option (BitVec 64) := (parseHex? s).map (BitVec.ofNat 64)
def bv32? (s : String) : Option (BitVec 32) := (parseHex? s).map (BitVec.ofNat 32)

def fpBits (b : String) : Option Nat := match b with | "16" => some 16 | "32" => some 32 | "64" => some 64 | _ => none
def isFp (bits : Nat) (v : BitVec 64) : Bool := if bits = 16 then isFp16Imm8 v else if bits = 32 then isFp32Imm8 v else isFp64Imm8 v
def encFp (bits : Nat) (v : BitVec 64) : BitVec 32 :=
  if bits = 16 then encodeFp16ToImm8 v else if bits = 32 then encodeFp32ToImm8 v else encodeFp64ToImm8 v

/-- `direct <kind>`: format and opcode (registers as the harness uses them: x3, bit 5) -/
def directKind : String → Option (OffsetFormat × BitVec 32)
  | "b" => some (immValue .signed 4 0 26 2, 0x14000000#32)
  | "bl" => some (immValue .signed 4 0 26 2, 0x94000000#32)
  | "beq" => some (immValue .signed 4 5 19 2, 0x54000000#32)
  | "cbz" => some (immValue .signed 4 5 19 2, 0xB4000003#32)
  | "tbz" => some (immValue .signed 4 5 14 2, 0x36280003#32)
  | "adr" => some (immValue .a64Adr 4 5 21 0, 0x10000003#32)
  | "adrp" => some (immValue .a64Adrp 4 5 21 12, 0x90000003#32)
  | _ => none

def aliasOf : String → Option BfAlias
  | "bfc" => some .bfc | "bfi" => some .bfi | "sbfiz" => some .sbfiz | "ubfiz" => some .ubfiz
  | "bfxil" => some .bfxil | "sbfx" => some .sbfx | "ubfx" => some .ubfx | _ => none
def rawOf : String → Option BfOp
  | "bfm" => some .bfm | "sbfm" => some .sbfm | "ubfm" => some .ubfm | _ => none
def opcOf : BfOp → BitVec 32
  | .bfm => 0x33000000#32 | .sbfm => 0x13000000#32 | .ubfm => 0x53000000#32

/-- model answer of `bf <alias> <x> <lsb> <width>` (Rd = 3, Rn = 7; BFC has Rn = 31 in its opcode) -/
def bfOut (kind : String) (x : Bool) (a b : BitVec 64) : Option String :=
  let fin (opc : BitVec 32) (rn : BitVec 32) (r : Option (BitVec 32 × BitVec 32)) : String :=
    match r with
    | some (immr, imms) => "ok " ++ toHex (bfWord opc x immr imms rn 3#32).toNat
    | none => "err InvalidImmediate"
  match aliasOf kind, rawOf kind with
  | some al, _ =>
    let r := if al.isInsert then encodeBfi x a b else encodeBfx x a b
    some (fin (opcOf al.op) (if al == .bfc then 31#32 else 7#32) r)
  | none, some op => some (fin (opcOf op) 7#32 (encodeBfm x a b))
  | none, none => none

/-- monitor of `bf`: the property predicate on the word the real assembler emitted -/
def bfMon (kind : String) (x : Bool) (a b : BitVec 64) (ans : List String) : Option String :=
  let verdict (ok : Bool) (why : String) := some (if ok then "good" else "BAD " ++ why)
  let size : BitVec 64 := if x then 64#64 else 32#64
  match aliasOf kind, rawOf kind with
  | none, none => none
  | al?, op? =>
    let op : BfOp := match al? with | some al => al.op | none => op?.getD .bfm
    let encodable := match al? with
      | some _ => aliasEncodable x a b
      | none => a.ult size && b.ult size
    match ans with
    | ["err", "InvalidImmediate"] => verdict (!encodable) "refused-but-encodable"
    | ["ok", wd] => do
      let w ← bv32? wd
      let xb : BitVec 32 := if x then 1#32 else 0#32
      let immr := ((w >>> 16) &&& 0x3F#32).zeroExtend 64
      let imms := ((w >>> 10) &&& 0x3F#32).zeroExtend 64
      let rn : BitVec 32 := if al? == some .bfc then 31#32 else 7#32
      let shape := (w >>> 31) == xb && ((w >>> 22) &&& 1#32) == xb && (w &&& 0x7F800000#32) == opcOf op &&
                   (w &&& 31#32) == 3#32 && ((w >>> 5) &&& 31#32) == rn && immr.ult size && imms.ult size
      if !encodable then verdict false "accepted-but-not-encodable" else
      if !shape then verdict false "malformed-instruction" else
      match al? with
      | none => verdict (immr == a && imms == b) "wrong-fields"
      | some al =>
        let regs : List (BitVec 64 × BitVec 64) :=
          [(0xdeadbeefcafef00d#64, 0x0123456789abcdef#64), (0#64, 0xFFFFFFFFFFFFFFFF#64),
           (0xFFFFFFFFFFFFFFFF#64, 0x8000000080000001#64), (0x5555555555555555#64, 0xAAAAAAAAAAAAAAAA#64)]
        let sem := regs.all fun (d, sr) =>
          bfmExec op x immr imms d (if al == .bfc then 0#64 else sr) == aliasMeaning al x a b d sr
        verdict (aliasOperands al x immr imms == (a, b) && sem) "does-not-do-what-the-alias-means"
    | _ => verdict false "unexpected-answer"

/-- model answers for the AArch64 immediate ops -/
def stepA64 (ws : List String) : Option String :=
  match ws with
  | ["logimm", v, w] => do
    let v ← bv64? v; let w ← w.toNat?
    if w ≠ 32 ∧ w ≠ 64 then none else
    match encodeLogicalImm v w with
    | some e => some s!"ok {e.n.toNat} {e.s.toNat} {e.r.toNat}"
    | none => some "fail"
  | ["addsub", v] => do let v ← bv64? v; some (if isAddSubImm v then "1" else "0")
  | ["fp", b, v] => do
    let b ← fpBits b; let v ← bv64? v
    some (if isFp b v then s!"1 {(encFp b v).toNat}" else "0")
  | ["bytemask", v] => do
    let v ← bv64? v
    some (if isByteMaskImm v then s!"1 {(encodeByteMaskToImm8 v).toNat}" else "0")
  | ["movseq", imm, rd, x] => do
    let imm ← bv64? imm; let rd ← rd.toNat?; let x ← x.toNat?
    some ("seq " ++ hexWords (encodeMovSequence64 imm (BitVec.ofNat 32 rd) (BitVec.ofNat 32 x)))
  | ["direct", kind, off] => do
    let (f, opc) ← directKind kind; let off ← bv64? off
    match dispImmDirect f off with
    | some m => some ("ok " ++ toHex (opc ||| m).toNat)
    | none => some "err InvalidDisplacement"
  | ["bf", kind, x, a, b] => do
    let x ← x.toNat?; let a ← bv64? a; let b ← bv64? b
    bfOut kind (x == 1) a b
  | ["lmh", sz, idx] => do
    let sz ← sz.toNat?; let idx ← idx.toNat?
    match encodeLmh (BitVec.ofNat 32 sz) (BitVec.ofNat 32 idx) with
    | some (ok, lm, h, mx) => some s!"{if ok then 1 else 0} {lm.toNat} {h.toNat} {mx.toNat}"
    | none => some "fail"
  | _ => none

/-- monitors: the property predicate on the implementation's answer -/
def monA64 (t : Tables) (ws : List String) : Option String :=
  let verdict (b : Bool) (why : String) := some (if b then "good" else "BAD " ++ why)
  match ws with
  | "mon_logimm" :: v :: w :: ans => do
    let v ← bv64? v; let w ← w.toNat?
    let tbl := if w = 64 then t.log64 else t.log32
    let representable := tbl.binSearchContains v.toNat (· < ·)
    match ans with
    | ["fail"] => verdict (!representable) "refused-but-encodable"
    | ["ok", n, s, r] =>
      let n ← n.toNat?; let s ← s.toNat?; let r ← r.toNat?
      if n ≥ 2 ∨ s ≥ 64 ∨ r ≥ 64 ∨ (w = 32 ∧ n ≠ 0) then verdict false "field-overflow" else
      let ok := decodeBitMasksValid (n == 1) (BitVec.ofNat 6 s)
      let val := decodeBitMasksValue (n == 1) (BitVec.ofNat 6 s) (BitVec.ofNat 6 r)
      let val := if w = 32 then val &&& 0xFFFFFFFF#64 else val
      verdict (ok && val == v) "decodes-to-other-value"
    | _ => none
  | ["mon_addsub", v, ans] => do
    let v ← bv64? v
    let repr := v.toNat < 4096 || (v.toNat % 4096 == 0 && v.toNat / 4096 < 4096)
    verdict ((ans == "1") == repr) "addsub-verdict"
  | "mon_fp" :: b :: v :: ans => do
    let b ← fpBits b; let v ← bv64? v
    let repr := (List.range 256).any fun i => vfpExpandImm b (BitVec.ofNat 8 i) == v
    match ans with
    | ["0"] => verdict (!repr) "refused-but-encodable"
    | ["1", i] => do let i ← i.toNat?; verdict (i < 256 && vfpExpandImm b (BitVec.ofNat 8 i) == v) "wrong-imm8"
    | _ => none
  | "mon_bytemask" :: v :: ans => do
    let v ← bv64? v
    let repr := (List.range 8).all fun k => let b := (v.toNat >>> (8 * k)) % 256; b == 0 || b == 255
    match ans with
    | ["0"] => verdict (!repr) "refused-but-encodable"
    | ["1", i] => do let i ← i.toNat?; verdict (i < 256 && byteMaskExpand (BitVec.ofNat 8 i) == v) "wrong-imm8"
    | _ => none
  | "mon_direct" :: kind :: off :: ans => do
    let (f, opc) ← directKind kind; let off ← bv64? off
    match ans with
    | ["err", "InvalidDisplacement"] => verdict (!representable f off) "refused-but-representable"
    | ["ok", wd] => do
      let w ← bv32? wd
      verdict (decode32 f w == off && (w &&& ~~~ fieldMask32 f) == opc) "direct-word-wrong"
    | _ => verdict false "unexpected-answer"
  | "mon_bf" :: kind :: x :: a :: b :: ans => do
    let x ← x.toNat?; let a ← bv64? a; let b ← bv64? b
    bfMon kind (x == 1) a b ans
  | "mon_lmh" :: sz :: idx :: ans => do
    let sz ← sz.toNat?; let idx ← idx.toNat?
    if sz ≠ 1 ∧ sz ≠ 2 then verdict (ans == ["fail"]) "size-without-element-form-accepted" else
    match ans with
    | [ok, lm, h, mx] => do
      let lm ← lm.toNat?; let h ← h.toNat?; let mx ← mx.toNat?
      let exists_ := idx < (if sz = 1 then 8 else 4)
      let lmB := BitVec.ofNat 32 lm
      let back := lmhIndex (BitVec.ofNat 32 sz) (lmB >>> 1) (lmB &&& 1#32) (BitVec.ofNat 32 h)
      verdict ((ok == "1") == exists_ && mx == (if sz = 1 then 15 else 31) &&
               (!exists_ || (back.toNat == idx && lm < 4 && h < 2 && (sz = 1 || lm % 2 == 0)))) "lmh-wrong"
    | _ => verdict false "unexpected-answer"
  | "mon_movseq" :: imm :: rd :: x :: "seq" :: wordsHex => do
    let imm ← bv64? imm; let rd ← rd.toNat?; let _x ← x.toNat?
    let ws ← wordsHex.mapM bv32?
    -- from two different initial register contents: the result may not depend on the old value
    let r1 := execMovSeq (BitVec.ofNat 32 rd) 0xdeadbeefcafef00d#64 ws
    let r2 := execMovSeq (BitVec.ofNat 32 rd) 0x0123456789abcdef#64 ws
    verdict (ws.length ≥ 1 && ws.length ≤ 4 && r1.1 && r1.2 == imm && r2.2 == imm) "sequence-does-not-load-the-value"
  | _ => none

def step (t : Tables) (line : String) : Tables × String :=
  let ws := words line
  match stepA64 ws with
  | some o => (t, o)
  | none =>
  match monA64 t ws with
  | some o => (t, o)
  | none =>
  match ws with
  | "enc" :: rest =>
    match parseFmt rest with
    | some (f, [off]) =>
      match parseHex? off with
      | some o => (t, encOut f (BitVec.ofNat 64 o))
      | none => (t, "bad-op")
    | _ => (t, "bad-op")
  | "write" :: rest =>
    match parseFmt rest with
    | some (f, [off, pos, buf]) =>
      match parseHex? off, pos.toNat?, hexToBytes? buf with
      | some o, some p, some b =>
        match writeOffset b p (BitVec.ofNat 64 o) f with
        | some b' => (t, "ok " ++ bytesToHex b')
        | none => (t, "fail")
      | _, _, _ => (t, "bad-op")
    | _ => (t, "bad-op")
  | "mon" :: rest =>
    -- mon <fmt> <off hex> (ok <mask hex> | fail): the property predicate on the implementation's answer
    match parseFmt rest with
    | some (f, off :: ans) =>
      match parseHex? off, ans with
      | some o, ["fail"] => (t, if monitor f (BitVec.ofNat 64 o) none then "good" else "BAD refused-but-representable")
      | some o, ["ok", m] =>
        match parseHex? m with
        | some m => (t, if monitor f (BitVec.ofNat 64 o) (some (BitVec.ofNat 64 m)) then "good" else "BAD wrong-field")
        | none => (t, "bad-op")
      | _, _ => (t, "bad-op")
    | _ => (t, "bad-op")
  | "range" :: rest =>
    -- range <fmt> <lo hex> <count> <step hex>: FNV of all results of enc on lo, lo+step, ...
    match parseFmt rest with
    | some (f, [lo, cnt, st]) =>
      match parseHex? lo, cnt.toNat?, parseHex? st with
      | some lo, some cnt, some st =>
        let h := (List.range cnt).foldl (fun h i => fnvStr h (encOut f (BitVec.ofNat 64 (lo + i * st)))) fnvInit
        (t, "hash " ++ toHex h.toNat)
      | _, _, _ => (t, "bad-op")
    | _ => (t, "bad-op")
  | _ => (t, "bad-op")

def main : IO Unit := do
  lineLoop (← IO.getStdin) (← IO.getStdout) mkTables step

end Driver.C17
