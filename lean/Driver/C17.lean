import AsmjitVerif.Model.Offset
import AsmjitVerif.Spec.Offset
import AsmjitVerif.Spec.A64Imm
import Driver.Common
open AsmjitVerif.Offset
open AsmjitVerif.A64Imm
namespace Driver.C17

def parseFmt : List String → Option (OffsetFormat × List String)
  | t :: vs :: vo :: bc :: bs :: dl :: rest => do
    let t ← t.toNat? >>= OffsetType.ofCode
    some ({ type := t, valueSize := ← vs.toNat?, valueOffset := ← vo.toNat?, bitCount := ← bc.toNat?,
            bitShift := ← bs.toNat?, discard := ← dl.toNat? }, rest)
  | _ => none

def encOut (f : OffsetFormat) (off : BitVec 64) : String :=
  if f.valueSize = 8 then
    match encodeOffset64 f off with
    | some m => "ok " ++ toHex m.toNat
    | none => "fail"
  else
    match encodeOffset32 f off with
    | some m => "ok " ++ toHex m.toNat
    | none => "fail"

/-- all values `DecodeBitMasks` can produce (64-bit ops), resp. their low halves for N = 0 (32-bit ops) -/
def allLogical64 : List (BitVec 64) := Id.run do
  let mut out := []
  for n in [false, true] do
    for s in List.range 64 do
      if decodeBitMasksValid n (BitVec.ofNat 6 s) then
        for r in List.range 64 do
          out := decodeBitMasksValue n (BitVec.ofNat 6 s) (BitVec.ofNat 6 r) :: out
  return out
def allLogical32 : List (BitVec 64) := Id.run do
  let mut out := []
  for s in List.range 64 do
    if decodeBitMasksValid false (BitVec.ofNat 6 s) then
      for r in List.range 64 do
        out := (decodeBitMasksValue false (BitVec.ofNat 6 s) (BitVec.ofNat 6 r) &&& 0xFFFFFFFF#64) :: out
  return out

structure Tables where
  log64 : Array Nat
  log32 : Array Nat

def mkTables : Tables :=
  { log64 := (allLogical64.map (·.toNat)).toArray.qsort (· < ·),
    log32 := (allLogical32.map (·.toNat)).toArray.qsort (· < ·) }

def hexWords (ws : List (BitVec 32)) : String := " ".intercalate (ws.map fun w => toHex w.toNat)

def bv64? (s : String) : Option (BitVec 64) := (parseHex? s).map (BitVec.ofNat 64)
def bv32? (s : String) : Option (BitVec 32) := (parseHex? s).map (BitVec.ofNat 32)

def fpBits (b : String) : Option Nat := match b with | "16" => some 16 | "32" => some 32 | "64" => some 64 | _ => none
def isFp (bits : Nat) (v : BitVec 64) : Bool := if bits = 16 then isFp16Imm8 v else if bits = 32 then isFp32Imm8 v else isFp64Imm8 v
def encFp (bits : Nat) (v : BitVec 64) : BitVec 32 :=
  if bits = 16 then encodeFp16ToImm8 v else if bits = 32 then encodeFp32ToImm8 v else encodeFp64ToImm8 v

/-- model answers for the AArch64 immediate ops -/
def stepA64 (ws : List String) : Option String :=
  match ws with
  | ["logimm", v, w] => do
    let v ← bv64? v; let w ← w.toNat?
    if w ≠ 32 ∧ w ≠ 64 then none else
    match encodeLogicalImm v w with
    | some e => some s!"ok {e.n.toNat} {e.s.toNat} {e.r.toNat}"
    | none => some "fail"
  | ["addsub", v] => do let v ← bv64? v; some (if isAddSubImm v then "1" else "0")
  | ["fp", b, v] => do
    let b ← fpBits b; let v ← bv64? v
    some (if isFp b v then s!"1 {(encFp b v).toNat}" else "0")
  | ["bytemask", v] => do
    let v ← bv64? v
    some (if isByteMaskImm v then s!"1 {(encodeByteMaskToImm8 v).toNat}" else "0")
  | ["movseq", imm, rd, x] => do
    let imm ← bv64? imm; let rd ← rd.toNat?; let x ← x.toNat?
    some ("seq " ++ hexWords (encodeMovSequence64 imm (BitVec.ofNat 32 rd) (BitVec.ofNat 32 x)))
  | ["lmh", sz, idx] => do
    let sz ← sz.toNat?; let idx ← idx.toNat?
    match encodeLmh (BitVec.ofNat 32 sz) (BitVec.ofNat 32 idx) with
    | some (ok, lm, h, mx) => some s!"{if ok then 1 else 0} {lm.toNat} {h.toNat} {mx.toNat}"
    | none => some "fail"
  | _ => none

/-- monitors: the property predicate on the implementation's answer -/
def monA64 (t : Tables) (ws : List String) : Option String :=
  let verdict (b : Bool) (why : String) := some (if b then "good" else "BAD " ++ why)
  match ws with
  | "mon_logimm" :: v :: w :: ans => do
    let v ← bv64? v; let w ← w.toNat?
    let tbl := if w = 64 then t.log64 else t.log32
    let representable := tbl.binSearchContains v.toNat (· < ·)
    match ans with
    | ["fail"] => verdict (!representable) "refused-but-encodable"
    | ["ok", n, s, r] =>
      let n ← n.toNat?; let s ← s.toNat?; let r ← r.toNat?
      if n ≥ 2 ∨ s ≥ 64 ∨ r ≥ 64 ∨ (w = 32 ∧ n ≠ 0) then verdict false "field-overflow" else
      let ok := decodeBitMasksValid (n == 1) (BitVec.ofNat 6 s)
      let val := decodeBitMasksValue (n == 1) (BitVec.ofNat 6 s) (BitVec.ofNat 6 r)
      let val := if w = 32 then val &&& 0xFFFFFFFF#64 else val
      verdict (ok && val == v) "decodes-to-other-value"
    | _ => none
  | ["mon_addsub", v, ans] => do
    let v ← bv64? v
    let repr := v.toNat < 4096 || (v.toNat % 4096 == 0 && v.toNat / 4096 < 4096)
    verdict ((ans == "1") == repr) "addsub-verdict"
  | "mon_fp" :: b :: v :: ans => do
    let b ← fpBits b; let v ← bv64? v
    let repr := (List.range 256).any fun i => vfpExpandImm b (BitVec.ofNat 8 i) == v
    match ans with
    | ["0"] => verdict (!repr) "refused-but-encodable"
    | ["1", i] => do let i ← i.toNat?; verdict (i < 256 && vfpExpandImm b (BitVec.ofNat 8 i) == v) "wrong-imm8"
    | _ => none
  | "mon_bytemask" :: v :: ans => do
    let v ← bv64? v
    let repr := (List.range 8).all fun k => let b := (v.toNat >>> (8 * k)) % 256; b == 0 || b == 255
    match ans with
    | ["0"] => verdict (!repr) "refused-but-encodable"
    | ["1", i] => do let i ← i.toNat?; verdict (i < 256 && byteMaskExpand (BitVec.ofNat 8 i) == v) "wrong-imm8"
    | _ => none
  | "mon_movseq" :: imm :: rd :: x :: "seq" :: wordsHex => do
    let imm ← bv64? imm; let rd ← rd.toNat?; let _x ← x.toNat?
    let ws ← wordsHex.mapM bv32?
    -- from two different initial register contents: the result may not depend on the old value
    let r1 := execMovSeq (BitVec.ofNat 32 rd) 0xdeadbeefcafef00d#64 ws
    let r2 := execMovSeq (BitVec.ofNat 32 rd) 0x0123456789abcdef#64 ws
    verdict (ws.length ≥ 1 && ws.length ≤ 4 && r1.1 && r1.2 == imm && r2.2 == imm) "sequence-does-not-load-the-value"
  | _ => none

def step (t : Tables) (line : String) : Tables × String :=
  let ws := words line
  match stepA64 ws with
  | some o => (t, o)
  | none =>
  match monA64 t ws with
  | some o => (t, o)
  | none =>
  match ws with
  | "enc" :: rest =>
    match parseFmt rest with
    | some (f, [off]) =>
      match parseHex? off with
      | some o => (t, encOut f (BitVec.ofNat 64 o))
      | none => (t, "bad-op")
    | _ => (t, "bad-op")
  | "write" :: rest =>
    match parseFmt rest with
    | some (f, [off, pos, buf]) =>
      match parseHex? off, pos.toNat?, hexToBytes? buf with
      | some o, some p, some b =>
        match writeOffset b p (BitVec.ofNat 64 o) f with
        | some b' => (t, "ok " ++ bytesToHex b')
        | none => (t, "fail")
      | _, _, _ => (t, "bad-op")
    | _ => (t, "bad-op")
  | "mon" :: rest =>
    -- mon <fmt> <off hex> (ok <mask hex> | fail): the property predicate on the implementation's answer
    match parseFmt rest with
    | some (f, off :: ans) =>
      match parseHex? off, ans with
      | some o, ["fail"] => (t, if monitor f (BitVec.ofNat 64 o) none then "good" else "BAD refused-but-representable")
      | some o, ["ok", m] =>
        match parseHex? m with
        | some m => (t, if monitor f (BitVec.ofNat 64 o) (some (BitVec.ofNat 64 m)) then "good" else "BAD wrong-field")
        | none => (t, "bad-op")
      | _, _ => (t, "bad-op")
    | _ => (t, "bad-op")
  | "range" :: rest =>
    -- range <fmt> <lo hex> <count> <step hex>: FNV of all results of enc on lo, lo+step, ...
    match parseFmt rest with
    | some (f, [lo, cnt, st]) =>
      match parseHex? lo, cnt.toNat?, parseHex? st with
      | some lo, some cnt, some st =>
        let h := (List.range cnt).foldl (fun h i => fnvStr h (encOut f (BitVec.ofNat 64 (lo + i * st)))) fnvInit
        (t, "hash " ++ toHex h.toNat)
      | _, _, _ => (t, "bad-op")
    | _ => (t, "bad-op")
  | _ => (t, "bad-op")

def main : IO Unit := do
  lineLoop (← IO.getStdin) (← IO.getStdout) mkTables step

end Driver.C17
