import AsmjitVerif.Model.Offset
import AsmjitVerif.Spec.Offset
import Driver.Common
open AsmjitVerif.Offset
namespace Driver.C17

def parseFmt : List String → Option (OffsetFormat × List String)
  | t :: vs :: vo :: bc :: bs :: dl :: rest => do
    let t ← t.toNat? >>= OffsetType.ofCode
    some ({ type := t, valueSize := ← vs.toNat?, valueOffset := ← vo.toNat?, bitCount := ← bc.toNat?,
            bitShift := ← bs.toNat?, discard := ← dl.toNat? }, rest)
  | _ => none

def encOut (f : OffsetFormat) (off : BitVec 64) : String :=
  if f.valueSize = 8 then
    match encodeOffset64 f off with
    | some m => "ok " ++ toHex m.toNat
    | none => "fail"
  else
    match encodeOffset32 f off with
    | some m => "ok " ++ toHex m.toNat
    | none => "fail"

def step (_ : Unit) (line : String) : Unit × String :=
  match words line with
  | "enc" :: rest =>
    match parseFmt rest with
    | some (f, [off]) =>
      match parseHex? off with
      | some o => ((), encOut f (BitVec.ofNat 64 o))
      | none => ((), "bad-op")
    | _ => ((), "bad-op")
  | "write" :: rest =>
    match parseFmt rest with
    | some (f, [off, pos, buf]) =>
      match parseHex? off, pos.toNat?, hexToBytes? buf with
      | some o, some p, some b =>
        match writeOffset b p (BitVec.ofNat 64 o) f with
        | some b' => ((), "ok " ++ bytesToHex b')
        | none => ((), "fail")
      | _, _, _ => ((), "bad-op")
    | _ => ((), "bad-op")
  | "mon" :: rest =>
    -- mon <fmt> <off hex> (ok <mask hex> | fail): the property predicate on the implementation's answer
    match parseFmt rest with
    | some (f, off :: ans) =>
      match parseHex? off, ans with
      | some o, ["fail"] => ((), if monitor f (BitVec.ofNat 64 o) none then "good" else "BAD refused-but-representable")
      | some o, ["ok", m] =>
        match parseHex? m with
        | some m => ((), if monitor f (BitVec.ofNat 64 o) (some (BitVec.ofNat 64 m)) then "good" else "BAD wrong-field")
        | none => ((), "bad-op")
      | _, _ => ((), "bad-op")
    | _ => ((), "bad-op")
  | "range" :: rest =>
    -- range <fmt> <lo hex> <count> <step hex>: FNV of all results of enc on lo, lo+step, ...
    match parseFmt rest with
    | some (f, [lo, cnt, st]) =>
      match parseHex? lo, cnt.toNat?, parseHex? st with
      | some lo, some cnt, some st =>
        let h := (List.range cnt).foldl (fun h i => fnvStr h (encOut f (BitVec.ofNat 64 (lo + i * st)))) fnvInit
        ((), "hash " ++ toHex h.toNat)
      | _, _, _ => ((), "bad-op")
    | _ => ((), "bad-op")
  | _ => ((), "bad-op")

def main : IO Unit := do
  lineLoop (← IO.getStdin) (← IO.getStdout) () step

end Driver.C17
