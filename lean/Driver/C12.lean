import AsmjitVerif.Spec.RWCover
import AsmjitVerif.Model.X86RW
import AsmjitVerif.Gen.X86Sig
import Driver.Common
open Spec.RWCover
namespace Driver.C12

/-! Line protocol of C12 (model side / monitor side).

`mon <mode64> <n> {kind gp size read write lo width rwidth follower runLen rmChecked memAlt}*n <dbFlagsR> <dbFlagsW> <featChecked> <dbExt> <featImplies a,b,a,b…>
     <m> {flags physId rmSize clc rmask wmask emask}*m <implFlagsR> <implFlagsW> <implFeat> <destRule>`      → `good` | `BAD <clause>`
(lists are comma separated, `-` = empty; masks and flags in hex)

`tbl …` lines load the generated tables into the model state, `x …` lines are answered by the model of
`query_rw_info`/`query_features` (see `Model/X86RW.lean`). -/

def natList? (s : String) : Option (List Nat) :=
  if s == "-" then some [] else (s.splitOn ",").mapM (·.toNat?)

def bool? (s : String) : Option Bool := match s with | "0" => some false | "1" => some true | _ => none

def parseDbOps : Nat → List String → Option (List DbOp × List String)
  | 0, rest => some ([], rest)
  | n + 1, k :: gp :: sz :: rd :: wr :: lo :: wd :: rwd :: fo :: rl :: rc :: ma :: rest => do
    let d : DbOp := { kind := ← k.toNat?, gp := ← bool? gp, size := ← sz.toNat?, read := ← bool? rd, write := ← bool? wr,
                      lo := ← lo.toNat?, width := ← wd.toNat?, rwidth := ← rwd.toNat?, follower := ← fo.toNat?, runLen := ← rl.toNat?,
                      rmChecked := ← bool? rc, memAlt := ← natList? ma }
    let (ds, rest') ← parseDbOps n rest
    some (d :: ds, rest')
  | _, _ => none

def parseImplOps : Nat → List String → Option (List ImplOp × List String)
  | 0, rest => some ([], rest)
  | n + 1, fl :: ph :: rms :: clc :: rm :: wm :: em :: rest => do
    let i : ImplOp := { flags := ← parseHex? fl, physId := ← ph.toNat?, rmSize := ← rms.toNat?, clc := ← clc.toNat?,
                        rmask := ← parseHex? rm, wmask := ← parseHex? wm, emask := ← parseHex? em }
    let (is, rest') ← parseImplOps n rest
    some (i :: is, rest')
  | _, _ => none

def parseRow (ws : List String) : Option Row := do
  match ws with
  | m64 :: n :: rest =>
    let (dbOps, rest) ← parseDbOps (← n.toNat?) rest
    match rest with
    | fr :: fw :: fc :: ext :: imp :: m :: rest =>
      let impl ← natList? imp
      let rec pairs : List Nat → List (Nat × Nat)
        | a :: b :: t => (a, b) :: pairs t
        | _ => []
      let (implOps, rest) ← parseImplOps (← m.toNat?) rest
      match rest with
      | [ir, iw, feat, rule] =>
        some { mode64 := ← bool? m64, dbOps := dbOps, dbFlagsR := ← parseHex? fr, dbFlagsW := ← parseHex? fw,
               featChecked := ← bool? fc, dbExt := ← natList? ext, featImplies := pairs impl, implOps := implOps, implFlagsR := ← parseHex? ir,
               implFlagsW := ← parseHex? iw, implFeat := ← natList? feat, destRule := ← rule.toNat? }
      | _ => none
    | _ => none
  | _ => none

def monitor (ws : List String) : String :=
  match parseRow ws with
  | none => "bad-line"
  | some r => if rowOk r then "good" else "BAD " ++ rowWhy r

open Model.X86RW in
def step (t : Tables) (line : String) : Tables × String :=
  match words line with
  | "mon" :: rest => (t, monitor rest)
  | "tbl" :: rest => (loadLine t rest, "")
  | "x" :: rest => (t, queryLine t rest)
  | _ => (t, "bad-line")

def main : IO Unit := do
  let stdin ← IO.getStdin
  let stdout ← IO.getStdout
  lineLoop stdin stdout { Model.X86RW.Tables.empty with sig := AsmjitVerif.Gen.X86Sig.tables } step

end Driver.C12
