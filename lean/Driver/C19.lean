import AsmjitVerif.Model.ConstPool
import AsmjitVerif.Spec.ConstPool
import AsmjitVerif.Model.ConstPoolEmit
import Driver.Common
open AsmjitVerif.ConstPool
namespace Driver.C19

/-
Line protocol (same lines for harness/c19.cpp):
  new | reset                     -> ok
  add <hex|->                     -> ok <off> <size> <align> <min> | err InvalidArgument <size> <align> <min>
  fill                            -> img <size> <align> <hex|->
  dump                            -> st size=.. align=.. min=.. g0=[off:size,..] .. g6=[..] t0=[hex@off(s|n),..] .. t6=[..]
  embed <x86|a64> <asm|bld> <hex|-> -> emb <label offset> <size> <align> <section hex>
Monitor mode (the Lean predicate of the property over the implementation's answers; ghost history kept here):
  m-new | m-reset                 -> good
  m-add <hex|-> <answer words>    -> good | BAD <which clause>
  m-fill <answer words>           -> good | BAD ..
  m-embed <arch> <kind> <hex|-> <answer words> -> good | BAD ..
-/

structure St where
  pool : Pool
  mon : Spec.Mon

def hexOrDash (b : Bytes) : String := if b.isEmpty then "-" else bytesToHex b

def tail3 (s : Pool) : String := s!"{s.size} {s.alignment} {s.minItemSize}"

def dumpGaps (l : List Gap) : String := ",".intercalate (l.map fun g => s!"{g.offset}:{g.size}")
def dumpTree (l : List Node) : String :=
  ",".intercalate (l.map fun n => s!"{bytesToHex n.data}@{n.offset}" ++ (if n.shared then "s" else "n"))

def dump (s : Pool) : String :=
  s!"st size={s.size} align={s.alignment} min={s.minItemSize}"
  ++ String.join ((List.range 7).map fun i => s!" g{i}=[{dumpGaps (getAt s.gaps i)}]")
  ++ String.join ((List.range 7).map fun i => s!" t{i}=[{dumpTree (getAt s.tree i)}]")

def padOf : String → Option (BitVec 8)
  | "x86" => some 0xCC#8
  | "a64" => some 0x00#8
  | _ => none

/-- which clause of `Spec.Mon.step` rejects an accepted add (for the BAD message) -/
def addReason (m : Spec.Mon) (data : Bytes) (off size align : Nat) : String :=
  if off % data.length != 0 then "add-misaligned"
  else if !(decide (off + data.length ≤ size)) then "add-beyond-reported-size"
  else if !(Spec.alignCovers align data.length) then "alignment-does-not-cover"
  else if !(decide (m.size ≤ size)) || !(decide (m.align ≤ align)) then "pool-shrank"
  else if m.hist.any (fun e => e.data == data && e.offset != off) then "not-deduplicated-or-unstable"
  else "overlaps-earlier-constant"

def imageReason (hist : List Spec.Entry) (size _align : Nat) (img : Bytes) : String :=
  if img.length != size then "image-length"
  else if !(hist.all fun e => Spec.slice img e.offset e.data.length == e.data) then "image-content"
  else if !((List.range size).all fun p => hist.any (Spec.covers · p) || img[p]? == some 0#8) then "gap-not-zero"
  else "alignment-does-not-cover"

/-- epilog the backend emits for `void f()` without frame (the only functions the harness creates) -/
def epilogOf : String → Option Bytes
  | "x86" => some [0xC3#8]
  | "a64" => some [0xC0#8, 0x03#8, 0x5F#8, 0xD6#8]
  | _ => none

def poolTail (c : Comp) (sc : Scope) : String :=
  match (match sc with | .loc => c.loc | .glob => c.glob) with
  | some cp => s!"{cp.pool.size} {cp.pool.alignment} {cp.pool.minItemSize}"
  | none => "0 0 0"

/-- `cc <arch> item...` on the model: answers, pool placement, section bytes -/
def ccLine (arch : String) (items : List String) : String :=
  match padOf arch, epilogOf arch with
  | some pad, some epi =>
    let rec go (c : Comp) (pools : List CPool) (acc : List String) : List String → Option (Comp × List String)
      | [] => some (c, acc.reverse)
      | it :: rest =>
        if it == "F" then let (c', _) := addFunc c []; go c' pools ("ok" :: acc) rest
        else if it == "E" then
          let (c', ok) := endFunc c epi
          go c' pools ((if ok then "ok" else "err InvalidState") :: acc) rest
        else
          match it.toList with
          | k :: ':' :: h =>
            match hexToBytes? (String.ofList h) with
            | none => none
            | some d =>
              if k == 'd' then go (emitCode c d) pools ("ok" :: acc) rest
              else if k == 'l' || k == 'g' then
                let sc := if k == 'g' then Scope.glob else Scope.loc
                let (c', a) := newConst c sc d
                let t := poolTail c' sc
                let ans := match a with
                  | .mem l disp => s!"ok p{l} {disp} {t}"
                  | .invalidArgument l => s!"err InvalidArgument p{l} {t}"
                go c' pools (ans :: acc) rest
              else none
          | _ => none
    match go Comp.init [] [] items with
    | none => "bad-op"
    | some (c, answers) =>
      let nodes := finalizeNodes c epi
      let sect := layout pad c.nextLabel nodes
      -- every pool node ever created, by label: those in the node list, plus pending ones
      let placed := nodes.filterMap fun | .pool cp => some cp | _ => none
      let pending := (match c.loc with | some cp => [cp] | none => [])
      let all := placed ++ pending
      let descr := (List.range c.nextLabel).map fun l =>
        match all.find? (fun cp => cp.label == l) with
        | some cp =>
          let o := match sect.offsetOf l with | some o => toString o | none => "unbound"
          s!"p{l} {o} {cp.pool.size} {cp.pool.alignment}"
        | none => s!"p{l} ?"
      "cc" ++ (if answers.isEmpty then "" else " " ++ " | ".intercalate answers) ++ " ||"
        ++ (if descr.isEmpty then "" else " " ++ " | ".intercalate descr) ++ " || " ++ hexOrDash sect.buf
  | _, _ => "bad-op"

def errName : EmbedError → String
  | .invalidLabel => "InvalidLabel"
  | .labelAlreadyBound => "LabelAlreadyBound"

/-- `es <arch> <asm|bld> item...`: items `n` (new label), `d:<hex>`, `b<k>` (bind label k), `p<k>` (embed the pool at label k) -/
def esLine (pool : Pool) (arch : String) (items : List String) : String :=
  match padOf arch with
  | none => "bad-op"
  | some pad =>
    let rec go (s : Sect) (acc : List String) : List String → Option (Sect × List String)
      | [] => some (s, acc.reverse)
      | it :: rest =>
        if it == "n" then go (newLabel s) ("ok" :: acc) rest
        else match it.toList with
          | 'd' :: ':' :: h =>
            match hexToBytes? (String.ofList h) with
            | some d => go (emitBytes s d) ("ok" :: acc) rest
            | none => none
          | 'b' :: k =>
            match (String.ofList k).toNat? with
            | some k => match bindLabel s k with
              | .ok s' => go s' ("ok" :: acc) rest
              | .error e => go s (("err " ++ errName e) :: acc) rest
            | none => none
          | 'p' :: k =>
            match (String.ofList k).toNat? with
            | some k => match embedPool pad s k pool with
              | .ok s' => go s' ("ok" :: acc) rest
              | .error e => go s (("err " ++ errName e) :: acc) rest
            | none => none
          | _ => none
    match go (Sect.empty 0) [] items with
    | none => "bad-op"
    | some (s, answers) =>
      let labs := (List.range s.nlabels).map fun l =>
        match s.offsetOf l with | some o => s!"L{l}={o}" | none => s!"L{l}=unbound"
      "es" ++ (if answers.isEmpty then "" else " " ++ " | ".intercalate answers) ++ " ||"
        ++ (if labs.isEmpty then "" else " " ++ " ".intercalate labs) ++ s!" || {pool.size} {pool.alignment} " ++ hexOrDash s.buf

def parse3 : List String → Option (Nat × Nat × Nat)
  | [a, b, c] => do some (← a.toNat?, ← b.toNat?, ← c.toNat?)
  | _ => none

def monStep (st : St) (o : Spec.Obs) (reason : Unit → String) : St × String :=
  let (ok, m') := st.mon.step o
  ({ st with mon := m' }, if ok then "good" else "BAD " ++ reason ())

def step (st : St) (line : String) : St × String :=
  match words line with
  | ["new"] | ["reset"] => ({ pool := Pool.init, mon := Spec.Mon.init }, "ok")
  | ["add", h] =>
    match hexToBytes? h with
    | some d =>
      let (p, r) := add st.pool d
      ({ st with pool := p }, match r with
        | .ok off => s!"ok {off} {tail3 p}"
        | .invalidArgument => s!"err InvalidArgument {tail3 p}")
    | none => (st, "bad-op")
  | ["fill"] => (st, s!"img {st.pool.size} {st.pool.alignment} {hexOrDash (fill st.pool)}")
  | ["dump"] => (st, dump st.pool)
  | ["embed", arch, _, h] =>
    match padOf arch, hexToBytes? h with
    | some pad, some pre =>
      let (l, sec) := embed pad pre st.pool
      (st, s!"emb {l} {st.pool.size} {st.pool.alignment} {hexOrDash sec}")
    | _, _ => (st, "bad-op")
  | "cc" :: arch :: items => (st, ccLine arch items)
  | "es" :: arch :: _ :: items => (st, esLine st.pool arch items)
  -- monitor mode
  | ["m-new"] | ["m-reset"] => monStep st .reset fun _ => ""
  | "m-add" :: h :: ans =>
    match hexToBytes? h, ans with
    | some d, ["ok", off, a, b, _] =>
      match off.toNat?, a.toNat?, b.toNat? with
      | some off, some size, some align =>
        monStep st (.add d (.ok off) size align) fun _ =>
          if Spec.validSize d.length then addReason st.mon d off size align else "invalid-size-accepted"
      | _, _, _ => (st, "bad-op")
    | some d, ["err", "InvalidArgument", a, b, _] =>
      match a.toNat?, b.toNat? with
      | some size, some align =>
        monStep st (.add d .invalidArgument size align) fun _ =>
          if Spec.validSize d.length then "valid-size-refused" else "refused-add-changed-state"
      | _, _ => (st, "bad-op")
    | some d, _ => monStep st (.add d .invalidArgument 0 0) fun _ => "unexpected-answer"
    | none, _ => (st, "bad-op")
  | ["m-fill", "img", a, b, h] =>
    match a.toNat?, b.toNat?, hexToBytes? h with
    | some size, some align, some img =>
      monStep st (.fill img size align) fun _ =>
        if size != st.mon.size || align != st.mon.align then "size-or-alignment-changed"
        else imageReason st.mon.hist size align img
    | _, _, _ => (st, "bad-op")
  | ["m-embed", _, _, h, "emb", l, a, b, sh] =>
    match hexToBytes? h, l.toNat?, a.toNat?, b.toNat?, hexToBytes? sh with
    | some pre, some l, some size, some align, some sec =>
      monStep st (.embed pre l sec size align) fun _ =>
        if size != st.mon.size || align != st.mon.align then "size-or-alignment-changed"
        else if !(decide (pre.length ≤ l)) || l % (max align 1) != 0 then "embed-label-misaligned"
        else if sec.take pre.length != pre then "embed-clobbered-prefix"
        else "embed-" ++ imageReason st.mon.hist size align (sec.drop l)
    | _, _, _, _, _ => (st, "bad-op")
  | "m-fill" :: _ | "m-embed" :: _ => ({ st with mon := st.mon }, "BAD unexpected-answer")
  | _ => (st, "bad-op")

def main : IO Unit := do
  lineLoop (← IO.getStdin) (← IO.getStdout) { pool := Pool.init, mon := Spec.Mon.init } step

end Driver.C19
